"""Generators of valid Lattice configurations and kernels (shared by C01, C08, C09, C10, C12)."""
import itertools
import numpy as np
import tfimpl


def gen_cfg(rng, max_vertices=72, allow_other=True, trust_bias=0.7, force_mono=True):
  rank = rng.choice([1, 2, 2, 3, 3, 3, 4])
  # lattice size 5 occasionally (about one configuration in eight draws from the wider pool)
  pool = [2, 2, 3, 3, 4, 5, 5] if rng.random() < 0.12 else [2, 2, 3, 3, 4]
  while True:
    sizes = [rng.choice(pool) for _ in range(rank)]
    if int(np.prod(sizes)) <= max_vertices:
      break
  units = rng.choice([1, 1, 2, 3])
  monos = [rng.choice([0, 1, 1]) for _ in range(rank)]
  if force_mono and not any(monos) and rng.random() < 0.9:
    monos[rng.randrange(rank)] = 1
  mono_dims = [d for d in range(rank) if monos[d]]
  edge, trap = [], []
  if mono_dims and rank >= 2 and rng.random() < trust_bias:
    # mains: a subset of monotone dims; conds: dims that are not mains
    k = rng.randint(1, min(2, len(mono_dims)))
    mains = rng.sample(mono_dims, k)
    conds = [d for d in range(rank) if d not in mains]
    if conds:
      direction = {}
      def pick():
        m, c = rng.choice(mains), rng.choice(conds)
        d = direction.setdefault((m, c), rng.choice([-1, 1]))
        return [m, c, d]
      mode = rng.choice(["edge", "trap", "both", "both", "match"])
      if mode in ("edge", "both"):
        edge = [pick() for _ in range(rng.randint(1, 2))]
      if mode in ("trap", "both"):
        trap = [pick() for _ in range(rng.randint(1, 2))]
      if mode == "match":
        t = pick()
        edge, trap = [t], [list(t)]
        if rng.random() < 0.3:
          edge.append(pick())
  uni = [0] * rank
  mdom, rdom, jmono, juni = [], [], [], []
  if allow_other and rng.random() < 0.4:
    for d in range(rank):
      if not monos[d] and sizes[d] >= 3 and rng.random() < 0.5:
        uni[d] = rng.choice([-1, 1])
    if len(mono_dims) >= 2 and rng.random() < 0.4:
      a, b = rng.sample(mono_dims, 2)
      (mdom if rng.random() < 0.5 else rdom).append([a, b])
    if rank >= 2 and rng.random() < 0.3:
      a, b = rng.sample(range(rank), 2)
      jmono.append([a, b])
    cand = [d for d in range(rank) if not monos[d] and not uni[d] and sizes[d] >= 3]
    if cand and rng.random() < 0.3:
      k = rng.randint(1, min(2, len(cand)))
      juni.append([rng.sample(cand, k), rng.choice(["valley", "peak"])])
      rest = [d for d in cand if d not in juni[0][0]]
      if len(rest) >= k and rng.random() < 0.5:   # second group of the same arity on other dimensions
        juni.append([rng.sample(rest, k), rng.choice(["valley", "peak"])])
  duplicate_pair(rng, mdom, rdom, jmono)
  omin, omax = gen_bounds(rng)
  return dict(sizes=sizes, units=units, monos=monos, edge=edge, trap=trap, uni=uni, mdom=mdom, rdom=rdom,
              jmono=jmono, juni=juni, omin=omin, omax=omax)


def duplicate_pair(rng, mdom, rdom, jmono, p=0.15):
  """With probability p repeats one monotonic-dominance / range-dominance / joint-monotonicity pair (the same
  direction; the code accepts that). project_by_dykstra keys its last_change dictionary by the constraint, so the
  two occurrences share one entry."""
  lists = [l for l in (mdom, rdom, jmono) if l]
  if lists and rng.random() < p:
    l = rng.choice(lists)
    l.insert(rng.randint(0, len(l)), list(rng.choice(l)))


def gen_bounds(rng):
  bmode = rng.choice(["none", "min", "max", "both", "both"])
  a = tfimpl.dy(rng, -4, 4)
  omin = a if bmode in ("min", "both") else None
  omax = a + rng.choice([0.5, 1.0, 4.0]) if bmode in ("max", "both") else None
  return tfimpl.zero_bound(rng, omin, omax)


def gen_cfg_nomono(rng, max_vertices=72):
  """No monotone dimension, but at least one of unimodalities / joint monotonicities / joint unimodalities: the strict
  LatticeConstraints then enters the Dykstra block while finalize_constraints returns its result unchanged (no trusts,
  no dominances are possible without a monotone dimension)."""
  while True:
    rank = rng.choice([1, 2, 2, 3, 3, 4])
    sizes = [rng.choice([2, 3, 3, 4, 5]) for _ in range(rank)]
    if int(np.prod(sizes)) > max_vertices:
      continue
    uni = [0] * rank
    jmono, juni = [], []
    for d in range(rank):
      if sizes[d] >= 3 and rng.random() < 0.4:
        uni[d] = rng.choice([-1, 1])
    if rank >= 2 and rng.random() < 0.5:
      jmono.append(rng.sample(range(rank), 2))
      if rank >= 3 and rng.random() < 0.3:
        jmono.append(rng.sample(range(rank), 2))
    cand = [d for d in range(rank) if not uni[d] and sizes[d] >= 3]
    if cand and rng.random() < 0.5:
      k = rng.randint(1, min(2, len(cand)))
      juni.append([rng.sample(cand, k), rng.choice(["valley", "peak"])])
      rest = [d for d in cand if d not in juni[0][0]]
      if len(rest) >= k and rng.random() < 0.5:
        juni.append([rng.sample(rest, k), rng.choice(["valley", "peak"])])
    if any(uni) or jmono or juni:
      break
  duplicate_pair(rng, [], [], jmono)
  omin, omax = gen_bounds(rng)
  return dict(sizes=sizes, units=rng.choice([1, 1, 2, 3]), monos=[0] * rank, edge=[], trap=[], uni=uni, mdom=[],
              rdom=[], jmono=jmono, juni=juni, omin=omin, omax=omax)


KERNEL_CLASSES = ["random", "random", "far", "ties", "sorted", "antisorted", "constant", "noise"]


def gen_kernel(rng, cfg, klass, unit_scale=True):
  """unit_scale=False keeps every column at its base magnitude (|v| <= 8 and multiples of 1/8 for the classes other
  than 'far' / 'sorted' / 'antisorted' / 'noise', which stay below 16): the kernels of the float32 cases."""
  n = int(np.prod(cfg["sizes"]))
  units = cfg["units"]
  idx = list(itertools.product(*[range(s) for s in cfg["sizes"]]))
  cols = []
  for u in range(units):
    scale = [1.0, 8.0, 0.125][u % 3] if unit_scale else 1.0  # columns of different magnitude (unit interaction visible)
    if klass == "far":
      col = [tfimpl.dy(rng, -64, 64) for _ in range(n)]
    elif klass == "ties":
      col = [float(rng.choice([-1, 0, 0, 1, 2])) for _ in range(n)]
    elif klass == "sorted":
      col = [float(sum(v)) + tfimpl.dy(rng, 0, 0.5) for v in idx]
    elif klass == "antisorted":
      col = [-float(sum(v)) * 2 + tfimpl.dy(rng, -1, 1) for v in idx]
    elif klass == "constant":
      c = tfimpl.dy(rng)
      col = [c] * n
    elif klass == "noise":
      col = [float(sum(v)) + tfimpl.dy(rng, -1, 1) for v in idx]
    else:
      col = [tfimpl.dy(rng) for _ in range(n)]
    cols.append([x * scale for x in col])
  return [[cols[u][i] for u in range(units)] for i in range(n)]


# ----------------------------------------------------------------------------------------------------------------
# RICH feasible kernels for an arbitrary configuration
# ----------------------------------------------------------------------------------------------------------------
def exactly_feasible(w, cfg, with_bounds=True):
  """Every configured shape constraint (all eight families) and - optionally - the bounds hold EXACTLY. The numpy
  predicates are exact on the kernels built here (dyadic entries, at most ~35 significant bits, sums of <= 4)."""
  import latpred  # pylint: disable=g-import-not-at-top
  w = np.asarray(w, dtype=np.float64)
  if latpred.all_viols(w, cfg) > 0.0:
    return False
  return not with_bounds or latpred.bounds_viol(w, cfg["omin"], cfg["omax"]) <= 0.0


def _rich_start(rng, cfg):
  """Integer start column (a multiple-of-1/8 kernel of one of the usual classes, times 8)."""
  klass = rng.choice(["random", "random", "ties", "sorted", "noise", "antisorted"])
  col = [row[0] for row in gen_kernel(rng, dict(cfg, units=1), klass)]
  return np.array([round(8.0 * v) for v in col], dtype=np.float64)


def _snap_to_integers(p, max_den=5000, max_lcm=2 ** 14):
  """The exact projection of an integer vector onto a polyhedral cone with small integer / half-integer rows has
  rational entries. Recovers them from the float64 solution and returns D * p as exact integers (D = common
  denominator): a positive multiple of a point of a cone is in the cone, with the same active constraints.
  None when the entries are not recognisably rational with a small common denominator."""
  from fractions import Fraction  # pylint: disable=g-import-not-at-top
  import math  # pylint: disable=g-import-not-at-top
  frs = [Fraction(float(v)).limit_denominator(max_den) for v in p]
  if max(abs(float(f) - float(v)) for f, v in zip(frs, p)) > 1e-9:
    return None
  den = 1
  for f in frs:
    den = den * f.denominator // math.gcd(den, f.denominator)
    if den > max_lcm:
      return None
  return np.array([float(int(f * den)) for f in frs], dtype=np.float64)


def _rich_column(rng, cfg1, A, how):
  """One column that meets every HOMOGENEOUS family of cfg1 exactly (bounds are fitted afterwards), or None.
  how == 'exact': integer multiple of the exact Euclidean projection of an integer start kernel (constraints that
            the projection makes active - ties, flat Edgeworth squares, equal dominance triangles - stay EXACTLY
            active);
  how == 'round': 0.75 * projection + 0.25 * mean, every entry rounded to a multiple of 2^-10 (constraints are
            active, nearly active by 2^-10, or slack)."""
  import latpred  # pylint: disable=g-import-not-at-top
  start = _rich_start(rng, cfg1)
  proj = latpred.nearest_feasible(start, A)
  if how == "exact":
    col = _snap_to_integers(proj)
    if col is None:
      return None
  else:
    y = 0.75 * proj + 0.25 * float(np.mean(proj))
    col = np.round(y * 128.0)   # the start is in units of 1/8: value = y / 8, rounded to a multiple of 2^-10
  if not exactly_feasible(col[:, None], cfg1, with_bounds=False):
    return None
  return col


def _fit(rng, col, omin, omax):
  """Positive power-of-two scaling plus a dyadic shift (both keep every homogeneous constraint and its active set)
  that bring an integer column to amplitude <= 8 and inside the bounds; where possible an end of the range sits
  exactly ON a bound. Optionally clipped further by the caller."""
  lo, hi = float(col.min()), float(col.max())
  span = hi - lo
  room = rng.choice([2.0, 4.0, 8.0])
  if omin is not None and omax is not None:
    room = min(room, omax - omin)
  if room <= 0.0:
    return None
  k = 0
  while span * 2.0 ** -k > room:
    k += 1
  col = (col - lo) * 2.0 ** -k          # min 0, max span * 2^-k <= room
  top = span * 2.0 ** -k
  if omin is not None and omax is not None:
    free = (omax - omin) - top
    base = omin + rng.choice([0.0, 0.0, free, np.floor(free * 4.0) / 8.0])
  elif omin is not None:
    base = omin + rng.choice([0.0, 0.0, 0.5, 2.0])
  elif omax is not None:
    base = omax - top - rng.choice([0.0, 0.0, 0.5, 2.0])
  else:
    base = np.floor(-top * 4.0) / 8.0 + rng.randint(-16, 16) / 8.0
  return col + base


def feasible_rich(rng, cfg, with_bounds=True, tries=8):
  """A kernel (rows = vertices, one column per unit) that satisfies EVERY configured constraint of cfg exactly -
  monotonicities, unimodalities, Edgeworth / trapezoid trusts, monotonic / range dominances, joint monotonicities /
  unimodalities and (with_bounds) the output bounds - and is neither constant nor additive in general: per unit a
  random start kernel is projected onto the constraint polyhedron with the independent NNLS routine
  (latpred.constraint_rows over all eight families + latpred.nearest_feasible), made exactly representable (see
  _rich_column), fitted into the bounds by a power-of-two scaling and a dyadic shift, sometimes clipped to a tighter
  box (plateaus on a bound), and RE-CHECKED with the exact predicates; a candidate that fails the re-check is
  dropped and another start is tried. Returns (kernel as list of rows, tag) or (None, None)."""
  import latpred  # pylint: disable=g-import-not-at-top
  cfg1 = dict(cfg, units=1)
  A = latpred.constraint_rows(cfg1, latpred.ALL_FAMILIES)
  omin, omax = (cfg["omin"], cfg["omax"]) if with_bounds else (None, None)
  cols, tags = [], []
  for u in range(cfg["units"]):
    done = None
    for _ in range(tries):
      how = rng.choice(["exact", "exact", "round"])
      col = _rich_column(rng, cfg1, A, how)
      if col is None or float(col.max()) == float(col.min()):
        continue
      if rng.random() < 0.3:
        # clip between two of its own values: plateaus (monotonicity survives a clip, the other families only
        # sometimes: re-check)
        vals = sorted(set(float(v) for v in col))
        if len(vals) >= 3:
          a = vals[rng.randint(0, (len(vals) - 1) // 3)]
          b = vals[len(vals) - 1 - rng.randint(0, (len(vals) - 1) // 3)]
          q = np.clip(col, a, b)
          if b > a and exactly_feasible(q[:, None], cfg1, with_bounds=False):
            col, how = q, how + "+clip"
      y = _fit(rng, col, omin, omax)
      if y is None:
        continue
      if not (omin is not None or omax is not None) and cfg["units"] > 1:
        y = y * [1.0, 8.0, 0.125][u % 3]   # unit columns of different magnitude (only without shared bounds)
      if exactly_feasible(y[:, None], dict(cfg1, omin=omin, omax=omax), with_bounds=True):
        done = y
        tags.append(how)
        break
    if done is None:
      return None, None
    cols.append(done)
  W = np.stack(cols, axis=1)
  if not exactly_feasible(W, dict(cfg, omin=omin, omax=omax), with_bounds=True):
    return None, None
  return [[float(x) for x in row] for row in W], "/".join(sorted(set(tags)))


def tuples(lst):
  return [tuple(x) for x in lst] or None


def constraint_kwargs(cfg, iterations=None, strict=True):
  kw = dict(lattice_sizes=list(cfg["sizes"]), monotonicities=list(cfg["monos"]),
            unimodalities=list(cfg["uni"]) if any(cfg["uni"]) else None,
            edgeworth_trusts=tuples(cfg["edge"]), trapezoid_trusts=tuples(cfg["trap"]),
            monotonic_dominances=tuples(cfg["mdom"]), range_dominances=tuples(cfg["rdom"]),
            joint_monotonicities=tuples(cfg["jmono"]),
            joint_unimodalities=[(tuple(d), s) for d, s in cfg["juni"]] or None,
            output_min=cfg["omin"], output_max=cfg["omax"])
  if iterations is not None:
    kw["num_projection_iterations"] = iterations
  kw["enforce_strict_monotonicity"] = strict
  return kw


def dykstra_kwargs(cfg, iterations):
  return dict(lattice_sizes=list(cfg["sizes"]), monotonicities=list(cfg["monos"]),
              unimodalities=list(cfg["uni"]) if any(cfg["uni"]) else None,
              edgeworth_trusts=tuples(cfg["edge"]), trapezoid_trusts=tuples(cfg["trap"]),
              monotonic_dominances=tuples(cfg["mdom"]), range_dominances=tuples(cfg["rdom"]),
              joint_monotonicities=tuples(cfg["jmono"]),
              joint_unimodalities=[(tuple(d), s) for d, s in cfg["juni"]] or None,
              num_iterations=iterations)
