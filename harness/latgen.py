"""Generators of valid Lattice configurations and kernels (shared by C01, C08, C09, C10, C12)."""
import itertools
import numpy as np
import tfimpl


def gen_cfg(rng, max_vertices=72, allow_other=True, trust_bias=0.7, force_mono=True):
  rank = rng.choice([1, 2, 2, 3, 3, 3, 4])
  # lattice size 5 occasionally (about one configuration in eight draws from the wider pool)
  pool = [2, 2, 3, 3, 4, 5, 5] if rng.random() < 0.12 else [2, 2, 3, 3, 4]
  while True:
    sizes = [rng.choice(pool) for _ in range(rank)]
    if int(np.prod(sizes)) <= max_vertices:
      break
  units = rng.choice([1, 1, 2, 3])
  monos = [rng.choice([0, 1, 1]) for _ in range(rank)]
  if force_mono and not any(monos) and rng.random() < 0.9:
    monos[rng.randrange(rank)] = 1
  mono_dims = [d for d in range(rank) if monos[d]]
  edge, trap = [], []
  if mono_dims and rank >= 2 and rng.random() < trust_bias:
    # mains: a subset of monotone dims; conds: dims that are not mains
    k = rng.randint(1, min(2, len(mono_dims)))
    mains = rng.sample(mono_dims, k)
    conds = [d for d in range(rank) if d not in mains]
    if conds:
      direction = {}
      def pick():
        m, c = rng.choice(mains), rng.choice(conds)
        d = direction.setdefault((m, c), rng.choice([-1, 1]))
        return [m, c, d]
      mode = rng.choice(["edge", "trap", "both", "both", "match"])
      if mode in ("edge", "both"):
        edge = [pick() for _ in range(rng.randint(1, 2))]
      if mode in ("trap", "both"):
        trap = [pick() for _ in range(rng.randint(1, 2))]
      if mode == "match":
        t = pick()
        edge, trap = [t], [list(t)]
        if rng.random() < 0.3:
          edge.append(pick())
  uni = [0] * rank
  mdom, rdom, jmono, juni = [], [], [], []
  if allow_other and rng.random() < 0.4:
    for d in range(rank):
      if not monos[d] and sizes[d] >= 3 and rng.random() < 0.5:
        uni[d] = rng.choice([-1, 1])
    if len(mono_dims) >= 2 and rng.random() < 0.4:
      a, b = rng.sample(mono_dims, 2)
      (mdom if rng.random() < 0.5 else rdom).append([a, b])
    if rank >= 2 and rng.random() < 0.3:
      a, b = rng.sample(range(rank), 2)
      jmono.append([a, b])
    cand = [d for d in range(rank) if not monos[d] and not uni[d] and sizes[d] >= 3]
    if cand and rng.random() < 0.3:
      k = rng.randint(1, min(2, len(cand)))
      juni.append([rng.sample(cand, k), rng.choice(["valley", "peak"])])
      rest = [d for d in cand if d not in juni[0][0]]
      if len(rest) >= k and rng.random() < 0.5:   # second group of the same arity on other dimensions
        juni.append([rng.sample(rest, k), rng.choice(["valley", "peak"])])
  duplicate_pair(rng, mdom, rdom, jmono)
  omin, omax = gen_bounds(rng)
  return dict(sizes=sizes, units=units, monos=monos, edge=edge, trap=trap, uni=uni, mdom=mdom, rdom=rdom,
              jmono=jmono, juni=juni, omin=omin, omax=omax)


def duplicate_pair(rng, mdom, rdom, jmono, p=0.15):
  """With probability p repeats one monotonic-dominance / range-dominance / joint-monotonicity pair (the same
  direction; the code accepts that). project_by_dykstra keys its last_change dictionary by the constraint, so the
  two occurrences share one entry."""
  lists = [l for l in (mdom, rdom, jmono) if l]
  if lists and rng.random() < p:
    l = rng.choice(lists)
    l.insert(rng.randint(0, len(l)), list(rng.choice(l)))


def gen_bounds(rng):
  bmode = rng.choice(["none", "min", "max", "both", "both"])
  a = tfimpl.dy(rng, -4, 4)
  omin = a if bmode in ("min", "both") else None
  omax = a + rng.choice([0.5, 1.0, 4.0]) if bmode in ("max", "both") else None
  return tfimpl.zero_bound(rng, omin, omax)


def gen_cfg_nomono(rng, max_vertices=72):
  """No monotone dimension, but at least one of unimodalities / joint monotonicities / joint unimodalities: the strict
  LatticeConstraints then enters the Dykstra block while finalize_constraints returns its result unchanged (no trusts,
  no dominances are possible without a monotone dimension)."""
  while True:
    rank = rng.choice([1, 2, 2, 3, 3, 4])
    sizes = [rng.choice([2, 3, 3, 4, 5]) for _ in range(rank)]
    if int(np.prod(sizes)) > max_vertices:
      continue
    uni = [0] * rank
    jmono, juni = [], []
    for d in range(rank):
      if sizes[d] >= 3 and rng.random() < 0.4:
        uni[d] = rng.choice([-1, 1])
    if rank >= 2 and rng.random() < 0.5:
      jmono.append(rng.sample(range(rank), 2))
      if rank >= 3 and rng.random() < 0.3:
        jmono.append(rng.sample(range(rank), 2))
    cand = [d for d in range(rank) if not uni[d] and sizes[d] >= 3]
    if cand and rng.random() < 0.5:
      k = rng.randint(1, min(2, len(cand)))
      juni.append([rng.sample(cand, k), rng.choice(["valley", "peak"])])
      rest = [d for d in cand if d not in juni[0][0]]
      if len(rest) >= k and rng.random() < 0.5:
        juni.append([rng.sample(rest, k), rng.choice(["valley", "peak"])])
    if any(uni) or jmono or juni:
      break
  duplicate_pair(rng, [], [], jmono)
  omin, omax = gen_bounds(rng)
  return dict(sizes=sizes, units=rng.choice([1, 1, 2, 3]), monos=[0] * rank, edge=[], trap=[], uni=uni, mdom=[],
              rdom=[], jmono=jmono, juni=juni, omin=omin, omax=omax)


KERNEL_CLASSES = ["random", "random", "far", "ties", "sorted", "antisorted", "constant", "noise"]


def gen_kernel(rng, cfg, klass):
  n = int(np.prod(cfg["sizes"]))
  units = cfg["units"]
  idx = list(itertools.product(*[range(s) for s in cfg["sizes"]]))
  cols = []
  for u in range(units):
    scale = [1.0, 8.0, 0.125][u % 3]  # columns of different magnitude (unit interaction visible)
    if klass == "far":
      col = [tfimpl.dy(rng, -64, 64) for _ in range(n)]
    elif klass == "ties":
      col = [float(rng.choice([-1, 0, 0, 1, 2])) for _ in range(n)]
    elif klass == "sorted":
      col = [float(sum(v)) + tfimpl.dy(rng, 0, 0.5) for v in idx]
    elif klass == "antisorted":
      col = [-float(sum(v)) * 2 + tfimpl.dy(rng, -1, 1) for v in idx]
    elif klass == "constant":
      c = tfimpl.dy(rng)
      col = [c] * n
    elif klass == "noise":
      col = [float(sum(v)) + tfimpl.dy(rng, -1, 1) for v in idx]
    else:
      col = [tfimpl.dy(rng) for _ in range(n)]
    cols.append([x * scale for x in col])
  return [[cols[u][i] for u in range(units)] for i in range(n)]


def tuples(lst):
  return [tuple(x) for x in lst] or None


def constraint_kwargs(cfg, iterations=None, strict=True):
  kw = dict(lattice_sizes=list(cfg["sizes"]), monotonicities=list(cfg["monos"]),
            unimodalities=list(cfg["uni"]) if any(cfg["uni"]) else None,
            edgeworth_trusts=tuples(cfg["edge"]), trapezoid_trusts=tuples(cfg["trap"]),
            monotonic_dominances=tuples(cfg["mdom"]), range_dominances=tuples(cfg["rdom"]),
            joint_monotonicities=tuples(cfg["jmono"]),
            joint_unimodalities=[(tuple(d), s) for d, s in cfg["juni"]] or None,
            output_min=cfg["omin"], output_max=cfg["omax"])
  if iterations is not None:
    kw["num_projection_iterations"] = iterations
  kw["enforce_strict_monotonicity"] = strict
  return kw


def dykstra_kwargs(cfg, iterations):
  return dict(lattice_sizes=list(cfg["sizes"]), monotonicities=list(cfg["monos"]),
              unimodalities=list(cfg["uni"]) if any(cfg["uni"]) else None,
              edgeworth_trusts=tuples(cfg["edge"]), trapezoid_trusts=tuples(cfg["trap"]),
              monotonic_dominances=tuples(cfg["mdom"]), range_dominances=tuples(cfg["rdom"]),
              joint_monotonicities=tuples(cfg["jmono"]),
              joint_unimodalities=[(tuple(d), s) for d, s in cfg["juni"]] or None,
              num_iterations=iterations)
