"""C18 - computed calibration keypoints are valid for every data sample."""
import math
from fractions import Fraction
import numpy as np
import common
from common import Case, cq, cql, clist, cnat, copt, cbool
import tfimpl

ID = "C18"
HMODULE = "H_C18"
RULE = ("premade_lib.compute_keypoints on generated arrays (heavy duplicates, few distinct values, skewed, "
        "constant, constant after clipping, runs, empty, exactly representable values at 2**53 / 1e16 / 2**60 two "
        "spacings apart, values 2**-40 apart, arrays of 100-400 elements with num_keypoints up to 40; float64, "
        "float32 (both modes) or int64), num_keypoints 2..12 drawn around the "
        "number of distinct clipped values, 'quantiles'/'uniform' (and an invalid mode), every combination of "
        "clip_min/clip_max (inside, on a data value, outside, crossing), default_value present/absent/everything, "
        "weights none/ones/positive dyadics/with zeros/leading and trailing zeros/all zero/one dominating value/mixed signs/all non-positive (reduced sum nonzero), 'mean'/'sum' (and an "
        "invalid reduction); for a subset the real PWLCalibration layer is built on the keypoints and called below, at, "
        "between and above them; plus compute_feature_keypoints, set_feature_keypoints and compute_label_keypoints/"
        "set_label_keypoints on small FeatureConfig / model config lists (categorical skip, user-given keypoints, "
        "missing configs, string labels, logits). The implementation's result is compared in Coq with "
        "Model/Keypoints.v (accepting either neighbour where the exact index is a rounding tie) and the property's "
        "clauses are evaluated on it ('quantiles' results are compared exactly; with negative weights the result must be "
        "k strictly increasing distinct values from the smallest to the largest, C18_valid_for_any_interp_indices). Non-trivial = at least two keypoints were returned from at least two distinct "
        "clipped values; distinct = distinct case descriptions.")
TRUSTED = ["model: Model/Keypoints.v (hand-written from premade_lib.py compute_keypoints, _weighted_quantile, "
           "compute_feature_keypoints, set_feature_keypoints, compute_label_keypoints; NumPy's unique/argsort/"
           "add.reduceat/quantile(method='nearest')/interp/rint/linspace by their documented meaning); "
           "tie: the public functions called on np.ndarray inputs, results compared in Coq",
           "rounding: theorems hold for every round-to-nearest function (any tie-breaking); the correspondence "
           "accepts either neighbour at exact ties (and within 1e-9 of one) and either end of an np.interp plateau"]
LIMITS = ["constant-after-clipping data yields one keypoint ('quantiles') or k equal keypoints ('uniform'), which "
          "PWLCalibration rejects; the 'accepted by PWLCalibration' and 'strictly increasing' clauses are guarded by "
          ">= 2 distinct clipped values",
          "data that is empty after default_value removal and without clip bounds: 'uniform' raises IndexError, "
          "'quantiles' returns []; weights summing to zero raise IndexError for num_keypoints > 2 (excluded by the "
          "positive-sum hypothesis); NaN/inf values and plain Python lists as `values` are outside the property",
          "float rounding of the index computations is outside the model (ties accept either neighbour)",
          "float representation: 'uniform' cannot return num_keypoints distinct doubles when (max - min) / (k - 1) is "
          "below the spacing of doubles at that magnitude (np.array([1e16, 1e16 + 2]), k = 3 gives [1e16, 1e16, "
          "1e16 + 2]; float32 data gives a float32 linspace: [1, 1.0000001] -> [1, 1, 1.0000001]), and int64 values "
          "beyond 2**53 collapse in the conversion to float; the generator keeps >= 4 spacings per 'uniform' step",
          "negative example weights: np.interp's search on the then non-monotone weighted quantiles is not "
          "modelled; only the property's clauses are checked on those cases (Coq: check_sel), and weights whose "
          "reduced sum cancels to zero are not generated (same IndexError as D67, C18_error_iff)"]

MODES = {"quantiles": "Quantiles", "uniform": "Uniform", "bogus": "MOther"}
REDS = {"mean": "RMean", "sum": "RSum", "bogus": "ROther"}


# ---------------------------------------------------------------------------
# generators
# ---------------------------------------------------------------------------
def _values(rng, dist):
  dy = tfimpl.dy
  if dist == "dup":
    m = rng.randint(2, 6)
    support = rng.sample([i / 8.0 for i in range(-64, 65)], m)
    probs = [2 ** i for i in range(m)]
    return [rng.choices(support, probs)[0] for _ in range(rng.randint(5, 60))]
  if dist == "few":
    support = [dy(rng) for _ in range(rng.randint(1, 3))]
    return [rng.choice(support) for _ in range(rng.randint(1, 8))]
  if dist == "skew":
    return [int((rng.random() ** 3) * 64) / 8.0 for _ in range(rng.randint(10, 60))]
  if dist == "const":
    v = dy(rng)
    return [v] * rng.randint(1, 20)
  if dist == "spread":
    return [dy(rng) for _ in range(rng.randint(2, 50))]
  if dist == "run":
    n = rng.randint(3, 40)
    step = rng.choice([0.125, 0.5, 1.0])
    off = dy(rng, -4, 4)
    vs = [off + i * step for i in range(n)]
    rng.shuffle(vs)
    return vs
  if dist == "ints":
    return [float(rng.randint(-5, 12)) for _ in range(rng.randint(2, 40))]
  if dist == "big":
    # large magnitudes, near-equal large values (1e16, 1e16 + 2): every value is an exactly representable integer
    # (the spacing of doubles at 2**53 .. 2**54 is 2), so 'quantiles' results and the Coq comparison stay exact
    base = rng.choice([2.0 ** 53, 1e16, -1e16, -(2.0 ** 53) - 64.0, 2.0 ** 60])
    ulp = math.ulp(abs(base))
    m = rng.randint(2, 9)
    support = [base + ulp * j for j in sorted(rng.sample(range(0, 40), m))]
    return [rng.choice(support) for _ in range(rng.randint(m, 30))] + (support if rng.random() < 0.7 else [])
  if dist == "fine":
    # near-equal values at unit magnitude: distinct values 2**-40 apart
    off = dy(rng, -4, 4)
    m = rng.randint(2, 9)
    support = [off + j * 2.0 ** -40 for j in sorted(rng.sample(range(0, 64), m))]
    return [rng.choice(support) for _ in range(rng.randint(m, 30))] + (support if rng.random() < 0.7 else [])
  if dist == "long":
    # arrays of 100-400 elements with up to ~120 distinct values (num_keypoints up to 40, see _gen_call)
    n = rng.randint(100, 400)
    m = rng.choice([3, 15, 40, 120])
    support = rng.sample([i / 8.0 for i in range(-400, 401)], m)
    return [rng.choice(support) for _ in range(n)]
  return []  # "empty"


def _reduced_sum(values, cmin, cmax, dv, weights, red):
  """Exact sum of the per-distinct-value reduced weights, as compute_keypoints forms them (clip sentinels carry
  weight 0 and count as an instance for 'mean')."""
  ps = [(v, w) for v, w in zip(values, weights) if dv is None or v != dv]
  if cmin is not None:
    ps = [(max(v, cmin), w) for v, w in ps] + [(cmin, 0.0)]
  if cmax is not None:
    ps = [(min(v, cmax), w) for v, w in ps] + [(cmax, 0.0)]
  groups = {}
  for v, w in ps:
    g = groups.setdefault(v, [Fraction(0), 0])
    g[0] += Fraction(w)
    g[1] += 1
  return sum((g[0] / g[1] if red == "mean" else g[0]) for g in groups.values())


def _clipped(values, cmin, cmax, dv):
  vals = [v for v in values if dv is None or v != dv]
  if cmin is not None:
    vals = [max(v, cmin) for v in vals] + [cmin]
  if cmax is not None:
    vals = [min(v, cmax) for v in vals] + [cmax]
  return vals


def _gen_call(rng, allow_bogus=True, extended=True):
  """One compute_keypoints argument set (also used for the helpers, without the extended classes)."""
  dist = rng.choices(["dup", "few", "skew", "const", "spread", "run", "ints", "empty", "big", "fine", "long"],
                     [20, 12, 12, 6, 18, 20, 8, 2] + ([5, 3, 2] if extended else [0, 0, 0]))[0]
  values = _values(rng, dist)
  lo = min(values) if values else 0.0
  hi = max(values) if values else 1.0

  def bound(kind):
    c = rng.random()
    if values and c < 0.3:
      return rng.choice(values)                       # exactly a data value
    if c < 0.6:
      return lo + round((hi - lo) * rng.random() * 8) / 8.0 + rng.choice([0.0, 0.0625])  # inside
    if c < 0.8:
      return (lo - rng.choice([0.5, 2.0])) if kind == "min" else (hi + rng.choice([0.5, 2.0]))  # outside, no effect
    # constant after clipping
    return (hi + rng.choice([0.0, 1.0])) if kind == "min" else (lo - rng.choice([0.0, 1.0]))
  cm = rng.choices(["none", "min", "max", "both"], [35, 20, 20, 25])[0]
  cmin = bound("min") if cm in ("min", "both") else None
  cmax = bound("max") if cm in ("max", "both") else None
  if cm == "both" and cmin > cmax and rng.random() < 0.8:
    cmin, cmax = cmax, cmin
  c = rng.random()
  if c < 0.6 or not values:
    dv = None
  elif c < 0.85:
    dv = rng.choice(values)
  elif c < 0.95:
    dv = -9.0
  else:
    dv = values[0]
    values = [dv] * len(values) if rng.random() < 0.5 else values
  n = len(values)
  wk = rng.choices(["none", "ones", "pos", "zeros", "lead0", "trail0", "allzero", "spike", "neg", "negall"],
                   [36, 8, 20, 12, 7, 7, 2, 8] + ([7, 2] if extended else [0, 0]))[0]
  if wk == "none":
    weights = None
  elif wk == "ones":
    weights = [1.0] * n
  elif wk == "pos":
    weights = [rng.randint(1, 32) / 8.0 for _ in range(n)]
  elif wk == "zeros":
    weights = [0.0 if rng.random() < 0.35 else rng.randint(1, 16) / 8.0 for _ in range(n)]
  elif wk == "allzero":
    weights = [0.0] * n
  elif wk == "neg":     # mixed signs (np.interp then searches a non-monotone xp)
    weights = [rng.randint(-16, 24) / 8.0 for _ in range(n)]
  elif wk == "negall":  # no positive weight at all
    weights = [-rng.randint(0, 16) / 8.0 for _ in range(n)]
  elif wk == "spike":  # one value carries almost all the weight: many quantiles hit the same index
    heavy = rng.choice(values) if values else 0.0
    weights = [64.0 if v == heavy else rng.choice([0.0, 0.125, 0.125, 0.25]) for v in values]
  else:
    svals = sorted(set(values))
    m = rng.randint(1, max(1, min(3, len(svals) - 1)))
    zero = set(svals[:m]) if wk == "lead0" else set(svals[-m:])
    weights = [0.0 if v in zero else rng.randint(1, 16) / 8.0 for v in values]
  d = len(set(_clipped(values, cmin, cmax, dv)))
  if rng.random() < 0.6:
    k = rng.choice([d - 1, d, d, d + 1, max(2, d // 2), 2])
  else:
    k = rng.randint(2, 12)
  k = max(2, min(12, k))
  if dist == "long" and rng.random() < 0.7:
    k = rng.choice([13, 20, 33, 40, max(2, min(40, d - 1)), max(2, min(40, d)), max(2, min(40, d + 1))])
  mode = rng.choices(["quantiles", "uniform", "bogus"], [60, 37, 3 if allow_bogus else 0])[0]
  red = rng.choices(["mean", "sum", "bogus"], [55, 42, 3 if allow_bogus else 0])[0]
  if wk in ("neg", "negall") and red != "bogus" and values:
    # weights whose reduced sum cancels to zero belong to the open finding D67 (IndexError on int(nan) for k > 2,
    # Props C18_error_iff); they are kept out of this class by moving one non-default example's weight
    kept = [i for i, v in enumerate(values) if dv is None or v != dv]
    for _ in range(4):
      if not kept or _reduced_sum(values, cmin, cmax, dv, weights, red) != 0:
        break
      weights[kept[0]] -= 0.125
  if mode == "uniform" and dist in ("big", "fine"):
    # float limit (reported, kept out of the stream): 'uniform' cannot return num_keypoints distinct doubles when the
    # spacing (max - min) / (k - 1) is below the spacing of doubles at that magnitude; keep >= 4 ulps per step
    cl = _clipped(values, cmin, cmax, dv)
    if cl:
      ulp = math.ulp(max(abs(min(cl)), abs(max(cl)), 1.0)) if dist == "big" else 2.0 ** -50
      k = max(2, min(k, int((max(cl) - min(cl)) / (4 * ulp)) + 1))
  as_int = dist == "ints" and rng.random() < 0.7
  if not as_int and dist not in ("big", "fine") and rng.random() < 0.12:
    if mode == "quantiles":
      as_int = "float32"  # results are data values (exact)
    elif mode == "uniform" and dist != "long":
      # 'uniform' on float32 data is a float32-only linspace: exact for these dyadic values when k - 1 is a power of 2
      as_int = "float32"
      k = min([2, 3, 5, 9], key=lambda c: (abs(c - k), c))
  # a subset also builds and calls the real PWLCalibration layer on the computed keypoints
  layer = (dist in ("big", "fine") or rng.random() < 0.15)
  return dict(values=values, k=k, mode=mode, clip_min=cmin, clip_max=cmax, default=dv,
              weights=weights, red=red, dist=dist, wkind=wk, as_int=as_int, layer=layer)


# regression inputs: leading zero weights (fixed by f7c207e) and float ties
_FIXED = [
    dict(values=[1., 2, 3, 4, 5, 6], k=3, mode="quantiles", clip_min=None, clip_max=None, default=None,
         weights=[0., 0, 1, 1, 1, 1], red="mean", dist="fixed", wkind="lead0", as_int=False),
    dict(values=[1., 2, 3, 4, 5, 6], k=3, mode="quantiles", clip_min=0.0, clip_max=None, default=None,
         weights=[0., 1, 1, 1, 1, 1], red="mean", dist="fixed", wkind="lead0", as_int=False),
    dict(values=[1., 2, 3, 4, 5, 6], k=3, mode="quantiles", clip_min=0.0, clip_max=None, default=None,
         weights=[0., 0, 1, 1, 1, 1], red="sum", dist="fixed", wkind="lead0", as_int=False),
    dict(values=[1., 2, 3, 4, 5, 6], k=3, mode="quantiles", clip_min=None, clip_max=10.0, default=None,
         weights=[1., 1, 1, 1, 0, 0], red="mean", dist="fixed", wkind="trail0", as_int=False),
    dict(values=[1., 2, 3, 4, 5, 6], k=4, mode="quantiles", clip_min=None, clip_max=None, default=None,
         weights=[1.] * 6, red="mean", dist="fixed", wkind="ones", as_int=False),
    dict(values=[1., 2, 3, 4, 5, 6], k=4, mode="quantiles", clip_min=None, clip_max=None, default=None,
         weights=None, red="mean", dist="fixed", wkind="none", as_int=False),
    dict(values=[0., 1, 2, 3], k=3, mode="quantiles", clip_min=None, clip_max=None, default=None,
         weights=[1., 0, 0, 2], red="sum", dist="fixed", wkind="zeros", as_int=False),
    dict(values=[2., 2, 2], k=3, mode="uniform", clip_min=None, clip_max=None, default=None,
         weights=None, red="mean", dist="fixed", wkind="none", as_int=False),
    dict(values=[1., 2, 3, 4, 5, 6], k=3, mode="quantiles", clip_min=5.0, clip_max=2.0, default=None,
         weights=None, red="mean", dist="fixed", wkind="none", as_int=False),
]


def _gen_feature(rng):
  n = rng.randint(2, 30)
  names = [0, 1, 2, 3][:rng.randint(1, 4)]
  feats = []
  fcs = []
  for name in names:
    call = _gen_call(rng, allow_bogus=False, extended=False)
    vals = (call["values"] * (n // max(1, len(call["values"])) + 1))[:n] if call["values"] else [1.0] * n
    feats.append([name, vals])
    kind = rng.choices(["numeric", "categorical", "given", "missing"], [55, 15, 15, 15])[0]
    if kind == "missing":
      continue
    fcs.append(dict(name=name, kind=kind, k=call["k"], mode=call["mode"], clip_min=call["clip_min"],
                    clip_max=call["clip_max"], default=call["default"],
                    given=sorted(set(tfimpl.dy(rng) for _ in range(3)))))
  rng.shuffle(fcs)
  wk = rng.choice(["none", "none", "pos", "zeros"])
  weights = None if wk == "none" else [
      (0.0 if (wk == "zeros" and rng.random() < 0.3) else rng.randint(1, 16) / 8.0) for _ in range(n)]
  if weights is not None and sum(weights) == 0:
    weights[0] = 1.0
  return dict(kind="feature", fcs=fcs, features=feats, weights=weights, red=rng.choice(["mean", "sum"]))


def _gen_setfeature(rng):
  names = rng.sample([0, 1, 2, 3, 4], rng.randint(1, 4))
  fcs = [dict(name=nm, kind=rng.choice(["numeric", "given", "categorical"]), k=rng.randint(2, 6),
              mode=rng.choice(["quantiles", "uniform"]), clip_min=None, clip_max=None, default=None,
              given=[0.0, 1.0]) for nm in names]
  if rng.random() < 0.2 and fcs:
    fcs.append(dict(fcs[0]))  # duplicate name: only the first one is updated
  fk = [[nm, sorted(set(tfimpl.dy(rng) for _ in range(rng.randint(2, 5))))]
        for nm in rng.sample([0, 1, 2, 3, 4, 5], rng.randint(1, 4))]
  return dict(kind="setfeature", fcs=fcs, fk=fk, add_missing=rng.random() < 0.5)


def _gen_label(rng):
  call = _gen_call(rng, allow_bogus=False, extended=False)
  spec = rng.choices(["mode", "given"], [85, 15])[0]
  lab = rng.choices(["num", "str", "bytes", "object"], [70, 12, 9, 9])[0]
  d = dict(kind="label", spec=spec, mode=call["mode"], k=call["k"], output_min=call["clip_min"],
           output_max=call["clip_max"], labels=call["values"], weights=call["weights"], red=call["red"],
           logits=rng.random() < 0.2, given=sorted(set(tfimpl.dy(rng) for _ in range(3))), labkind=lab,
           config=rng.choice(["lattice", "linear"]))
  if lab != "num":
    ncls = rng.randint(1, 7)
    n = rng.randint(ncls, 25)
    ids = list(range(ncls)) + [rng.randrange(ncls) for _ in range(n - ncls)]
    rng.shuffle(ids)
    d["labels"] = ids
    d["weights"] = None if rng.random() < 0.5 else [rng.randint(0, 8) / 8.0 for _ in range(n)]
  elif not d["labels"]:
    d["labels"] = [1.0, 2.0]
    d["weights"] = None if d["weights"] is None else [1.0, 1.0]
  return d


# regression inputs: string labels (fixed by cce1d54)
_FIXED_LABELS = [
    dict(kind="label", spec="mode", mode="quantiles", k=2, output_min=None, output_max=None, labels=[0, 1, 0],
         weights=None, red="mean", logits=False, given=[0.0, 1.0], labkind=lk, config="lattice")
    for lk in ("str", "bytes", "object")
] + [
    dict(kind="label", spec="mode", mode="uniform", k=4, output_min=0.5, output_max=None, labels=[2, 0, 1, 1, 2, 3],
         weights=[1.0, 0.0, 2.0, 1.0, 1.0, 0.5], red="sum", logits=False, given=[0.0, 1.0], labkind="str",
         config="linear"),
]


def gen_descs(ctx):
  rng = ctx.rng
  out = [dict(f, kind="direct") for f in _FIXED] + [dict(f) for f in _FIXED_LABELS]
  for _ in range(ctx.n(1500, 12000)):
    out.append(dict(_gen_call(rng), kind="direct"))
  for _ in range(ctx.n(150, 1200)):
    out.append(_gen_feature(rng))
  for _ in range(ctx.n(60, 500)):
    out.append(_gen_setfeature(rng))
  for _ in range(ctx.n(200, 1600)):
    out.append(_gen_label(rng))
  return out


# ---------------------------------------------------------------------------
# property predicate on the implementation's output
# ---------------------------------------------------------------------------
def _pred(values, k, mode, cmin, cmax, dv, weights, red, result, error, pwl_ok):
  """Returns None or the violated clause. `result` list of floats (None if the call raised)."""
  vals = _clipped(values, cmin, cmax, dv)
  distinct = sorted(set(vals))
  if mode not in ("quantiles", "uniform") or (weights is not None and red not in ("mean", "sum")):
    return None if error else "invalid mode / weight_reduction accepted"
  if weights is not None:
    kept = [w for v, w in zip(values, weights) if dv is None or v != dv]
    if any(w < 0 for w in kept):
      # "all weight vectors": negative example weights are judged like any others, except where the reduced
      # weights of the distinct values cancel to zero (the zero-sum finding D67; not generated)
      if _reduced_sum(values, cmin, cmax, dv, weights, red) == 0:
        return None
    elif sum(kept) <= 0:
      # all weights zero: the statement ("returns without error for every finite data array with optional example
      # weights") covers it, the code does not: known finding D67 (theorem hypothesis weights_ok)
      return ("compute_keypoints raised with example weights that sum to zero: %s" % error) if error else None
  if not distinct:
    return None  # no data at all
  if error:
    return "compute_keypoints raised on a finite data array: %s" % error
  tol = 1e-9
  if not result:
    return "no keypoints returned"
  if len(distinct) >= 2:
    if not all(a < b for a, b in zip(result, result[1:])):
      return "keypoints not strictly increasing: %r" % (result,)
    if not pwl_ok:
      return "keypoints rejected by PWLCalibration: %r" % (result,)
  if any(x < distinct[0] - tol or x > distinct[-1] + tol for x in result):
    return "keypoint outside the clipped data range [%r, %r]: %r" % (distinct[0], distinct[-1], result)
  if abs(result[0] - distinct[0]) > tol:
    return "first keypoint %r is not the clip bound / data minimum %r" % (result[0], distinct[0])
  if len(distinct) >= 2 or mode == "uniform":
    if abs(result[-1] - distinct[-1]) > tol:
      return "last keypoint %r is not the clip bound / data maximum %r" % (result[-1], distinct[-1])
  if mode == "quantiles" and any(x not in distinct for x in result):
    return "'quantiles' keypoint that is not a clipped data value: %r" % ([x for x in result if x not in distinct],)
  if len(distinct) >= k or mode == "uniform":
    if len(result) != k:
      return "%d keypoints returned, num_keypoints=%d, %d distinct values" % (len(result), k, len(distinct))
  else:
    if len(result) != len(distinct) or any(abs(a - b) > tol for a, b in zip(result, distinct)):
      return "fewer distinct values than keypoints but result %r is not the distinct values %r" % (result, distinct)
  return None


def _arr(values, as_int=False):
  return np.array(values, dtype={True: np.int64, False: np.float64, "float32": np.float32}[as_int])


def _warr(weights):
  return None if weights is None else np.array(weights, dtype=np.float64)


def _fl(x):
  return [float(v) for v in np.asarray(x).reshape(-1)]


def _pwl_accepts(tfl, kps):
  try:
    tfl.layers.PWLCalibration(input_keypoints=kps)
    return True
  except ValueError:
    return False


def _pwl_layer_fail(tfl, kps, dtype):
  """Builds the real PWLCalibration layer on the computed keypoints and calls it below, at, between and above
  them. Returns None or the violated clause (error, wrong shape, non-finite or non-monotone default function)."""
  kps = [float(x) for x in kps]
  try:
    layer = tfl.layers.PWLCalibration(input_keypoints=np.array(kps), dtype=dtype, output_min=0.0, output_max=1.0,
                                      monotonicity="increasing")
    span = max(abs(kps[0]), abs(kps[-1]), 1.0)
    xs = [kps[0] - 0.25 * span] + [x for a, b in zip(kps, kps[1:]) for x in (a, a + (b - a) * 0.5)] + [
        kps[-1], kps[-1] + 0.25 * span]
    out = np.asarray(layer(np.array(xs, dtype=dtype).reshape(-1, 1)))
  except Exception as e:  # pylint: disable=broad-except
    return "PWLCalibration built on the keypoints raised %s: %s" % (type(e).__name__, str(e)[:200])
  if out.shape != (len(xs), 1):
    return "PWLCalibration on the keypoints returned shape %r" % (out.shape,)
  o = [float(v) for v in out.reshape(-1)]
  if not all(np.isfinite(o)):
    return "PWLCalibration on the keypoints returned non-finite outputs %r" % (o,)
  tol = 1e-5 if dtype == "float32" else 1e-9
  if any(b < a - tol for a, b in zip(o, o[1:])) or abs(o[0]) > tol or abs(o[-1] - 1.0) > tol:
    return "PWLCalibration on the keypoints is not the increasing default function from 0 to 1: %r" % (o,)
  return None


def _cfc(fc):
  spec = "(KGiven %s)" % cql(fc["given"]) if fc["kind"] == "given" else "(KMode %s)" % MODES[fc["mode"]]
  return "(mkfc %s %s %s %s %s %s %s)" % (
      cnat(fc["name"]), cnat(3 if fc["kind"] == "categorical" else 0), spec, cnat(fc["k"]),
      copt(fc["clip_min"]), copt(fc["clip_max"]), copt(fc["default"]))


def _mk_fc(tfl, fc):
  kw = dict(name="f%d" % fc["name"])
  if fc["kind"] == "categorical":
    kw["num_buckets"] = 3
  kw["pwl_calibration_input_keypoints"] = list(fc["given"]) if fc["kind"] == "given" else fc["mode"]
  kw["pwl_calibration_num_keypoints"] = fc["k"]
  kw["pwl_calibration_clip_min"] = fc["clip_min"]
  kw["pwl_calibration_clip_max"] = fc["clip_max"]
  kw["default_value"] = fc["default"]
  return tfl.configs.FeatureConfig(**kw)


def _cws(weights):
  return copt(weights, cql)


def _cnatq(pairs_):
  if not pairs_:
    return "(@nil (nat * list Q))"
  return clist(["(%s, %s)" % (cnat(n), cql(v)) for n, v in pairs_])


def _eval_direct(tfl, pl, d):
  values = _arr(d["values"], d.get("as_int", False))
  err = None
  res = None
  try:
    with np.errstate(all="ignore"):
      r = pl.compute_keypoints(values, d["k"], keypoints=d["mode"], clip_min=d["clip_min"], clip_max=d["clip_max"],
                               default_value=d["default"], weights=_warr(d["weights"]), weight_reduction=d["red"])
    res = _fl(r)
    if not all(np.isfinite(res)):
      err = "non-finite keypoints %r" % (res,)
      res = None
  except (ValueError, IndexError, TypeError, ZeroDivisionError) as e:
    err = "%s: %s" % (type(e).__name__, str(e)[:200])
  pwl_ok = _pwl_accepts(tfl, np.array(res)) if res is not None else False
  fail = _pred(d["values"], d["k"], d["mode"], d["clip_min"], d["clip_max"], d["default"], d["weights"],
               d["red"], res, err, pwl_ok)
  layered = False
  if fail is None and d.get("layer") and pwl_ok and res is not None:
    # float32 is the layer's default dtype; near-equal keypoints need the float64 layer to stay distinct
    gap = min((b - a) / max(abs(a), abs(b), 1.0) for a, b in zip(res, res[1:]))
    fail = _pwl_layer_fail(tfl, res, "float32" if gap > 1e-4 else "float64")
    layered = True
  coq = "Direct %s %s %s %s %s %s %s %s %s %s" % (
      cql(d["values"]), cnat(d["k"]), MODES[d["mode"]], copt(d["clip_min"]), copt(d["clip_max"]),
      copt(d["default"]), _cws(d["weights"]), REDS[d["red"]], copt(res, cql), cbool(pwl_ok))
  nd = len(set(_clipped(d["values"], d["clip_min"], d["clip_max"], d["default"])))
  rel = "n<k" if nd < d["k"] else ("n=k" if nd == d["k"] else "n>k")
  if nd <= 1:
    rel = "const" if nd == 1 else "nodata"
  clip = ("min" if d["clip_min"] is not None else "") + ("max" if d["clip_max"] is not None else "") or "noclip"
  klass = "direct_%s_%s_%s_%s%s" % (d["mode"], "w-" + d["wkind"] if d["weights"] is not None else "unweighted",
                                     clip, rel, "_err" if err else "")
  if d["dist"] in ("big", "fine", "long"):
    klass += "_" + d["dist"]
  if d.get("as_int") == "float32":
    klass += "_f32"
  if layered:
    klass += "_layer"
  return Case(d, coq=coq, pred_fail=fail, nontrivial=(res is not None and len(res) >= 2 and nd >= 2), klass=klass,
              info={"impl_output": res, "impl_error": err, "pwl_accepts": pwl_ok, "distinct_clipped": nd})


def _eval_feature(tfl, pl, d):
  fcs = [_mk_fc(tfl, fc) for fc in d["fcs"]]
  feats = {"f%d" % n: _arr(v) for n, v in d["features"]}
  err, out = None, None
  try:
    with np.errstate(all="ignore"):
      fk = pl.compute_feature_keypoints(fcs, feats, weights=_warr(d["weights"]), weight_reduction=d["red"])
    out = [[n, _fl(fk["f%d" % n])] for n, _ in d["features"] if "f%d" % n in fk]
    extra_keys = set(fk) - set(feats)
    if extra_keys:
      err = "unexpected keys %r" % (extra_keys,)
  except (ValueError, IndexError, TypeError) as e:
    err = "%s: %s" % (type(e).__name__, str(e)[:200])
  fail = None
  by_name = {}
  for fc in d["fcs"]:
    by_name.setdefault(fc["name"], fc)
  if out is not None:
    got = dict((n, v) for n, v in out)
    for n, v in d["features"]:
      fc = by_name.get(n, dict(kind="numeric", k=10, mode="quantiles", clip_min=None, clip_max=None, default=None))
      if fc["kind"] == "categorical":
        if n in got:
          fail = "keypoints computed for categorical feature f%d" % n
      elif n not in got:
        fail = "no keypoints for numeric feature f%d" % n
      elif fc["kind"] == "given":
        if got[n] != [float(x) for x in fc["given"]]:
          fail = "user-given keypoints of f%d changed" % n
      else:
        f = _pred(v, fc["k"], fc["mode"], fc["clip_min"], fc["clip_max"], fc["default"], d["weights"], d["red"],
                  got[n], None, _pwl_accepts(tfl, np.array(got[n])))
        if f:
          fail = "feature f%d: %s" % (n, f)
  else:
    # an error is legitimate only when some numeric feature has no data / zero weight (checked by the model side)
    pass
  outc = "None" if out is None else "(Some %s)" % _cnatq(out)
  coq = "Feature %s %s %s %s %s" % (
      clist([_cfc(fc) for fc in d["fcs"]]) if d["fcs"] else "(@nil feature_config)",
      _cnatq(d["features"]), _cws(d["weights"]), REDS[d["red"]], outc)
  kinds = sorted(set(fc["kind"] for fc in d["fcs"])) + (["missing"] if len(by_name) < len(d["features"]) else [])
  return Case(d, coq=coq, pred_fail=fail, nontrivial=out is not None and len(out) > 0,
              klass="feature_" + "+".join(kinds) + ("_w" if d["weights"] is not None else "") + ("_err" if err else ""),
              info={"impl_output": out, "impl_error": err})


def _eval_setfeature(tfl, pl, d):
  fcs = [_mk_fc(tfl, fc) for fc in d["fcs"]]
  objs = list(fcs)
  fk = {"f%d" % n: list(v) for n, v in d["fk"]}
  pl.set_feature_keypoints(fcs, fk, add_missing_feature_configs=d["add_missing"])
  out = []
  fail = None
  for fc in fcs:
    kp = fc.pwl_calibration_input_keypoints
    out.append([int(fc.name[1:]), None if isinstance(kp, str) else _fl(kp)])
  if [id(o) for o in objs] != [id(o) for o in fcs[:len(objs)]]:
    fail = "set_feature_keypoints replaced config objects"
  names = [fc.name for fc in fcs]
  for n, v in d["fk"]:
    nm = "f%d" % n
    if nm in names:
      if fcs[names.index(nm)].pwl_calibration_input_keypoints != list(v):
        fail = "config %s does not carry the given keypoints" % nm
    elif d["add_missing"]:
      fail = "missing config %s was not added" % nm
  outc = clist(["(%s, %s)" % (cnat(n), copt(v, cql)) for n, v in out]) if out else "(@nil (nat * option (list Q)))"
  coq = "SetFeature %s %s %s %s" % (
      cbool(d["add_missing"]), clist([_cfc(fc) for fc in d["fcs"]]) if d["fcs"] else "(@nil feature_config)",
      _cnatq(d["fk"]), outc)
  return Case(d, coq=coq, pred_fail=fail, nontrivial=True,
              klass="setfeature_%s" % ("add" if d["add_missing"] else "noadd"), info={"impl_output": out})


def _eval_label(tfl, pl, d):
  init = list(d["given"]) if d["spec"] == "given" else d["mode"]
  cls = tfl.configs.CalibratedLatticeConfig if d["config"] == "lattice" else tfl.configs.CalibratedLinearConfig
  mc = cls(output_initialization=init, output_calibration_num_keypoints=d["k"],
           output_min=d["output_min"], output_max=d["output_max"])
  if d["labkind"] == "num":
    labels = _arr(d["labels"])
    clabels = "(LNum %s)" % cql(d["labels"])
    eff_values, eff_weights = d["labels"], d["weights"]
  else:
    strs = ["class_%d" % i for i in d["labels"]]
    labels = {"str": np.array(strs), "bytes": np.array([s.encode() for s in strs]),
              "object": np.array(strs, dtype=object)}[d["labkind"]]
    clabels = "(LStr (%s%%nat))" % clist(["%d" % i for i in d["labels"]])
    eff_values, eff_weights = [float(i) for i in range(len(set(d["labels"])))], None
  err, res = None, None
  try:
    with np.errstate(all="ignore"):
      r = pl.compute_label_keypoints(mc, labels, logits_output=d["logits"], weights=_warr(d["weights"]),
                                     weight_reduction=d["red"])
    res = _fl(r)
    if not all(np.isfinite(res)):
      err, res = "non-finite keypoints", None
  except (ValueError, IndexError, TypeError) as e:
    err = "%s: %s" % (type(e).__name__, str(e)[:200])
  fail = None
  if d["spec"] == "given":
    if res != [float(x) for x in d["given"]]:
      fail = "user-given output keypoints changed: %r" % (res,)
  elif d["logits"]:
    k = d["k"]
    want = [-2.0 + 4.0 * j / (k - 1) for j in range(k)]
    if res is None or len(res) != k or any(abs(a - b) > 1e-9 for a, b in zip(res, want)):
      fail = "logits keypoints are not linspace(-2, 2, %d): %r" % (k, res)
  else:
    fail = _pred(eff_values, d["k"], d["mode"], d["output_min"], d["output_max"], None, eff_weights, d["red"],
                 res, err, _pwl_accepts(tfl, np.array(res)) if res is not None else False)
  if res is not None and fail is None:
    pl.set_label_keypoints(mc, res)
    if mc.output_initialization is not res:
      fail = "set_label_keypoints did not store the keypoints"
  spec = "(KGiven %s)" % cql(d["given"]) if d["spec"] == "given" else "(KMode %s)" % MODES[d["mode"]]
  coq = "Label (mklc %s %s %s %s) %s %s %s %s %s" % (
      spec, cnat(d["k"]), copt(d["output_min"]), copt(d["output_max"]), clabels, cbool(d["logits"]),
      _cws(d["weights"]), REDS[d["red"]], copt(res, cql))
  return Case(d, coq=coq, pred_fail=fail, nontrivial=res is not None and len(res) >= 2,
              klass="label_%s_%s%s%s" % (d["labkind"], d["spec"] if d["spec"] == "given" else d["mode"],
                                         "_logits" if d["logits"] else "", "_err" if err else ""),
              info={"impl_output": res, "impl_error": err})


def eval_cases(ctx, descs):
  _, tfl = tfimpl.tfl()
  from tensorflow_lattice.python import premade_lib as pl  # pylint: disable=g-import-not-at-top
  fns = {"direct": _eval_direct, "feature": _eval_feature, "setfeature": _eval_setfeature, "label": _eval_label}
  cases = [fns[d["kind"]](tfl, pl, d) for d in descs]
  _LAST["cases"] = cases
  return cases


_LAST = {}


def disagreement_is_failure(case):
  """The property says the helpers return WITHOUT ERROR; the model decides exactly when an error is legitimate
  (a numeric feature without data or with zero total weight). An exception where the model returns keypoints is
  therefore itself a failing input."""
  err = (case.info or {}).get("impl_error")
  if err and case.desc.get("kind") in ("feature", "direct", "label"):
    return "%s raised on an input for which keypoints are defined: %s" % (
        {"feature": "compute_feature_keypoints", "direct": "compute_keypoints", "label": "compute_label_keypoints"}[
            case.desc["kind"]], err)
  return None


def extra(ctx, stats):
  """Statistics for the evidence (no verdict): how many compute_keypoints cases contain an exact rounding tie,
  and in how many the float evaluation resolved a tie differently from exact half-to-even arithmetic."""
  terms = [c.coq for c in _LAST.get("cases", []) if c.desc.get("kind") == "direct"]
  if not terms:
    return []
  no_tie_bad, err1 = common.run_coq_cases(ctx, HMODULE, terms, check_fn="no_tie")
  exact_bad, err2 = common.run_coq_cases(ctx, HMODULE, terms, check_fn="check_exact")
  if not err1 and not err2:
    stats["direct_cases_with_exact_rounding_tie"] = len(no_tie_bad)
    stats["direct_cases_where_float_resolved_a_tie_differently"] = len(exact_bad)
  return []


def _d67(case):
  return (case.pred_fail or "").startswith("compute_keypoints raised with example weights that sum to zero") or (
      "feature" in (case.pred_fail or "") and "raised with example weights that sum to zero" in (case.pred_fail or ""))


KNOWN_CLASSES = dict(globals().get("KNOWN_CLASSES", {}), weights_sum_zero=_d67)


def _probe_d74(ctx):
  """Known finding D74: at the float precision limit 'uniform' keypoints of two distinct values collapse."""
  _, tfl = tfimpl.tfl()
  from tensorflow_lattice.python import premade_lib as pl  # pylint: disable=g-import-not-at-top
  kp = [float(v) for v in pl.compute_keypoints(np.array([1e16, 1e16 + 2]), 3, "uniform")]
  if not all(a < b for a, b in zip(kp, kp[1:])):
    return "compute_keypoints(np.array([1e16, 1e16+2]), 3, 'uniform') = %r (not strictly increasing)" % (kp,)
  return None


KNOWN_PROBES = {"keypoints_collapse_at_float_precision": _probe_d74}
