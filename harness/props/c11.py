"""C11 - Config and weight round-trips reproduce the same function.

Proof side: Gen/GenConfig.v + Props/C11.v are regenerated from the source text
by harness/translators/gen_config.py on every run (USES_GEN).
Tie / search on the implementation (this file):
  sig      inspect.signature(cls.__init__) of every class == translator's list (in Coq)
  obj      cls(**kw) with every optional argument non-default; from_config(get_config())
           and the JSON round trip rebuild an object with equal config and equal
           stored attributes; layers: same variables, same outputs after copying
           weights; the observed config is compared in Coq with the model's
           get_config(init kw)
  seed     RTL layers / random ensembles: same config + same seed => same structure/outputs
  saveload model.save / load_model with premade.get_custom_objects() after 0, 1, 3
           training steps: same outputs, assert_constraints still passes (h5 + legacy SGD;
           .keras + Adam for every model kind, SavedModel, h5 + Adam; resume: one more
           training step on both models)
  dtype    witness of known finding D23
"""
import copy
import enum
import importlib
import inspect
import json
import os
import shutil
import sys

import numpy as np

from common import Case, clist
import tfimpl

sys.path.insert(0, os.path.join(os.path.dirname(os.path.dirname(os.path.abspath(__file__))), "translators"))
import gen_config  # pylint: disable=g-import-not-at-top,wrong-import-position

ID = "C11"
HMODULE = "H_C11"
USES_GEN = True
RULE = ("every class of tensorflow_lattice/python with get_config (39 today, found by the translator, not listed "
        "by hand): sig = inspect.signature(cls.__init__) compared in Coq with the translator's parameter list; "
        "obj = hand-written constructor scenarios (numeric values and some choices drawn from the seed) in which "
        "every optional argument is non-default in at least one scenario (coverage.optional_parameters_never_non_"
        "default lists the exceptions): rebuild via from_config and via a JSON round trip, compare configs, stored "
        "attributes (as named by the translator), Keras base state, variables and outputs after copying "
        "randomised weights; each non-default argument must leave a trace in the config; the observed config is "
        "compared in Coq with the model's get_config(init kw); flip = the class's first scenario with exactly one "
        "bool/int/float argument changed: round trip, and the change shows under its own key only; rtl_seed / "
        "ensemble_seed = same config + seed => same structure and outputs (per quick run 8 RTL cases: 4 with one "
        "dense tensor per key, 4 with a LIST of tensors per key = input groups of width 1-3, either key possibly "
        "absent, ranks 2-4, 2-6 lattices, fewer or more slots than features, both parameterizations, "
        "avoid_intragroup_interaction on/off; 4 random-ensemble cases with 2-5 lattices of rank 2-3 over 3-5 "
        "features); saveload = h5 save / load_model with "
        "premade.get_custom_objects() after 0,1,3 (thorough 0..5) training steps with legacy SGD: same outputs, same "
        "layers pass assert_constraints; plus, per run, the Keras archive format (.keras) with the non-legacy Adam "
        "optimizer for all five model kinds at a seed-drawn step 1-3, SavedModel (save_format='tf') for two kinds, "
        "h5 with Adam for one; on the .keras / h5 ones both the original and the reloaded model then train ONE MORE "
        "step on the same batch and must still agree (tolerance 1e-5: the restored optimizer state). Non-trivial = an obj case with at least one non-default optional argument, or any "
        "flip/seed/saveload case; distinct = distinct case descriptions.")
TRUSTED = [
    "translator harness/translators/gen_config.py (Python ast, fail-closed) regenerates Gen/GenConfig.v and the "
    "instantiations in Props/C11.v from /repo's source text on every run; the generic statements and proofs are "
    "hand-written in Proofs/ConfigRoundTrip.v over Model/ConfigModel.v",
    "oracle hypotheses of the round-trip theorems (Section variables, not axioms): wrappers without a concrete "
    "model (utils.canonicalize_*, keras.*.get, create_kernel_initializer, the regularizer-list loops ...) are "
    "idempotent functions of their argument; get(serialize(get(x))) = get(x); deserialize(serialize(x)) = x. "
    "They are exercised, not proved, by the obj cases (attributes of the rebuilt object are compared)",
    "Keras base-class keys are fixed as name/trainable/dtype/batch_input_shape (layers) and name/trainable "
    "(models) in Model/ConfigModel.v; checked against the running tf_keras by every obj case in Coq",
    "Keras/HDF5 serialisation machinery is runtime behaviour: observed (saveload cases), not modelled",
]
LIMITS = [
    "the model abstracts a wrapper's dependence on OTHER constructor arguments (e.g. create_kernel_initializer "
    "also reads lattice_sizes): covered by the executed round trips only",
    "Linear stores bias_regularizer always but reports it only when use_bias: the STATE theorem for Linear is "
    "guarded (C11_Linear_roundtrip_guarded: use_bias true or bias_regularizer left at its default); the config "
    "equality C11_Linear_config_stable is proved without guard",
    "pwl_calibration_layer.{LaplacianRegularizer,HessianRegularizer,WrinkleRegularizer,UniformOutputInitializer} "
    "are not in premade.get_custom_objects (LaplacianRegularizer clashes with lattice_layer's); they are resolved "
    "by PWLCalibration.__init__'s own scope and are outside C11_registry_covers_layers",
    "save formats: HDF5 (.h5, the one the repository's tests use with tf_keras legacy configs), the Keras archive "
    "(.keras) and SavedModel (save_format='tf') of the installed tf_keras 2.21: all three load the five saved model "
    "kinds with premade.get_custom_objects(); SavedModel is not run for the CDF model (its Input is named 'in', which "
    "the SavedModel signature rejects - a harness choice, not the library) and does not restore the optimizer "
    "object eagerly, so the resume comparison is skipped for it; weights-only files (save_weights / load_weights) "
    "are not exercised; optimizers: legacy SGD and non-legacy Adam only",
    "the generated theorems C11_<Class>_roundtrip / _config_stable are implications from three oracle hypotheses "
    "(Proofs/ConfigRoundTrip.v oracles_ok: idempotent wrappers, get(ser(get x)) = get x, deser(ser v) = v).  The "
    "third, deser(ser v) = v, is FALSE of the real code exactly in the case of known finding D31: "
    "tfl.layers.Aggregation whose `model` argument is a plain functional / Sequential keras.Model - "
    "Aggregation.from_config resolves the serialized inner model through the tfl custom objects only and raises "
    "ValueError \"Unknown object: 'Functional'\".  C11_Aggregation_roundtrip and C11_Aggregation_config_stable "
    "therefore say nothing about that argument class (they hold for an inner premade model, which is "
    "registered); the executed obj case `plain_functional_inner_model` is the witness and is reported as the "
    "known finding, it never reaches the output comparison",
    "seed-derived structure: C11_rtl_structure_deterministic / C11_random_ensemble_deterministic only say that the "
    "arguments the structure functions read survive the round trip; that the structure IS a function of them (and "
    "of the input shapes, not of global RNG state) is observed by the rtl_seed / ensemble_seed cases, not proved "
    "here (the RTL structure function itself is modelled in property C17)",
    "PWLCalibrationConstraints / KroneckerFactoredLatticeConstraints configs hold enum members / the scale "
    "variable: not JSON-serialisable, JSON leg skipped for them (Keras never writes these configs)",
]

TFL_MODULES = ["aggregation_layer", "categorical_calibration_layer", "cdf_layer", "configs",
               "kronecker_factored_lattice_layer", "lattice_layer", "linear_layer",
               "parallel_combination_layer", "premade", "pwl_calibration_layer", "rtl_layer"]


# ---------------------------------------------------------------------------
# JSON-able encoding of constructor arguments
# ---------------------------------------------------------------------------
def T(*xs):
  return {"__tuple__": list(xs)}


def O(path, **kw):
  return {"__obj__": path, "kwargs": kw}


def K(path, **kw):
  return {"__keras__": path, "kwargs": kw}


def E(path):
  return {"__enum__": path}


def DT(name):
  return {"__dtype__": name}


class Env(object):
  """Lazy handles on tf / tfl / keras."""

  def __init__(self):
    self.tf, self.tfl = tfimpl.tfl()
    from tensorflow_lattice.python import lattice_layer as ll  # pylint: disable=g-import-not-at-top
    self.keras = ll.keras
    self.mods = {m: importlib.import_module("tensorflow_lattice.python." + m) for m in TFL_MODULES}
    self.mods["pwl_calibration_lib"] = importlib.import_module("tensorflow_lattice.python.pwl_calibration_lib")
    self.mods["premade_lib"] = importlib.import_module("tensorflow_lattice.python.premade_lib")
    self.custom = self.mods["premade"].get_custom_objects()

  def cls(self, path):
    mod, name = path.split(".")
    return getattr(self.mods[mod], name)


_ENV = {}


def env():
  if "e" not in _ENV:
    _ENV["e"] = Env()
  return _ENV["e"]


def decode(x):
  e = env()
  if isinstance(x, dict):
    if "__tuple__" in x:
      return tuple(decode(v) for v in x["__tuple__"])
    if "__obj__" in x:
      return e.cls(x["__obj__"])(**{k: decode(v) for k, v in x["kwargs"].items()})
    if "__keras__" in x:
      obj = e.keras
      for part in x["__keras__"].split("."):
        obj = getattr(obj, part)
      return obj(**{k: decode(v) for k, v in x["kwargs"].items()})
    if "__enum__" in x:
      mod, cls, member = x["__enum__"].split(".")
      return getattr(getattr(e.mods[mod], cls), member)
    if "__dtype__" in x:
      return getattr(e.tf, x["__dtype__"])
    if "__model__" in x:
      return build_small_model(x["__model__"])
    return {k: decode(v) for k, v in x.items()}
  if isinstance(x, list):
    return [decode(v) for v in x]
  return x


def build_small_model(spec):
  """A tiny functional keras model (argument of tfl.layers.Aggregation)."""
  e = env()
  keras = e.keras
  inp = [keras.Input(shape=(1,), name="agg_in_%d" % i) for i in range(spec["n"])]
  calib = [e.cls("pwl_calibration_layer.PWLCalibration")(
      input_keypoints=spec["keypoints"], output_min=0.0, output_max=1.0, monotonicity="increasing",
      name="agg_calib_%d" % i)(x) for i, x in enumerate(inp)]
  out = e.cls("lattice_layer.Lattice")(lattice_sizes=[2] * spec["n"], name="agg_lattice")(calib)
  return keras.Model(inputs=inp, outputs=out, name=spec.get("name", "agg_inner"))


# ---------------------------------------------------------------------------
# normalisation for comparisons
# ---------------------------------------------------------------------------
def norm(x, loose=False, depth=0):
  """Structural, address-free image of a value.  loose=True identifies tuples
  with lists (what a JSON round trip does)."""
  e = env()
  if depth > 12:
    return ("deep",)
  if x is None or isinstance(x, (bool, str)):
    return x
  if isinstance(x, (int, float)):
    return float(x) if loose and not isinstance(x, bool) else x
  if isinstance(x, (np.integer,)):
    return float(x) if loose else int(x)
  if isinstance(x, (np.floating,)):
    return float(x)
  if isinstance(x, np.ndarray):
    return ("seq" if loose else "list", [norm(v, loose, depth + 1) for v in x.tolist()])
  if isinstance(x, (list, tuple)):
    tag = "seq" if loose else ("tuple" if isinstance(x, tuple) else "list")
    return (tag, [norm(v, loose, depth + 1) for v in x])
  if isinstance(x, dict):
    return ("dict", sorted((str(k), norm(v, loose, depth + 1)) for k, v in x.items()))
  if isinstance(x, enum.Enum):
    return ("enum", x.name)
  if isinstance(x, e.tf.DType):
    return ("dtype", x.name)
  if isinstance(x, (e.tf.Variable, e.tf.Tensor)):
    return ("tensor", norm(x.numpy(), loose, depth + 1))
  if hasattr(x, "get_config") and callable(x.get_config):
    try:
      return ("obj", type(x).__name__, norm(x.get_config(), loose, depth + 1))
    except Exception as ex:  # pylint: disable=broad-except
      return ("obj", type(x).__name__, "get_config raised %s" % type(ex).__name__)
  if callable(x):
    return ("callable", getattr(x, "__name__", type(x).__name__))
  return ("opaque", type(x).__name__)


def first_diff(a, b, path=""):
  if type(a) != type(b):  # pylint: disable=unidiomatic-typecheck
    return "%s: %r != %r" % (path, a, b)
  if isinstance(a, tuple) and len(a) >= 2 and isinstance(a[0], str) and a[0] in ("dict",):
    da, db = dict(a[1]), dict(b[1])
    for k in sorted(set(da) | set(db)):
      if k not in da or k not in db:
        return "%s: key %r only on one side" % (path, k)
      d = first_diff(da[k], db[k], path + "/" + k)
      if d:
        return d
    return None
  if isinstance(a, (tuple, list)):
    if len(a) != len(b):
      return "%s: %r != %r" % (path, a, b)
    for i, (x, y) in enumerate(zip(a, b)):
      d = first_diff(x, y, "%s[%d]" % (path, i))
      if d:
        return d
    return None
  if a != b and not (isinstance(a, float) and isinstance(b, float) and a != a and b != b):
    return "%s: %r != %r" % (path, a, b)
  return None


# ---------------------------------------------------------------------------
# scenarios
# ---------------------------------------------------------------------------
def dy(rng, lo, hi, denom=8):
  return rng.randint(int(lo * denom), int(hi * denom)) / float(denom)


def pos(rng, denom=8, hi=2.0):
  return rng.randint(1, int(hi * denom)) / float(denom)


def scenarios(rng):
  """List of dict(cls, name, kwargs, [layer evaluation info])."""
  S = []

  def add(cls, name, kwargs, **info):
    S.append(dict(kind="obj", cls=cls, name=name, kwargs=kwargs, info=info))

  lo = dy(rng, -2, 0)
  hi = lo + pos(rng, hi=3.0)
  a1, a2, a3 = pos(rng), pos(rng), pos(rng)

  # ---------------- Lattice
  L = "lattice_layer.Lattice"
  add(L, "defaults", dict(lattice_sizes=[2, 3]), shape=[2], rng=[0, 2])
  add(L, "all_scalar_options", dict(
      lattice_sizes=[2, 3, 2], units=2, monotonicities=["increasing", "none", 1], unimodalities=None,
      output_min=lo, output_max=hi, num_projection_iterations=rng.choice([3, 7, 12]),
      monotonic_at_every_step=False, clip_inputs=False, interpolation="simplex",
      kernel_initializer="random_monotonic_initializer",
      kernel_regularizer=[T("torsion", a1, a2), T("laplacian", [a1, a2, a3], 0.0)],
      name="my_lattice", dtype="float64", trainable=False), shape=[2, 3], rng=[0, 1], inrange=True)
  add(L, "single_tuple_trusts", dict(
      lattice_sizes=[2, 2, 2, 2], monotonicities=[1, 1, 0, 0],
      edgeworth_trusts=T(0, 2, "positive"), trapezoid_trusts=T(1, 3, "negative"),
      monotonic_dominances=T(0, 1), joint_monotonicities=T(2, 3),
      kernel_regularizer=T("torsion", 0.0, a1)), shape=[4], rng=[0, 1])
  add(L, "range_dominance_unimodal", dict(
      lattice_sizes=[2, 2, 3], monotonicities=["increasing", "increasing", "none"],
      unimodalities=[0, 0, "valley"], range_dominances=T(0, 1), output_min=lo, output_max=hi,
      kernel_initializer="linear_initializer",
      kernel_regularizer=O("lattice_layer.LaplacianRegularizer", lattice_sizes=[2, 2, 3], l1=[a1, a2, a3], l2=a2)),
      shape=[3], rng=[0, 1])
  add(L, "joint_unimodality_single_pair", dict(
      lattice_sizes=[3, 3, 2], joint_unimodalities=T(T(0, 1), "valley"),
      trapezoid_trusts=[T(2, 0, 1)] if False else None,
      kernel_initializer=O("lattice_layer.RandomMonotonicInitializer", lattice_sizes=[3, 3, 2],
                           output_min=lo, output_max=hi),
      kernel_regularizer=[K("regularizers.L2", l2=a1)]), shape=[3], rng=[0, 2])
  add(L, "list_trusts_strings", dict(
      lattice_sizes=[2, 2, 2], monotonicities=["increasing", "none", "increasing"],
      edgeworth_trusts=[T(0, 1, "negative"), T(2, 1, "positive")],
      monotonic_dominances=[T(0, 2)], units=3), shape=[3, 3], rng=[0, 1])

  # ---------------- PWLCalibration
  P = "pwl_calibration_layer.PWLCalibration"
  kp = sorted({dy(rng, -4, 4) for _ in range(6)})
  if len(kp) < 3:
    kp = [-1.0, 0.0, 2.5]
  add(P, "defaults", dict(input_keypoints=kp), shape=[1], rng=[kp[0] - 1, kp[-1] + 1])
  add(P, "missing_values_bounds", dict(
      input_keypoints=kp, units=2, output_min=lo, output_max=hi, clamp_min=True, clamp_max=True,
      monotonicity="increasing", convexity="none", kernel_initializer="equal_slopes",
      kernel_regularizer=[T("hessian", a1, a2), T("laplacian", a2, 0.0), T("wrinkle", 0.0, a3)],
      impute_missing=True, missing_input_value=-99.0, missing_output_value=dy(rng, -1, 1),
      num_projection_iterations=rng.choice([3, 5, 11]), split_outputs=True, name="my_pwl", dtype="float64",
      trainable=False),
      shape=[2], rng=[kp[0] - 1, kp[-1] + 1], missing=-99.0)
  add(P, "cyclic_convex_learned_missing", dict(
      input_keypoints=kp, is_cyclic=True, impute_missing=True, missing_input_value=-77.0,
      kernel_regularizer=T("hessian", 0.0, a1)), shape=[1], rng=[kp[0], kp[-1]], missing=-77.0)
  add(P, "convex_single_regularizer_object", dict(
      input_keypoints=kp, convexity="convex", output_min=lo,
      kernel_regularizer=O("pwl_calibration_layer.HessianRegularizer", l1=a1, l2=0.0, is_cyclic=False)),
      shape=[1], rng=[kp[0], kp[-1]])
  add(P, "learned_interior_decreasing", dict(
      input_keypoints=kp, monotonicity=-1, input_keypoints_type="learned_interior", output_min=lo,
      clamp_min=True, units=3, impute_missing=True, missing_input_value=-5.5,
      kernel_initializer=O("pwl_calibration_layer.UniformOutputInitializer", output_min=lo, output_max=hi,
                           monotonicity=-1, keypoints=kp),
      kernel_regularizer=[O("pwl_calibration_layer.WrinkleRegularizer", l1=a1, l2=a2, is_cyclic=False),
                          K("regularizers.L1", l1=a3)]),
      shape=[3], rng=[kp[0] - 1, kp[-1] + 1], missing=-5.5)
  add(P, "concave_output_max", dict(
      input_keypoints=T(*kp), convexity="concave", output_max=hi, clamp_max=True, monotonicity="decreasing",
      missing_output_value=None), shape=[1], rng=[kp[0] - 1, kp[-1] + 1])

  # ---------------- Linear
  N = "linear_layer.Linear"
  add(N, "defaults", dict(num_input_dims=3), shape=[3], rng=[-2, 2])
  add(N, "all_options", dict(
      num_input_dims=3, units=2, monotonicities=["increasing", "increasing", "none"],
      monotonic_dominances=[T(0, 1)], input_min=[0.0, None, -1.0], input_max=[1.0, 2.0, None],
      use_bias=True, normalization_order=None, kernel_initializer="ones",
      bias_initializer=K("initializers.Constant", value=a1), kernel_regularizer=[K("regularizers.L1", l1=a1), "l2"],
      bias_regularizer=K("regularizers.L2", l2=a2), name="my_linear", dtype="float64", trainable=False),
      shape=[2, 3], rng=[-2, 3])
  add(N, "no_bias_normalized_range", dict(
      num_input_dims=2, monotonicities=T(1, "increasing"), range_dominances=[T(0, 1)],
      input_min=[0.0, 0.0], input_max=[2.0, 1.0], use_bias=False, normalization_order=rng.choice([1, 2]),
      kernel_initializer=K("initializers.Constant", value=0.5), kernel_regularizer=["l1"]), shape=[2], rng=[-1, 3])
  add(N, "no_bias_with_bias_args", dict(
      num_input_dims=2, use_bias=False, bias_initializer="ones", bias_regularizer=["l2"], monotonicities="decreasing",
      units=2), shape=[2, 2], rng=[-1, 1])
  add(N, "scalar_monotonicity", dict(num_input_dims=4, monotonicities=1, normalization_order=1),
      shape=[4], rng=[-1, 1])

  # ---------------- CategoricalCalibration
  C = "categorical_calibration_layer.CategoricalCalibration"
  add(C, "defaults", dict(num_buckets=3), shape=[1], cat=3)
  add(C, "all_options", dict(
      num_buckets=4, units=2, output_min=lo, output_max=hi, monotonicities=[T(0, 1), T(1, 3)],
      kernel_initializer="constant", kernel_regularizer=["l1", K("regularizers.L2", l2=a1)],
      default_input_value=-1, split_outputs=True, name="my_cat", dtype="float64", trainable=False),
      shape=[2], cat=4, default=-1)
  add(C, "keras_initializer", dict(
      num_buckets=3, output_min=lo, kernel_initializer=K("initializers.Constant", value=hi),
      kernel_regularizer=K("regularizers.L1", l1=a2), default_input_value=7), shape=[1], cat=3, default=7)

  # "zeros" scenarios: optional arguments set to a value that is falsy but not None (0, 0.0): a get_config /
  # from_config written with a truthiness test (`v if v else None`) silently turns them into "not given"
  add(C, "zeros", dict(num_buckets=3, default_input_value=0, output_min=0.0), shape=[1], cat=3, default=0)
  add(C, "zeros_max", dict(num_buckets=3, units=2, output_max=0.0, default_input_value=0), shape=[2], cat=3, default=0)
  add(P, "zeros", dict(input_keypoints=kp, output_min=0.0, impute_missing=True, missing_input_value=0.0,
                       missing_output_value=0.0, num_projection_iterations=0),
      shape=[1], rng=[kp[0] - 1, kp[-1] + 1], missing=0.0)
  add(P, "zeros_max", dict(input_keypoints=kp, output_max=0.0, monotonicity=0, convexity=0),
      shape=[1], rng=[kp[0] - 1, kp[-1] + 1])
  add(L, "zeros", dict(lattice_sizes=[2, 2], output_min=0.0, monotonicities=[0, 0], num_projection_iterations=0,
                       kernel_regularizer=T("laplacian", 0.0, 0.0)), shape=[2], rng=[0, 1])
  add(L, "zeros_max", dict(lattice_sizes=[2, 2], output_min=-1.0, output_max=0.0), shape=[2], rng=[0, 1])
  add(N, "zeros", dict(num_input_dims=2, monotonicities=[0, 0], input_min=[0.0, None], input_max=[None, 0.0]),
      shape=[2], rng=[-2, 2])

  # ---------------- CDF
  D = "cdf_layer.CDF"
  add(D, "defaults", dict(num_keypoints=4), shape=[3], rng=[0, 1])
  add(D, "all_options", dict(
      num_keypoints=rng.choice([3, 5]), units=4, activation="sigmoid", reduction="geometric_mean",
      input_scaling_init=rng.choice([2, 3]), input_scaling_type="learned_per_input",
      input_scaling_monotonicity="none", sparsity_factor=2,
      kernel_initializer=K("initializers.RandomUniform", minval=0.25, maxval=0.75, seed=3),
      name="my_cdf", trainable=False), shape=[4], rng=[0, 1])
  add(D, "learned_shared_no_reduction", dict(
      num_keypoints=3, units=2, reduction="none", input_scaling_init=1.5, input_scaling_type="learned_shared",
      input_scaling_monotonicity=1), shape=[2], rng=[0, 1])

  # ---------------- KroneckerFactoredLattice
  F = "kronecker_factored_lattice_layer.KroneckerFactoredLattice"
  add(F, "defaults", dict(lattice_sizes=2), shape=[3], rng=[0, 1])
  add(F, "all_options", dict(
      lattice_sizes=3, units=2, num_terms=3, monotonicities=[1, 0, "increasing"], output_min=lo, output_max=hi,
      clip_inputs=False,
      kernel_initializer=O("kronecker_factored_lattice_layer.KFLRandomMonotonicInitializer",
                           monotonicities=[1, 0, 1], init_min=0.25, init_max=1.25, seed=5),
      scale_initializer=O("kronecker_factored_lattice_layer.ScaleInitializer", output_min=lo, output_max=hi),
      name="my_kfl", dtype="float64", trainable=False), shape=[2, 3], rng=[-1, 3])

  # ---------------- RTL
  R = "rtl_layer.RTL"
  add(R, "defaults", dict(num_lattices=3, lattice_rank=2), rtl=dict(unconstrained=3, increasing=2), rng=[0, 1])
  add(R, "zeros", dict(num_lattices=3, lattice_rank=2, output_min=0.0, random_seed=0),
      rtl=dict(unconstrained=3, increasing=2), rng=[0, 1])
  add(R, "all_options", dict(
      num_lattices=4, lattice_rank=3, lattice_size=3, output_min=lo, output_max=hi, init_min=lo, init_max=hi,
      separate_outputs=True, random_seed=rng.randint(0, 1000), num_projection_iterations=4,
      monotonic_at_every_step=False, clip_inputs=False, interpolation="simplex",
      avoid_intragroup_interaction=False, kernel_initializer="linear_initializer",
      kernel_regularizer=[T("torsion", a1, a2), T("laplacian", 0.0, a3)], name="my_rtl", trainable=False),
      rtl=dict(unconstrained=3, increasing=3), rng=[0, 2])
  add(R, "kfl_average", dict(
      num_lattices=3, lattice_rank=2, parameterization="kronecker_factored", num_terms=3,
      kernel_initializer="kfl_random_monotonic_initializer", average_outputs=True,
      random_seed=rng.randint(0, 1000)), rtl=dict(unconstrained=2, increasing=2), rng=[0, 1])

  # ---------------- ParallelCombination
  add("parallel_combination_layer.ParallelCombination", "two_layers", dict(
      calibration_layers=[
          O(P, input_keypoints=kp, output_min=lo, output_max=hi, impute_missing=True, missing_input_value=-99.0,
            missing_output_value=0.25),
          O(C, num_buckets=3, default_input_value=-1)],
      single_output=False, name="my_pc", trainable=False), shape=[2], pc=[("rng", kp[0], kp[-1]), ("cat", 3)])
  add("parallel_combination_layer.ParallelCombination", "defaults_single_output", dict(
      calibration_layers=[O(P, input_keypoints=kp), O(P, input_keypoints=kp, monotonicity="increasing")]),
      shape=[2], pc=[("rng", kp[0], kp[-1]), ("rng", kp[0], kp[-1])])

  # ---------------- Aggregation
  add("aggregation_layer.Aggregation", "premade_inner_model", dict(
      model=O("premade.CalibratedLattice", model_config=O(
          "configs.CalibratedLatticeConfig", feature_configs=small_features(rng, 2),
          output_initialization=[0.0, 1.0])), name="my_agg", trainable=False), agg=2, rng=[0, 2])
  add("aggregation_layer.Aggregation", "plain_functional_inner_model", dict(
      model={"__model__": dict(n=2, keypoints=[0.0, 1.0, 2.0])}), agg=2, rng=[0, 2])

  # ---------------- constraints
  add("lattice_layer.LatticeConstraints", "all_options", dict(
      lattice_sizes=[2, 2, 3, 2], monotonicities=["increasing", 1, 0, "none"], unimodalities=[0, 0, "valley", 0],
      edgeworth_trusts=[T(0, 3, "positive")], trapezoid_trusts=[T(1, 3, "negative")],
      monotonic_dominances=[T(0, 1)], range_dominances=[T(0, 1)], joint_monotonicities=[T(0, 3)],
      joint_unimodalities=None, output_min=lo, output_max=hi, num_projection_iterations=3,
      enforce_strict_monotonicity=False), weights=[24, 1])
  add("lattice_layer.LatticeConstraints", "joint_unimodal", dict(
      lattice_sizes=[3, 3], joint_unimodalities=[T(T(0, 1), "valley")]), weights=[9, 2])
  add("categorical_calibration_layer.CategoricalCalibrationConstraints", "all_options", dict(
      output_min=lo, output_max=hi, monotonicities=[T(0, 1), T(1, 2)]), weights=[3, 2])
  add("kronecker_factored_lattice_layer.KroneckerFactoredLatticeConstraints", "all_options", dict(
      units=2, scale=[[1.0, -0.5], [0.25, 2.0]], monotonicities=["increasing", 0, 1], output_min=lo, output_max=hi))
  add("kronecker_factored_lattice_layer.ScaleConstraints", "all_options", dict(output_min=lo, output_max=hi),
      weights=[2, 3])
  add("linear_layer.LinearConstraints", "all_options", dict(
      monotonicities=[1, 1, 1, 1], monotonic_dominances=[T(0, 1)], range_dominances=[T(2, 3)],
      input_min=[None, None, 0.0, 0.0], input_max=[None, None, 2.0, 1.0], normalization_order=rng.choice([1, 2])),
      weights=[4, 2])
  add("pwl_calibration_layer.PWLCalibrationConstraints", "all_options", dict(
      monotonicity="increasing", convexity="concave", lengths=[1.0, 0.5, 2.0], output_min=lo, output_max=hi,
      output_min_constraints=E("pwl_calibration_lib.BoundConstraintsType.CLAMPED"),
      output_max_constraints=E("pwl_calibration_lib.BoundConstraintsType.BOUND"),
      num_projection_iterations=rng.choice([2, 5])), weights=[4, 2])
  add("pwl_calibration_layer.PWLCalibrationConstraints", "defaults", dict())
  add("pwl_calibration_layer.NaiveBoundsConstraints", "all_options", dict(lower_bound=lo, upper_bound=hi),
      weights=[4, 2])

  # ---------------- initializers
  add("lattice_layer.LinearInitializer", "all_options", dict(
      lattice_sizes=[2, 3, 3], monotonicities=["increasing", "none", 0], output_min=lo, output_max=hi,
      unimodalities=[0, 0, "valley"]), init_shape=[18, 2])
  add("lattice_layer.RandomMonotonicInitializer", "all_options", dict(
      lattice_sizes=[2, 3], output_min=lo, output_max=hi, unimodalities=[0, "peak"]))
  add("kronecker_factored_lattice_layer.KFLRandomMonotonicInitializer", "all_options", dict(
      monotonicities=[1, 0], init_min=0.25, init_max=2.5, seed=11))
  add("kronecker_factored_lattice_layer.ScaleInitializer", "all_options", dict(output_min=lo, output_max=hi),
      init_shape=[2, 3])
  add("kronecker_factored_lattice_layer.BiasInitializer", "all_options", dict(output_min=lo, output_max=None),
      init_shape=[2])
  add("pwl_calibration_layer.UniformOutputInitializer", "all_options", dict(
      output_min=lo, output_max=hi, monotonicity="decreasing", keypoints=kp), init_shape=[len(kp), 2])

  # ---------------- regularizers
  for nm in ("TorsionRegularizer", "LaplacianRegularizer"):
    add("lattice_layer." + nm, "per_dimension", dict(lattice_sizes=[2, 3, 2], l1=[a1, a2, a3], l2=[a3, 0.0, a1]),
        weights=[12, 2])
    add("lattice_layer." + nm, "scalar", dict(lattice_sizes=T(3, 3), l1=a2, l2=a1), weights=[9, 1])
  for nm in ("LaplacianRegularizer", "HessianRegularizer", "WrinkleRegularizer"):
    add("pwl_calibration_layer." + nm, "all_options", dict(l1=a1, l2=a2, is_cyclic=True), weights=[6, 2])

  # ---------------- configs
  reg = lambda name: O("configs.RegularizerConfig", name=name, l1=a1, l2=a2)  # pylint: disable=unnecessary-lambda-assignment
  add("configs.RegularizerConfig", "all_options", dict(name="calib_hessian", l1=a1, l2=a2))
  add("configs.TrustConfig", "all_options", dict(feature_name="g", trust_type="trapezoid", direction="negative"))
  add("configs.DominanceConfig", "all_options", dict(feature_name="g", dominance_type="range"))
  fc_full = dict(
      name="f", is_missing_name="f_missing", default_value=-1.5, lattice_size=3, monotonicity="increasing",
      unimodality="valley", reflects_trust_in=[O("configs.TrustConfig", feature_name="g", trust_type="trapezoid",
                                                 direction=-1)],
      dominates=[O("configs.DominanceConfig", feature_name="g", dominance_type="range")],
      pwl_calibration_always_monotonic=True, pwl_calibration_convexity="convex", pwl_calibration_num_keypoints=5,
      pwl_calibration_input_keypoints=kp, pwl_calibration_input_keypoints_type="learned_interior",
      pwl_calibration_clip_min=lo, pwl_calibration_clip_max=hi, pwl_calibration_clamp_min=True,
      pwl_calibration_clamp_max=True, num_buckets=3, vocabulary_list=["a", "b", "c"],
      regularizer_configs=[reg("calib_wrinkle"), reg("torsion")])
  add("configs.FeatureConfig", "all_options", fc_full)
  feats = [O("configs.FeatureConfig", **fc_full), O("configs.FeatureConfig", name="g", monotonicity=1)]
  common_out = dict(output_min=lo, output_max=hi, output_calibration=True, output_calibration_num_keypoints=4,
                    output_initialization=[lo, hi], output_calibration_input_keypoints_type="learned_interior")
  add("configs.CalibratedLatticeEnsembleConfig", "all_options", dict(
      feature_configs=feats, lattices=[["f", "g"], ["g", "f"]], num_lattices=2, lattice_rank=2,
      interpolation="simplex", parameterization="kronecker_factored", num_terms=4, separate_calibrators=False,
      use_linear_combination=True, use_bias=True, regularizer_configs=[reg("calib_laplacian")],
      fix_ensemble_for_2d_constraints=False, random_seed=rng.randint(1, 99), **common_out))
  add("configs.CalibratedLatticeConfig", "all_options", dict(
      feature_configs=feats, interpolation="simplex", parameterization="kronecker_factored", num_terms=5,
      regularizer_configs=[reg("laplacian")], random_seed=rng.randint(1, 99), **common_out))
  add("configs.CalibratedLinearConfig", "all_options", dict(
      feature_configs=feats, regularizer_configs=[reg("calib_hessian")], use_bias=False, **common_out))
  add("configs.AggregateFunctionConfig", "all_options", dict(
      feature_configs=feats, regularizer_configs=[reg("torsion")], middle_dimension=3, middle_lattice_size=3,
      middle_calibration=True, middle_calibration_num_keypoints=6,
      middle_calibration_input_keypoints_type="learned_interior", middle_monotonicity="increasing",
      middle_lattice_interpolation="simplex", aggregation_lattice_interpolation="simplex", **common_out))

  # ---------------- premade models (config round trip here; save/load separately)
  S.extend(premade_scenarios(rng))
  return S


def small_features(rng, n, **extra):
  out = []
  for i in range(n):
    kp = [0.0, 1.0, 2.0, 3.0]
    d = dict(name="x%d" % i, pwl_calibration_input_keypoints=kp, pwl_calibration_num_keypoints=len(kp),
             lattice_size=2)
    if i == 0:
      d["monotonicity"] = "increasing"
    d.update(extra)
    out.append(O("configs.FeatureConfig", **d))
  return out


def premade_scenarios(rng):
  S = []
  seed = rng.randint(1, 50)
  S.append(dict(kind="obj", cls="premade.CalibratedLattice", name="output_calibration", kwargs=dict(
      model_config=O("configs.CalibratedLatticeConfig", feature_configs=small_features(rng, 2),
                     output_min=-1.0, output_max=1.0, output_calibration=True, output_calibration_num_keypoints=3,
                     output_initialization=[-1.0, 1.0],
                     regularizer_configs=[O("configs.RegularizerConfig", name="calib_hessian", l2=0.125),
                                          O("configs.RegularizerConfig", name="torsion", l2=0.25)]),
      name="my_premade_lattice", trainable=False), info=dict(premade=2, rng=[0, 3])))
  # feature-level AND model-level calibration regularizers (building the model must not change the feature configs)
  S.append(dict(kind="obj", cls="premade.CalibratedLattice", name="feature_and_model_regularizers", kwargs=dict(
      model_config=O("configs.CalibratedLatticeConfig",
                     feature_configs=small_features(rng, 2, regularizer_configs=[
                         O("configs.RegularizerConfig", name="calib_wrinkle", l2=0.5)]),
                     output_initialization=[0.0, 1.0],
                     regularizer_configs=[O("configs.RegularizerConfig", name="calib_hessian", l2=0.125),
                                          O("configs.RegularizerConfig", name="calib_laplacian", l1=0.25)])),
      info=dict(premade=2, rng=[0, 3])))
  S.append(dict(kind="obj", cls="premade.CalibratedLinear", name="no_bias", kwargs=dict(
      model_config=O("configs.CalibratedLinearConfig", feature_configs=small_features(rng, 3), use_bias=False,
                     output_min=0.0, output_max=2.0, output_initialization=[0.0, 2.0]),
      name="my_premade_linear", trainable=False), info=dict(premade=3, rng=[0, 3])))
  S.append(dict(kind="obj", cls="premade.CalibratedLatticeEnsemble", name="rtl_layer", kwargs=dict(
      model_config=O("configs.CalibratedLatticeEnsembleConfig", feature_configs=small_features(rng, 4),
                     lattices="rtl_layer", num_lattices=3, lattice_rank=2, random_seed=seed,
                     output_initialization=[0.0, 1.0], use_linear_combination=True, use_bias=True)),
      info=dict(premade=4, rng=[0, 3])))
  S.append(dict(kind="obj", cls="premade.CalibratedLatticeEnsemble", name="explicit_lattices", kwargs=dict(
      model_config=O("configs.CalibratedLatticeEnsembleConfig", feature_configs=small_features(rng, 3),
                     lattices=[["x0", "x1"], ["x1", "x2"]], separate_calibrators=False,
                     output_initialization=[0.0, 1.0], interpolation="simplex"),
      name="my_ensemble", trainable=False), info=dict(premade=3, rng=[0, 3])))
  S.append(dict(kind="obj", cls="premade.AggregateFunction", name="small", kwargs=dict(
      model_config=O("configs.AggregateFunctionConfig", feature_configs=small_features(rng, 2), middle_dimension=2,
                     middle_calibration=True, middle_calibration_num_keypoints=3, middle_monotonicity="increasing",
                     output_min=0.0, output_max=1.0,
                     output_initialization=[0.0, 1.0]),
      name="my_aggfn", trainable=False), info=dict(premade_ragged=2, rng=[0, 3])))
  return S


# ---------------------------------------------------------------------------
# class table: the translator's, or (when it no longer covers the source, which
# run_property already reports as a broken tie) a reflection-based stand-in so
# that the search for a failing constructor call still runs
# ---------------------------------------------------------------------------
_TABLE = {}


def class_table():
  if "t" in _TABLE:
    return _TABLE["t"]
  try:
    data = gen_config.extract(os.environ.get("VERIF_REPO", "/repo"))
    table = {"%s.%s" % (c["module"], c["name"]): c for c in data["classes"]}
    _TABLE["t"] = (table, True)
  except (gen_config.Uncovered, SyntaxError):
    _TABLE["t"] = (reflect_table(), False)
  return _TABLE["t"]


def reflect_table():
  e = env()
  keras = e.keras
  kinds = [(keras.Model, "model"), (keras.layers.Layer, "layer"), (keras.constraints.Constraint, "constraint"),
           (keras.initializers.Initializer, "initializer"), (keras.regularizers.Regularizer, "regularizer"),
           (e.mods["configs"]._Config, "config")]  # pylint: disable=protected-access
  table = {}
  for m in TFL_MODULES:
    for name, cls in sorted(vars(e.mods[m]).items()):
      if not inspect.isclass(cls) or cls.__module__ != e.mods[m].__name__ or name.startswith("_"):
        continue
      kind = next((k for b, k in kinds if issubclass(cls, b)), None)
      if kind is None or not ("get_config" in vars(cls) or kind == "config"):
        continue
      params = []
      for p in list(inspect.signature(cls.__init__).parameters.values())[1:]:
        if p.kind == p.POSITIONAL_OR_KEYWORD:
          params.append((p.name, None if p.default is inspect.Parameter.empty else ["unknown"]))
      table["%s.%s" % (m, name)] = dict(
          name=name, module=m, kind=kind, params=params, emits=[],
          stores=[dict(param=p, attr=p, how="Direct", wrapper=None, cond=None) for p, _ in params])
  return table


# ---------------------------------------------------------------------------
# descs
# ---------------------------------------------------------------------------
def gen_descs(ctx):
  rng = ctx.rng
  table, _ = class_table()
  descs = []
  for path in sorted(table):
    descs.append(dict(kind="sig", cls=path))
  sc = scenarios(rng)
  for _ in range(ctx.n(1, 5)):  # the same structures with other numeric values / choices
    sc.extend(s for s in scenarios(rng) if not s["cls"].startswith("premade.") and "premade." not in json.dumps(s))
  descs.extend(sc)
  descs.extend(flip_descs(sc, table))
  # seed determinism
  for i in range(ctx.n(8, 24)):
    if i % 2 == 0:
      # one dense tensor per key: every column is its own input group
      nl, lr, n_unc = rng.choice([3, 5]), rng.choice([2, 3]), rng.choice([2, 3])
      n_inc = min(rng.choice([2, 4]), nl * lr - n_unc)  # the layer rejects more features than lattice slots
      descs.append(dict(kind="rtl_seed", seed=rng.randint(0, 10 ** 6), num_lattices=nl, lattice_rank=lr,
                        n_unc=n_unc, n_inc=n_inc, avoid=rng.choice([True, False])))
    else:
      # a LIST of tensors per key (a tensor of width w = one input group of w features: what
      # avoid_intragroup_interaction is about), either key possibly absent, ranks up to 4, more or fewer slots than
      # features (fill-up by repetition), both parameterizations
      nl, lr = rng.choice([2, 3, 4, 6]), rng.choice([2, 3, 4])
      unc = [rng.choice([1, 2, 3, 3]) for _ in range(rng.choice([0, 1, 1, 2]))]
      inc = [rng.choice([1, 2, 2, 3]) for _ in range(rng.choice([0, 1, 1, 2]))]
      while sum(unc) + sum(inc) > nl * lr:
        (unc if len(unc) >= len(inc) else inc).pop()
      if len(unc) + len(inc) < 2 or max(unc + inc) < 2:
        # at least two groups, one of them with several features: only then can the swap loop of
        # avoid_intragroup_interaction (and with it the seed-derived structure) do anything
        unc, inc = [2], [1]
      descs.append(dict(kind="rtl_seed", seed=rng.randint(0, 10 ** 6), num_lattices=nl, lattice_rank=lr,
                        unc_groups=unc, inc_groups=inc, avoid=rng.random() < 0.85,
                        param=rng.choice(["all_vertices", "kronecker_factored"])))
  for i in range(ctx.n(4, 12)):
    if i == 0:
      descs.append(dict(kind="ensemble_seed", seed=rng.randint(0, 10 ** 6), num_lattices=rng.choice([2, 3]),
                        lattice_rank=2, n=rng.choice([3, 4])))
    else:
      # more / fewer lattice slots than features (set_random_lattice_ensemble fills up by repetition), rank 3
      lr = rng.choice([2, 3])
      n = rng.choice([3, 4, 5])
      nl = rng.choice([k for k in (2, 3, 4, 5) if k * lr >= n])
      descs.append(dict(kind="ensemble_seed", seed=rng.randint(0, 10 ** 6), num_lattices=nl, lattice_rank=lr, n=n))
  # save / load
  steps_list = [0, 1, 3] if ctx.tier == "quick" else [0, 1, 2, 3, 4, 5]
  for model in ("calibrated_lattice", "calibrated_linear", "rtl", "ensemble_rtl"):
    descs.append(dict(kind="saveload", model=model, steps=steps_list, seed=rng.randint(0, 10 ** 6)))
  if ctx.tier == "thorough":
    for model in ("calibrated_lattice", "ensemble_rtl", "rtl"):
      descs.append(dict(kind="saveload", model=model, steps=steps_list, seed=rng.randint(0, 10 ** 6)))
  descs.append(dict(kind="saveload", model="cdf", steps=[0, 1], seed=rng.randint(0, 10 ** 6)))
  # the Keras v3 archive format (.keras) with the (stateful, non-legacy) Adam optimizer, every model kind, saved at
  # a seed-drawn training step; afterwards BOTH models train one more step on the same batch (resume: the restored
  # optimizer state matters) and must still agree; SavedModel for two kinds; h5 with Adam for one
  more = [(m, "keras", "adam") for m in ("calibrated_lattice", "calibrated_linear", "rtl", "ensemble_rtl", "cdf")]
  more += [(rng.choice(["calibrated_lattice", "calibrated_linear"]), "tf", "adam"),
           (rng.choice(["rtl", "ensemble_rtl"]), "tf", "sgd"),
           (rng.choice(["calibrated_lattice", "rtl"]), "h5", "adam")]
  for model, fmt, opt in more:
    st = [rng.choice([1, 2, 3])] if ctx.tier == "quick" else [0, 2, 5]
    descs.append(dict(kind="saveload", model=model, steps=st, seed=rng.randint(0, 10 ** 6), fmt=fmt, opt=opt,
                      resume=fmt != "tf"))
  descs.append(dict(kind="premade_dtype"))
  return descs


# ---------------------------------------------------------------------------
# evaluation helpers
# ---------------------------------------------------------------------------
def rebuild(cls, cfg):
  """cls.from_config(cfg) with the tfl custom objects."""
  e = env()
  cfg = copy.deepcopy(cfg)
  with e.keras.utils.custom_object_scope(e.custom):
    fc = getattr(cls, "from_config", None)
    if fc is None:
      return cls(**cfg)
    try:
      params = inspect.signature(fc).parameters
    except (TypeError, ValueError):
      params = {}
    if "custom_objects" in params:
      return fc(cfg, custom_objects=e.custom)
    return fc(cfg)


def json_roundtrip(cfg):
  e = env()
  try:
    from tf_keras.src.saving.legacy.saved_model import json_utils  # pylint: disable=g-import-not-at-top
    default = json_utils.get_json_type
  except Exception:  # pylint: disable=broad-except
    default = None
  return json.loads(json.dumps(cfg, default=default))


def plain_json_ok(cfg):
  try:
    json.dumps(cfg)
    return True
  except (TypeError, ValueError):
    return False


def make_inputs(info, rng_np, dtype, n=7):
  """Generated inputs for a layer scenario (dense / categorical / rtl dict /
  list-of-columns for premade models)."""
  e = env()
  tf = e.tf
  lo, hi = info.get("rng", [0, 1])
  if "cat" in info:
    shape = [n] + info["shape"]
    x = rng_np.integers(0, info["cat"], size=shape).astype(np.float64)
    if "default" in info:
      x[0] = info["default"]
    x[1] = info["cat"] - 1
    return tf.constant(x.astype(np.int32))
  if "rtl" in info:
    return {k: tf.constant(rng_np.integers(int(lo * 8), int(hi * 8) + 1, size=(n, m)) / 8.0, dtype=dtype)
            for k, m in info["rtl"].items()}
  if "pc" in info:
    cols = []
    for spec in info["pc"]:
      if spec[0] == "rng":
        cols.append(rng_np.integers(int(spec[1] * 8), int(spec[2] * 8) + 1, size=(n,)) / 8.0)
      else:
        cols.append(rng_np.integers(0, spec[1], size=(n,)).astype(np.float64))
    return tf.constant(np.stack(cols, axis=1), dtype=dtype)
  if "agg" in info:
    return [tf.ragged.constant([[float(v) for v in rng_np.integers(0, 17, size=(k + 1,)) / 8.0]
                                for k in range(n)], dtype=dtype) for _ in range(info["agg"])]
  if "premade" in info:
    return [tf.constant(rng_np.integers(int(lo * 8), int(hi * 8) + 1, size=(n, 1)) / 8.0, dtype=dtype)
            for _ in range(info["premade"])]
  if "premade_ragged" in info:
    return [tf.ragged.constant([[float(v) for v in rng_np.integers(0, 25, size=(k % 3 + 1,)) / 8.0]
                                for k in range(n)], dtype=dtype) for _ in range(info["premade_ragged"])]
  shape = [n] + info["shape"]
  pad = 0 if info.get("inrange") else 1
  x = rng_np.integers(int((lo - pad) * 8), int((hi + pad) * 8) + 1, size=shape) / 8.0
  x[0] = lo
  x[1] = hi
  if "missing" in info:
    x[2] = info["missing"]
  if info.get("nan_missing"):
    x[2] = np.nan
  return tf.constant(x, dtype=dtype)


def flat_outputs(y):
  e = env()
  if isinstance(y, dict):
    return [a for k in sorted(y) for a in flat_outputs(y[k])]
  if isinstance(y, (list, tuple)):
    return [a for v in y for a in flat_outputs(v)]
  if isinstance(y, e.tf.RaggedTensor):
    y = y.to_tensor()
  return [np.asarray(y, dtype=np.float64)]


def outputs_equal(a, b, tol=1e-6):
  fa, fb = flat_outputs(a), flat_outputs(b)
  if len(fa) != len(fb):
    return "different number of outputs: %d vs %d" % (len(fa), len(fb))
  for i, (x, y) in enumerate(zip(fa, fb)):
    if x.shape != y.shape:
      return "output %d: shape %s vs %s" % (i, x.shape, y.shape)
    if not np.allclose(x, y, rtol=tol, atol=tol, equal_nan=True):
      j = np.unravel_index(np.argmax(np.abs(np.nan_to_num(x - y))), x.shape) if x.size else ()
      return "output %d differs at %s: %r vs %r" % (i, j, x[j] if x.size else None, y[j] if y.size else None)
  return None


def randomize_weights(obj, rng_np):
  """Distinct dyadic values in every variable so that a weight copy matters."""
  ws = obj.get_weights()
  new = []
  for w in ws:
    r = rng_np.integers(-8, 9, size=w.shape) / 16.0
    new.append((w + r).astype(w.dtype))
  obj.set_weights(new)


def var_signature(obj):
  return [(v.name.split("/")[-1], tuple(v.shape), v.dtype.name, bool(v.trainable)) for v in obj.weights]


def compare_layers(obj, other, info, rng_np, label):
  """Builds both on the same inputs, copies weights, compares variables and outputs."""
  dtype = getattr(obj, "dtype", None) or "float32"
  x = make_inputs(info, rng_np, dtype)
  y0 = obj(x)
  other(x)
  randomize_weights(obj, rng_np)
  s1, s2 = var_signature(obj), var_signature(other)
  if s1 != s2:
    return "%s: variables differ: %r vs %r" % (label, s1, s2)
  other.set_weights(obj.get_weights())
  d = outputs_equal(obj(x), other(x))
  if d:
    return "%s: outputs differ on the same inputs with the same weights: %s" % (label, d)
  del y0
  return None


def call_on_weights(obj, info, kind, rng_np):
  e = env()
  tf = e.tf
  if kind in ("constraint", "regularizer") and "weights" in info:
    w = tf.constant(rng_np.integers(-16, 17, size=info["weights"]) / 8.0, dtype=tf.float32)
    return obj(w)
  if kind == "initializer" and "init_shape" in info:
    return obj(shape=info["init_shape"], dtype=tf.float32)
  return None


def coq_kwargs(kw_py):
  items = []
  for k in kw_py:
    items.append("(%s, %s)" % (gen_config.coq_string(k), gen_config.coq_value(gen_config.py_value(kw_py[k]))))
  return "[" + "; ".join(items) + "]"


def is_nondefault(cls, kwargs_py):
  sig = inspect.signature(cls.__init__)
  n = 0
  for k, v in kwargs_py.items():
    p = sig.parameters.get(k)
    if p is None or p.default is inspect.Parameter.empty:
      continue
    if norm(v) != norm(p.default):
      n += 1
  return n


# ---------------------------------------------------------------------------
# case evaluators
# ---------------------------------------------------------------------------
def eval_sig(d, classes):
  e = env()
  cls = e.cls(d["cls"])
  mod, name = d["cls"].split(".")
  sig = inspect.signature(cls.__init__)
  params, var_kw = [], False
  for p in list(sig.parameters.values())[1:]:
    if p.kind == p.VAR_KEYWORD:
      var_kw = True
      continue
    if p.kind != p.POSITIONAL_OR_KEYWORD:
      return Case(d, pred_fail=None, klass="sig", coq="SigCase %s %s [] false" % (
          gen_config.coq_string(name + "?kind"), gen_config.coq_string(mod)))
    dv = "None" if p.default is inspect.Parameter.empty else "(Some %s)" % gen_config.coq_value(
        gen_config.py_value(p.default))
    params.append("(%s, %s)" % (gen_config.coq_string(p.name), dv))
  coq = "SigCase %s %s [%s] %s" % (gen_config.coq_string(name), gen_config.coq_string(mod), "; ".join(params),
                                   "true" if var_kw else "false")
  return Case(d, coq=coq, klass="sig", nontrivial=False)


def stored_attr_diffs(tr, obj, other, loose):
  out = []
  if tr["kind"] in ("layer", "model"):
    # state kept by the Keras base class
    for a in ("name", "trainable") + (("dtype",) if tr["kind"] == "layer" else ()):
      if getattr(obj, a, None) != getattr(other, a, None):
        out.append("Keras base attribute %s differs after rebuild: %r != %r" % (
            a, getattr(obj, a, None), getattr(other, a, None)))
  hidden = dict(gen_config.hidden_pairs(tr))
  attr_of = {s["param"]: s["attr"] for s in tr["stores"]}
  for s in tr["stores"]:
    a = s["attr"]
    if s["param"] in hidden and not getattr(obj, attr_of.get(hidden[s["param"]], ""), True):
      continue  # stored but (by get_config's own `if self.<cond>`) not reported: see LIMITS
    ha, hb = hasattr(obj, a), hasattr(other, a)
    if ha != hb:
      out.append("attribute %s (parameter %s) exists on one side only" % (a, s["param"]))
      continue
    if not ha:
      continue
    dd = first_diff(norm(getattr(obj, a), loose), norm(getattr(other, a), loose), a)
    if dd:
      out.append("attribute of parameter %s differs after rebuild: %s" % (s["param"], dd))
  return out


def arg_effect_failures(cls, d, tr, obj, cfg):
  """Omitting one optional argument that the scenario sets to a non-default value must change
  get_config() (otherwise the argument is ignored or forgotten).  Arguments that the class itself
  ignores under a false condition (`if use_bias:`) are exempt, as named by the translator."""
  out = []
  sig = inspect.signature(cls.__init__)
  stores = {s["param"]: s for s in tr["stores"]}
  hidden = dict(gen_config.hidden_pairs(tr))
  attr_of = {s["param"]: s["attr"] for s in tr["stores"]}
  ref = norm({k: v for k, v in cfg.items() if k != "name"})
  for k in sorted(d["kwargs"]):
    p = sig.parameters.get(k)
    if p is None or p.default is inspect.Parameter.empty:
      continue
    if norm(decode(d["kwargs"][k])) == norm(p.default):
      continue
    cond = stores.get(k, {}).get("cond") or hidden.get(k)
    if cond is not None and not getattr(obj, attr_of.get(cond, cond), True):
      continue
    if k not in stores and k not in tr.get("dropped", []):
      continue  # forwarded to the Keras base class (name, trainable, dtype): compared through the config
    try:
      other = cls(**{a: decode(v) for a, v in d["kwargs"].items() if a != k})
      cfg2 = other.get_config()
    except Exception:  # pylint: disable=broad-except
      continue  # the scenario is not valid without this argument
    st = stores.get(k)
    if st is not None and st["how"] == "Wrapped" and hasattr(obj, st["attr"]) and hasattr(other, st["attr"]) \
        and norm(getattr(obj, st["attr"])) == norm(getattr(other, st["attr"])):
      continue  # a canonicaliser maps the given value to the same stored value as the default (synonym)
    if norm({a: v for a, v in cfg2.items() if a != "name"}) == ref:
      out.append("constructor argument %s=%r leaves no trace in get_config() (same config as when it is "
                 "omitted)" % (k, d["kwargs"][k]))
  return out


def eval_obj(d, classes, seed, translated=True):
  e = env()
  keras = e.keras
  cls = e.cls(d["cls"])
  mod, name = d["cls"].split(".")
  tr = classes[d["cls"]]
  info = d.get("info", {})
  kind = tr["kind"]
  rng_np = np.random.default_rng(seed)
  call = "%s(%s)" % (d["cls"], ", ".join("%s=%r" % (k, v) for k, v in sorted(d["kwargs"].items())))
  fails = []
  coq = None
  tb = None
  nd = 0
  try:
    kw = {k: decode(v) for k, v in d["kwargs"].items()}
    obj = cls(**kw)
    nd = is_nondefault(cls, kw)
    cfg = obj.get_config()
    # ---- in-Coq comparison of the observed config with the model's
    if kind == "layer":
      base_keys = sorted(keras.layers.Layer.get_config(obj).keys())
    else:
      base_keys = []
    own = {k: v for k, v in cfg.items() if k not in base_keys}
    coq = "ObjCase %s %s %s %s %s" % (
        gen_config.coq_string(name), gen_config.coq_string(mod), coq_kwargs(kw), coq_kwargs(own),
        "[" + "; ".join(gen_config.coq_string(k) for k in base_keys) + "]")
    # ---- from_config(get_config())
    try:
      other = rebuild(cls, cfg)
    except Exception as ex:  # pylint: disable=broad-except
      other = None
      fails.append("from_config(get_config()) raised %s: %s" % (type(ex).__name__, str(ex)[:300]))
    if other is not None:
      dd = first_diff(norm(cfg), norm(other.get_config()), "config")
      if dd:
        fails.append("get_config() of the rebuilt object differs: %s" % dd)
      fails.extend(stored_attr_diffs(tr, obj, other, loose=False))
      if kind in ("layer", "model") and info:
        r = compare_layers(obj, other, info, rng_np, "rebuilt from config")
        if r:
          fails.append(r)
      elif kind in ("constraint", "regularizer", "initializer"):
        if kind == "initializer":
          e.tf.random.set_seed(seed)
        y1 = call_on_weights(obj, info, kind, rng_np2(seed))
        if kind == "initializer":
          e.tf.random.set_seed(seed)
        y2 = call_on_weights(other, info, kind, rng_np2(seed))
        if y1 is not None:
          r = outputs_equal(y1, y2)
          if r:
            fails.append("rebuilt %s computes a different result: %s" % (kind, r))
    # ---- every explicitly given non-default argument must leave a trace in get_config()
    if kind != "model" and translated:
      fails.extend(arg_effect_failures(cls, d, tr, obj, cfg))
    # ---- JSON leg
    needs_json = kind in ("layer", "model", "config") or plain_json_ok(cfg)
    if needs_json:
      try:
        cfg_j = json_roundtrip(cfg)
        third = rebuild(cls, cfg_j)
      except Exception as ex:  # pylint: disable=broad-except
        third = None
        fails.append("rebuild from json.loads(json.dumps(get_config())) raised %s: %s" % (
            type(ex).__name__, str(ex)[:300]))
      if third is not None:
        dd = first_diff(norm(cfg, True), norm(third.get_config(), True), "config")
        if dd:
          fails.append("after a JSON round trip get_config() differs: %s" % dd)
        fails.extend("JSON: " + m for m in stored_attr_diffs(tr, obj, third, loose=True))
        if kind in ("layer", "model") and info and not fails:
          r = compare_layers(obj, third, info, rng_np, "rebuilt from JSON config")
          if r:
            fails.append(r)
  except Exception as ex:  # pylint: disable=broad-except
    import traceback  # pylint: disable=g-import-not-at-top
    fails.append("scenario could not be evaluated: %s: %s" % (type(ex).__name__, " ".join(str(ex).split())[:300]))
    tb = traceback.format_exc()[-1500:]
  return Case(d, coq=coq, pred_fail=("%s  [call: %s]" % ("; ".join(fails[:3]), call[:600])) if fails else None,
              nontrivial=nd > 0, klass="obj_%s_%s" % (kind, "nondefault" if nd else "default"),
              info={"call": call, "failures": fails, "traceback": tb})


def rng_np2(seed):
  return np.random.default_rng(seed + 17)


def flip_value(v):
  if isinstance(v, bool):
    return not v
  if isinstance(v, int):
    return v + 1
  if isinstance(v, float):
    return v + 0.25
  return None


def flip_descs(scen, table):
  """One desc per (class, optional bool/int/float parameter): the class's first scenario with exactly
  that parameter changed.  Premade models are skipped (built in their own scenarios)."""
  e = env()
  out, seen = [], set()
  for s in scen:
    path = s["cls"]
    if path in seen or path not in table or table[path]["kind"] == "model":
      continue
    seen.add(path)
    sig = inspect.signature(e.cls(path).__init__)
    for pname, p in sig.parameters.items():
      if p.default is inspect.Parameter.empty or p.kind != p.POSITIONAL_OR_KEYWORD:
        continue
      bv = decode(s["kwargs"][pname]) if pname in s["kwargs"] else p.default
      if flip_value(bv) is None:
        continue
      out.append(dict(kind="flip", cls=path, kwargs=s["kwargs"], param=pname))
  return out


def eval_flip(d, classes):
  """Changing exactly one argument: the round trip must still hold, the change must show in the config
  under the argument's own key and must not change unrelated plain entries."""
  e = env()
  path, pname = d["cls"], d["param"]
  cls = e.cls(path)
  tr = classes[path]
  p = inspect.signature(cls.__init__).parameters.get(pname)
  if p is None:
    return Case(d, klass="flip_param_gone", nontrivial=False)
  try:
    bv = decode(d["kwargs"][pname]) if pname in d["kwargs"] else p.default
    nv = flip_value(bv)
    kw = {k: decode(v) for k, v in d["kwargs"].items()}
    kw[pname] = nv
    call = "%s(**%r)" % (path, {**d["kwargs"], pname: nv})
    obj = cls(**kw)
  except Exception:  # pylint: disable=broad-except
    return Case(d, klass="flip_rejected_by_constructor", nontrivial=False)
  msgs = []
  try:
    cfg = obj.get_config()
    other = rebuild(cls, cfg)
    dd = first_diff(norm(cfg), norm(other.get_config()), "config")
    if dd:
      msgs.append("get_config() of the rebuilt object differs: %s" % dd)
    msgs.extend(stored_attr_diffs(tr, obj, other, loose=False))
    cfg0 = cls(**{k: decode(v) for k, v in d["kwargs"].items()}).get_config()
    changed = sorted(k for k in set(cfg0) | set(cfg) if k != "name" and
                     norm(cfg0.get(k, "<absent>")) != norm(cfg.get(k, "<absent>")))
    if pname not in cfg:
      msgs.append("constructor argument %s does not appear in get_config()" % pname)
    elif pname not in changed:
      msgs.append("changing constructor argument %s from %r to %r leaves get_config()[%r] = %r" % (
          pname, bv, nv, pname, cfg[pname]))
    emits = {em["key"]: em for em in tr.get("emits", [])}
    attr_of = {st["param"]: st["attr"] for st in tr["stores"]}
    for k in changed:
      em = emits.get(k)
      if k == pname or em is None or em["src"] != "Attr" or em["cond"] == attr_of.get(pname):
        continue
      msgs.append("changing only constructor argument %s also changes the plain config entry %r "
                  "(%r -> %r)" % (pname, k, cfg0.get(k), cfg.get(k)))
  except Exception as ex:  # pylint: disable=broad-except
    msgs = ["round trip raised %s: %s" % (type(ex).__name__, " ".join(str(ex).split())[:200])]
  return Case(d, pred_fail=("%s  [call: %s]" % ("; ".join(msgs[:3]), call[:500])) if msgs else None,
              klass="flip_%s" % tr["kind"], info={"call": call, "failures": msgs})


def extra(ctx, stats):
  """Coverage figure: optional parameters that no scenario / flip sets to a non-default value."""
  e = env()
  table, translated = class_table()
  covered = {}
  for d in _LAST_DESCS:
    if d.get("kind") not in ("obj", "flip") or d["cls"] not in table:
      continue
    try:
      sig = inspect.signature(e.cls(d["cls"]).__init__)
    except Exception:  # pylint: disable=broad-except
      continue
    if d["kind"] == "flip":
      covered.setdefault(d["cls"], set()).add(d["param"])
    for k, v in d["kwargs"].items():
      p = sig.parameters.get(k)
      if p is not None and p.default is not inspect.Parameter.empty and norm(decode(v)) != norm(p.default):
        covered.setdefault(d["cls"], set()).add(k)
  uncovered = []
  for path, tr in sorted(table.items()):
    for pn, dflt in tr["params"]:
      if dflt is not None and pn not in covered.get(path, set()):
        uncovered.append("%s.%s" % (path, pn))
  stats["optional_parameters_never_non_default"] = uncovered
  stats["translator_covers_source"] = translated
  stats["classes"] = len(table)
  return []


_LAST_DESCS = []


def eval_rtl_seed(d):
  e = env()
  tf = e.tf
  RTL = e.cls("rtl_layer.RTL")
  rng_np = np.random.default_rng(d["seed"])
  kw = dict(num_lattices=d["num_lattices"], lattice_rank=d["lattice_rank"], random_seed=d["seed"],
            avoid_intragroup_interaction=d["avoid"])
  if d.get("param"):
    kw["parameterization"] = d["param"]
    if d["param"] == "kronecker_factored":
      # the default 'random_monotonic_initializer' is documented as not supported with this parameterization
      kw["kernel_initializer"] = "kfl_random_monotonic_initializer"
  fails = []
  try:
    a, b = RTL(**kw), RTL.from_config(RTL(**kw).get_config())
    if "unc_groups" in d:
      x = {}
      for key, groups in (("unconstrained", d["unc_groups"]), ("increasing", d["inc_groups"])):
        if groups:
          x[key] = [tf.constant(rng_np.integers(0, 9, size=(7, w)) / 8.0, dtype="float32") for w in groups]
    else:
      info = dict(rtl=dict(unconstrained=d["n_unc"], increasing=d["n_inc"]), rng=[0, 1])
      x = make_inputs(info, rng_np, "float32")
    a(x)
    np.random.seed(12345)  # the structure must not depend on the global NumPy state
    b(x)
    sa, sb = norm(a._rtl_structure), norm(b._rtl_structure)  # pylint: disable=protected-access
    if sa != sb:
      fails.append("same config and seed give different RTL structures: %r vs %r" % (sa, sb))
    randomize_weights(a, rng_np)
    if var_signature(a) != var_signature(b):
      fails.append("variables differ: %r vs %r" % (var_signature(a), var_signature(b)))
    else:
      b.set_weights(a.get_weights())
      r = outputs_equal(a(x), b(x))
      if r:
        fails.append("same config, seed and weights give different outputs: %s" % r)
    c = RTL(**dict(kw, random_seed=d["seed"] + 1))
    c(x)
    differs = norm(c._rtl_structure) != sa  # pylint: disable=protected-access
  except Exception as ex:  # pylint: disable=broad-except
    fails.append("raised %s: %s" % (type(ex).__name__, str(ex)[:300]))
    differs = False
  return Case(d, pred_fail="RTL(%r): %s" % (kw, "; ".join(fails)) if fails else None,
              klass="rtl_seed_groups" if "unc_groups" in d else "rtl_seed",
              info={"other_seed_gives_other_structure": differs})


def eval_ensemble_seed(d):
  e = env()
  premade, configs, plib = e.mods["premade"], e.mods["configs"], e.mods["premade_lib"]
  fails = []
  try:
    def mk():
      feats = [decode(f) for f in small_features(None, d["n"])]
      mc = configs.CalibratedLatticeEnsembleConfig(
          feature_configs=feats, lattices="random", num_lattices=d["num_lattices"],
          lattice_rank=d["lattice_rank"], random_seed=d["seed"] % 100000, output_initialization=[0.0, 1.0])
      plib.set_random_lattice_ensemble(mc)
      return mc
    m1 = mk()
    np.random.seed(999)
    m2 = mk()
    if norm(m1.lattices, True) != norm(m2.lattices, True):
      fails.append("same seed, different random lattices: %r vs %r" % (m1.lattices, m2.lattices))
    a = premade.CalibratedLatticeEnsemble(m1)
    b = premade.CalibratedLatticeEnsemble.from_config(json_roundtrip(a.get_config()), custom_objects=e.custom)
    r = compare_layers(a, b, dict(premade=d["n"], rng=[0, 3]), np.random.default_rng(d["seed"]),
                       "random ensemble rebuilt from JSON config")
    if r:
      fails.append(r)
  except Exception as ex:  # pylint: disable=broad-except
    fails.append("raised %s: %s" % (type(ex).__name__, str(ex)[:300]))
  return Case(d, pred_fail="random ensemble %r: %s" % (d, "; ".join(fails)) if fails else None,
              klass="ensemble_seed")


def build_saveload_model(d):
  e = env()
  keras, tf = e.keras, e.tf
  premade, configs = e.mods["premade"], e.mods["configs"]
  n = 3
  if d["model"] == "calibrated_lattice":
    feats = [decode(f) for f in small_features(None, n)]
    feats[1].reflects_trust_in = [configs.TrustConfig("x0", "edgeworth", "positive")]
    feats[1].monotonicity = "none"
    mc = configs.CalibratedLatticeConfig(
        feature_configs=feats, output_min=-1.0, output_max=1.0, output_initialization=[-1.0, 1.0],
        regularizer_configs=[configs.RegularizerConfig("calib_wrinkle", l2=0.125),
                             configs.RegularizerConfig("torsion", l2=0.25)])
    return premade.CalibratedLattice(mc), n, False
  if d["model"] == "calibrated_linear":
    feats = [decode(f) for f in small_features(None, n, monotonicity="increasing")]
    mc = configs.CalibratedLinearConfig(
        feature_configs=feats, use_bias=False, output_min=0.0, output_max=2.0, output_calibration=True,
        output_calibration_num_keypoints=3, output_initialization=[0.0, 2.0])
    return premade.CalibratedLinear(mc), n, False
  if d["model"] == "ensemble_rtl":
    feats = [decode(f) for f in small_features(None, 4)]
    mc = configs.CalibratedLatticeEnsembleConfig(
        feature_configs=feats, lattices="rtl_layer", num_lattices=3, lattice_rank=2,
        random_seed=d["seed"] % 1000, output_min=0.0, output_max=1.0, output_initialization=[0.0, 1.0],
        use_linear_combination=True)
    return premade.CalibratedLatticeEnsemble(mc), 4, False
  if d["model"] == "rtl":
    P = e.cls("pwl_calibration_layer.PWLCalibration")
    inputs = [keras.Input(shape=(1,), name="in_%d" % i) for i in range(4)]
    cal = [P(input_keypoints=[0.0, 1.0, 2.0, 3.0], output_min=0.0, output_max=1.0,
             monotonicity="increasing" if i >= 2 else "none", name="cal_%d" % i)(x)
           for i, x in enumerate(inputs)]
    rtl = e.cls("rtl_layer.RTL")(num_lattices=3, lattice_rank=2, output_min=0.0, output_max=1.0,
                                 random_seed=d["seed"] % 1000, separate_outputs=False, name="rtl")
    out = rtl({"unconstrained": cal[:2], "increasing": cal[2:]})
    out = e.cls("linear_layer.Linear")(num_input_dims=3, monotonicities=[1, 1, 1], normalization_order=1,
                                       use_bias=False, name="lin")(out)
    m = keras.Model(inputs=inputs, outputs=out)
    m.use_legacy_config = True
    return m, 4, False
  if d["model"] == "cdf":
    inp = keras.Input(shape=(2,), name="in")
    out = e.cls("cdf_layer.CDF")(num_keypoints=4, units=2, input_scaling_type="learned_shared", name="cdf")(inp)
    return keras.Model(inputs=inp, outputs=out), 2, True
  raise ValueError(d["model"])


def constraints_ok(model):
  """assert_constraints() of every tfl layer (recursively); list of messages."""
  e = env()
  tf = e.tf
  bad = []
  for layer in model.layers:
    if hasattr(layer, "layers") and layer is not model:
      bad.extend(constraints_ok(layer))
    fn = getattr(layer, "assert_constraints", None)
    if fn is None:
      continue
    try:
      with tf.control_dependencies(fn(eps=1e-4)):
        pass
    except Exception as ex:  # pylint: disable=broad-except
      bad.append("%s: %s" % (layer.name, str(ex)[:200]))
  return bad


def count_constrained(model):
  n = 0
  for layer in model.layers:
    if hasattr(layer, "layers") and layer is not model:
      n += count_constrained(layer)
    if getattr(layer, "assert_constraints", None) is not None:
      n += 1
  return n


def eval_saveload(ctx, d):
  e = env()
  keras, tf = e.keras, e.tf
  fails = []
  done = []
  tb = None
  checked_layers = 0
  resumed = False
  fmt, opt = d.get("fmt", "h5"), d.get("opt", "sgd")
  try:
    tf.random.set_seed(d["seed"] % 10000)
    rng_np = np.random.default_rng(d["seed"])
    model, n, single = build_saveload_model(d)
    N = 32
    if single:
      xs = rng_np.integers(0, 9, size=(N, n)) / 8.0
      ex = rng_np.integers(-4, 13, size=(9, n)) / 8.0
    else:
      xs = [rng_np.integers(0, 25, size=(N, 1)) / 8.0 for _ in range(n)]
      ex = [rng_np.integers(-4, 29, size=(9, 1)) / 8.0 for _ in range(n)]
    ys = rng_np.integers(-8, 9, size=(N, 1)) / 4.0
    if d["model"] == "cdf":
      ys = np.repeat(ys, 2, axis=1)
    fmt, opt = d.get("fmt", "h5"), d.get("opt", "sgd")
    model.compile(loss="mse", optimizer=keras.optimizers.legacy.SGD(0.3) if opt == "sgd"
                  else keras.optimizers.Adam(0.125))
    trained = 0
    for steps in d["steps"]:
      while trained < steps:
        model.train_on_batch(xs, ys)
        trained += 1
      path = os.path.join(ctx.scratch, "m_%s_%d_%d.%s" % (d["model"], d["seed"], steps,
                                                           {"h5": "h5", "keras": "keras", "tf": "savedmodel"}[fmt]))
      if fmt == "tf":
        keras.models.save_model(model, path, save_format="tf")
      else:
        keras.models.save_model(model, path)   # the format follows the extension (.h5 / .keras)
      loaded = keras.models.load_model(path, custom_objects=e.mods["premade"].get_custom_objects())
      r = outputs_equal(model(ex), loaded(ex))
      if r:
        fails.append("after %d training step(s): reloaded model computes different outputs: %s" % (steps, r))
      s1, s2 = var_signature(model), var_signature(loaded)
      if [x[1:] for x in s1] != [x[1:] for x in s2]:
        fails.append("after %d step(s): reloaded variables differ: %r vs %r" % (steps, s1, s2))
      # constraint satisfaction must be PRESERVED: the same layers pass before and after.  (Whether a
      # fresh, untrained layer passes at all is property C10's business, not this one's.)
      b0, b1 = constraints_ok(model), constraints_ok(loaded)
      n0 = sorted(m.split(":")[0] for m in b0)
      n1 = sorted(m.split(":")[0] for m in b1)
      if n0 != n1:
        fails.append("after %d step(s): assert_constraints fails for layers %r before saving but for %r after "
                     "reloading: %s" % (steps, n0, n1, (b1 + b0)[:2]))
      checked_layers = max(checked_layers, count_constrained(model) - len(n0))
      done.append(steps)
      if fmt == "tf":
        shutil.rmtree(path, ignore_errors=True)
      else:
        os.remove(path)
      if d.get("resume") and steps == d["steps"][-1]:
        # training resumes from the reloaded model as from the original: one more step on the same batch
        model.train_on_batch(xs, ys)
        loaded.train_on_batch(xs, ys)
        trained += 1
        r = outputs_equal(model(ex), loaded(ex), tol=1e-5)
        if r:
          fails.append("one more training step after the reload at step %d (optimizer %s): the reloaded model and "
                       "the original compute different outputs: %s" % (steps, opt, r))
        resumed = True
  except Exception as ex:  # pylint: disable=broad-except
    import traceback  # pylint: disable=g-import-not-at-top
    fails.append("save/load raised %s: %s" % (type(ex).__name__, " ".join(str(ex).split())[:300]))
    tb = traceback.format_exc()[-1500:]
  return Case(d, pred_fail="save/load of %s model: %s" % (d["model"], "; ".join(fails[:3])) if fails else None,
              klass="saveload_%s%s" % (d["model"], "" if (fmt, opt) == ("h5", "sgd") else "_%s_%s" % (fmt, opt)),
              info={"steps_checked": done, "format": fmt, "optimizer": opt, "resumed_training_compared": resumed,
                    "layers_passing_assert_constraints": checked_layers, "traceback": tb})


def eval_premade_dtype(d):
  """Witness of known finding D23 (premade models drop their dtype argument)."""
  e = env()
  tf = e.tf
  premade, configs = e.mods["premade"], e.mods["configs"]
  feats = [decode(f) for f in small_features(None, 2)]
  mc = configs.CalibratedLatticeConfig(feature_configs=feats, output_initialization=[0.0, 1.0])
  m = premade.CalibratedLattice(mc, dtype=tf.float64)
  m2 = premade.CalibratedLattice.from_config(m.get_config(), custom_objects=e.custom)
  d1 = sorted({l.dtype for l in m.layers if hasattr(l, "assert_constraints")})
  d2 = sorted({l.dtype for l in m2.layers if hasattr(l, "assert_constraints")})
  fail = None
  if d1 != d2:
    fail = ("premade.CalibratedLattice(model_config, dtype=tf.float64): layers of the model rebuilt by "
            "from_config(get_config()) have dtype %s instead of %s (dtype is in neither get_config nor "
            "from_config)" % (d2, d1))
  return Case(d, pred_fail=fail, klass="premade_dtype", info={"dtypes": [d1, d2]})


def _is_premade_dtype(case):
  """D23, identified by its witness call and its symptom: the fixed premade_dtype case (CalibratedLattice built with
  dtype=tf.float64, rebuilt by from_config(get_config())), the original's constrained layers are all float64 and the
  rebuilt ones all float32 (any other dtype pattern, or any other clause of that case, is reported)."""
  if case.desc.get("kind") != "premade_dtype":
    return False
  info = case.info if isinstance(case.info, dict) else {}
  return ([list(x) for x in info.get("dtypes", [])] == [["float64"], ["float32"]] and
          (case.pred_fail or "").startswith("premade.CalibratedLattice(model_config, dtype=tf.float64): layers of the "
                                            "model rebuilt by from_config(get_config()) have dtype ['float32'] "
                                            "instead of ['float64']"))


_D31_LEGS = ("from_config(get_config()) raised ValueError: Unknown object: 'Functional'.",
             "rebuild from json.loads(json.dumps(get_config())) raised ValueError: Unknown object: 'Functional'.")


def _is_aggregation_plain_model(case):
  """D31: Aggregation whose inner model is a plain FUNCTIONAL keras model (build_small_model; the desc argument is
  {'__model__': ...}) cannot be rebuilt: from_config resolves the inner model through custom_objects only. Every
  recorded failure must be one of the two rebuild legs (direct / after the JSON round trip) raising exactly
  ValueError "Unknown object: 'Functional'"; a rebuilt object that differs, another exception, or another unknown
  name is reported."""
  d = case.desc
  if d.get("kind") != "obj" or d.get("cls") != "aggregation_layer.Aggregation":
    return False
  model = d.get("kwargs", {}).get("model")
  if not (isinstance(model, dict) and "__model__" in model):
    return False
  fails = case.info.get("failures", []) if isinstance(case.info, dict) else []
  return bool(fails) and len(fails) <= 2 and all(any(f.startswith(leg) for leg in _D31_LEGS) for f in fails)


KNOWN_CLASSES = {"premade_dtype_dropped": _is_premade_dtype,
                 "aggregation_plain_keras_model": _is_aggregation_plain_model}


def eval_cases(ctx, descs):
  e = env()
  classes, translated = class_table()
  del _LAST_DESCS[:]
  _LAST_DESCS.extend(descs)
  cases = []
  for i, d in enumerate(descs):
    kind = d.get("kind")
    seed = ctx.seed * 7919 + i
    if kind == "sig":
      cases.append(eval_sig(d, classes))
    elif kind == "obj":
      if d["cls"] not in classes:
        cases.append(Case(d, pred_fail=None, klass="obj_class_gone", nontrivial=False))
        continue
      cases.append(eval_obj(d, classes, seed, translated))
    elif kind == "flip":
      if d["cls"] not in classes:
        cases.append(Case(d, klass="flip_class_gone", nontrivial=False))
        continue
      cases.append(eval_flip(d, classes))
    elif kind == "rtl_seed":
      cases.append(eval_rtl_seed(d))
    elif kind == "ensemble_seed":
      cases.append(eval_ensemble_seed(d))
    elif kind == "saveload":
      cases.append(eval_saveload(ctx, d))
    elif kind == "premade_dtype":
      cases.append(eval_premade_dtype(d))
    else:
      cases.append(Case(d, pred_fail="unknown case kind %r" % kind, klass="unknown"))
    if kind in ("saveload", "ensemble_seed"):
      e.keras.backend.clear_session()
  if not translated:
    for c in cases:
      c.coq = None  # Gen/GenConfig.v is stale: nothing to compare with in Coq
  return cases
