"""C05 - Calibration layers evaluate exactly the function their weights describe."""
from fractions import Fraction

import numpy as np
from common import Case, cq, cql, cqm, clist, cnat, copt, cbool, cz, frac
import tfimpl

ID = "C05"
HMODULE = "H_C05"
FUNCTIONAL = True  # the property states output == formula; a disagreement is a failing input
RULE = ("random PWLCalibration layers (2-6 strictly increasing dyadic keypoints with unequal gaps, units 1-3, "
        "single-column and per-unit inputs, cyclic (including cyclic layers with exactly 2 keypoints, i.e. a one-row "
        "kernel, built with kernel_initializer='zeros'), split_outputs, impute_missing by value / by is_missing tensor "
        "(flags 0, 1 and non-binary values 0.25, 0.5, 2, -0.5) "
        "with learned or fixed missing output, tensor and list input forms, 'fixed' keypoints in float64 and - about "
        "a fifth of them, ~10% of all cases, class suffix _f32 - in float32, the layer's DEFAULT dtype (kernel "
        "magnitude 4, no 2^-22 keypoint gap, tolerance 1e-5), "
        "'learned_interior' keypoints (initial and assigned logits in +-1.5; float64 layers: four in ten assigned logit "
        "sets in +-6, class suffix _wide) in float32 / float64, dyadic kernels of five classes) "
        "called on a batch mixing inputs ON keypoints, between, just/far outside (up to +-1e6), equal to "
        "missing_input_value; rejected calls (ValueError on the layer, None in the model): [x, is_missing] or [x] "
        "without impute_missing, impute_missing without a source, wrong input columns, and an is_missing tensor "
        "whose shape differs from the inputs' ((batch,1) flags against (batch,units) inputs and vice versa, one "
        "column more or less, fewer rows); "
        "plus CategoricalCalibration layers (1-6 buckets, units 1-3, default_input_value in/out of range or None, "
        "int32/int64/uint8/float inputs, split_outputs) on in-range categories and the default value; float inputs "
        "carry fractions on either side of zero (2.875 -> 2, -0.5 -> bucket 0 or the default 0, -1.5 -> the default "
        "-1, default + 0.5 -> the default: truncation toward zero). The Coq model "
        "evaluates the same calls and keypoints_inputs()/keypoints_outputs(); independently the property's own "
        "formula (interpolation through (keypoint, cumulative sum), row lookup) is evaluated in exact fractions on "
        "the implementation's outputs, and the layer is called on its own reported keypoints. Non-trivial = PWL case "
        "with an input strictly between two keypoints or >= 3 keypoints, categorical case with >= 2 buckets; "
        "distinct = distinct (configuration, weights, inputs).")
TRUSTED = [
    "model: Model/PWLEval.v (hand-written from pwl_calibration_layer.py build/call/keypoints_inputs/"
    "keypoints_outputs and pwl_calibration_lib.compute_interpolation_weights), Model/CategoricalEval.v "
    "(categorical_calibration_layer.py call)",
    "softmax is an oracle (Section variable: same length, positive entries, sum 1); for execution its output is "
    "captured from tf.nn.softmax on the layer's logits and the three hypotheses are checked numerically per case",
    "tf.cast(float -> int32) is modelled as truncation toward zero; tf.one_hot as the 0/1 indicator row",
    "tie: real layers (float64, and float32 with tolerance 1e-5 carried by the case, for fixed keypoints; float32 "
    "- and float64 where the code path accepts it - for "
    "learned_interior; float32 and float64 for categorical) with assigned dyadic weights; call results, keypoints_inputs() and "
    "keypoints_outputs() compared in Coq; learned layers are compared in two stages (softmax -> tables, "
    "tables -> outputs) so that float32 rounding of the keypoints is not amplified by short segments",
]
LIMITS = [
    "float softmax underflow to a zero-length segment (0/0 exactly at that keypoint) is outside the model "
    "(generated logits keep every segment >= 1% of the range in float32 and >= ~6e-6 of it - logits in +-6 - in "
    "float64; for those _wide cases the Python-side tolerance grows with ulp(keypoint)/shortest segment, the "
    "in-Coq comparison keeps 1e-9)",
    "PWLCalibration(input_keypoints_type='learned_interior', dtype='float64') cannot be called at all on the "
    "current tree (compute_interpolation_weights concatenates a float32 tf.ones column with float64 weights); the "
    "learned path is then tied in float32 with tolerance 1e-5 (measured error <= 1e-6); once float64 works the "
    "same cases run in float64 at 1e-9 automatically (REQUIRE_LEARNED_F64 turns the fallback off)",
    "categorical indices that are, AFTER truncation toward zero, outside [0, num_buckets) and not "
    "default_input_value are outside the property and are not generated (the model returns 0 for them, as the "
    "one-hot code does); negative fractions are generated only where truncation lands on bucket 0 or on the default",
    "rejected calls are generated for fixed-keypoint layers only; an is_missing tensor of the right shape but another "
    "dtype, and lists of more than two tensors, are not generated",
]

GAPS = [0.25, 0.5, 1.0, 1.5, 2.0, 3.0]


# --------------------------------------------------------------------------
# generators
# --------------------------------------------------------------------------
def _kernel(rng, rows, units, klass, mag):
  K = [[0.0] * units for _ in range(rows)]
  for u in range(units):
    K[0][u] = tfimpl.dy(rng, -mag, mag)
    for r in range(1, rows):
      h = tfimpl.dy(rng, -mag, mag)
      if klass == "increasing":
        h = abs(h)
      elif klass == "decreasing":
        h = -abs(h)
      elif klass == "flat":
        h = 0.0 if rng.random() < 0.6 else h
      elif klass == "spike":
        h = rng.choice([-mag, mag, 0.125, -0.125])
      K[r][u] = h
  return K


def _gen_pwl(rng):
  learned = rng.random() < 0.3
  fixed32 = (not learned) and rng.random() < 0.19
  n = rng.randint(2, 5 if learned else 6)
  k0 = tfimpl.dy(rng, -4, 4, 4)
  ks = [k0]
  # one in eight fixed-keypoint layers has a pair of keypoints 2^-22 apart (a length "guard" such as
  # max(length, 1e-6) changes the function there); all values stay dyadic and exact in float64
  tiny_at = rng.randrange(n - 1) if (not learned and not fixed32 and rng.random() < 0.125) else None
  for j in range(n - 1):
    ks.append(ks[-1] + (2.0 ** -22 if j == tiny_at else rng.choice(GAPS)))
  units = rng.choice([1, 1, 2, 3])
  cols = 1 if units == 1 else rng.choice([1, units])
  # a cyclic layer with exactly 2 keypoints has a one-row kernel (bias only; the closing height is -sum([]) = 0);
  # the default initializer rejects that shape, so such layers are built with kernel_initializer="zeros"
  cyclic = rng.random() < (0.3 if n >= 3 else 0.4)
  klass = rng.choice(["random", "random", "increasing", "decreasing", "flat", "spike"])
  mag = 4.0 if (learned or fixed32) else 8.0
  kernel = _kernel(rng, n - (1 if cyclic else 0), units, klass, mag)
  if fixed32:
    # a few 2^-12 on top of the 1/8 grid: exact in float32, not in float16 / bfloat16
    kernel = [[v + rng.choice([0, 0, 1, -1, 3, -5]) * 2.0 ** -12 for v in row] for row in kernel]
  mode = rng.choice(["none", "none", "none", "value", "value", "flag", "flag", "both"])
  impute = mode != "none"
  miv = None
  if mode in ("value", "both"):
    # 0.0 is a falsy-but-set value (`if self.missing_input_value:` would drop it)
    miv = rng.choice([-1.0, 0.0, 0.0, ks[0], ks[-1], ks[rng.randrange(n)], ks[0] + 0.125, tfimpl.dy(rng, -6, 6), -100.0])
  mov, mow = None, []
  if impute:
    if rng.random() < 0.5:
      mov = 0.0 if rng.random() < 0.3 else tfimpl.dy(rng)
    else:
      mow = [tfimpl.dy(rng) for _ in range(units)]
  split = rng.random() < (0.35 if units > 1 else 0.15)
  if mode == "none":
    form = "tensor"
  elif mode == "value":
    form = rng.choice(["tensor", "tensor", "list1"])
  else:
    form = "list2"
  ldtype = rng.choice(["float64", "float64", "float32"]) if learned else ("float32" if fixed32 else "float64")
  logits = None
  wide = False
  if learned and rng.random() < 0.7:
    # float64 layers: four in ten draw the logits from +-6 (softmax entries down to ~6e-6, segments down to that
    # share of the keypoint range); float32 layers and the rest stay in +-1.5
    wide = ldtype == "float64" and rng.random() < 0.4
    lim = 6.0 if wide else 1.5
    logits = [[tfimpl.dy(rng, -lim, lim, 4) for _ in range(n - 1)] for _ in range(units)]
  # inputs (symbolic where they refer to keypoints; resolved against the layer's own keypoints)
  batch = rng.randint(5, 8)
  rows = []
  for _ in range(batch):
    row = []
    for c in range(cols):
      uref = c if cols > 1 else rng.randrange(units)
      r = rng.random()
      if r < 0.28:
        e = ["kp", rng.randrange(n), uref]
      elif r < 0.55:
        e = ["mid", rng.randrange(n - 1), rng.choice([0.25, 0.5, 0.75, 0.125]), uref]
      elif r < 0.67:
        e = ["off", rng.choice([0, n - 1]), rng.choice([-0.125, 0.125, -7.0, 9.0, -1.0, 2.0]), uref]
      elif r < 0.80 and miv is not None:
        e = ["v", miv]
      elif r < 0.9:
        e = ["off", rng.randrange(n), rng.choice([-0.125, 0.125]), uref]
      elif r < 0.96:
        e = ["v", tfimpl.dy(rng, -8, 8)]
      else:
        e = ["v", rng.choice([1e6, -1e6, 1048576.0, -999999.5])]   # exact in float32 and float64
      row.append(e)
    rows.append(row)
  ms = None
  if form == "list2":
    # is_missing is a float tensor mixed in linearly: values other than 0/1 (also outside [0, 1]) are defined
    ms = [[rng.choice([0.0, 0.0, 0.0, 1.0, 1.0, 1.0, 0.5, 0.25, 0.25, 2.0, -0.5]) for _ in range(cols)]
          for _ in range(batch)]
  d = dict(kind="pwl", learned=learned, ks=ks, units=units, cols=cols, cyclic=cyclic, kernel=kernel,
           impute=impute, miv=miv, mov=mov, mow=mow, split=split, form=form, logits=logits, dtype=ldtype,
           rows=rows, ms=ms, kclass=klass, err=None, wide=wide)
  # a few rejected calls (fixed keypoints only)
  if not learned and rng.random() < 0.12:
    e = rng.choice(["flag_without_impute", "impute_without_source", "bad_cols", "ms_wrong_cols", "ms_wrong_cols",
                    "ms_wrong_batch", "list1_without_impute"])
    if e == "flag_without_impute":
      d.update(impute=False, miv=None, mov=None, mow=[], form="list2",
               ms=[[0.0] * cols for _ in range(batch)], err=e)
    elif e == "impute_without_source":
      d.update(impute=True, miv=None, form="tensor", ms=None, err=e)
      if d["mov"] is None and not d["mow"]:
        d["mow"] = [0.5] * units
    elif e == "list1_without_impute":
      # [x] as a one-element list, layer not configured for missing values
      d.update(impute=False, miv=None, mov=None, mow=[], form="list1", ms=None, err=e)
    elif e in ("ms_wrong_cols", "ms_wrong_batch"):
      # [x, is_missing] with an is_missing tensor whose shape differs from the inputs' shape
      d.update(impute=True, form="list2", err=e)
      if d["mov"] is None and not d["mow"]:
        d["mow"] = [0.5] * units
      if e == "ms_wrong_batch":
        mrows, mcols = batch - rng.choice([1, 2]), cols
      elif cols > 1:
        mrows, mcols = batch, rng.choice([1, 1, cols - 1, cols + 1])   # (batch, 1) flags against (batch, units) inputs
      else:
        mrows, mcols = batch, (units if units > 1 and rng.random() < 0.6 else rng.choice([2, 3]))
      d["ms"] = [[rng.choice([0.0, 1.0]) for _ in range(mcols)] for _ in range(mrows)]
    else:
      d.update(units=3, cols=2, kernel=_kernel(rng, n - (1 if cyclic else 0), 3, "random", 8.0),
               rows=[[["v", 0.5], ["v", 1.0]] for _ in range(batch)], form="tensor" if form == "list2" else form,
               ms=None, err=e)
      if d["impute"] and d["miv"] is None:
        d["miv"] = -1.0
      if d["impute"] and d["mov"] is None:
        d["mow"] = [0.5] * 3
  return d


def _gen_cat(rng):
  nb = rng.randint(1, 6)
  units = rng.choice([1, 1, 2, 3])
  cols = 1 if units == 1 else rng.choice([1, units])
  dtype = rng.choice(["int32", "int32", "int64", "uint8", "float32", "float64"])
  default = rng.choice([None, -1, -1, nb - 1, 0, rng.randrange(nb), nb + 2, 100])
  if dtype == "uint8" and default is not None and default < 0:
    default = 200
  split = rng.random() < 0.35
  kernel = [[tfimpl.dy(rng) for _ in range(units)] for _ in range(nb)]
  batch = rng.randint(4, 8)
  rows = []
  for _ in range(batch):
    row = []
    for _ in range(cols):
      r = rng.random()
      if default is not None and r < 0.3:
        v = default
      elif r < 0.45:
        v = nb - 1
      elif r < 0.55:
        v = 0
      else:
        v = rng.randrange(nb)
      if dtype.startswith("float") and rng.random() < 0.45:
        # tf.cast(float -> int32) truncates TOWARD ZERO: 2.875 -> 2, -0.5 -> 0 (bucket 0, or the default when
        # default_input_value == 0), -1.5 -> -1 (the default when default_input_value == -1); applies to the
        # default value itself as well (default + 0.5 is the default)
        f = rng.choice([0.5, 0.25, 0.875])
        v = v + f if v > 0 else (v - f if v < 0 else rng.choice([f, -f, -f]))
      row.append(v)
    rows.append(row)
  return dict(kind="cat", nb=nb, units=units, cols=cols, dtype=dtype, ldtype=rng.choice(["float32", "float64"]),
              default=default, split=split,
              kernel=kernel, rows=rows)


def gen_descs(ctx):
  rng = ctx.rng
  out = []
  for _ in range(ctx.n(600, 8000)):
    out.append(_gen_cat(rng) if rng.random() < 0.25 else _gen_pwl(rng))
  return out


# --------------------------------------------------------------------------
# implementation runners + property predicate
# --------------------------------------------------------------------------
def _ref_pwl(kps, ys, x):
  """Piecewise-linear interpolation through (kps[i], ys[i]), constant outside. Fractions."""
  if x <= kps[0]:
    return ys[0]
  if x >= kps[-1]:
    return ys[-1]
  for j in range(len(kps) - 1):
    if kps[j] <= x <= kps[j + 1]:
      if kps[j + 1] == kps[j]:
        return None
      return ys[j] + (x - kps[j]) / (kps[j + 1] - kps[j]) * (ys[j + 1] - ys[j])
  return None


def _fr(a):
  return a if isinstance(a, Fraction) else frac(float(a))


def _close(a, b, tol):
  return abs(_fr(a) - _fr(b)) <= tol * max(1, abs(_fr(b)))


def _as_mats(y):
  if isinstance(y, (list, tuple)):
    return [[[float(v) for v in r] for r in t.numpy()] for t in y]
  return [[[float(v) for v in r] for r in y.numpy()]]


# When False, a 'learned_interior' case that asks for float64 falls back to float32 if the implementation
# cannot evaluate such a layer in float64 at all (compute_interpolation_weights builds its bias column with
# tf.ones(shape), float32, and concat fails). Set to True once that is repaired so that a regression is reported.
REQUIRE_LEARNED_F64 = True
_probe = {}


def _learned_f64_supported(tf, tfl):
  if "ok" not in _probe:
    try:
      layer = tfl.layers.PWLCalibration(input_keypoints=[0.0, 1.0, 3.0], dtype="float64",
                                        input_keypoints_type="learned_interior")
      layer(tf.constant([[0.5]], dtype=tf.float64))
      _probe["ok"] = True
    except Exception:  # pylint: disable=broad-except
      _probe["ok"] = False
  return _probe["ok"]


def _eval_pwl(tf, tfl, d):
  learned = d["learned"]
  if learned:
    f32 = d.get("dtype", "float32") == "float32" or not (REQUIRE_LEARNED_F64 or _learned_f64_supported(tf, tfl))
  else:
    f32 = d.get("dtype", "float64") == "float32"
  dt = np.float32 if f32 else np.float64
  units, cols, n = d["units"], d["cols"], len(d["ks"])
  # Python-side predicate tolerance. In float32 the reference is rebuilt from the REPORTED keypoints, whose
  # rounding (1 ulp of a value <= 20) is amplified by 1/length (>= 1% of the range) times the height (<= 16
  # for a cyclic closing height): up to ~8e-4. The in-Coq comparison works stage-wise and keeps 1e-5.
  # Fixed keypoints are exact in float32 (multiples of 1/4): only the arithmetic of the call rounds, 1e-5 relative.
  tol = (Fraction(5, 1000) if learned else Fraction(1, 10**5)) if f32 else Fraction(1, 10**9)
  wide = bool(d.get("wide")) and not f32
  layer = tfl.layers.PWLCalibration(
      input_keypoints=d["ks"], units=units, dtype="float32" if f32 else "float64",
      is_cyclic=d["cyclic"], impute_missing=d["impute"], missing_input_value=d["miv"],
      missing_output_value=d["mov"], split_outputs=d["split"],
      input_keypoints_type="learned_interior" if learned else "fixed",
      **({"kernel_initializer": "zeros"} if d["cyclic"] and n == 2 else {}))
  layer.build((None, cols))
  layer.kernel.assign(np.array(d["kernel"], dtype=dt))
  if d["impute"] and d["mov"] is None:
    layer.missing_output.assign(np.array([d["mow"]], dtype=dt))
  if learned and d["logits"] is not None:
    layer.interpolation_logits.assign(np.array(d["logits"], dtype=dt))
  kp_in = layer.keypoints_inputs().numpy()    # [n, units]
  kp_out = layer.keypoints_outputs().numpy()  # [n, units]
  fail = None
  if wide:
    # float64 with logits in +-6: the reference below is rebuilt from the REPORTED keypoints, whose rounding (an
    # ulp of the largest keypoint) is amplified by 1/length of the shortest segment times the largest height
    gaps = np.diff(kp_in.astype(np.float64), axis=0)
    if gaps.size and gaps.min() > 0:
      hmax = max(1.0, float(np.abs(np.array(d["kernel"])[1:]).sum(axis=0).max()) if len(d["kernel"]) > 1 else 1.0)
      amp = 8 * 2.0 ** -52 * max(1.0, float(np.abs(kp_in).max())) / float(gaps.min()) * hmax
      tol = max(tol, frac(float(2.0 ** np.ceil(np.log2(amp)))))
  if layer.kernel.dtype.base_dtype.name != np.dtype(dt).name or kp_out.dtype != np.dtype(dt):
    fail = "layer built with dtype=%s has a %s kernel and reports %s keypoint outputs" % (
        np.dtype(dt).name, layer.kernel.dtype.base_dtype.name, kp_out.dtype.name)
  if kp_in.shape != (n, units) or kp_out.shape != (n, units):
    return Case(d, coq=None, klass="pwl_bad_keypoint_shape",
                pred_fail="keypoints_inputs()/keypoints_outputs() have shapes %r/%r, not [num_keypoints=%d, units=%d]"
                % (kp_in.shape, kp_out.shape, n, units))

  def resolve(e):
    if e[0] == "v":
      return dt(e[1])
    if e[0] == "kp":
      return dt(kp_in[e[1]][e[2]])
    if e[0] == "mid":
      a, b = dt(kp_in[e[1]][e[3]]), dt(kp_in[e[1] + 1][e[3]])
      return dt(a + dt(e[2]) * dt(b - a))
    if e[0] == "off":
      return dt(dt(kp_in[e[1]][e[3]]) + dt(e[2]))
    raise ValueError(e)

  x = np.array([[resolve(e) for e in row] for row in d["rows"]], dtype=dt)
  xt = tf.constant(x)
  if d["form"] == "tensor":
    arg = xt
  elif d["form"] == "list1":
    arg = [xt]
  else:
    arg = [xt, tf.constant(np.array(d["ms"], dtype=dt))]
  out = None
  try:
    out = _as_mats(layer(arg))
  except ValueError:
    out = None
  except Exception as e:  # pylint: disable=broad-except
    fail = "call raised %s: %s" % (type(e).__name__, str(e)[:200])
  if d["err"] is None and out is None and fail is None:
    fail = "call raised ValueError on a valid configuration/input"

  # ---- the property's own formula on the implementation's output -------
  kps_u = [[frac(kp_in[j][u]) for j in range(n)] for u in range(units)]
  ys_u = []
  for u in range(units):
    acc, ys = Fraction(0), []
    for r in d["kernel"]:
      acc += frac(r[u])
      ys.append(acc)
    if d["cyclic"]:
      ys.append(ys[0])
    ys_u.append(ys)
  mo = [frac(d["mov"]) if d["mov"] is not None else (frac(d["mow"][u]) if d["mow"] else None) for u in range(units)]
  between = False
  if out is not None and fail is None:
    full = out[0] if len(out) == 1 else [[m[b][0] for m in out] for b in range(len(x))]
    want_split = units > 1 and d["split"]
    if (len(out) != (units if want_split else 1)) or any(len(r) != units for r in full) or len(full) != len(x):
      fail = "output structure is not %s" % ("a list of [batch,1] per unit" if want_split else "[batch, units]")
    else:
      for b in range(len(x)):
        for u in range(units):
          c = u if cols > 1 else 0
          xv = frac(x[b][c])
          ref = _ref_pwl(kps_u[u], ys_u[u], xv)
          if ref is None:
            continue
          if kps_u[u][0] < xv < kps_u[u][-1] and all(xv != k for k in kps_u[u]):
            between = True
          clause = "interpolation through (keypoint, cumulative kernel sum)"
          if d["impute"]:
            if d["ms"] is not None:
              m = frac(d["ms"][b][c])
              clause = "is_missing mixing"
            else:
              m = Fraction(1) if xv == frac(d["miv"]) else Fraction(0)
              clause = "missing_input_value -> missing output" if m else clause
            ref = m * mo[u] + (1 - m) * ref
          if not _close(full[b][u], ref, tol):
            fail = "%s: unit %d input %r: layer returned %r, formula gives %r" % (
                clause, u, float(x[b][c]), full[b][u], float(ref))
  # ---- "hence monotone / bounded at every input": direct clauses on the implementation's outputs ----
  if out is not None and fail is None:
    def flag(b, c):
      """is_missing weight of entry (b, c): None when it is outside [0, 1] (the clause does not speak about it)."""
      if not d["impute"]:
        return Fraction(0)
      if d["ms"] is not None:
        m = frac(d["ms"][b][c])
        return m if 0 <= m <= 1 else None
      return Fraction(1) if frac(x[b][c]) == frac(d["miv"]) else Fraction(0)
    for u in range(units):
      c = u if cols > 1 else 0
      ys = ys_u[u]
      inc = all(ys[j] <= ys[j + 1] for j in range(len(ys) - 1))
      dec = all(ys[j] >= ys[j + 1] for j in range(len(ys) - 1))
      lo, hi = min(ys), max(ys)
      for b in range(len(x)):
        m = flag(b, c)
        if m is None:
          continue
        blo, bhi = (min(lo, mo[u]), max(hi, mo[u])) if m > 0 else (lo, hi)
        if not blo - tol * max(1, abs(blo)) <= _fr(full[b][u]) <= bhi + tol * max(1, abs(bhi)):
          fail = ("keypoint outputs%s of unit %d lie in [%r, %r] but the layer returns %r at input %r (is_missing "
                  "weight %r)" % (" and missing output" if m > 0 else "", u, float(blo), float(bhi), full[b][u],
                                  float(x[b][c]), float(m)))
      if inc or dec:
        live = [b for b in range(len(x)) if flag(b, c) == 0]
        for b1 in live:
          for b2 in live:
            if x[b1][c] <= x[b2][c]:
              y1, y2 = _fr(full[b1][u]), _fr(full[b2][u])
              slack = tol * max(1, abs(y1))
              if (inc and y2 < y1 - slack) or (dec and y2 > y1 + slack):
                fail = ("keypoint outputs of unit %d are non-%s but the layer output goes from %r to %r between the "
                        "non-missing inputs %r and %r" % (u, "decreasing" if inc else "increasing", full[b1][u],
                                                          full[b2][u], float(x[b1][c]), float(x[b2][c])))
  # reported keypoints
  if fail is None:
    if not learned:
      for j in range(n):
        for u in range(units):
          if frac(kp_in[j][u]) != frac(d["ks"][j]):
            fail = "keypoints_inputs()[%d][%d] = %r is not input keypoint %r" % (j, u, kp_in[j][u], d["ks"][j])
    else:
      for u in range(units):
        col = [float(kp_in[j][u]) for j in range(n)]
        if not all(col[j] < col[j + 1] for j in range(n - 1)):
          fail = "learned keypoints of unit %d are not strictly increasing: %r" % (u, col)
        elif abs(col[0] - d["ks"][0]) > (1e-5 if f32 else 1e-12) or abs(col[-1] - d["ks"][-1]) > (1e-5 if f32 else 1e-12):
          fail = "learned keypoints of unit %d do not keep the end points: %r vs %r" % (u, col, d["ks"])
    for j in range(n):
      for u in range(units):
        if fail is None and not _close(kp_out[j][u], ys_u[u][j], tol):
          fail = "keypoints_outputs()[%d][%d] = %r is not the cumulative kernel sum %r" % (
              j, u, kp_out[j][u], float(ys_u[u][j]))
  # the layer on its own reported points (no missing handling in the way)
  if fail is None and d["err"] is None and not (d["impute"] and d["form"] == "list2") and units in (cols, 1):
    try:
      if d["impute"] and d["miv"] is not None and any(frac(v) == frac(d["miv"]) for v in kp_in.flatten()):
        pass
      else:
        yk = layer([tf.constant(kp_in)] if d["form"] == "list1" else tf.constant(kp_in))
        full = _as_mats(yk)
        full = full[0] if len(full) == 1 else [[m[b][0] for m in full] for b in range(n)]
        for j in range(n):
          for u in range(units):
            if not _close(full[j][u], frac(kp_out[j][u]), tol):
              fail = "reported point (%r, %r) of unit %d is not on the graph: layer returns %r" % (
                  kp_in[j][u], kp_out[j][u], u, full[j][u])
        if d["cyclic"] and fail is None:
          for u in range(units):
            if not _close(full[0][u], frac(full[n - 1][u]), tol):
              fail = "is_cyclic: unit %d returns %r at the first keypoint %r but %r at the last keypoint %r" % (
                  u, full[0][u], kp_in[0][u], full[n - 1][u], kp_in[n - 1][u])
    except Exception as e:  # pylint: disable=broad-except
      fail = "call on keypoints_inputs() raised %s: %s" % (type(e).__name__, str(e)[:200])

  # ---- Coq case ----------------------------------------------------------
  common_tail = "%s %s %s %s %s %s %s %s %s %s %s %s" % (
      cbool(d["cyclic"]), cqm(d["kernel"]), cbool(d["impute"]), copt(d["miv"]), copt(d["mov"]),
      cql(d["mow"] if d["mov"] is None else []), cbool(d["split"]), cbool(d["form"] != "tensor"),
      cqm(x.tolist()), copt(d["ms"], cqm), copt(out, lambda o: clist([cqm(m) for m in o])),
      cqm(kp_in.tolist()) + " " + cqm(kp_out.tolist()))
  coq = None
  if not learned:
    coq = "PwlFixed %s %s %s %s" % ("tol32" if f32 else "tol64", cnat(units), cql(d["ks"]), common_tail)
  elif out is not None:
    sm = tf.nn.softmax(layer.interpolation_logits, axis=1).numpy()
    # oracle hypotheses, numerically
    if fail is None:
      if sm.shape != (units, n - 1) or not (sm > 0).all() or np.abs(sm.sum(axis=1) - 1).max() > (1e-5 if f32 else 1e-12):
        fail = "softmax oracle hypotheses (length, positive, sum 1) violated: %r" % (sm.tolist(),)
    lefts = np.array(layer._interpolation_keypoints.numpy(), dtype=dt)  # pylint: disable=protected-access
    lens = np.array(layer._lengths.numpy(), dtype=dt)  # pylint: disable=protected-access
    coq = "PwlLearned %s %s %s %s %s %s %s" % ("tol32" if f32 else "tol64", cnat(units), cql(d["ks"]),
                                               cqm(sm.tolist()), cqm(lefts.tolist()), cqm(lens.tolist()), common_tail)
  if d["err"]:
    klass = "pwl_rejected_" + d["err"]
  else:
    klass = "pwl_%s_%s_%s_%s%s%s" % (
        ("learned32" if f32 else "learned64") if learned else "fixed",
        "u1" if units == 1 else ("uN-1col" if cols == 1 else "uN-percol"),
        ("cyclic2" if n == 2 else "cyclic") if d["cyclic"] else "open",
        ("miss" + ("val" if d["miv"] is not None and d["ms"] is None else "flag")) if d["impute"] else "nomiss",
        "_split" if d["split"] and units > 1 else "",
        "_1e6" if np.abs(x).max() >= 1e5 else "")
  if f32 and not learned:
    klass += "_f32"
  if wide and not d["err"]:
    klass += "_wide"
  return Case(d, coq=coq, pred_fail=fail, nontrivial=(between or n >= 3) and d["err"] is None, klass=klass,
              info={"impl_output": out, "inputs": x.tolist(), "keypoints_inputs": kp_in.tolist(),
                    "keypoints_outputs": kp_out.tolist()})


def _eval_cat(tf, tfl, d):
  nb, units, cols = d["nb"], d["units"], d["cols"]
  ldtype = d.get("ldtype", "float32")
  layer = tfl.layers.CategoricalCalibration(num_buckets=nb, units=units, default_input_value=d["default"],
                                            split_outputs=d["split"], dtype=ldtype)
  layer.build((None, cols))
  layer.kernel.assign(np.array(d["kernel"], dtype=ldtype))
  x = np.array(d["rows"], dtype=d["dtype"])
  fail, out = None, None
  try:
    out = _as_mats(layer(tf.constant(x)))
  except Exception as e:  # pylint: disable=broad-except
    fail = "call raised %s: %s" % (type(e).__name__, str(e)[:200])
  if out is not None:
    want_split = units > 1 and d["split"]
    full = out[0] if len(out) == 1 else [[m[b][0] for m in out] for b in range(len(x))]
    if (len(out) != (units if want_split else 1)) or any(len(r) != units for r in full) or len(full) != len(x):
      fail = "output structure is not %s" % ("a list of [batch,1] per unit" if want_split else "[batch, units]")
    else:
      for b in range(len(x)):
        for u in range(units):
          v = d["rows"][b][u if cols > 1 else 0]
          i = int(v)  # truncation toward zero
          if d["default"] is not None and i == int(d["default"]):
            want, clause = d["kernel"][nb - 1][u], "default_input_value -> last bucket"
          elif 0 <= i < nb:
            want, clause = d["kernel"][i][u], "category i -> kernel row i"
          else:
            continue
          if full[b][u] != want:
            fail = "%s: unit %d input %r: layer returned %r, kernel has %r" % (clause, u, v, full[b][u], want)
      # "hence monotone / bounded": bucket values in range => output in range; bucket values ordered along the
      # pair of buckets two inputs select (default_input_value selects the last bucket) => outputs ordered
      def bucket(v):
        i = int(v)
        if d["default"] is not None and i == int(d["default"]):
          return nb - 1
        return i if 0 <= i < nb else None
      for u in range(units):
        if fail is not None:
          break
        col = [d["kernel"][k][u] for k in range(nb)]
        sel = [(b, bucket(d["rows"][b][u if cols > 1 else 0])) for b in range(len(x))]
        sel = [(b, k) for b, k in sel if k is not None]
        for b, k in sel:
          if not min(col) <= full[b][u] <= max(col):
            fail = "bucket values of unit %d lie in [%r, %r] but the layer returns %r for input %r" % (
                u, min(col), max(col), full[b][u], d["rows"][b][u if cols > 1 else 0])
        for b1, k1 in sel:
          for b2, k2 in sel:
            if col[k1] <= col[k2] and full[b1][u] > full[b2][u]:
              fail = ("bucket values of unit %d are ordered along the pair (%d, %d): %r <= %r, but the outputs for "
                      "inputs %r and %r are %r > %r" % (u, k1, k2, col[k1], col[k2], d["rows"][b1][u if cols > 1 else 0],
                                                        d["rows"][b2][u if cols > 1 else 0], full[b1][u], full[b2][u]))
  coq = None
  if out is not None:
    coq = "Cat %s %s %s %s %s %s %s" % (
        cnat(nb), cnat(units), cqm(d["kernel"]), copt(None if d["default"] is None else int(d["default"]), cz),
        cbool(d["split"]), cqm(d["rows"]), clist([cqm(m) for m in out]))
  klass = "cat%s_%s_%s_%s%s" % (
      ldtype[-2:], "u1" if units == 1 else ("uN-1col" if cols == 1 else "uN-percol"),
      ("floatneg" if any(v < 0 and v != int(v) for r in d["rows"] for v in r) else "float")
      if d["dtype"].startswith("float") else "int",
      "nodefault" if d["default"] is None else ("default-in" if 0 <= d["default"] < nb else "default-out"),
      "_split" if d["split"] and units > 1 else "")
  return Case(d, coq=coq, pred_fail=fail, nontrivial=nb >= 2, klass=klass, info={"impl_output": out})


def eval_cases(ctx, descs):
  tf, tfl = tfimpl.tfl()
  cases = []
  for d in descs:
    try:
      cases.append(_eval_cat(tf, tfl, d) if d.get("kind") == "cat" else _eval_pwl(tf, tfl, d))
    except Exception as e:  # pylint: disable=broad-except
      cases.append(Case(d, coq=None, klass="could_not_evaluate",
                        pred_fail="building or evaluating the layer raised %s: %s" % (type(e).__name__, str(e)[:300])))
  return cases
