"""C04 - PWLCalibration weight constraint."""
import numpy as np
from common import Case, cq, cql, cqm, clist, cnat, copt, cz
import tfimpl

ID = "C04"
HMODULE = "H_C04"
RULE = ("PWLCalibrationConstraints over monotonicity {-1,0,1} x convexity {-1,0,1} x bounds {none,min,max,both; a "
        "share with one bound exactly 0.0 and a share with ZERO WIDTH output_min == output_max} x "
        "clamp_min/clamp_max (monotone only) x units 1-4 x 2-7 keypoints (one case in ten: 8-10) with segment "
        "lengths in {1/2,1,2,3} (one case in ten mixes in segments of length 1/8) x "
        "num_projection_iterations {0,1,2,3,8,12}; kernel classes: random, far (bias far outside the bounds), "
        "wrong-sign heights, ties/zeros, near-feasible, feasible (linear), feasible_shape (NOT linear: random convex / "
        "concave / monotone / free keypoint-output profiles - sorted random slopes with ties and flat pieces, scaled "
        "to fit - inside the bounds, touching a bound or hitting the clamped ends exactly, verified in exact "
        "fractions; must come back unchanged), and - for monotone + convex/concave + bounded "
        "configurations with num_projection_iterations = 0 - squeeze9/10/11: the bias sits 2^-9, 2^-10, 2^-11 "
        "inside the bound the heights run towards (output_max for increasing, output_min for decreasing), so "
        "that _squeeze_by_scaling's guard delta > 0.001 is entered with delta 0.00195 and not entered with "
        "0.00098 / 0.00049 (the cases not entered violate the bounds and are known finding D2); a fifth of the "
        "cases go through a built PWLCalibration "
        "layer (string spellings, convert_all_constraints), half of those - ~10% of all cases, class suffix _f32 - "
        "through a float32 layer (the layers' default dtype) on the float32 kernel. NaiveBoundsConstraints on random "
        "vectors (one in ten in float32). "
        "Non-trivial = the projection changed the kernel; distinct = distinct (config, kernel).")
TRUSTED = ["model: Model/PWLProject.v (hand-written from pwl_calibration_lib.project_all_constraints, "
           "_project_bounds_considering_monotonicity, _approximately_project_bounds_only, _project_monotonicity, "
           "_project_convexity, _approximately_project_convexity, _squeeze_by_scaling, _finalize_constraints, "
           "NaiveBoundsConstraints)",
           "tie: PWLCalibrationConstraints / layer.kernel.constraint called on float64 kernels (tolerance 1e-9) and "
           "layer.kernel.constraint of a float32 layer on float32 kernels (tolerance 1e-5, passed to Coq with the "
           "case: CTol); compared in Coq"]
LIMITS = ["tolerated by the property: convexity with bounds but without monotonicity may keep a residual convexity "
          "violation; a clamp combined with convexity is met only up to the residual of the iteration",
          "float rounding outside the model (float64: tolerance 1e-9; float32 cases: 1e-5 * max(1, |v|) in the Coq "
          "comparison and in the predicates; float32 cases avoid the 'far' and squeeze kernel classes)",
          "the guard constant 0.001 of _squeeze_by_scaling is bracketed by deltas 2^-10 and 2^-9 only: a change of "
          "the constant within (0.00098, 0.00195) is not seen by the generated cases",
          "cyclic calibrators (is_cyclic=True, hence monotonicity and convexity none) are run through the LAYER's "
          "constraint; the model sees them as an ordinary configuration with one height and one length less (the "
          "closing keypoint output equals the first by construction of the layer, C05)"]
SHARD = 120

BCT = ["NONE", "BOUND", "CLAMPED"]


SQUEEZE_GAPS = {"squeeze9": 2.0 ** -9, "squeeze10": 2.0 ** -10, "squeeze11": 2.0 ** -11}


def gen_descs(ctx):
  rng = ctx.rng
  out = []
  for _ in range(ctx.n(600, 6000)):
    mono = rng.choice([-1, 0, 1, 1])
    conv = rng.choice([-1, 0, 0, 1])
    # one case in ten has 8-10 keypoints
    nk = rng.randint(8, 10) if rng.random() < 0.1 else rng.randint(2, 7)
    lengths = [rng.choice([0.5, 1.0, 1.0, 2.0, 3.0]) for _ in range(nk - 1)]
    c = rng.random()
    if c < 0.3:
      lengths = [1.0] * (nk - 1)
    elif c < 0.4:
      # short segments (1/8) next to long ones: slope = height / length differs from the height by a factor 8-24
      lengths = [0.125 if rng.random() < 0.4 else ln for ln in lengths]
    bmode = rng.choice(["none", "min", "max", "both", "both"])
    a = tfimpl.dy(rng, -4, 4)
    omin = a if bmode in ("min", "both") else None
    omax = a + rng.choice([0.5, 1.0, 4.0, 8.0]) if bmode in ("max", "both") else None
    omin, omax = tfimpl.zero_bound(rng, omin, omax)
    if bmode == "both" and rng.random() < 0.12:
      # zero-width range output_min == output_max (incl. 0.0 == 0.0): the only feasible function is constant
      omax = omin
    units = rng.choice([1, 1, 2, 3, 1, 1, 2, 3, 4])
    iters = rng.choice([0, 1, 2, 3, 8, 12])
    klass = rng.choice(["random", "random", "far", "wrongsign", "ties", "near", "feasible", "feasible_shape"])
    via_layer = rng.random() < 0.2
    f32 = via_layer and rng.random() < 0.5
    if f32 and klass == "far":
      klass = "random"
    if mono != 0 and conv != 0 and rng.random() < 0.35 and not f32:
      # _squeeze_by_scaling alone (no Dykstra iteration): the bias sits 2^-9 / 2^-10 / 2^-11 inside the bound
      # that the heights run towards, i.e. delta = 0.00195 (> 0.001: heights are scaled into the gap),
      # 0.00098 and 0.00049 (<= 0.001: everything is kept); separates the constant 0.001 from 0 and from 0.01
      klass = rng.choice(sorted(SQUEEZE_GAPS))
      iters = 0
      if mono == 1 and omax is None:
        omax = (omin if omin is not None else a) + rng.choice([0.0, 0.5, 1.0, 4.0])
      if mono == -1 and omin is None:
        omin = (omax if omax is not None else a) - rng.choice([0.0, 0.5, 1.0, 4.0])
    clamp_min = bool(mono != 0 and omin is not None and rng.random() < 0.4)
    clamp_max = bool(mono != 0 and omax is not None and rng.random() < 0.4)
    W = []
    if klass == "feasible_shape":
      W = feasible_shape(rng, mono, conv, lengths, omin, omax, clamp_min, clamp_max, units)
      if W is None:
        klass = "feasible"
    if klass == "feasible":
      W = feasible_kernel(rng, mono, lengths, omin, omax, clamp_min, clamp_max, units)
    for r in range(nk if not klass.startswith("feasible") else 0):
      row = []
      for u in range(units):
        if klass in SQUEEZE_GAPS:
          if r == 0:
            v = omax - SQUEEZE_GAPS[klass] if mono == 1 else omin + SQUEEZE_GAPS[klass]
          else:
            v = mono * rng.choice([0.0, 0.125, 0.25, 1.0, abs(tfimpl.dy(rng, 0, 4)), -0.5])
        elif klass == "far":
          v = tfimpl.dy(rng, -64, 64) if r == 0 else tfimpl.dy(rng, -16, 16)
        elif klass == "wrongsign":
          v = tfimpl.dy(rng) if r == 0 else -abs(tfimpl.dy(rng)) * (mono or 1)
        elif klass == "ties":
          v = float(rng.choice([-1, 0, 0, 1]))
        elif klass == "near":
          v = (omin if omin is not None else 0.0) if r == 0 else (mono or 1) * abs(tfimpl.dy(rng, 0, 1))
        else:
          v = tfimpl.dy(rng)
        row.append(v)
      W.append(row)
    d = dict(kind="proj", mono=mono, conv=conv, lengths=lengths, omin=omin, omax=omax,
             clamp_min=clamp_min, clamp_max=clamp_max, units=units, iters=iters, W=W, wclass=klass,
             via_layer=via_layer)
    if f32:
      d["dtype"] = "float32"
      if klass == "random":
        # a few 2^-12 on top of the 1/8 grid: exact in float32, not in float16 / bfloat16
        d["W"] = [[v + rng.choice([0, 0, 1, -1, 3, -5]) * 2.0 ** -12 for v in row] for row in W]
    out.append(d)
  # cyclic calibrators (is_cyclic=True: monotonicity and convexity must be none; the kernel has one row less than
  # there are keypoints and the last keypoint output equals the first): the layer's constraint on random kernels
  for _ in range(ctx.n(24, 400)):
    nk = rng.randint(3, 7)
    lengths = [rng.choice([0.5, 1.0, 1.0, 2.0, 3.0]) for _ in range(nk - 1)]
    bmode = rng.choice(["min", "max", "both", "both", "none"])
    a = tfimpl.dy(rng, -4, 4)
    omin = a if bmode in ("min", "both") else None
    omax = a + rng.choice([0.0, 0.5, 1.0, 4.0]) if bmode in ("max", "both") else None
    omin, omax = tfimpl.zero_bound(rng, omin, omax)
    units = rng.choice([1, 1, 2, 3])
    klass = rng.choice(["random", "far", "ties"])
    W = [[(tfimpl.dy(rng, -64, 64) if klass == "far" else float(rng.choice([-1, 0, 0, 1])) if klass == "ties"
           else tfimpl.dy(rng)) for _ in range(units)] for _ in range(nk - 1)]
    out.append(dict(kind="proj", cyclic=True, mono=0, conv=0, lengths=lengths, omin=omin, omax=omax, clamp_min=False,
                    clamp_max=False, units=units, iters=rng.choice([0, 1, 8]), W=W, wclass=klass + "_cyclic",
                    via_layer=True))
  for _ in range(ctx.n(20, 200)):
    lo = rng.choice([None, tfimpl.dy(rng, -2, 2)])
    hi = rng.choice([None, (lo if lo is not None else 0.0) + rng.choice([0.0, 1.0, 3.0])])
    lo, hi = tfimpl.zero_bound(rng, lo, hi, p=0.4)   # a bound that is exactly 0.0 (falsy but set)
    d = dict(kind="naive", lo=lo, hi=hi, w=[tfimpl.dy(rng, -8, 8) for _ in range(rng.randint(1, 4))])
    if rng.random() < 0.1:
      d["dtype"] = "float32"
    out.append(d)
  return out


def _exact_column_ok(col, mono, conv, lengths, omin, omax, clamp_min, clamp_max):
  """Every configured constraint holds EXACTLY for one kernel column (bias, heights); exact fractions."""
  from fractions import Fraction  # pylint: disable=g-import-not-at-top
  f = [Fraction(float(v)) for v in col]
  ys, acc = [], Fraction(0)
  for v in f:
    acc += v
    ys.append(acc)
  h = f[1:]
  if mono != 0 and any(v * mono < 0 for v in h):
    return False
  if omin is not None and min(ys) < Fraction(omin):
    return False
  if omax is not None and max(ys) > Fraction(omax):
    return False
  if conv != 0:
    sl = [v / Fraction(ln) for v, ln in zip(h, lengths)]
    if any((b - a) * conv < 0 for a, b in zip(sl, sl[1:])):
      return False
  lo_end, hi_end = (ys[0], ys[-1]) if mono == 1 else (ys[-1], ys[0])
  if clamp_min and lo_end != Fraction(omin):
    return False
  if clamp_max and hi_end != Fraction(omax):
    return False
  return True


def _shape_column(rng, mono, conv, lengths, lo, hi, clamp_min, clamp_max):
  """Keypoint outputs ys (floats on a dyadic grid) of one candidate profile."""
  m = len(lengths)
  width = hi - lo
  if mono == 0 and conv == 0:
    return [lo + rng.randint(0, 16) / 16.0 * width for _ in range(m + 1)]
  if conv == 0:
    raw = [float(rng.choice([0, 0, 1, 1, 2, 3, 5])) for _ in range(m)]     # heights: ties and flat pieces
  else:
    pool = [0, 0, 1, 1, 2, 3, 5, 8] if mono != 0 else [-5, -3, -2, -1, -1, 0, 0, 1, 1, 2, 3, 5]
    sl = sorted(rng.choice(pool) for _ in range(m))
    # mono == 0: signed slopes, ascending = convex. mono != 0: slope MAGNITUDES (the direction is applied below);
    # increasing convex / decreasing concave need ascending magnitudes, the other two descending ones
    if (mono == 0 and conv == -1) or (mono != 0 and mono * conv == -1):
      sl = sl[::-1]
    raw = [v * ln for v, ln in zip(sl, lengths)]
  if mono == 0:
    # convex / concave without monotonicity: power-of-two scaling (exact), one extreme on a bound or centred
    p = [0.0]
    for v in raw:
      p.append(p[-1] + v)
    span = max(p) - min(p)
    if span == 0.0:
      return [lo + rng.randint(0, 4) / 4.0 * width] * (m + 1)
    room = width * rng.choice([1.0, 1.0, 0.5])
    k = 0
    while span * 2.0 ** -k > room:
      k += 1
    p = [(v - min(p)) * 2.0 ** -k for v in p]
    free = width - max(p)
    return [lo + rng.choice([0.0, free, free / 2.0]) + v for v in p]
  total = sum(raw)
  if total == 0.0:
    raw[rng.randrange(m)] = 1.0
    if conv != 0:
      return None
    total = 1.0
  pin_lo, pin_hi = clamp_min, clamp_max
  if not pin_lo and not pin_hi and rng.random() < 0.5:
    pin_lo, pin_hi = rng.random() < 0.5, rng.random() < 0.5    # ends ON the bounds without a clamp
  if pin_lo and pin_hi:
    # both ends fixed: heights proportional to raw, rounded to multiples of 2^-10, the steepest piece takes the rest
    hs = [np.round(v / total * width * 1024.0) / 1024.0 for v in raw]
    j = max(range(m), key=lambda i: raw[i] / lengths[i])
    hs[j] = width - (sum(hs) - hs[j])
    a = lo
  else:
    room = width * rng.choice([1.0, 0.75, 0.5, 0.25]) if width > 0 else 0.0
    if room <= 0.0:
      return None
    k = 0
    while total * 2.0 ** -k > room:
      k += 1
    hs = [v * 2.0 ** -k for v in raw]
    rise = sum(hs)
    if pin_lo:
      a = lo
    elif pin_hi:
      a = hi - rise
    else:
      a = lo + np.floor((width - rise) * rng.choice([0.0, 0.5, 1.0]) * 64.0) / 64.0
  ys = [a if mono == 1 else a + sum(hs)]
  for v in hs:
    ys.append(ys[-1] + mono * v)
  return ys


def feasible_shape(rng, mono, conv, lengths, omin, omax, clamp_min, clamp_max, units):
  """A kernel meeting EVERY constraint of the configuration that is NOT linear in the input: per unit a random
  profile of keypoint outputs - monotone with flat pieces and ties (convexity 0), convex / concave from sorted random
  slopes (scaled to fit by a power of two, or to the full width with the steepest piece absorbing the rounding),
  free inside the bounds (no monotonicity, no convexity) - that hits the clamped ends exactly and often touches an
  unclamped bound. Every column is verified in exact fractions; None when no candidate passes."""
  lo = omin if omin is not None else (omax - 4.0 if omax is not None else -2.0)
  hi = omax if omax is not None else lo + 4.0
  cols = []
  for _ in range(units):
    col = None
    for _ in range(30):
      ys = _shape_column(rng, mono, conv, lengths, lo, hi, clamp_min, clamp_max)
      if ys is None:
        continue
      cand = [ys[0]] + [b - a for a, b in zip(ys, ys[1:])]
      if _exact_column_ok(cand, mono, conv, lengths, omin, omax, clamp_min, clamp_max):
        col = cand
        break
    if col is None:
      return None
    cols.append(col)
  return [[float(cols[u][r]) for u in range(units)] for r in range(len(lengths) + 1)]


def feasible_kernel(rng, mono, lengths, omin, omax, clamp_min, clamp_max, units):
  """A kernel meeting EVERY constraint of the configuration: linear in the input (so convex and concave), running in
  the configured direction between two levels inside the bounds that hit the clamped ends exactly."""
  lo = omin if omin is not None else (omax - 4.0 if omax is not None else -2.0)
  hi = omax if omax is not None else lo + 4.0
  W = [[0.0] * units for _ in range(len(lengths) + 1)]
  total = float(sum(lengths))
  for u in range(units):
    a = lo if clamp_min else lo + rng.choice([0.0, 0.25, 0.5]) * (hi - lo)
    b = hi if clamp_max else hi - rng.choice([0.0, 0.25, 0.5]) * (hi - lo)
    if b < a:
      a, b = b, a
    if mono == 0 and rng.random() < 0.5 or mono == -1:
      a, b = b, a       # runs downwards (first output b ... last output a of the original order)
    W[0][u] = a
    for r, ln in enumerate(lengths):
      W[r + 1][u] = (b - a) * ln / total
  return W


F32_TOL = 1e-5


def is_f32(d):
  """float32 runs only through the layer route (or NaiveBoundsConstraints): C08 / C09 re-use the 'proj' descs with
  via_layer=False and compare in float64."""
  return d.get("dtype") == "float32" and (d.get("kind") == "naive" or bool(d.get("via_layer")))


def rel_tol(d):
  return F32_TOL if is_f32(d) else 1e-9


def check_outputs(d, R):
  """Property clauses on the returned kernel R (rows = bias + heights)."""
  fails = []
  units = d["units"]
  L = np.array(d["lengths"])
  scale = max(1.0, float(np.abs(np.array(d["W"])).max()))
  tol = rel_tol(d) * scale
  for u in range(units):
    col = R[:, u]
    sums = np.cumsum(col)
    h = col[1:]
    if d["mono"] == 1 and h.size and h.min() < 0:
      fails.append("monotonicity: unit %d has a negative height %r" % (u, h.min()))
    if d["mono"] == -1 and h.size and h.max() > 0:
      fails.append("monotonicity: unit %d has a positive height %r" % (u, h.max()))
    if d["omin"] is not None and sums.min() < d["omin"] - tol:
      fails.append("bounds: unit %d keypoint output %r below output_min %r" % (u, sums.min(), d["omin"]))
    if d["omax"] is not None and sums.max() > d["omax"] + tol:
      fails.append("bounds: unit %d keypoint output %r above output_max %r" % (u, sums.max(), d["omax"]))
    has_bounds = d["omin"] is not None or d["omax"] is not None
    if d["conv"] != 0 and (d["mono"] != 0 or not has_bounds) and h.size >= 2:
      slopes = h / L
      v = (-d["conv"] * np.diff(slopes)).max()
      # slopes = height / length amplify the rounding of the heights by up to 8 (segments of length 1/8)
      if v > (10.0 * F32_TOL if is_f32(d) else 1e-7) * scale:
        fails.append("convexity: unit %d slopes out of order by %r" % (u, v))
    if d["conv"] == 0:
      lo_end = sums[0] if d["mono"] == 1 else sums[-1]
      hi_end = sums[-1] if d["mono"] == 1 else sums[0]
      if d["clamp_min"] and abs(lo_end - d["omin"]) > tol:
        fails.append("clamp: unit %d misses clamp_min by %r" % (u, lo_end - d["omin"]))
      if d["clamp_max"] and abs(hi_end - d["omax"]) > tol:
        fails.append("clamp: unit %d misses clamp_max by %r" % (u, hi_end - d["omax"]))
  return fails


SQUEEZE_EPS = 0.001      # the guard constant of _squeeze_by_scaling (delta > 0.001)
ROOM_SLACK = 1e-9        # rounding slack on the comparison with that constant


def squeeze_no_room(d, bias, side=None):
  """Known finding D2, exactly (theorems C04_bounds_monotone_convex_when_bias_has_room /
  ..._failure_needs_no_room): _squeeze_by_scaling never moves the bias and rescales the heights only when the room
  between the bias and the bound the function runs towards exceeds 0.001.  True iff the bias (of the returned kernel:
  the squeeze returns it unchanged) is outside the bounds or within 0.001 of the far bound.  side='min'/'max' asks
  for the reason that can explain a violation of that bound (the near bound fails only through the bias itself, the
  far bound only through missing room)."""
  omin, omax, mono = d["omin"], d["omax"], d["mono"]
  below_min = omin is not None and bias < omin
  above_max = omax is not None and bias > omax
  slack = ROOM_SLACK if not is_f32(d) else 1e-5 * max(1.0, abs(bias))   # float32: rounding of the room
  if mono == 1:
    no_far_room = omax is not None and omax - bias <= SQUEEZE_EPS + slack
    return {"min": below_min, "max": no_far_room}.get(side, below_min or above_max or no_far_room)
  no_far_room = omin is not None and bias - omin <= SQUEEZE_EPS + slack
  return {"min": no_far_room, "max": above_max}.get(side, below_min or above_max or no_far_room)


def d2_class(case):
  """monotone + convex + bounded, only 'bounds:'/'idempotence' clauses fail, AND the squeeze had no room: every unit
  named by a failing 'bounds:' clause has a bias without room on the side of the violated bound (an 'idempotence'
  clause needs some unit without room).  A bounds failure although the bias has room is NOT in the class."""
  d = case.desc
  if not (d.get("kind") == "proj" and d["mono"] != 0 and d["conv"] != 0 and
          (d["omin"] is not None or d["omax"] is not None)):
    return False
  R = case.info.get("impl_output")
  if not R:
    return False
  for c in (case.pred_fail or "").split("; "):
    if c.startswith("bounds: unit "):
      u = int(c[len("bounds: unit "):].split()[0])
      side = "min" if "below output_min" in c else "max"
      if not squeeze_no_room(d, R[0][u], side):
        return False
    elif c.startswith("idempotence"):
      if not any(squeeze_no_room(d, R[0][u]) for u in range(d["units"])):
        return False
    else:
      return False
  return True


def d3_class(case):
  d = case.desc
  return (d.get("kind") == "proj" and d["iters"] == 0 and (d["clamp_min"] or d["clamp_max"]) and
          all(c.startswith("clamp:") or c.startswith("idempotence") for c in (case.pred_fail or "").split("; ")))


def focus(ctx, desc):
  """Around a model/implementation disagreement: feasible kernels of the same configuration must stay unchanged."""
  if desc.get("kind") != "proj":
    return []
  import random
  rng = random.Random(ctx.seed + 17)
  out = []
  for _ in range(6):
    W = feasible_kernel(rng, desc["mono"], desc["lengths"], desc["omin"], desc["omax"], desc["clamp_min"],
                        desc["clamp_max"], desc["units"])
    out.append(dict(desc, W=W, wclass="feasible", via_layer=False))
  return out


KNOWN_CLASSES = {"monotone_convex_bounds_not_repaired_by_squeeze": d2_class,
                 "clamp_with_zero_iterations": d3_class}


def coq_cfg(d, omin_v, omax_v, cmin, cmax):
  cname = {"NONE": "BNone", "BOUND": "BBound", "CLAMPED": "BClamped"}
  return "(mkPwl %s %s %s %s %s %s %s %s)" % (
      cz(d["mono"]), cz(d["conv"]), cq(omin_v), cq(omax_v), cname[cmin.name if hasattr(cmin, "name") else str(cmin)],
      cname[cmax.name if hasattr(cmax, "name") else str(cmax)], cql(d["lengths"]), cnat(d["iters"]))


def eval_cases(ctx, descs):
  tf, tfl = tfimpl.tfl()
  lib = tfl.pwl_calibration_lib
  cases = []
  for d in descs:
    f32 = is_f32(d)
    npdt = np.float32 if f32 else np.float64
    tfdt = tf.float32 if f32 else tf.float64
    rel = rel_tol(d)
    wrap = (lambda c: "CTol %s (%s)" % (cq(F32_TOL), c)) if f32 else (lambda c: c)
    if d["kind"] == "naive":
      con = tfl.pwl_calibration_layer.NaiveBoundsConstraints(lower_bound=d["lo"], upper_bound=d["hi"])
      res = con(tf.constant(d["w"], dtype=tfdt))
      o = [float(v) for v in res.numpy()]
      fail = None
      if res.dtype != tfdt:
        fail = "a %s vector comes back as %s" % (tfdt.name, res.dtype.name)
      elif d["lo"] is None or d["hi"] is None or d["lo"] <= d["hi"]:
        if (d["lo"] is not None and min(o) < d["lo"]) or (d["hi"] is not None and max(o) > d["hi"]):
          fail = "missing-output value outside the bounds"
      cases.append(Case(d, coq=wrap("CNaive %s %s %s %s" % (copt(d["lo"]), copt(d["hi"]), cql(d["w"]), cql(o))),
                        pred_fail=fail, nontrivial=o != d["w"], klass="naive" + ("_f32" if f32 else "")))
      continue
    # the kernel the implementation really receives (float32 cases: the nearest float32 values, taken as exact)
    W = np.array(d["W"], dtype=np.float64).astype(npdt).astype(np.float64)
    d_in = dict(d, W=[[float(v) for v in r] for r in W]) if f32 else d
    omin_v, omax_v, cmin, cmax = lib.convert_all_constraints(d["omin"], d["omax"], d["clamp_min"], d["clamp_max"])
    if d["via_layer"]:
      kp = [0.0] + list(np.cumsum(d["lengths"]))
      spell = {1: "increasing", -1: "decreasing", 0: "none"}
      cspell = {1: "convex", -1: "concave", 0: "none"}
      layer = tfl.layers.PWLCalibration(
          input_keypoints=kp, units=d["units"], output_min=d["omin"], output_max=d["omax"],
          clamp_min=d["clamp_min"], clamp_max=d["clamp_max"], monotonicity=spell[d["mono"]],
          convexity=cspell[d["conv"]], num_projection_iterations=d["iters"], is_cyclic=bool(d.get("cyclic")),
          dtype="float32" if f32 else "float64")
      layer.build((None, d["units"]))
      con = layer.kernel.constraint
      if layer.kernel.dtype.base_dtype != tfdt:
        raise ValueError("layer built with dtype=%s has a kernel of dtype %s" % (tfdt.name, layer.kernel.dtype.name))
    else:
      con = tfl.pwl_calibration_layer.PWLCalibrationConstraints(
          monotonicity=d["mono"], convexity=d["conv"], lengths=tf.constant(d["lengths"], dtype=tfdt),
          output_min=d["omin"], output_max=d["omax"], output_min_constraints=cmin, output_max_constraints=cmax,
          num_projection_iterations=d["iters"])
    Rt = con(tf.constant(W.astype(npdt)))
    R = Rt.numpy().astype(np.float64)
    fails = []
    if Rt.dtype != tfdt:
      fails.append("dtype: a %s kernel comes back as %s" % (tfdt.name, Rt.dtype.name))
    if not np.all(np.isfinite(R)):
      fails.append("non-finite kernel returned")
    else:
      fails += check_outputs(d_in, R)
      has_bounds = d["omin"] is not None or d["omax"] is not None
      tolerated = d["conv"] != 0 and (d["mono"] == 0 and has_bounds or d["clamp_min"] or d["clamp_max"])
      if not fails and not tolerated:
        R2 = con(tf.constant(R.astype(npdt))).numpy().astype(np.float64)
        ch = np.abs(R2 - R).max()
        if ch > rel * max(1.0, np.abs(R).max()):
          fails.append("idempotence: a kernel meeting all constraints is moved by %r when projected again" % ch)
    if d.get("wclass") == "feasible_shape" and not f32 and check_outputs(d_in, W):
      fails.append("harness: a feasible_shape kernel does not pass the property's own clauses: %s" % check_outputs(d_in, W)[0])
    if str(d.get("wclass", "")).startswith("feasible") and np.all(np.isfinite(R)) and not check_outputs(d_in, W):
      ch = np.abs(R - W).max()
      if ch > rel * max(1.0, np.abs(W).max()):
        fails.append("feasible: a kernel satisfying every configured constraint is changed by %r" % ch)
    # a cyclic kernel has nk - 1 rows, i.e. nk - 2 heights: the model gets as many lengths as heights (lengths only
    # matter for convexity, which a cyclic calibrator cannot have)
    cfg = coq_cfg(dict(d, lengths=d["lengths"][:-1]) if d.get("cyclic") else d, omin_v, omax_v, cmin, cmax)
    coq = wrap("CProj %s %s %s %s" % (cfg, cnat(d["units"]), cqm(d_in["W"]), cqm([[float(v) for v in r] for r in R])))
    moved = np.abs(R - W).max() > 1e-12
    klass = "m%d_c%d_%s%s_%s%s" % (d["mono"], d["conv"], "b" if d["omin"] is not None else "", "B" if d["omax"] is not None else "",
                                    "cl_" if d["clamp_min"] or d["clamp_max"] else "", d["wclass"])
    # z: output_min == output_max, k: 8-10 keypoints, u: 4 units, s: a segment of length 1/8
    extra = (("z" if d["omin"] is not None and d["omin"] == d["omax"] else "") + ("k" if len(d["lengths"]) >= 7 else "") +
             ("u" if d["units"] >= 4 else "") + ("s" if 0.125 in d["lengths"] else ""))
    if extra:
      klass += "_x" + extra
    if f32:
      klass += "_f32"
    cases.append(Case(d, coq=coq, pred_fail="; ".join(fails) if fails else None,
                      nontrivial=bool(moved) or d.get("wclass") == "feasible_shape", klass=klass,
                      info={"impl_output": [[float(v) for v in r] for r in R]}))
  return cases
