"""C02 - Lattice output is exact hypercube / simplex interpolation."""
import itertools
from fractions import Fraction

import numpy as np
from common import Case, cqm, clist, cnat, cnatl, cbool
import tfimpl

ID = "C02"
HMODULE = "H_C02"
FUNCTIONAL = True  # the property states output == interpolation formula
SHARD = 40
RULE = ("random lattices (all-2 ranks 1-7, rank 8 all-2 = matmul path, runs of equal sizes, mixed sizes 2-5, "
        "<= 256 vertices; units 1-3; hypercube/simplex; one tensor or list of per-feature tensors; extra batch "
        "dimension; clip_inputs on/off; via the Lattice layer or the lattice_lib function) with dyadic kernels "
        "(random, monotone along a subset of dimensions, Edgeworth-feasible for a pair) evaluated on points "
        "drawn interior / on cell faces / on vertices / with tied fractional parts / on the outermost edge / on "
        "axis-parallel edges / outside the range (clip on: clipped; clip off: unclipped, hypercube up to 3 beyond "
        "either end, simplex above -1), plus points moved along one dimension and partners 2^-10 beside an integer "
        "coordinate (continuity across cell faces); ~10% of the "
        "cases (a share of the layer route, class suffix _f32) build the layer in float32 - the layers' DEFAULT dtype "
        "- with the same dyadic kernels and points (exact in float32) and are compared with tolerance 1e-5; the Coq "
        "model evaluates the same points. Non-trivial = the case has a point that is not a vertex; distinct = "
        "distinct (config, kernel, points).")
TRUSTED = ["model: Model/LatticeInterp.v + Model/Interp1D.v, hand-written from lattice_lib.py. Hypercube: "
           "compute_interpolation_weights (2^d single-tensor special case [1-x, x] with optional clip of the "
           "weights; general path clip-onto-range then 1 - min(|x - k|, 1)), batch_outer_operation as the literal "
           "left-to-right row-major outer product, product with the kernel column. Simplex: clip, truncation to "
           "the lower corner with the size-2 cap (skipped for 2^d), residuals, stable descending sort, padded "
           "differences, cumsum of strides, gather incl. the indices*units+u arithmetic for units > 1. "
           "Lattice.call dispatch. The bucketing of equal consecutive sizes, tf.split/unstack/reshape and "
           "matmul-vs-multiply are represented by their index-level meaning (per-dimension weights)",
           "tie: Lattice layer built in float64 (or float32) with assigned kernel, and direct lattice_lib calls, "
           "outputs compared in Coq with relative tolerance 1e-9 (float32 layers: 1e-5, carried by the case) "
           "(FUNCTIONAL: a disagreement is a failing input)"]
LIMITS = ["unclipped out-of-range inputs (clip_inputs off) are generated and compared with the model only: no theorem "
          "and no predicate clause speaks about them (the property's shape clauses are for in-range or clipped "
          "inputs); for simplex interpolation they stay above -1 in every coordinate, the gather raises at or below "
          "-1 on lattices that are not 2^d (known finding D71); they are kept out of the float32 cases",
          "float rounding (and the cast to int32 of huge or non-finite inputs) is outside the model (tolerance 1e-9 "
          "in float64, 1e-5 * max(1, |v|) in float32, in the Coq comparison and in the predicates)",
          "input shape validation errors and rank-0 lattices are not modelled (C16)",
          "lattices are kept to <= 256 vertices, so rank >= 9 (a second matmul step) is not exercised",
          "continuity is stated as: the layer output is the cell formula of EVERY cell containing the point "
          "(C02_hyper_layer_continuous, C02_simplex_layer_continuous); a Lipschitz bound is not proved, the "
          "implementation-side continuity clause checks one (largest kernel step along the dimension) on the "
          "generated pairs, among them partners 2^-10 beside a cell face"]

TOL = 1e-9
TOL32 = 1e-5


def fine(rng, v):
  """float32 cases only: moves a value by a few 2^-12 (still exact in float32, but not in float16 / bfloat16: a lossy
  cast on the float32 path is invisible on multiples of 1/8)."""
  return v + rng.choice([0, 0, 1, -1, 3, -5]) * 2.0 ** -12


def is_f32(d):
  return d.get("dtype") == "float32"


def tol_of(d):
  return TOL32 if is_f32(d) else TOL


def _prod(xs):
  p = 1
  for x in xs:
    p *= x
  return p


def _gen_sizes(rng):
  c = rng.random()
  if c < 0.28:
    return "all2", [2] * rng.randint(1, 7)
  if c < 0.36:
    return "all2r8", [2] * 8
  if c < 0.62:
    while True:
      sizes = []
      for _ in range(rng.randint(2, 3)):
        sizes += [rng.choice([2, 2, 3, 3, 4])] * rng.randint(1, 3)
      if _prod(sizes) <= 256 and not all(s == 2 for s in sizes):
        return "runs", sizes
  if c < 0.72:
    return "single", [rng.randint(2, 6)]
  while True:
    sizes = [rng.randint(2, 5) for _ in range(rng.randint(2, 4))]
    if _prod(sizes) <= 256 and not all(s == 2 for s in sizes):
      return "mixed", sizes


def _gen_kernel(rng, sizes, units):
  """Returns (kclass, info, kernel columns as ndarray of shape sizes+[units])."""
  rank = len(sizes)
  c = rng.random()
  shape = tuple(sizes)
  if c < 0.35:
    k = np.array([[tfimpl.dy(rng) for _ in range(units)] for _ in range(_prod(sizes))])
    return "random", {}, k.reshape(shape + (units,))
  if c < 0.75 or rank < 2:
    dims = sorted(rng.sample(range(rank), rng.randint(1, min(rank, 3))))
    cols = []
    for _ in range(units):
      a = np.array([rng.randint(0, 8) / 8.0 for _ in range(_prod(sizes))]).reshape(shape)
      if rng.random() < 0.3:  # plateaus: ties in the kernel
        a = np.floor(a * 2) / 2.0
      for d in dims:
        a = np.cumsum(a, axis=d)
      bshape = tuple(1 if d in dims else s for d, s in enumerate(sizes))
      b = np.array([tfimpl.dy(rng, -4, 4) for _ in range(_prod(bshape))]).reshape(bshape)
      cols.append(a + b)
    return "mono", {"mono_dims": dims}, np.stack(cols, axis=-1)
  m, cd = rng.sample(range(rank), 2)
  cols = []
  for _ in range(units):
    oshape = tuple(1 if d in (m, cd) else s for d, s in enumerate(sizes))
    a = np.array([rng.randint(0, 2) for _ in range(_prod(oshape))], dtype=float).reshape(oshape)
    u = np.cumsum([rng.randint(0, 4) / 4.0 for _ in range(sizes[m])])
    w = np.cumsum([rng.randint(0, 4) / 4.0 for _ in range(sizes[cd])])
    ushape = tuple(s if d == m else 1 for d, s in enumerate(sizes))
    wshape = tuple(s if d == cd else 1 for d, s in enumerate(sizes))
    bshape = tuple(1 if d == cd else s for d, s in enumerate(sizes))
    cshape = tuple(1 if d == m else s for d, s in enumerate(sizes))
    b = np.array([tfimpl.dy(rng, -2, 2) for _ in range(_prod(bshape))]).reshape(bshape)
    cc = np.array([tfimpl.dy(rng, -2, 2) for _ in range(_prod(cshape))]).reshape(cshape)
    cols.append(a * u.reshape(ushape) * w.reshape(wshape) + b + cc)
  return "edge", {"edge": [m, cd]}, np.stack(cols, axis=-1)


def _gen_point(rng, sizes, clip, pclass):
  rank = len(sizes)

  def interior(s):
    return rng.randint(0, (s - 1) * 8) / 8.0

  def vertex(s):
    return float(rng.randint(0, s - 1))

  if pclass == "interior":
    return [interior(s) for s in sizes]
  if pclass == "vertex":
    return [vertex(s) for s in sizes]
  if pclass == "face":
    return [vertex(s) if rng.random() < 0.5 else interior(s) for s in sizes]
  if pclass == "tied":
    f = rng.choice([0.125, 0.25, 0.5, 0.75, 0.875])
    g = rng.choice([0.0, 0.25, 0.5, 1.0])
    out = []
    for s in sizes:
      fr = f if rng.random() < 0.7 else g
      ip = rng.randint(0, s - 2)
      out.append(min(ip + fr, s - 1.0))
    return out
  if pclass == "top":
    return [s - 1.0 if rng.random() < 0.6 else interior(s) for s in sizes]
  if pclass == "axis_edge":
    p = [vertex(s) for s in sizes]
    d = rng.randrange(rank)
    p[d] = interior(sizes[d])
    return p
  if pclass == "outside":
    out = []
    for s in sizes:
      c = rng.random()
      if c < 0.3:
        out.append(-rng.choice([0.125, 0.5, 1.0, 1.5, 3.0]))
      elif c < 0.6:
        out.append(s - 1.0 + rng.choice([0.125, 0.5, 1.0, 1.5, 3.0]))
      else:
        out.append(interior(s))
    return out
  if pclass in ("outside_noclip", "outside_noclip_simplex"):
    # clip_inputs off and at least one coordinate outside [0, size - 1]: the code extrapolates (2^d single-tensor
    # path, simplex) or lets the hat weights vanish (general hypercube path). The simplex gather raises for
    # coordinates <= -1 on lattices that are not 2^d (known finding D71), so simplex points stay above -1.
    below = [0.125, 0.5, 0.875] if pclass == "outside_noclip_simplex" else [0.125, 0.5, 0.875, 1.0, 1.5, 3.0]
    above = [0.125, 0.5, 1.0, 1.5, 3.0]
    if rank >= 6:  # the 2^d extrapolation multiplies the weights of all dimensions: keep the products small
      below, above = below[:3], above[:3]
    out = []
    forced = rng.randrange(rank)
    for i, s in enumerate(sizes):
      c = rng.random()
      if i == forced:
        c *= 0.6
      if c < 0.3:
        out.append(-rng.choice(below))
      elif c < 0.6:
        out.append(s - 1.0 + rng.choice(above))
      else:
        out.append(interior(s))
    return out
  raise ValueError(pclass)


def gen_descs(ctx):
  rng = ctx.rng
  out = []
  for _ in range(ctx.n(500, 20000)):
    sclass, sizes = _gen_sizes(rng)
    rank = len(sizes)
    units = rng.choice([1, 1, 2, 3])
    if sclass == "all2r8":
      units = rng.choice([1, 1, 2])
    simplex = rng.random() < 0.5
    tensor = rng.random() < 0.6
    clip = rng.random() < 0.5
    via = rng.choice(["layer", "layer", "lib"])
    kclass, kinfo, kern = _gen_kernel(rng, sizes, units)
    K = kern.reshape(_prod(sizes), units).tolist()
    pclasses_all = (["interior", "vertex", "face", "tied", "top", "axis_edge"] +
                    (["outside", "outside"] if clip else ["outside_noclip", "outside_noclip"]))
    pts, pcls, pairs, quads, cpairs = [], [], [], [], []
    nbase = 3 if sclass == "all2r8" else rng.randint(3, 5)
    for _ in range(nbase):
      pc = rng.choice(pclasses_all)
      base = [_gen_point(rng, sizes, clip, pc + ("_simplex" if simplex and pc == "outside_noclip" else ""))
              for _ in range(units)]
      bi = len(pts)
      pts.append(base)
      pcls.append(pc)
      if pc == "outside_noclip":
        # no partner point: the shape clauses (monotone, Edgeworth, continuity) speak about in-range or clipped inputs
        continue

      def moved(p, d, delta):
        q = [list(r) for r in p]
        for r in q:
          r[d] = r[d] + delta
          if not clip:
            r[d] = min(max(r[d], 0.0), sizes[d] - 1.0)
        return q
      if kclass == "mono":
        d = rng.choice(kinfo["mono_dims"])
        delta = rng.choice([0.125, 0.5, 1.0, 1.0, 2.5])
        pts.append(moved(base, d, delta))
        pcls.append("moved")
        pairs.append([bi, len(pts) - 1, d])
        cpairs.append([bi, len(pts) - 1, d])
      elif kclass == "edge":
        m, cd = kinfo["edge"]
        dm = rng.choice([0.125, 0.5, 1.0, 2.5])
        dc = rng.choice([0.125, 0.5, 1.0, 2.5])
        xm = moved(base, m, dm)
        y = moved(base, cd, dc)
        ym = moved(y, m, dm)
        # the main-feature step must be the same at both conditional values
        if all(abs((a[m] - b[m]) - (c[m] - e[m])) < 1e-12 for a, b, c, e in zip(xm, base, ym, y)):
          pts.extend([xm, y, ym])
          pcls.extend(["moved"] * 3)
          quads.append([bi, bi + 1, bi + 2, bi + 3])
          cpairs.extend([[bi, bi + 1, m], [bi, bi + 2, cd], [bi + 2, bi + 3, m]])
      else:
        d = rng.randrange(rank)
        pts.append(moved(base, d, rng.choice([0.125, 0.5, 1.0])))
        pcls.append("moved")
        cpairs.append([bi, len(pts) - 1, d])
      if pc in ("face", "vertex", "top", "tied", "axis_edge") and rng.random() < 0.6:
        # continuity across / onto a cell face: a partner 2^-10 away from an integer coordinate of the base point
        # (on either side; clamped into the range when clip_inputs is off)
        ints = [i for i in range(rank) if all(r[i] == int(r[i]) for r in base)]
        if ints:
          d = rng.choice(ints)
          pts.append(moved(base, d, rng.choice([-1, 1]) * 2.0 ** -10))
          pcls.append("near")
          cpairs.append([bi, len(pts) - 1, d])
    extra_batch = rng.random() < 0.25
    if extra_batch and len(pts) % 2 == 1:
      pts.append([_gen_point(rng, sizes, clip, "interior") for _ in range(units)])
      pcls.append("interior")
    d = dict(sclass=sclass, sizes=sizes, units=units, simplex=simplex, tensor=tensor, clip=clip, via=via,
             kclass=kclass, kinfo=kinfo, K=K, pts=pts, pcls=pcls, pairs=pairs, quads=quads,
             cpairs=cpairs, extra_batch=extra_batch)
    if via == "layer" and rng.random() < 0.15 and "outside_noclip" not in pcls:
      # (extrapolated outputs are sums of large terms of both signs: not exact in float32)
      d["dtype"] = "float32"   # kernel and points are multiples of 1/8 (exact in float32)
      if kclass == "random":
        d["K"] = [[fine(rng, v) for v in row] for row in K]
    out.append(d)
  return out


def _run_impl(tf, tfl, d, simplex, via):
  """Runs the implementation on all points of desc d. Returns outputs (npts, units)."""
  sizes, units = list(d["sizes"]), d["units"]
  rank = len(sizes)
  dt = np.float32 if is_f32(d) else np.float64
  x = np.array(d["pts"], dtype=dt)  # (npts, units, rank)
  npts = x.shape[0]
  if units == 1:
    x = x[:, 0, :]
  if d["extra_batch"]:
    x = x.reshape((2, npts // 2) + x.shape[1:])
  if d["tensor"]:
    inp = tf.constant(x)
  else:
    inp = [tf.constant(x[..., i:i + 1]) for i in range(rank)]
  K = np.array(d["K"], dtype=dt)
  if via == "layer":
    layer = tfl.layers.Lattice(lattice_sizes=sizes, units=units,
                               interpolation="simplex" if simplex else "hypercube",
                               clip_inputs=d["clip"], dtype=np.dtype(dt).name)
    shape = (None,) * (2 if d["extra_batch"] else 1) + ((units,) if units > 1 else ()) + (rank,)
    if not d["tensor"]:
      shape = [shape[:-1] + (1,)] * rank
    layer.build(shape)
    layer.kernel.assign(K)
    yt = layer(inp)
    if layer.kernel.dtype.base_dtype.name != np.dtype(dt).name or yt.dtype.name != np.dtype(dt).name:
      raise TypeError("layer built with dtype=%s has a %s kernel and returns %s" % (
          np.dtype(dt).name, layer.kernel.dtype.base_dtype.name, yt.dtype.name))
    y = yt.numpy()
  else:
    fn = (tfl.lattice_lib.evaluate_with_simplex_interpolation if simplex
          else tfl.lattice_lib.evaluate_with_hypercube_interpolation)
    y = fn(inputs=inp, kernel=tf.constant(K), units=units, lattice_sizes=sizes, clip_inputs=d["clip"]).numpy()
  return y.reshape(npts, units)


def _clipped(p, sizes):
  return [[min(max(v, 0.0), s - 1.0) for v, s in zip(r, sizes)] for r in p]


def _free(d):
  """Indices of the points the shape clauses do not speak about: clip_inputs off and a coordinate out of range."""
  return {i for i, pc in enumerate(d["pcls"]) if pc == "outside_noclip"}


def _predicate(d, outs, other, at_clipped=None):
  """Property clauses evaluated on the implementation's outputs."""
  sizes, units = d["sizes"], d["units"]
  rank = len(sizes)
  TOL = tol_of(d)   # pylint: disable=invalid-name,redefined-outer-name
  K = np.array(d["K"], dtype=np.float64)
  strides = [_prod(sizes[i + 1:]) for i in range(len(sizes))]
  free = _free(d)
  bound = [(i, p, o, oo) for i, (p, o, oo) in enumerate(zip(d["pts"], outs, other)) if i not in free]
  if at_clipped is not None:
    # clip_inputs on: the layer evaluated on x and on the point clipped onto the lattice range give the same output
    for i, (p, o, oc) in enumerate(zip(d["pts"], outs, at_clipped)):
      for u in range(units):
        if abs(o[u] - oc[u]) > TOL * max(1, abs(oc[u])):
          return ("clip_inputs is on but the output %r of unit %d at %r differs from the output %r at the clipped "
                  "point %r" % (o[u], u, p[u], oc[u], _clipped(p, sizes)[u]))
  Kt = K.reshape(tuple(sizes) + (units,))
  offs = np.array(list(itertools.product([0, 1], repeat=rank)), dtype=int)
  for u in range(units):
    lo, hi = K[:, u].min(), K[:, u].max()
    for i, p, o, _ in bound:
      if not lo - TOL * max(1, abs(lo)) <= o[u] <= hi + TOL * max(1, abs(hi)):
        return "output %r of unit %d at %r leaves [min kernel, max kernel] = [%r, %r]" % (o[u], u, p[u], lo, hi)
    # convex combination of the corner values of the cell containing the (clipped) point
    for i, p, o, _ in bound:
      xc = _clipped(p, sizes)[u]
      c = np.array([min(int(np.floor(v)), s - 2) for v, s in zip(xc, sizes)], dtype=int)
      corners = Kt[tuple((c + offs).T) + (u,)]
      clo, chi = corners.min(), corners.max()
      if not clo - TOL * max(1, abs(clo)) <= o[u] <= chi + TOL * max(1, abs(chi)):
        return ("output %r of unit %d at %r is not a convex combination of the corner values of its cell (lower "
                "corner %r, corner values in [%r, %r])" % (o[u], u, p[u], c.tolist(), clo, chi))
    # continuity (Lipschitz along one dimension): two points that differ by t in coordinate dim (after clipping)
    # differ in output by at most t * max |K[i + e_dim] - K[i]|; the partners 2^-10 beside a cell face make a jump
    # of the output at the face visible
    for i, j, dim in d.get("cpairs", []):
      if i in free or j in free:
        continue
      t = abs(_clipped(d["pts"][j], sizes)[u][dim] - _clipped(d["pts"][i], sizes)[u][dim])
      step = float(np.abs(np.diff(Kt[..., u], axis=dim)).max())
      if abs(outs[j][u] - outs[i][u]) > step * t + 2 * TOL * max(1, abs(outs[i][u])):
        return ("output of unit %d jumps from %r to %r between %r and %r (distance %r along dimension %d, largest "
                "kernel step along it %r): not continuous across the cell boundary" % (
                    u, outs[i][u], outs[j][u], d["pts"][i][u], d["pts"][j][u], t, dim, step))
    for i, p, o, oo in bound:
      xc = [min(max(v, 0.0), s - 1.0) for v, s in zip(p[u], sizes)]
      nonint = [i for i, v in enumerate(xc) if v != int(v)]
      if not nonint:
        want = K[sum(int(v) * st for v, st in zip(xc, strides)), u]
        if abs(o[u] - want) > TOL * max(1, abs(want)):
          return "vertex %r of unit %d not reproduced: output %r, kernel value %r" % (p[u], u, o[u], want)
      if len(nonint) <= 1 and abs(o[u] - oo[u]) > TOL * max(1, abs(o[u])):
        return "hypercube and simplex differ on vertex/axis-parallel edge point %r of unit %d: %r vs %r" % (
            p[u], u, o[u], oo[u])
  if d["kclass"] == "mono":
    for i, j, dim in d["pairs"]:
      if i in free or j in free:
        continue
      for u in range(units):
        if outs[j][u] < outs[i][u] - TOL * max(1, abs(outs[i][u])):
          return ("kernel of unit %d is non-decreasing along dimension %d but output decreases from %r to %r "
                  "between %r and %r" % (u, dim, outs[i][u], outs[j][u], d["pts"][i][u], d["pts"][j][u]))
  if d["kclass"] == "edge" and not d["simplex"]:
    for a, b, c, e in d["quads"]:
      for u in range(units):
        lo_eff = outs[b][u] - outs[a][u]
        hi_eff = outs[e][u] - outs[c][u]
        if hi_eff < lo_eff - (1e-8 if not is_f32(d) else 4 * TOL * max(1.0, float(np.abs(K[:, u]).max()))):
          return ("Edgeworth-feasible kernel of unit %d (main %d, conditional %d) but the main effect drops from "
                  "%r to %r as the conditional input grows (%r -> %r)" % (
                      u, d["kinfo"]["edge"][0], d["kinfo"]["edge"][1], lo_eff, hi_eff, d["pts"][a][u], d["pts"][c][u]))
  return None


def eval_cases(ctx, descs):
  tf, tfl = tfimpl.tfl()
  cases = []
  for d in descs:
    klass = "%s_%s_%s_%s_%s%s" % (d["sclass"], "simplex" if d["simplex"] else "hyper",
                                  "tensor" if d["tensor"] else "list", "u1" if d["units"] == 1 else "uN",
                                  "clip" if d["clip"] else "noclip", "_f32" if is_f32(d) else "")
    free = _free(d)
    if free:
      klass += "_outside"
    try:
      y = _run_impl(tf, tfl, d, d["simplex"], d["via"])
      # the other scheme, through the lattice_lib function, for the agreement clause (which does not speak about
      # unclipped out-of-range points: those are replaced by their clipped versions in this run, the simplex gather
      # would raise on coordinates <= -1)
      dsafe = dict(d, pts=[_clipped(p, d["sizes"]) if i in free else p for i, p in enumerate(d["pts"])])
      yo = _run_impl(tf, tfl, dsafe, not d["simplex"], "lib")
      yc = None
      if d["clip"] and "outside" in d["pcls"]:
        yc = _run_impl(tf, tfl, dict(d, pts=[_clipped(p, d["sizes"]) for p in d["pts"]]), d["simplex"], d["via"])
    except Exception as e:  # pylint: disable=broad-except
      cases.append(Case(d, coq=None, klass=klass, pred_fail="implementation raised %s: %s on in-range or clipped "
                        "input (or unclipped input outside the range; simplex: above -1)" % (type(e).__name__, str(e)[:300])))
      continue
    outs = [[float(v) for v in row] for row in y]
    other = [[float(v) for v in row] for row in yo]
    fail = _predicate(d, outs, other, None if yc is None else [[float(v) for v in row] for row in yc])
    coq = "mk %s %s %s %s %s %s %s %s %s" % (
        cbool(d["simplex"]), cbool(d["tensor"]), cbool(d["clip"]), cnat(d["units"]), cnatl(d["sizes"]),
        cqm(d["K"]), clist([cqm(p) for p in d["pts"]]), cqm(outs), "tol32" if is_f32(d) else "tol")
    nonvertex = any(v != int(v) for p in d["pts"] for r in p for v in r)
    cases.append(Case(d, coq=coq, pred_fail=fail, nontrivial=nonvertex, klass=klass,
                      info={"impl_outputs": outs, "other_scheme_outputs": other}))
  return cases
