"""C06 - Linear / categorical weight constraints."""
import math
import numpy as np
from common import Case, cq, cql, cqm, clist, cnat, copt, czl, cnatpairs
import tfimpl

ID = "C06"
HMODULE = "H_C06"
EXTRA_CHECK_FNS = ["check_sort"]
RULE = ("Linear: 1-6 inputs, 1-3 units, random monotonicities, random ACYCLIC monotonic-dominance graphs on "
        "increasing inputs and range-dominance graphs on equally-directed bounded inputs (chains, diamonds, "
        "forests, shared parents, duplicates, random pair order), zero-width ranges on bystander inputs, "
        "input_min / input_max given as list, tuple, and with 'none' / 'None' / 'NONE' strings in place of None, "
        "normalization none/1/2; rootless monotonic- and range-dominance CYCLES of length 3-6 (accepted by "
        "verify_hyperparameters, ValueError 'Circular monotonicity constraints' from the projection, None in the "
        "model); Categorical: 2-8 buckets, random DAGs of ordering pairs, bounds "
        "none/min/max/both; weight classes: random dyadic, ties, zeros, sign-feasible, far (+-64). A few "
        "rootless cycles (ValueError expected on both sides). Non-trivial = the projection changed the "
        "weights; distinct = distinct (config, weights).")
TRUSTED = ["model: Model/PartialOrder.v + Model/LinearProject.v (hand-written from internal_utils.py, "
           "linear_lib.project, categorical_calibration_lib.project); square root of the order-2 norm is an "
           "oracle in the theorems and a truncated Newton iteration when the model is executed",
           "tie: LinearConstraints / CategoricalCalibrationConstraints called on float64 matrices; outputs "
           "compared in Coq; the model's topological order is re-validated in Coq on every case"]
LIMITS = ["cyclic pair sets that still have a root are outside the property (acyclic sets only) and are not generated",
          "float rounding outside the model (tolerance 1e-9)",
          "normalization_order is modelled for None, 1 and 2 only; the code passes any other value (3, inf, 0.5, "
          "'euclidean', 0, ...) to tf.norm(ord=...) while the model treats every order other than 1 as the L2 norm, "
          "so other orders are not generated and nothing is claimed about them",
          "LinearConstraints receives monotonicities as a list of -1/0/1 only (string spellings and the scalar form "
          "belong to the Linear layer, see C20)"]


def rand_dag(rng, nodes, max_pairs):
  """Random acyclic pair list (i, j) meaning i before j in a hidden order."""
  nodes = list(nodes)
  if len(nodes) < 2:
    return []
  order = list(nodes)
  rng.shuffle(order)
  pos = {v: k for k, v in enumerate(order)}
  pairs = []
  for _ in range(rng.randint(1, max_pairs)):
    a, b = rng.sample(nodes, 2)
    if pos[a] > pos[b]:
      a, b = b, a
    pairs.append([a, b])
  if rng.random() < 0.2 and pairs:
    pairs.append(list(rng.choice(pairs)))  # duplicate
  return pairs


def rand_weights(rng, n, units, klass, monos=None):
  W = []
  for i in range(n):
    row = []
    for _ in range(units):
      if klass == "zeros":
        v = 0.0
      elif klass == "ties":
        v = float(rng.choice([-1, 0, 1, 1, 2]))
      elif klass == "far":
        v = tfimpl.dy(rng, -64, 64)
      elif klass == "tiny":
        v = rng.choice([0.0, 1e-9, -1e-9, 2e-9])
      elif klass == "small":
        # column norms around 1e-5: far above the "numerically zero" guard (1e-8), so still normalised
        v = rng.choice([-3, -1, 0, 1, 2, 5]) * 2.0 ** -17
      else:
        v = tfimpl.dy(rng)
      if klass == "signfeasible" and monos and monos[i] != 0:
        v = abs(v) * monos[i]
      row.append(v)
    W.append(row)
  return W


BOUND_FORMS = ["list", "list", "list", "tuple", "str", "str", "tuple_str"]


def bounds_arg(vals, form, present):
  """The input_min / input_max argument in one of its accepted spellings: a list (None when no bound is set and
  nothing needs one), a tuple, a list/tuple with 'none' strings (any capitalisation) in place of None."""
  if form == "list":
    return list(vals) if present else None
  spell = ["none", "None", "NONE"]
  if form in ("str", "tuple_str"):
    vals = [spell[i % 3] if v is None else v for i, v in enumerate(vals)]
  return tuple(vals) if form.startswith("tuple") else list(vals)


def gen_cycle(rng):
  """A dominance CYCLE of length >= 3 with no root (verify_hyperparameters only rejects 2-cycles): the projection's
  topological sort raises ValueError('Circular monotonicity constraints'); the model answers None."""
  n = rng.randint(3, 6)
  k = rng.randint(3, n)
  which = rng.choice(["mdom", "rdom"])
  sign = 1 if which == "mdom" else rng.choice([1, 1, -1])
  cyc = rng.sample(range(n), k)
  monos = [rng.choice([-1, 0, 1]) for _ in range(n)]
  lo, hi = [None] * n, [None] * n
  for i in cyc:
    monos[i] = sign
    if which == "rdom":
      a = tfimpl.dy(rng, -4, 4)
      lo[i], hi[i] = a, a + rng.choice([0.5, 1.0, 2.0, 3.0])
  pairs = [[cyc[i], cyc[(i + 1) % k]] for i in range(k)]
  rng.shuffle(pairs)
  units = rng.choice([1, 1, 2, 3])
  klass = rng.choice(["random", "ties", "zeros", "signfeasible"])
  return dict(kind="linear", n=n, units=units, monos=monos, mdom=pairs if which == "mdom" else [],
              rdom=pairs if which == "rdom" else [], lo=lo, hi=hi, norm=rng.choice([None, None, 1, 2]),
              W=rand_weights(rng, n, units, klass, monos), wclass=klass, cycle=which,
              lo_form=rng.choice(BOUND_FORMS), hi_form=rng.choice(BOUND_FORMS))


def gen_descs(ctx):
  rng = ctx.rng
  out = []
  for _ in range(ctx.n(30, 300)):
    out.append(gen_cycle(rng))
  for _ in range(ctx.n(350, 4000)):
    n = rng.randint(1, 6)
    units = rng.choice([1, 1, 2, 3])
    monos = [rng.choice([-1, 0, 1, 1]) for _ in range(n)]
    inc = [i for i in range(n) if monos[i] == 1]
    dec = [i for i in range(n) if monos[i] == -1]
    mode = rng.choice(["plain", "mdom", "rdom", "both", "mdom", "rdom"])
    mdom, rdom = [], []
    used = set()
    if mode in ("mdom", "both") and len(inc) >= 2:
      k = rng.randint(2, len(inc))
      sub = rng.sample(inc, k)
      # pairs are (dominant, weak): weak <= dominant
      mdom = [[b, a] for a, b in rand_dag(rng, sub, 2 * k)]
      used = set(x for p in mdom for x in p)
    lo = [None] * n
    hi = [None] * n
    for i in range(n):
      c = rng.random()
      a = tfimpl.dy(rng, -4, 4)
      if c < 0.3:
        lo[i], hi[i] = a, a + rng.choice([0.5, 1.0, 2.0, 3.0])
      elif c < 0.4:
        lo[i], hi[i] = a, a  # zero width (bystander)
      elif c < 0.5:
        lo[i] = a
      elif c < 0.6:
        hi[i] = a
    if mode in ("rdom", "both"):
      pool = [i for i in (inc if rng.random() < 0.6 or len(dec) < 2 else dec) if i not in used]
      if len(pool) >= 2:
        k = rng.randint(2, len(pool))
        sub = rng.sample(pool, k)
        for i in sub:
          a = tfimpl.dy(rng, -4, 4)
          lo[i], hi[i] = a, a + rng.choice([0.5, 1.0, 2.0, 3.0])
        rdom = [[b, a] for a, b in rand_dag(rng, sub, 2 * k)]
    if rdom and rng.random() < 0.3:
      # every input has the SAME range (a shortcut "all scalings equal => skip the rescaling" is wrong for
      # decreasing inputs, whose scaling also flips the sign)
      a, w = tfimpl.dy(rng, -2, 2), rng.choice([0.5, 1.0, 2.0])
      lo, hi = [a] * n, [a + w] * n
    norm = rng.choice([None, None, 1, 2])
    klass = rng.choice(["random", "random", "ties", "zeros", "far", "signfeasible", "tiny", "small"])
    W = rand_weights(rng, n, units, klass, monos)
    out.append(dict(kind="linear", n=n, units=units, monos=monos, mdom=mdom, rdom=rdom, lo=lo, hi=hi,
                    norm=norm, W=W, wclass=klass, lo_form=rng.choice(BOUND_FORMS), hi_form=rng.choice(BOUND_FORMS)))
  for _ in range(ctx.n(250, 3000)):
    n = rng.randint(2, 8)
    units = rng.choice([1, 1, 2, 3])
    c = rng.random()
    if c < 0.1:
      pairs = []
    elif c < 0.17:
      k = rng.randint(2, min(4, n))
      cyc = rng.sample(range(n), k)
      pairs = [[cyc[i], cyc[(i + 1) % k]] for i in range(k)]  # rootless cycle -> ValueError
    else:
      pairs = rand_dag(rng, range(n), 2 * n)
    bmode = rng.choice(["none", "lo", "hi", "both"])
    a = tfimpl.dy(rng, -4, 4)
    lo = a if bmode in ("lo", "both") else None
    hi = a + rng.choice([0.0, 1.0, 4.0]) if bmode in ("hi", "both") else None
    lo, hi = tfimpl.zero_bound(rng, lo, hi)
    klass = rng.choice(["random", "random", "ties", "zeros", "far"])
    W = rand_weights(rng, n, units, klass)
    out.append(dict(kind="cat", n=n, units=units, pairs=pairs, lo=lo, hi=hi, W=W, wclass=klass))
  return out


def _mat(t):
  return [[float(v) for v in row] for row in t.numpy()]


def coq_lin_cfg(d):
  return "(mkLin %s %s %s %s %s %s)" % (
      czl(d["monos"]), cnatpairs(d["mdom"]), cnatpairs(d["rdom"]),
      clist([copt(v) for v in d["lo"]]), clist([copt(v) for v in d["hi"]]), cnat(d["norm"] or 0))


def eval_cases(ctx, descs):
  tf, tfl = tfimpl.tfl()
  cases = []
  for d in descs:
    W = np.array(d["W"], dtype=np.float64)
    fail = None
    out = None
    exc = None
    if d["kind"] == "linear":
      any_lo = any(v is not None for v in d["lo"])
      any_hi = any(v is not None for v in d["hi"])
      built = False
      try:
        con = tfl.linear_layer.LinearConstraints(
            monotonicities=d["monos"],
            monotonic_dominances=[tuple(p) for p in d["mdom"]] or None,
            range_dominances=[tuple(p) for p in d["rdom"]] or None,
            input_min=bounds_arg(d["lo"], d.get("lo_form", "list"), any_lo or d["rdom"]),
            input_max=bounds_arg(d["hi"], d.get("hi_form", "list"), any_hi or d["rdom"]),
            normalization_order=d["norm"])
        built = True
        res = con(tf.constant(W))
        out = _mat(res)
        again = _mat(con(res))
      except ValueError as e:
        exc = "ValueError"
      except Exception as e:  # pylint: disable=broad-except
        exc = type(e).__name__
        fail = "projection raised %s: %s" % (exc, str(e)[:200])
      if out is not None:
        R = np.array(out)
        if not np.all(np.isfinite(R)):
          fail = "non-finite weights returned"
        else:
          eps = 1e-9
          for i, m in enumerate(d["monos"]):
            if m == 1 and R[i].min() < -eps: fail = "weight of increasing input %d negative: %r" % (i, R[i].min())
            if m == -1 and R[i].max() > eps: fail = "weight of decreasing input %d positive: %r" % (i, R[i].max())
          for dom, weak in d["mdom"]:
            if (R[dom] - R[weak]).min() < -eps * max(1, abs(R).max()):
              fail = "monotonic dominance (%d over %d) violated by %r" % (dom, weak, (R[dom] - R[weak]).min())
          for dom, weak in d["rdom"]:
            sd = (d["hi"][dom] - d["lo"][dom]) * (-1 if d["monos"][dom] == -1 else 1)
            sw = (d["hi"][weak] - d["lo"][weak]) * (-1 if d["monos"][weak] == -1 else 1)
            if (sd * R[dom] - sw * R[weak]).min() < -eps * max(1, abs(R).max()) * 8:
              fail = "range dominance (%d over %d) violated by %r" % (dom, weak, (sd * R[dom] - sw * R[weak]).min())
          if d["norm"]:
            for u in range(d["units"]):
              nrm = np.linalg.norm(R[:, u], ord=d["norm"])
              if not (abs(nrm - 1) < 1e-6 or nrm < 1e-8):
                fail = "unit %d has norm %r (order %d), neither 1 nor numerically zero" % (u, nrm, d["norm"])
          if fail is None and np.abs(np.array(again) - R).max() > 1e-9 * max(1, abs(R).max()):
            fail = "a feasible result is moved by projecting again (max change %r)" % np.abs(np.array(again) - R).max()
      if exc == "ValueError" and not built:
        # every generated configuration is valid for verify_hyperparameters (cycles of length >= 3 included)
        fail = "LinearConstraints(...) rejected a valid configuration with ValueError"
      cfg = coq_lin_cfg(d)
      coq = "CLin %s %s %s %s" % (cfg, cnat(d["units"]), cqm(d["W"]), copt(out, cqm) if exc is None else "None")
      forms = set([d.get("lo_form", "list"), d.get("hi_form", "list")])
      klass = "lin_%s%s%s_%s%s%s" % ("m" if d["mdom"] else "", "r" if d["rdom"] else "",
                                      "n%d" % d["norm"] if d["norm"] else "", d["wclass"],
                                      "_cyc-" + d["cycle"] + ("" if exc else "-NOT-REJECTED") if d.get("cycle") else "",
                                      ("_B" + ("t" if forms & set(["tuple", "tuple_str"]) else "") +
                                       ("s" if forms & set(["str", "tuple_str"]) else "")) if forms != set(["list"]) else "")
    else:
      try:
        con = tfl.categorical_calibration_layer.CategoricalCalibrationConstraints(
            output_min=d["lo"], output_max=d["hi"], monotonicities=[tuple(p) for p in d["pairs"]] or None)
        res = con(tf.constant(W))
        out = _mat(res)
        again = _mat(con(res))
      except ValueError as e:
        exc = "ValueError"
      except Exception as e:  # pylint: disable=broad-except
        exc = type(e).__name__
        fail = "projection raised %s: %s" % (exc, str(e)[:200])
      if out is not None:
        R = np.array(out)
        eps = 1e-9 * max(1, abs(R).max())
        for i, j in d["pairs"]:
          if (R[j] - R[i]).min() < -eps:
            fail = "ordering pair (%d, %d) violated by %r" % (i, j, (R[j] - R[i]).min())
        if d["lo"] is not None and R.min() < d["lo"] - eps: fail = "value below output_min"
        if d["hi"] is not None and R.max() > d["hi"] + eps: fail = "value above output_max"
        if fail is None and np.abs(np.array(again) - R).max() > eps:
          fail = "a feasible result is moved by projecting again"
      coq = "CCat %s %s %s %s %s %s" % (cnatpairs(d["pairs"]), copt(d["lo"]), copt(d["hi"]), cnat(d["units"]),
                                         cqm(d["W"]), copt(out, cqm) if exc is None else "None")
      klass = "cat_%s_%s" % ("cyc" if exc else ("pairs" if d["pairs"] else "nopairs"), d["wclass"])
    if exc is not None and exc != "ValueError":
      coq = None
    moved = out is not None and np.abs(np.array(out) - W).max() > 1e-12
    cases.append(Case(d, coq=coq, pred_fail=fail, nontrivial=bool(moved), klass=klass,
                      info={"impl_output": out, "impl_exception": exc}))
  return cases


