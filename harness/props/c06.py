"""C06 - Linear / categorical weight constraints."""
import math
import numpy as np
from common import Case, cq, cql, cqm, clist, cnat, copt, czl, cnatpairs
import tfimpl

ID = "C06"
HMODULE = "H_C06"
EXTRA_CHECK_FNS = ["check_sort"]
RULE = ("Linear: 1-6 inputs, 1-3 units, random monotonicities, random ACYCLIC monotonic-dominance graphs on "
        "increasing inputs and range-dominance graphs on equally-directed bounded inputs (chains, diamonds, "
        "forests, shared parents, duplicates, random pair order), zero-width ranges on bystander inputs, "
        "input_min / input_max given as list, tuple, and with 'none' / 'None' / 'NONE' strings in place of None, "
        "normalization none/1/2; rootless monotonic- and range-dominance CYCLES of length 3-6 (accepted by "
        "verify_hyperparameters, ValueError 'Circular monotonicity constraints' from the projection, None in the "
        "model); Categorical: 2-8 buckets, random DAGs of ordering pairs, bounds "
        "none/min/max/both; weight classes: random dyadic, ties, zeros, sign-feasible, far (+-64), and 'feasible': "
        "explicitly CONSTRUCTED weights meeting every configured constraint - Linear: signs per monotonicity, every "
        "monotonic- and range-dominance inequality satisfied with slack or with a tie, unit norm where a norm is "
        "configured (and all-zero columns); categorical: values ordered along every pair with ties, inside the "
        "bounds and often on them - which the projection must return unchanged (today's other classes only test "
        "idempotence on the projection's own output). A few "
        "rootless cycles (ValueError expected on both sides). Non-trivial = the projection changed the "
        "weights (or the case is a constructed feasible one); distinct = distinct (config, weights).")
TRUSTED = ["model: Model/PartialOrder.v + Model/LinearProject.v (hand-written from internal_utils.py, "
           "linear_lib.project, categorical_calibration_lib.project); square root of the order-2 norm is an "
           "oracle in the theorems and a truncated Newton iteration when the model is executed",
           "tie: LinearConstraints / CategoricalCalibrationConstraints called on float64 matrices; outputs "
           "compared in Coq; the model's topological order is re-validated in Coq on every case"]
LIMITS = ["cyclic pair sets that still have a root are outside the property (acyclic sets only) and are not generated",
          "float rounding outside the model (tolerance 1e-9)",
          "normalization_order is modelled for None, 1 and 2 only; the code passes any other value (3, inf, 0.5, "
          "'euclidean', 0, ...) to tf.norm(ord=...) while the model treats every order other than 1 as the L2 norm, "
          "so other orders are not generated and nothing is claimed about them",
          "LinearConstraints receives monotonicities as a list of -1/0/1 only (string spellings and the scalar form "
          "belong to the Linear layer, see C20)"]


def rand_dag(rng, nodes, max_pairs):
  """Random acyclic pair list (i, j) meaning i before j in a hidden order."""
  nodes = list(nodes)
  if len(nodes) < 2:
    return []
  order = list(nodes)
  rng.shuffle(order)
  pos = {v: k for k, v in enumerate(order)}
  pairs = []
  for _ in range(rng.randint(1, max_pairs)):
    a, b = rng.sample(nodes, 2)
    if pos[a] > pos[b]:
      a, b = b, a
    pairs.append([a, b])
  if rng.random() < 0.2 and pairs:
    pairs.append(list(rng.choice(pairs)))  # duplicate
  return pairs


def rand_weights(rng, n, units, klass, monos=None):
  W = []
  for i in range(n):
    row = []
    for _ in range(units):
      if klass == "zeros":
        v = 0.0
      elif klass == "ties":
        v = float(rng.choice([-1, 0, 1, 1, 2]))
      elif klass == "far":
        v = tfimpl.dy(rng, -64, 64)
      elif klass == "tiny":
        v = rng.choice([0.0, 1e-9, -1e-9, 2e-9])
      elif klass == "small":
        # column norms around 1e-5: far above the "numerically zero" guard (1e-8), so still normalised
        v = rng.choice([-3, -1, 0, 1, 2, 5]) * 2.0 ** -17
      else:
        v = tfimpl.dy(rng)
      if klass == "signfeasible" and monos and monos[i] != 0:
        v = abs(v) * monos[i]
      row.append(v)
    W.append(row)
  return W


def lin_scalings(d):
  """Per-input factor of the range-dominance inequalities (sign of the direction times the input range)."""
  sc = []
  for m, l, h in zip(d["monos"], d["lo"], d["hi"]):
    v = -1.0 if m == -1 else 1.0
    if l is not None and h is not None and h > l:
      v *= h - l
    sc.append(v)
  return sc


def lin_slack(d, W):
  """Smallest slack over every configured Linear constraint of the weights W (>= 0: all hold), and the largest
  |norm - 1| over the columns that are not numerically zero (0.0 without a norm)."""
  W = np.asarray(W, dtype=np.float64)
  slack = np.inf
  for i, m in enumerate(d["monos"]):
    if m != 0:
      slack = min(slack, float((m * W[i]).min()))
  for dom, weak in d["mdom"]:
    slack = min(slack, float((W[dom] - W[weak]).min()))
  sc = lin_scalings(d)
  for dom, weak in d["rdom"]:
    slack = min(slack, float((sc[dom] * W[dom] - sc[weak] * W[weak]).min()))
  off = 0.0
  if d["norm"]:
    nr = np.linalg.norm(W, ord=d["norm"], axis=0)
    off = float(np.where(nr < 1e-8, 0.0, np.abs(nr - 1.0)).max())
  return slack, off


def feasible_linear(rng, d):
  """Weights meeting EVERY constraint of the Linear configuration d: magnitudes on the 1/8 grid signed by the
  monotonicity, dominant inputs raised to their weak partners (to a tie, or above by a slack), range dominance on the
  scaled effects, then normalised (float division; equal entries stay equal) where a norm is configured; one column
  in eight all-zero. None for configurations with a dominance cycle."""
  n, units = d["n"], d["units"]
  sc = [abs(v) for v in lin_scalings(d)]
  cols = []
  # with a norm configured, one case in six: every column scaled by 2^-40 instead of normalised (exact scaling, every
  # inequality is kept; norms around 1e-11 < 1e-8): feasible, non-zero and NUMERICALLY ZERO, so it must come back
  # unchanged and not scaled up to unit norm (C06_linear_feasible_fixed_numerically_zero_l1 / _l2)
  tiny = bool(d["norm"]) and rng.random() < 1.0 / 6
  if tiny:
    d["tinynorm"] = True
  for _ in range(units):
    if rng.random() < 0.125:
      cols.append([0.0] * n)
      continue
    mag = [rng.choice([0.0, 0.125, 0.5, 1.0, 1.0, 2.0, 3.5]) for _ in range(n)]
    for _ in range(n + 2):
      changed = False
      for dom, weak in d["mdom"]:
        if mag[dom] < mag[weak]:
          mag[dom] = mag[weak] + rng.choice([0.0, 0.0, 0.125, 1.0])
          changed = True
      for dom, weak in d["rdom"]:
        if sc[dom] * mag[dom] < sc[weak] * mag[weak]:
          # smallest multiple of 1/8 whose scaled effect reaches the weak one (a tie when it lands on the grid)
          mag[dom] = float(np.ceil(sc[weak] * mag[weak] / sc[dom] * 8.0) / 8.0) + rng.choice([0.0, 0.0, 0.125, 1.0])
          changed = True
      if not changed:
        break
    else:
      return None
    col = [v * (m if m != 0 else rng.choice([-1, 1])) for v, m in zip(mag, d["monos"])]
    if tiny:
      col = [v * 2.0 ** -40 for v in col]
    elif d["norm"]:
      nr = float(np.linalg.norm(np.array(col), ord=d["norm"]))
      if nr > 0:
        col = [v / nr for v in col]
    cols.append(col)
  return [[float(cols[u][i]) for u in range(units)] for i in range(n)]


def cat_slack(d, W):
  """Smallest slack over the ordering pairs and the bounds (>= 0: every categorical constraint holds)."""
  W = np.asarray(W, dtype=np.float64)
  slack = np.inf
  for i, j in d["pairs"]:
    slack = min(slack, float((W[j] - W[i]).min()))
  if d["lo"] is not None:
    slack = min(slack, float(W.min() - d["lo"]))
  if d["hi"] is not None:
    slack = min(slack, float(d["hi"] - W.max()))
  return slack


def feasible_categorical(rng, d):
  """Values ordered along EVERY pair (i, j) - non-decreasing along a topological order of the pair graph, with ties -
  inside the bounds, the extremes often ON a bound; all on a dyadic grid (exact). None for cyclic pair sets."""
  n, units = d["n"], d["units"]
  succ = {i: [] for i in range(n)}
  indeg = [0] * n
  for i, j in d["pairs"]:
    succ[i].append(j)
    indeg[j] += 1
  ready = [i for i in range(n) if indeg[i] == 0]
  order = []
  while ready:
    i = ready.pop(rng.randrange(len(ready)))
    order.append(i)
    for j in succ[i]:
      indeg[j] -= 1
      if indeg[j] == 0:
        ready.append(j)
  if len(order) != n:
    return None
  lo, hi = d["lo"], d["hi"]
  cols = []
  for _ in range(units):
    steps = [float(rng.choice([0, 0, 1, 1, 2, 4, 8])) for _ in range(n - 1)]
    span = sum(steps)
    if lo is not None and hi is not None:
      room = hi - lo
    else:
      room = rng.choice([1.0, 4.0, 8.0])
    k = 3
    while span * 2.0 ** -k > room:
      k += 1
    vals = [0.0]
    for v in steps:
      vals.append(vals[-1] + v * 2.0 ** -k)
    if lo is not None and hi is not None:
      base = lo + rng.choice([0.0, room - vals[-1], np.floor((room - vals[-1]) * 4.0) / 8.0])
    elif lo is not None:
      base = lo + rng.choice([0.0, 0.0, 0.5])
    elif hi is not None:
      base = hi - vals[-1] - rng.choice([0.0, 0.0, 0.5])
    else:
      base = tfimpl.dy(rng, -4, 4)
    col = [0.0] * n
    for pos, i in enumerate(order):
      col[i] = base + vals[pos]
    cols.append(col)
  return [[float(cols[u][i]) for u in range(units)] for i in range(n)]


BOUND_FORMS = ["list", "list", "list", "tuple", "str", "str", "tuple_str"]


def bounds_arg(vals, form, present):
  """The input_min / input_max argument in one of its accepted spellings: a list (None when no bound is set and
  nothing needs one), a tuple, a list/tuple with 'none' strings (any capitalisation) in place of None."""
  if form == "list":
    return list(vals) if present else None
  spell = ["none", "None", "NONE"]
  if form in ("str", "tuple_str"):
    vals = [spell[i % 3] if v is None else v for i, v in enumerate(vals)]
  return tuple(vals) if form.startswith("tuple") else list(vals)


def gen_cycle(rng):
  """A dominance CYCLE of length >= 3 with no root (verify_hyperparameters only rejects 2-cycles): the projection's
  topological sort raises ValueError('Circular monotonicity constraints'); the model answers None."""
  n = rng.randint(3, 6)
  k = rng.randint(3, n)
  which = rng.choice(["mdom", "rdom"])
  sign = 1 if which == "mdom" else rng.choice([1, 1, -1])
  cyc = rng.sample(range(n), k)
  monos = [rng.choice([-1, 0, 1]) for _ in range(n)]
  lo, hi = [None] * n, [None] * n
  for i in cyc:
    monos[i] = sign
    if which == "rdom":
      a = tfimpl.dy(rng, -4, 4)
      lo[i], hi[i] = a, a + rng.choice([0.5, 1.0, 2.0, 3.0])
  pairs = [[cyc[i], cyc[(i + 1) % k]] for i in range(k)]
  rng.shuffle(pairs)
  units = rng.choice([1, 1, 2, 3])
  klass = rng.choice(["random", "ties", "zeros", "signfeasible"])
  return dict(kind="linear", n=n, units=units, monos=monos, mdom=pairs if which == "mdom" else [],
              rdom=pairs if which == "rdom" else [], lo=lo, hi=hi, norm=rng.choice([None, None, 1, 2]),
              W=rand_weights(rng, n, units, klass, monos), wclass=klass, cycle=which,
              lo_form=rng.choice(BOUND_FORMS), hi_form=rng.choice(BOUND_FORMS))


def gen_descs(ctx):
  rng = ctx.rng
  out = []
  for _ in range(ctx.n(30, 300)):
    out.append(gen_cycle(rng))
  for _ in range(ctx.n(350, 4000)):
    n = rng.randint(1, 6)
    units = rng.choice([1, 1, 2, 3])
    monos = [rng.choice([-1, 0, 1, 1]) for _ in range(n)]
    inc = [i for i in range(n) if monos[i] == 1]
    dec = [i for i in range(n) if monos[i] == -1]
    mode = rng.choice(["plain", "mdom", "rdom", "both", "mdom", "rdom"])
    mdom, rdom = [], []
    used = set()
    if mode in ("mdom", "both") and len(inc) >= 2:
      k = rng.randint(2, len(inc))
      sub = rng.sample(inc, k)
      # pairs are (dominant, weak): weak <= dominant
      mdom = [[b, a] for a, b in rand_dag(rng, sub, 2 * k)]
      used = set(x for p in mdom for x in p)
    lo = [None] * n
    hi = [None] * n
    for i in range(n):
      c = rng.random()
      a = tfimpl.dy(rng, -4, 4)
      if c < 0.3:
        lo[i], hi[i] = a, a + rng.choice([0.5, 1.0, 2.0, 3.0])
      elif c < 0.4:
        lo[i], hi[i] = a, a  # zero width (bystander)
      elif c < 0.5:
        lo[i] = a
      elif c < 0.6:
        hi[i] = a
    if mode in ("rdom", "both"):
      pool = [i for i in (inc if rng.random() < 0.6 or len(dec) < 2 else dec) if i not in used]
      if len(pool) >= 2:
        k = rng.randint(2, len(pool))
        sub = rng.sample(pool, k)
        for i in sub:
          a = tfimpl.dy(rng, -4, 4)
          lo[i], hi[i] = a, a + rng.choice([0.5, 1.0, 2.0, 3.0])
        rdom = [[b, a] for a, b in rand_dag(rng, sub, 2 * k)]
    if rdom and rng.random() < 0.3:
      # every input has the SAME range (a shortcut "all scalings equal => skip the rescaling" is wrong for
      # decreasing inputs, whose scaling also flips the sign)
      a, w = tfimpl.dy(rng, -2, 2), rng.choice([0.5, 1.0, 2.0])
      lo, hi = [a] * n, [a + w] * n
    norm = rng.choice([None, None, 1, 2])
    klass = rng.choice(["random", "random", "ties", "zeros", "far", "signfeasible", "tiny", "small", "feasible",
                        "feasible"])
    d = dict(kind="linear", n=n, units=units, monos=monos, mdom=mdom, rdom=rdom, lo=lo, hi=hi, norm=norm)
    W = feasible_linear(rng, d) if klass == "feasible" else None
    if W is None:
      d.pop("tinynorm", None)
      klass = "random" if klass == "feasible" else klass
      W = rand_weights(rng, n, units, klass, monos)
    d.update(W=W, wclass=klass, lo_form=rng.choice(BOUND_FORMS), hi_form=rng.choice(BOUND_FORMS))
    out.append(d)
  for _ in range(ctx.n(250, 3000)):
    n = rng.randint(2, 8)
    units = rng.choice([1, 1, 2, 3])
    c = rng.random()
    if c < 0.1:
      pairs = []
    elif c < 0.17:
      k = rng.randint(2, min(4, n))
      cyc = rng.sample(range(n), k)
      pairs = [[cyc[i], cyc[(i + 1) % k]] for i in range(k)]  # rootless cycle -> ValueError
    else:
      pairs = rand_dag(rng, range(n), 2 * n)
    bmode = rng.choice(["none", "lo", "hi", "both"])
    a = tfimpl.dy(rng, -4, 4)
    lo = a if bmode in ("lo", "both") else None
    hi = a + rng.choice([0.0, 1.0, 4.0]) if bmode in ("hi", "both") else None
    lo, hi = tfimpl.zero_bound(rng, lo, hi)
    klass = rng.choice(["random", "random", "ties", "zeros", "far", "feasible", "feasible"])
    d = dict(kind="cat", n=n, units=units, pairs=pairs, lo=lo, hi=hi)
    W = feasible_categorical(rng, d) if klass == "feasible" else None
    if W is None:
      klass = "random" if klass == "feasible" else klass
      W = rand_weights(rng, n, units, klass)
    d.update(W=W, wclass=klass)
    out.append(d)
  return out


def _mat(t):
  return [[float(v) for v in row] for row in t.numpy()]


def coq_lin_cfg(d):
  return "(mkLin %s %s %s %s %s %s)" % (
      czl(d["monos"]), cnatpairs(d["mdom"]), cnatpairs(d["rdom"]),
      clist([copt(v) for v in d["lo"]]), clist([copt(v) for v in d["hi"]]), cnat(d["norm"] or 0))


def eval_cases(ctx, descs):
  tf, tfl = tfimpl.tfl()
  cases = []
  for d in descs:
    W = np.array(d["W"], dtype=np.float64)
    fail = None
    out = None
    exc = None
    if d["kind"] == "linear":
      any_lo = any(v is not None for v in d["lo"])
      any_hi = any(v is not None for v in d["hi"])
      built = False
      try:
        con = tfl.linear_layer.LinearConstraints(
            monotonicities=d["monos"],
            monotonic_dominances=[tuple(p) for p in d["mdom"]] or None,
            range_dominances=[tuple(p) for p in d["rdom"]] or None,
            input_min=bounds_arg(d["lo"], d.get("lo_form", "list"), any_lo or d["rdom"]),
            input_max=bounds_arg(d["hi"], d.get("hi_form", "list"), any_hi or d["rdom"]),
            normalization_order=d["norm"])
        built = True
        res = con(tf.constant(W))
        out = _mat(res)
        again = _mat(con(res))
      except ValueError as e:
        exc = "ValueError"
      except Exception as e:  # pylint: disable=broad-except
        exc = type(e).__name__
        fail = "projection raised %s: %s" % (exc, str(e)[:200])
      if out is not None:
        R = np.array(out)
        if not np.all(np.isfinite(R)):
          fail = "non-finite weights returned"
        else:
          eps = 1e-9
          for i, m in enumerate(d["monos"]):
            if m == 1 and R[i].min() < -eps: fail = "weight of increasing input %d negative: %r" % (i, R[i].min())
            if m == -1 and R[i].max() > eps: fail = "weight of decreasing input %d positive: %r" % (i, R[i].max())
          for dom, weak in d["mdom"]:
            if (R[dom] - R[weak]).min() < -eps * max(1, abs(R).max()):
              fail = "monotonic dominance (%d over %d) violated by %r" % (dom, weak, (R[dom] - R[weak]).min())
          for dom, weak in d["rdom"]:
            sd = (d["hi"][dom] - d["lo"][dom]) * (-1 if d["monos"][dom] == -1 else 1)
            sw = (d["hi"][weak] - d["lo"][weak]) * (-1 if d["monos"][weak] == -1 else 1)
            if (sd * R[dom] - sw * R[weak]).min() < -eps * max(1, abs(R).max()) * 8:
              fail = "range dominance (%d over %d) violated by %r" % (dom, weak, (sd * R[dom] - sw * R[weak]).min())
          if d["norm"]:
            for u in range(d["units"]):
              nrm = np.linalg.norm(R[:, u], ord=d["norm"])
              if not (abs(nrm - 1) < 1e-6 or nrm < 1e-8):
                fail = "unit %d has norm %r (order %d), neither 1 nor numerically zero" % (u, nrm, d["norm"])
          if fail is None and np.abs(np.array(again) - R).max() > 1e-9 * max(1, abs(R).max()):
            fail = "a feasible result is moved by projecting again (max change %r)" % np.abs(np.array(again) - R).max()
          # weights that already satisfy every constraint (exactly; after a float normalisation within 1e-12) are
          # returned unchanged
          slack, off = lin_slack(d, W)
          feasible_in = slack >= (-1e-12 if d["norm"] else 0.0) and off <= 1e-12
          if d["wclass"] == "feasible" and not feasible_in and fail is None:
            fail = "harness: constructed feasible weights do not pass the constraint predicates (slack %r, norm off by %r)" % (
                slack, off)
          if feasible_in and fail is None and np.abs(R - W).max() > 1e-9 * max(1.0, np.abs(W).max()):
            fail = "weights that already satisfy every constraint are changed by %r" % np.abs(R - W).max()
      if exc == "ValueError" and not built:
        # every generated configuration is valid for verify_hyperparameters (cycles of length >= 3 included)
        fail = "LinearConstraints(...) rejected a valid configuration with ValueError"
      cfg = coq_lin_cfg(d)
      coq = "CLin %s %s %s %s" % (cfg, cnat(d["units"]), cqm(d["W"]), copt(out, cqm) if exc is None else "None")
      forms = set([d.get("lo_form", "list"), d.get("hi_form", "list")])
      klass = "lin_%s%s%s_%s%s%s" % ("m" if d["mdom"] else "", "r" if d["rdom"] else "",
                                      "n%d" % d["norm"] if d["norm"] else "", d["wclass"] + ("0" if d.get("tinynorm") else ""),
                                      "_cyc-" + d["cycle"] + ("" if exc else "-NOT-REJECTED") if d.get("cycle") else "",
                                      ("_B" + ("t" if forms & set(["tuple", "tuple_str"]) else "") +
                                       ("s" if forms & set(["str", "tuple_str"]) else "")) if forms != set(["list"]) else "")
    else:
      try:
        con = tfl.categorical_calibration_layer.CategoricalCalibrationConstraints(
            output_min=d["lo"], output_max=d["hi"], monotonicities=[tuple(p) for p in d["pairs"]] or None)
        res = con(tf.constant(W))
        out = _mat(res)
        again = _mat(con(res))
      except ValueError as e:
        exc = "ValueError"
      except Exception as e:  # pylint: disable=broad-except
        exc = type(e).__name__
        fail = "projection raised %s: %s" % (exc, str(e)[:200])
      if out is not None:
        R = np.array(out)
        eps = 1e-9 * max(1, abs(R).max())
        for i, j in d["pairs"]:
          if (R[j] - R[i]).min() < -eps:
            fail = "ordering pair (%d, %d) violated by %r" % (i, j, (R[j] - R[i]).min())
        if d["lo"] is not None and R.min() < d["lo"] - eps: fail = "value below output_min"
        if d["hi"] is not None and R.max() > d["hi"] + eps: fail = "value above output_max"
        if fail is None and np.abs(np.array(again) - R).max() > eps:
          fail = "a feasible result is moved by projecting again"
        feasible_in = cat_slack(d, W) >= 0.0
        if d["wclass"] == "feasible" and not feasible_in and fail is None:
          fail = "harness: constructed feasible values do not pass the constraint predicates"
        if feasible_in and fail is None and np.abs(R - W).max() > 1e-9 * max(1.0, np.abs(W).max()):
          fail = "values that already satisfy every constraint are changed by %r" % np.abs(R - W).max()
      coq = "CCat %s %s %s %s %s %s" % (cnatpairs(d["pairs"]), copt(d["lo"]), copt(d["hi"]), cnat(d["units"]),
                                         cqm(d["W"]), copt(out, cqm) if exc is None else "None")
      klass = "cat_%s_%s" % ("cyc" if exc else ("pairs" if d["pairs"] else "nopairs"), d["wclass"])
    if exc is not None and exc != "ValueError":
      coq = None
    moved = out is not None and np.abs(np.array(out) - W).max() > 1e-12
    cases.append(Case(d, coq=coq, pred_fail=fail, nontrivial=bool(moved) or d["wclass"] == "feasible", klass=klass,
                      info={"impl_output": out, "impl_exception": exc}))
  return cases


