"""C12 - assert_constraints accepts exactly the weights that meet the covered constraints."""
import itertools
import random
import numpy as np
from common import Case, cq, cql, cqm, clist, cnat, cnatl, copt, czl, cz, cbool, cnatpairs
import latgen
import latpred
import tfimpl

ID = "C12"
HMODULE = "H_C12"
SHARD = 120
EPS = [1e-6, 1e-4, 1e-2, 0.5]
RULE = ("eager layer.assert_constraints(eps) on real float64 layers (Lattice, RTL, PWLCalibration, Linear, "
        "CategoricalCalibration, KroneckerFactoredLattice; plus pwl_calibration_lib.assert_constraints directly) with "
        "ASSIGNED weights, eps in {1e-6, 1e-4, 1e-2, 0.5}. Weight classes: feasible (constructed, tight or with "
        "margin), the same with one covered inequality instance (kind x location x unit) pushed to a violation of "
        "10..100 eps ('inject') or of 0.05..0.3 eps ('below'), and random kernels. Outcome class (returned / raised "
        "InvalidArgumentError) is compared with the Coq model's boolean (~10% of the randomly generated layers of every "
        "kind are built in float32 - the layers' DEFAULT dtype -, class suffix _f32, with eps in {1e-4, 1e-2, 0.5}; the "
        "float32 values the layer really holds are what the model and the numpy predicate receive); independently the largest violation over all "
        "covered inequalities is computed with numpy and  violation > 2 eps => raised,  violation < eps/2 => returned  "
        "is demanded (any other exception is a failure). A fixed family of small configurations has EVERY "
        "(inequality instance, unit) injected once: sampled in the quick tier, exhausted in the thorough tier. "
        "Non-trivial = the weights violate some covered inequality (the assert has something to find); distinct = "
        "distinct (config, weights, eps).")
TRUSTED = ["model: Model/Asserts.v (hand-written from the six assert_constraints functions and the layers' "
           "assert_constraints methods, one conjunct per tf.Assert, the code's reductions and comparisons)",
           "tie: outcome class of the eager call on real layers compared with the model's boolean inside Coq; "
           "layer hyperparameters are passed in the user-facing forms (strings, tuples, None) and the model receives "
           "the canonical values",
           "L2 norm: the model compares squares instead of taking a square root (exact equivalence over the reals)"]
LIMITS = ["not asserted by the code, hence not covered (a violation passes silently): Lattice unimodalities and "
          "joint_unimodalities (documented TODO), PWLCalibration convexity and is_cyclic closure, KroneckerFactoredLattice "
          "bias (not trainable when bounds are set)",
          "KroneckerFactoredLattice one-sided-bound checks (no negative weight, scale sign) and the scale-range check "
          "use no eps (count <= 0): stricter than eps, any violation fails",
          "Linear norm check is strict (|norm - 1| < eps) and passes any column with norm < 1e-8 (documented: an "
          "all-zero column cannot be normalised)",
          "cases whose decisive difference is within 1e-9 of +-eps are not generated (float rounding decides there); "
          "float32 layers are not run with eps = 1e-6 (an injected violation of 0.05 eps .. 100 eps keeps a distance of at "
          "least 0.7 eps = 7e-5 from the threshold, far above the float32 rounding of the asserted differences)",
          "RTL with parameterization='kronecker_factored' is covered through the KFL layer only, not through RTL",
          "RTL(dtype='float64') builds float32 lattice layers (the dtype is not passed on): every RTL case asserts float32 "
          "kernels, whatever dtype the RTL was given (histogram suffix _f64rtl-holds-f32); the model receives those values",
          "Linear normalization_order: only None, 1 and 2 are generated and modelled. The code hands any other order "
          "to tf.norm(ord=...) (3, np.inf, 'euclidean', ...) while Model/Asserts.v norm_ok treats every order other "
          "than 1 as L2; an order of 0 skips the check in the code ('if normalization_order:') but would be checked as "
          "L2 by the model (li_norm = Some 0): orders outside {None, 1, 2} are outside the correspondence",
          "eps <= 0 together with an EMPTY reduction (no instance of a constraint kind, e.g. zero-length dimension "
          "lists) is not generated: TensorFlow's reduce_min of an empty tensor is +inf (the assert passes for every "
          "eps) whereas the model's qminl [] is 0 (passes only for eps >= 0); generated eps values are positive and "
          "every modelled reduction is taken over at least one instance"]


def is_f32(d):
  return d.get("dtype") == "float32"


def dtname(d):
  return "float32" if is_f32(d) else "float64"


def held(d, a):
  """The values a layer of the desc's dtype really holds after assign (float32: the nearest float32 values, as exact
  float64 numbers)."""
  a = np.asarray(a, dtype=np.float64)
  return a.astype(np.float32).astype(np.float64) if is_f32(d) else a


def pick_f32(rng, p=0.18):
  """(dtype flag, eps) for a randomly generated layer: float32 layers avoid eps = 1e-6."""
  f32 = rng.random() < p
  return f32, rng.choice(EPS[1:] if f32 else EPS)


def mark(d, f32):
  if f32:
    d["dtype"] = "float32"
  return d


def check_dtype(d, *variables):
  for v in variables:
    if v.dtype.base_dtype.name != dtname(d):
      return "error: layer built with dtype=%s holds a %s variable %s" % (dtname(d), v.dtype.base_dtype.name, v.name)
  return None


def prod(xs):
  r = 1
  for x in xs:
    r *= int(x)
  return r


# ----------------------------------------------------------------------------
# Lattice: inequality instances, feasible kernels, largest violation
# ----------------------------------------------------------------------------
def _merge(pairs):
  acc = {}
  for i, c in pairs:
    acc[int(i)] = acc.get(int(i), 0.0) + float(c)
  return [(i, c) for i, c in sorted(acc.items()) if c != 0.0]


def lat_ineqs(cfg):
  """Covered inequality instances of ONE unit: (kind, location, [(flat vertex, coef)], const) with
  slack = sum coef * w[vertex] + const >= 0."""
  sizes = cfg["sizes"]
  n = prod(sizes)
  idx = np.arange(n).reshape(sizes)
  out = []

  def layers(a, b):
    return np.moveaxis(idx, [a, b], [0, 1])

  def add(kind, loc, pairs, const=0.0):
    pairs = _merge(pairs)
    if pairs:
      out.append((kind, [int(x) for x in loc], pairs, float(const)))

  for d, m in enumerate(cfg["monos"]):
    if m == 1:
      lo = np.take(idx, range(sizes[d] - 1), axis=d).ravel()
      hi = np.take(idx, range(1, sizes[d]), axis=d).ravel()
      for a, b in zip(lo, hi):
        add("mono", (d, a), [(b, 1.0), (a, -1.0)])
  for k, (m, c, dr) in enumerate(cfg["edge"]):
    L = layers(m, c)
    for i in range(L.shape[0] - 1):
      for j in range(L.shape[1] - 1):
        for r, (p, q, s, t) in enumerate(zip(L[i + 1, j + 1].ravel(), L[i, j + 1].ravel(), L[i + 1, j].ravel(), L[i, j].ravel())):
          add("edge", (k, i, j, r), [(p, dr), (q, -dr), (s, -dr), (t, dr)])
  for k, (m, c, dr) in enumerate(cfg["trap"]):
    L = layers(m, c)
    for j in range(L.shape[1] - 1):
      for r, (a, b) in enumerate(zip(L[0, j].ravel(), L[0, j + 1].ravel())):
        add("trapL", (k, j, r), [(a, dr), (b, -dr)])
      for r, (a, b) in enumerate(zip(L[-1, j + 1].ravel(), L[-1, j].ravel())):
        add("trapR", (k, j, r), [(a, dr), (b, -dr)])
  for k, (a_, b_) in enumerate(cfg["mdom"]):
    L = layers(a_, b_)
    for i in range(L.shape[0] - 1):
      for j in range(L.shape[1] - 1):
        for r, (p, q, s, t) in enumerate(zip(L[i + 1, j].ravel(), L[i, j].ravel(), L[i + 1, j + 1].ravel(), L[i, j + 1].ravel())):
          add("mdomD", (k, i, j, r), [(p, 1.0), (q, -0.5), (s, -0.5)])
          add("mdomW", (k, i, j, r), [(q, 0.5), (s, 0.5), (t, -1.0)])
  for k, (a_, b_) in enumerate(cfg["rdom"]):
    L = layers(a_, b_)
    for i in range(L.shape[0]):
      for j in range(L.shape[1]):
        for r, (p, q, s, t) in enumerate(zip(L[-1, j].ravel(), L[0, j].ravel(), L[i, -1].ravel(), L[i, 0].ravel())):
          add("rdom", (k, i, j, r), [(p, 1.0), (q, -1.0), (s, -1.0), (t, 1.0)])
  for k, (a_, b_) in enumerate(cfg["jmono"]):
    L = layers(a_, b_)
    for i in range(L.shape[0] - 1):
      for j in range(L.shape[1] - 1):
        for r, (p, q, s, t) in enumerate(zip(L[i + 1, j + 1].ravel(), L[i + 1, j].ravel(), L[i, j + 1].ravel(), L[i, j].ravel())):
          add("jmonoL", (k, i, j, r), [(p, 1.0), (q, -0.5), (s, -0.5)])
          add("jmonoU", (k, i, j, r), [(q, 0.5), (s, 0.5), (t, -1.0)])
  if cfg["omin"] is not None:
    for v in range(n):
      add("lower", (v,), [(v, 1.0)], -cfg["omin"])
  if cfg["omax"] is not None:
    for v in range(n):
      add("upper", (v,), [(v, -1.0)], cfg["omax"])
  return out


def lat_viol(W, cfg):
  s = cfg["sizes"]
  return max(latpred.mono_viol(W, s, cfg["monos"]), latpred.edgeworth_viol(W, s, cfg["edge"]),
             latpred.trapezoid_viol(W, s, cfg["trap"]), latpred.monotonic_dominance_viol(W, s, cfg["mdom"]),
             latpred.range_dominance_viol(W, s, cfg["rdom"]), latpred.joint_monotonicity_viol(W, s, cfg["jmono"]),
             latpred.bounds_viol(W, cfg["omin"], cfg["omax"]))


def _lat_column(rng, cfg, interior):
  """One unit of a kernel meeting every homogeneous covered family: additive, non-decreasing along monotone
  dimensions, flat along trapezoid conditional dimensions, optionally with an Edgeworth-interior product term."""
  sizes = cfg["sizes"]
  rank = len(sizes)
  coef = [rng.choice([0.5, 1.0, 2.0]) if cfg["monos"][d] else 0.0 for d in range(rank)]
  flat_dims = set(c for _, c, _ in cfg["trap"])
  for d in flat_dims:
    coef[d] = 0.0
  for a, b in cfg["jmono"]:
    for d in (a, b):
      if not cfg["monos"][d] and d not in flat_dims and rng.random() < 0.5:
        coef[d] = 0.5
  for _ in range(4):
    for a, b in cfg["mdom"]:
      if coef[a] < coef[b]:
        if a in flat_dims:
          coef[b] = coef[a]
        else:
          coef[a] = coef[b]
    for a, b in cfg["rdom"]:
      need = coef[b] * (sizes[b] - 1) / float(sizes[a] - 1)
      if coef[a] < need:
        if a in flat_dims:
          coef[b] = 0.0
        else:
          coef[a] = np.ceil(need * 2) / 2.0
  base = tfimpl.dy(rng, -2, 2)
  grid = list(itertools.product(*[range(s) for s in sizes]))
  col = np.array([base + sum(c * v for c, v in zip(coef, x)) for x in grid])
  if interior and cfg["edge"]:
    m, c, dr = rng.choice(cfg["edge"])
    g = 0.25
    extra = np.array([g * dr * x[m] * x[c] + g * (sizes[c] - 1) * x[m] for x in grid])
    cand = col + extra
    one = dict(cfg, units=1, omin=None, omax=None)
    if lat_viol(cand[:, None], one) <= 0:
      col = cand
  return col


def lat_feasible(rng, cfg, interior=True):
  cols = [_lat_column(rng, cfg, interior and rng.random() < 0.6) for _ in range(cfg["units"])]
  W = np.stack(cols, axis=1)
  one = dict(cfg, omin=None, omax=None)
  if lat_viol(W, one) > 0:  # conflicting roles: fall back to constants (every homogeneous slack is 0)
    W = np.array([[tfimpl.dy(rng, -2, 2)] * cfg["units"]] * W.shape[0])
  return W


def set_lat_bounds(rng, cfg, W, mode):
  lo, hi = float(np.floor(W.min())), float(np.ceil(W.max()))
  gap = rng.choice([0.0, 0.0, 0.5, 2.0])
  omin, omax = lo - gap, hi + gap
  if omax <= omin:
    omax = omin + 1.0
  cfg["omin"] = omin if mode in ("min", "both") else None
  cfg["omax"] = omax if mode in ("max", "both") else None


def inject(W, unit, rows, const, delta):
  """Moves column `unit` along the inequality's own coefficient vector until its slack is -delta."""
  W = np.array(W, dtype=np.float64)
  slack = sum(c * W[i, unit] for i, c in rows) + const
  t = (slack + delta) / sum(c * c for _, c in rows)
  for i, c in rows:
    W[i, unit] -= t * c
  return W


def single_violation(ineqs, qi, w0, delta):
  """A kernel column that violates inequality qi by exactly delta while EVERY other covered inequality of the unit
  holds, with the largest common margin (capped at 1) - found by a small LP around w0. None when no such column
  exists (qi is implied by the other inequalities)."""
  from scipy.optimize import linprog  # pylint: disable=g-import-not-at-top
  n = len(w0)
  cost = np.zeros(n + 1)
  cost[-1] = -1.0
  a_ub, b_ub = [], []
  for r, (_, _, rows, const) in enumerate(ineqs):
    if r == qi:
      continue
    row = np.zeros(n + 1)
    for i, cf in rows:
      row[i] = -cf
    row[-1] = 1.0
    a_ub.append(row)
    b_ub.append(const)
  a_eq = np.zeros((1, n + 1))
  for i, cf in ineqs[qi][2]:
    a_eq[0, i] = cf
  radius = 8.0 + 4.0 * delta
  bounds = [(float(x) - radius, float(x) + radius) for x in w0] + [(None, 1.0)]
  res = linprog(cost, A_ub=np.array(a_ub) if a_ub else None, b_ub=np.array(b_ub) if a_ub else None, A_eq=a_eq,
                b_eq=[-delta - ineqs[qi][3]], bounds=bounds, method="highs")
  if res.status != 0 or res.x[-1] < -1e-9:
    return None
  return res.x[:n]


def margin_kernel(cfg, W):
  """Feasible kernel near W in which every covered inequality holds with the largest common margin (<= 1) the
  configuration allows (0 when the constraints force equalities), one LP per unit."""
  from scipy.optimize import linprog  # pylint: disable=g-import-not-at-top
  ineqs = lat_ineqs(cfg)
  W = np.array(W, dtype=np.float64)
  if not ineqs:
    return W
  n = W.shape[0]
  a_ub = np.zeros((len(ineqs), n + 1))
  b_ub = np.zeros(len(ineqs))
  for r, (_, _, rows, const) in enumerate(ineqs):
    for i, cf in rows:
      a_ub[r, i] = -cf
    a_ub[r, -1] = 1.0
    b_ub[r] = const
  cost = np.zeros(n + 1)
  cost[-1] = -1.0
  for u in range(W.shape[1]):
    bounds = [(float(x) - 8.0, float(x) + 8.0) for x in W[:, u]] + [(None, 1.0)]
    res = linprog(cost, A_ub=a_ub, b_ub=b_ub, bounds=bounds, method="highs")
    if res.status == 0 and res.x[-1] >= -1e-9:
      W[:, u] = res.x[:n]
  return W


def inject_single(W, unit, ineqs, qi, delta):
  """(kernel, True) with exactly one violated inequality when possible, else the plain move (kernel, False)."""
  col = single_violation(ineqs, qi, np.asarray(W, dtype=np.float64)[:, unit], delta)
  if col is None:
    return inject(W, unit, ineqs[qi][2], ineqs[qi][3], delta), False
  W = np.array(W, dtype=np.float64)
  W[:, unit] = col
  return W, True


def lat_struct(rng, small=False):
  """Valid Lattice structure with the dominance / joint families drawn often."""
  while True:
    cfg = latgen.gen_cfg(rng, max_vertices=24 if small else 48, allow_other=False)
    rank = len(cfg["sizes"])
    mono_dims = [d for d in range(rank) if cfg["monos"][d]]
    if len(mono_dims) >= 2 and rng.random() < 0.5:
      a, b = rng.sample(mono_dims, 2)
      (cfg["mdom"] if rng.random() < 0.5 else cfg["rdom"]).append([a, b])
      if rng.random() < 0.3:
        (cfg["mdom"] if rng.random() < 0.5 else cfg["rdom"]).append([a, b])
    if rank >= 2 and rng.random() < 0.4:
      a, b = rng.sample(range(rank), 2)
      cfg["jmono"].append([a, b])
    if rng.random() < 0.25:   # families the assert ignores
      for d in range(rank):
        if not cfg["monos"][d] and cfg["sizes"][d] >= 3 and rng.random() < 0.5:
          cfg["uni"][d] = rng.choice([-1, 1])
      cand = [d for d in range(rank) if not cfg["monos"][d] and not cfg["uni"][d] and cfg["sizes"][d] >= 3]
      if cand and rng.random() < 0.5:
        cfg["juni"].append([[rng.choice(cand)], rng.choice(["valley", "peak"])])
    cfg["omin"] = cfg["omax"] = None
    return cfg


def small_family():
  """Fixed family of small Lattice configurations whose single-violation placements are enumerated."""
  def c(sizes, units, monos, edge=(), trap=(), mdom=(), rdom=(), jmono=(), bounds="none"):
    return dict(sizes=list(sizes), units=units, monos=list(monos), edge=[list(t) for t in edge],
                trap=[list(t) for t in trap], uni=[0] * len(sizes), mdom=[list(t) for t in mdom],
                rdom=[list(t) for t in rdom], jmono=[list(t) for t in jmono], juni=[], omin=None, omax=None,
                bmode=bounds)
  return [
      c([3], 1, [1], bounds="both"),
      c([2, 3], 2, [1, 0], bounds="min"),
      c([3, 2], 1, [1, 1], bounds="max"),
      c([2, 3], 1, [1, 0], edge=[(0, 1, 1)]),
      c([3, 2], 2, [0, 1], edge=[(1, 0, -1)]),
      c([2, 3], 1, [1, 0], trap=[(0, 1, 1)]),
      c([3, 3], 2, [0, 1], trap=[(1, 0, -1)]),
      c([2, 2, 2], 1, [1, 0, 0], edge=[(0, 2, 1)], trap=[(0, 2, 1)], bounds="both"),
      c([2, 3], 1, [1, 1], mdom=[(0, 1)]),
      c([3, 2], 2, [1, 1], mdom=[(1, 0)]),
      c([2, 3], 1, [1, 1], rdom=[(0, 1)]),
      c([3, 2, 2], 1, [1, 0, 1], rdom=[(2, 0)]),
      c([2, 3], 2, [0, 0], jmono=[(0, 1)]),
      c([2, 2, 3], 1, [0, 1, 0], jmono=[(2, 0)], bounds="both"),
      c([2, 2, 2], 2, [1, 1, 1], edge=[(0, 1, -1)], mdom=[(0, 2)], jmono=[(1, 2)]),
  ]


def lat_desc(cfg, W, eps, gclass, inj=None, forms=0):
  cfg = {k: v for k, v in cfg.items() if k != "bmode"}
  return dict(layer="lattice", cfg=cfg, w=[[float(x) for x in r] for r in np.asarray(W)], eps=eps, gclass=gclass,
              inj=inj, forms=forms)


def gen_lattice(ctx, rng, out):
  # (1) enumeration of single-violation placements over the fixed family
  fam = small_family()
  frng = random.Random(12345)   # the family's base kernels do not depend on the seed
  enum = []
  bases = []
  for ci, cfg in enumerate(fam):
    W = lat_feasible(frng, cfg)
    set_lat_bounds(frng, cfg, W, cfg["bmode"])
    bases.append((cfg, W))
    ineqs = lat_ineqs(cfg)
    k = 0
    for qi, (kind, loc, rows, const) in enumerate(ineqs):
      for u in range(cfg["units"]):
        eps = EPS[k % 4]
        mult = [10.0, 30.0, 100.0][(k // 4) % 3]
        k += 1
        enum.append((ci, cfg, W, ineqs, qi, u, eps, mult))
  ctx.c12_enum["lattice"] = len(enum)
  if ctx.tier == "thorough":
    chosen = enum
  else:
    # quick tier: at least one placement of every (configuration, kind), the rest at random
    strata = {}
    for e in enum:
      strata.setdefault((e[0], e[3][e[4]][0]), []).append(e)
    chosen = [rng.choice(v) for _, v in sorted(strata.items())]
    ids = set(id(e) for e in chosen)
    rest = [e for e in enum if id(e) not in ids]
    chosen += rng.sample(rest, min(len(rest), max(0, 120 - len(chosen))))
  ctx.c12_done["lattice"] = len(chosen)
  for ci, cfg, W, ineqs, qi, u, eps, mult in chosen:
    W2, single = inject_single(W, u, ineqs, qi, mult * eps)
    out.append(lat_desc(cfg, W2, eps, "enum", dict(kind=ineqs[qi][0], loc=ineqs[qi][1], unit=u, delta=mult * eps,
                                                   family=ci, single=single)))
  for ci, (cfg, W) in enumerate(bases):   # the family's feasible base kernels themselves (must pass)
    for eps in (EPS if ctx.tier == "thorough" else [EPS[(ci + ctx.seed) % 4]]):
      out.append(lat_desc(cfg, W, eps, "enumbase", None, ci % 4))
      out.append(lat_desc(cfg, margin_kernel(cfg, W), eps, "enumbase-margin", None, (ci + 1) % 4))
  # (2) random structures: feasible / inject / below / random kernels
  for _ in range(ctx.n(110, 2500)):
    cfg = lat_struct(rng)
    W = lat_feasible(rng, cfg)
    set_lat_bounds(rng, cfg, W, rng.choice(["none", "min", "max", "both", "both"]))
    f32, eps = pick_f32(rng)
    n_before = len(out)
    forms = rng.randrange(4)
    g = rng.choice(["feasible", "feasible", "inject", "inject", "inject", "below", "random"])
    ineqs = lat_ineqs(cfg)
    if g in ("inject", "below") and not ineqs:
      g = "feasible"
    if g == "feasible":
      if rng.random() < 0.6:
        out.append(lat_desc(cfg, margin_kernel(cfg, W), eps, "feasible-margin", None, forms))
      else:
        out.append(lat_desc(cfg, W, eps, g, None, forms))
    elif g == "random":
      out.append(lat_desc(cfg, latgen.gen_kernel(rng, cfg, rng.choice(["random", "ties", "sorted", "noise", "constant"])),
                          eps, g, None, forms))
    else:
      kinds = sorted(set(q[0] for q in ineqs))
      kind = rng.choice(kinds)
      qi = rng.choice([i for i, q in enumerate(ineqs) if q[0] == kind])
      u = rng.randrange(cfg["units"])
      delta = (rng.choice([10.0, 25.0, 100.0]) if g == "inject" else rng.choice([0.05, 0.3])) * eps
      W2, single = inject_single(W, u, ineqs, qi, delta)
      out.append(lat_desc(cfg, W2, eps, g, dict(kind=ineqs[qi][0], loc=ineqs[qi][1], unit=u, delta=delta,
                                                single=single), forms))
    for d in out[n_before:]:
      mark(d, f32)


def coq_lat_cfg(cfg):
  tr = lambda ts: clist(["(%s, %s, %s)" % (cnat(m), cnat(c), cz(d)) for m, c, d in ts]) if ts else "(@nil trust)"
  return "(mkLA %s %s %s %s %s %s %s %s %s %s)" % (
      cnatl(cfg["sizes"]), cnat(cfg["units"]), czl(cfg["monos"]),
      tr(cfg["edge"]), tr(cfg["trap"]), cnatpairs(cfg["mdom"]), cnatpairs(cfg["rdom"]), cnatpairs(cfg["jmono"]),
      copt(cfg["omin"]), copt(cfg["omax"]))


def flat(m):
  return [float(x) for row in np.asarray(m) for x in row]


def outcome_of(tf, fn):
  try:
    fn()
    return "returned"
  except tf.errors.InvalidArgumentError:
    return "raised"
  except Exception as e:  # pylint: disable=broad-except
    return "error %s: %s" % (type(e).__name__, str(e)[:160])


def verdict(outcome, viol_eps, eps, viol_strict=-np.inf, what=""):
  """The property's two clauses on the implementation's outcome."""
  if outcome.startswith("error"):
    return "assert_constraints did not assert: " + outcome
  if (viol_eps > 2 * eps or viol_strict > 1e-9) and outcome != "raised":
    return "covered constraint violated by %r (eps %r) but assert_constraints returned%s" % (
        max(viol_eps, viol_strict), eps, what)
  if viol_eps < eps / 2 and viol_strict <= 0 and outcome != "returned":
    return "largest violation %r is below eps %r but assert_constraints raised%s" % (viol_eps, eps, what)
  return None


def near_threshold(viols, eps):
  """Some decisive quantity is within rounding distance of eps."""
  return any(abs(v - eps) < 1e-9 * max(1.0, abs(v)) + 1e-12 for v in viols)


_MONO_STR = {0: "none", 1: "increasing", -1: "decreasing"}
_DIR_STR = {1: "positive", -1: "negative"}


def lattice_layer(tfl, cfg, forms, dtype="float64"):
  """Builds the real layer, hyperparameters in one of the accepted user-facing forms."""
  monos = list(cfg["monos"])
  edge, trap = latgen.tuples(cfg["edge"]), latgen.tuples(cfg["trap"])
  sizes = list(cfg["sizes"])
  if forms & 1:
    monos = [_MONO_STR[m] for m in monos]
    sizes = tuple(sizes)
  if forms & 2:
    edge = [(m, c, _DIR_STR[d]) for m, c, d in edge] if edge else None
    trap = [(m, c, _DIR_STR[d]) for m, c, d in trap] if trap else None
  if not any(cfg["monos"]) and (forms & 1) == 0 and (forms & 2):
    monos = None
  layer = tfl.layers.Lattice(
      lattice_sizes=sizes, units=cfg["units"], monotonicities=monos,
      unimodalities=list(cfg["uni"]) if any(cfg["uni"]) else None,
      edgeworth_trusts=edge, trapezoid_trusts=trap,
      monotonic_dominances=latgen.tuples(cfg["mdom"]), range_dominances=latgen.tuples(cfg["rdom"]),
      joint_monotonicities=latgen.tuples(cfg["jmono"]),
      joint_unimodalities=[(tuple(d), s) for d, s in cfg["juni"]] or None,
      output_min=cfg["omin"], output_max=cfg["omax"], kernel_initializer="zeros", dtype=dtype)
  rank = len(cfg["sizes"])
  layer.build((None, rank) if cfg["units"] == 1 else (None, cfg["units"], rank))
  return layer


def eval_lattice(tf, tfl, d):
  cfg = d["cfg"]
  W = held(d, d["w"])
  layer = lattice_layer(tfl, cfg, d.get("forms", 0), dtname(d))
  layer.kernel.assign(W.astype(dtname(d)))
  eps = d["eps"]
  out = check_dtype(d, layer.kernel) or outcome_of(tf, lambda: layer.assert_constraints(eps))
  v = lat_viol(W, cfg)
  fail = verdict(out, v, eps)
  coq = None
  if not out.startswith("error"):
    coq = "CLat %s %s %s %s" % (coq_lat_cfg(cfg), cql(flat(W)), cq(eps), cbool(out == "returned"))
  fams = "".join(s for s, k in (("M", any(cfg["monos"])), ("E", cfg["edge"]), ("T", cfg["trap"]), ("D", cfg["mdom"]),
                                ("R", cfg["rdom"]), ("J", cfg["jmono"]),
                                ("B", cfg["omin"] is not None or cfg["omax"] is not None)) if k)
  inj = d["inj"] or {}
  klass = "lattice_%s_%s%s_u%d_%s%s" % (d["gclass"], inj.get("kind", "-"), "" if inj.get("single", True) else "+others",
                                        min(cfg["units"], 2), out[:8], "_f32" if is_f32(d) else "")
  return Case(d, coq=coq, pred_fail=fail, nontrivial=bool(v > 0), klass=klass,
              info={"outcome": out, "largest_violation": v, "families": fams})


# ----------------------------------------------------------------------------
# PWLCalibration
# ----------------------------------------------------------------------------
def pwl_outputs(kernel, cyclic):
  o = np.cumsum(np.asarray(kernel, dtype=np.float64), axis=0)
  return np.concatenate([o, o[0:1]], axis=0) if cyclic else o


def pwl_viol_outputs(o, mono, omin, omax, cmin, cmax):
  v = -np.inf
  if omin is not None:
    m = o.min(axis=0)
    v = max(v, float(np.abs(m - omin).max()) if cmin else float((omin - m).max()))
  if omax is not None:
    m = o.max(axis=0)
    v = max(v, float(np.abs(m - omax).max()) if cmax else float((m - omax).max()))
  if mono != 0 and o.shape[0] > 1:
    v = max(v, float((-(np.diff(o, axis=0) * mono)).max()))
  return v


def pwl_viol(d):
  v = pwl_viol_outputs(pwl_outputs(d["kernel"], d["cyclic"]), d["mono"], d["omin"], d["omax"], d["cmin"], d["cmax"])
  if d["impute"] and d["mov"] is None:
    mo = np.array([d["mo"]], dtype=np.float64)
    v = max(v, pwl_viol_outputs(mo, 0, d["omin"], d["omax"], False, False))
  return v


def pwl_feasible_outputs(rng, n, units, mono, omin, omax, cmin, cmax):
  lo = omin if omin is not None else (omax - 4.0 if omax is not None else -2.0)
  hi = omax if omax is not None else lo + 4.0
  cols = []
  for _ in range(units):
    steps = int(round((hi - lo) * 8))
    vals = [lo + rng.randint(0, steps) / 8.0 for _ in range(n)]
    if mono != 0:
      vals.sort(reverse=(mono < 0))
    if omin is not None and cmin:
      vals[int(np.argmin(vals))] = lo
    if omax is not None and cmax:
      k = int(np.argmax(vals))
      if omin is not None and cmin and vals[k] == lo and n > 1:
        k = (n - 1) if mono >= 0 else 0
        if vals[k] == lo and k == int(np.argmin(vals)):
          k = 0 if k else n - 1
      vals[k] = hi
    cols.append(vals)
  return np.array(cols, dtype=np.float64).T


def pwl_instances(b):
  """Covered inequality instances (kind, keypoint, unit) of a PWL base description."""
  nk, units = len(b["o"]), b["units"]
  insts = []
  for u in range(units):
    if b["mono"] != 0:
      insts += [("mono", k, u) for k in range(nk - 1)]
    if b["omin"] is not None:
      insts += [("clamp_min+", 0, u), ("clamp_min-", 0, u)] if b["cmin"] else [("lower", k, u) for k in range(nk)]
    if b["omax"] is not None:
      insts += [("clamp_max+", 0, u), ("clamp_max-", 0, u)] if b["cmax"] else [("upper", k, u) for k in range(nk)]
    if b["impute"] and b["mov"] is None and b["omin"] is not None:
      insts.append(("missing_lower", 0, u))
    if b["impute"] and b["mov"] is None and b["omax"] is not None:
      insts.append(("missing_upper", 0, u))
  return insts


def pwl_desc(b, eps, g, inst=None, delta=0.0, forms=0):
  """PWL case from a base description (outputs b['o'] at the keypoints, missing output b['mo']) with the
  instance `inst` pushed to a violation of `delta`."""
  o = np.array(b["o"], dtype=np.float64)
  mo = list(b["mo"])
  inj = None
  if inst is not None:
    kind, k, u = inst
    inj = dict(kind=kind, loc=[k], unit=u, delta=delta)
    mono, omin, omax = b["mono"], b["omin"], b["omax"]
    if kind == "mono":
      t = ((o[k + 1, u] - o[k, u]) * mono + delta) / 2.0
      o[k + 1, u] -= t * mono
      o[k, u] += t * mono
    elif kind == "lower":
      o[k, u] = omin - delta
    elif kind == "upper":
      o[k, u] = omax + delta
    elif kind in ("clamp_min+", "clamp_max+"):
      o[:, u] += delta
    elif kind in ("clamp_min-", "clamp_max-"):
      o[:, u] -= delta
    elif kind == "missing_lower":
      mo[u] = omin - delta
    elif kind == "missing_upper":
      mo[u] = omax + delta
  kernel = np.concatenate([o[0:1], np.diff(o, axis=0)], axis=0)
  d = {k: v for k, v in b.items() if k not in ("o", "mo")}
  d.update(layer="pwl", mo=[float(x) for x in mo], kernel=[[float(x) for x in r] for r in kernel], eps=eps, gclass=g,
           inj=inj, forms=forms)
  return d


def pwl_family():
  def b(kps, units, mono, omin, omax, cmin, cmax, o, cyclic=False, impute=False, miv=None, mov=None, mo=None,
        split=False, learned=False):
    return dict(kps=kps, units=units, mono=mono, omin=omin, omax=omax, cmin=cmin, cmax=cmax, cyclic=cyclic,
                split=split, impute=impute, miv=miv, mov=mov, learned=learned, o=o, mo=mo or [0.0] * units)
  return [
      b([0.0, 1.0, 2.0], 2, 1, 0.0, 2.0, False, False, [[0.25, 0.5], [1.0, 1.0], [1.5, 1.75]]),
      b([0.0, 1.0, 3.0], 2, -1, -1.0, 1.0, True, True, [[1.0, 1.0], [0.0, 0.5], [-1.0, -1.0]], split=True),
      b([-1.0, 0.0, 1.0, 2.0], 1, 0, 0.0, None, True, False, [[1.0], [0.0], [2.0], [0.5]], impute=True, miv=-5.0,
        mo=[1.0]),
      b([0.0, 1.0, 2.0], 2, 0, -2.0, 2.0, False, False, [[0.0, 1.0], [1.0, -1.0]], cyclic=True, impute=True,
        mo=[0.0, 1.0]),
      b([0.0, 4.0], 3, 1, None, 1.0, False, True, [[-1.0, 0.0, 0.5], [1.0, 1.0, 1.0]], learned=True),
  ]


def gen_pwl(ctx, rng, out):
  # every (kind, keypoint, unit) of a fixed family of small calibrators
  enum = [(bi, b, inst) for bi, b in enumerate(pwl_family()) for inst in pwl_instances(b)]
  ctx.c12_enum["pwl"] = len(enum)
  chosen = enum if ctx.tier == "thorough" else rng.sample(enum, min(len(enum), 30))
  ctx.c12_done["pwl"] = len(chosen)
  for k, (bi, b, inst) in enumerate(chosen):
    eps = EPS[(k + bi) % 4]
    out.append(pwl_desc(b, eps, "enum", inst, [10.0, 30.0, 100.0][k % 3] * eps))
  for bi, b in enumerate(pwl_family()):
    out.append(pwl_desc(b, EPS[(bi + ctx.seed) % 4], "enumbase"))
  for _ in range(ctx.n(70, 1500)):
    n = rng.randint(2, 5)
    units = rng.choice([1, 1, 2, 3])
    cyclic = n >= 3 and rng.random() < 0.15
    mono = 0 if cyclic else rng.choice([-1, 0, 1, 1])
    bmode = rng.choice(["none", "min", "max", "both", "both"])
    a = tfimpl.dy(rng, -3, 3)
    omin = a if bmode in ("min", "both") else None
    omax = a + rng.choice([1.0, 2.0, 4.0]) if bmode in ("max", "both") else None
    omin, omax = tfimpl.zero_bound(rng, omin, omax)
    cmin = omin is not None and rng.random() < 0.4
    cmax = omax is not None and rng.random() < 0.4
    kps = sorted(rng.sample([x / 2.0 for x in range(-8, 9)], n))
    impute = rng.random() < 0.35
    miv = rng.choice([None, -9.0, kps[rng.randrange(n)]]) if impute else None
    mov = rng.choice([None, None, 0.5]) if impute else None
    learned = (not cyclic) and rng.random() < 0.2
    split = rng.random() < 0.3
    nk = n - 1 if cyclic else n
    o = pwl_feasible_outputs(rng, nk, units, mono, omin, omax, cmin, cmax)
    lo = omin if omin is not None else -50.0
    hi = omax if omax is not None else 50.0
    mo = [min(max(tfimpl.dy(rng, -3, 3), lo), hi) for _ in range(units)]
    f32, eps = pick_f32(rng)
    g = rng.choice(["feasible", "inject", "inject", "inject", "below", "random"])
    if g == "random":
      o = np.array([[tfimpl.dy(rng, -4, 4) for _ in range(units)] for _ in range(nk)])
      mo = [tfimpl.dy(rng, -4, 4) for _ in range(units)]
    b = dict(kps=kps, units=units, mono=mono, omin=omin, omax=omax, cmin=cmin, cmax=cmax, cyclic=cyclic, split=split,
             impute=impute, miv=miv, mov=mov, learned=learned, o=[[float(x) for x in r] for r in o], mo=mo)
    insts = pwl_instances(b)
    if g in ("inject", "below") and insts:
      delta = (rng.choice([10.0, 25.0, 100.0]) if g == "inject" else rng.choice([0.05, 0.3])) * eps
      out.append(mark(pwl_desc(b, eps, g, rng.choice(insts), delta, rng.randrange(2)), f32))
    else:
      out.append(mark(pwl_desc(b, eps, g if g == "random" else "feasible", None, 0.0, rng.randrange(2)), f32))
  # regression witnesses of the fixed defects B-E (must behave; a revert makes them crash or miss)
  out.append(dict(layer="pwl", kps=[0.0, 1.0, 2.0], units=2, mono=1, omin=None, omax=None, cmin=False, cmax=False,
                  cyclic=False, split=True, impute=False, miv=None, mov=None, mo=[0.0, 0.0], learned=False,
                  kernel=[[0.0, 0.0], [1.0, 1.0], [1.0, 1.0]], eps=1e-6, gclass="witnessB", inj=None, forms=0))
  out.append(dict(layer="pwl", kps=[0.0, 1.0, 2.0], units=1, mono=1, omin=None, omax=None, cmin=False, cmax=False,
                  cyclic=False, split=False, impute=True, miv=None, mov=None, mo=[0.0], learned=False,
                  kernel=[[0.0], [1.0], [1.0]], eps=1e-6, gclass="witnessC", inj=None, forms=0))
  out.append(dict(layer="pwl", kps=[0.0, 1.0, 2.0, 3.0], units=1, mono=1, omin=None, omax=None, cmin=False, cmax=False,
                  cyclic=False, split=False, impute=False, miv=None, mov=None, mo=[0.0], learned=True,
                  logits=[0.4, 0.2, 2.4], kernel=[[0.0], [10.0], [-10.0], [1.0]], eps=1e-6, gclass="witnessD",
                  inj=dict(kind="mono", loc=[1], unit=0, delta=10.0), forms=0))
  out.append(dict(layer="pwl", kps=[0.0, 1.0, 2.0], units=1, mono=1, omin=None, omax=None, cmin=False, cmax=False,
                  cyclic=False, split=False, impute=True, miv=1.0, mov=-5.0, mo=[0.0], learned=False,
                  kernel=[[0.0], [3.0], [4.0]], eps=1e-6, gclass="witnessE", inj=None, forms=0))
  # the library function on explicit output matrices
  for _ in range(ctx.n(25, 500)):
    n = rng.randint(1, 4)
    units = rng.choice([1, 2, 3])
    mono = rng.choice([-1, 0, 1])
    a = tfimpl.dy(rng, -2, 2)
    omin = rng.choice([None, a])
    omax = rng.choice([None, a + 2.0])
    cmin, cmax = rng.random() < 0.3, rng.random() < 0.3
    eps = rng.choice(EPS)
    g = rng.choice(["feasible", "random", "random"])
    if g == "feasible":
      o = pwl_feasible_outputs(rng, n, units, mono, omin, omax, cmin, cmax)
    else:
      o = np.array([[tfimpl.dy(rng, -3, 3) for _ in range(units)] for _ in range(n)])
      if rng.random() < 0.5:
        o = o + rng.choice([0.3, -20.0, 50.0]) * eps
    out.append(dict(layer="pwllib", units=units, mono=mono, omin=omin, omax=omax, cmin=cmin, cmax=cmax,
                    outs=[[float(x) for x in r] for r in o], eps=eps, gclass=g))


def coq_pa(units, mono, omin, omax, cmin, cmax):
  return "(mkPA %s %s %s %s %s %s)" % (cnat(units), cz(mono), copt(omin), copt(omax), cbool(cmin), cbool(cmax))


def eval_pwl(tf, tfl, d):
  eps = d["eps"]
  if d["layer"] == "pwllib":
    o = np.array(d["outs"], dtype=np.float64)
    out = outcome_of(tf, lambda: tfl.pwl_calibration_lib.assert_constraints(
        outputs=tf.constant(o), monotonicity=d["mono"], output_min=d["omin"], output_max=d["omax"],
        clamp_min=d["cmin"], clamp_max=d["cmax"], eps=eps))
    v = pwl_viol_outputs(o, d["mono"], d["omin"], d["omax"], d["cmin"], d["cmax"])
    coq = None if out.startswith("error") else "CPwlLib %s %s %s %s" % (
        coq_pa(d["units"], d["mono"], d["omin"], d["omax"], d["cmin"], d["cmax"]), cqm(o.tolist()), cq(eps),
        cbool(out == "returned"))
    return Case(d, coq=coq, pred_fail=verdict(out, v, eps), nontrivial=bool(v > 0),
                klass="pwllib_%s_%s" % (d["gclass"], out[:8]), info={"outcome": out, "largest_violation": v})
  mono = d["mono"] if not d.get("forms") else _MONO_STR[d["mono"]]
  dtype = dtname(d)
  layer = tfl.layers.PWLCalibration(
      input_keypoints=list(d["kps"]), units=d["units"], output_min=d["omin"], output_max=d["omax"],
      clamp_min=d["cmin"], clamp_max=d["cmax"], monotonicity=mono, is_cyclic=d["cyclic"],
      impute_missing=d["impute"], missing_input_value=d["miv"], missing_output_value=d["mov"],
      split_outputs=d["split"], input_keypoints_type="learned_interior" if d["learned"] else "fixed",
      kernel_initializer="zeros", dtype=dtype)
  layer.build((None, 1))
  K = held(d, d["kernel"])
  layer.kernel.assign(K.astype(dtype))
  if d["learned"] and d.get("logits"):
    layer.interpolation_logits.assign(
        np.log(np.array([d["logits"]] * d["units"], dtype=np.float64) / sum(d["logits"])).astype(dtype))
  learned_missing = d["impute"] and d["mov"] is None
  mo_held = [float(x) for x in held(d, d["mo"])]
  if learned_missing:
    layer.missing_output.assign(np.array([mo_held], dtype=dtype))
  out = check_dtype(d, layer.kernel) or outcome_of(tf, lambda: layer.assert_constraints(eps))
  v = pwl_viol(dict(d, kernel=K, mo=mo_held))
  coq = None
  if not out.startswith("error"):
    coq = "CPwl (mkPL %s %s %s) %s %s %s" % (
        coq_pa(d["units"], d["mono"], d["omin"], d["omax"], d["cmin"], d["cmax"]), cbool(d["cyclic"]),
        copt(mo_held if learned_missing else None, cql), cqm(K.tolist()), cq(eps), cbool(out == "returned"))
  klass = "pwl_%s_%s%s%s%s%s_%s%s" % (d["gclass"], (d["inj"] or {}).get("kind", "-"), "_cyc" if d["cyclic"] else "",
                                      "_split" if d["split"] and d["units"] > 1 else "", "_miss" if d["impute"] else "",
                                      "_learned" if d["learned"] else "", out[:8], "_f32" if is_f32(d) else "")
  return Case(d, coq=coq, pred_fail=verdict(out, v, eps), nontrivial=bool(v > 0), klass=klass,
              info={"outcome": out, "largest_violation": v})


# ----------------------------------------------------------------------------
# Linear
# ----------------------------------------------------------------------------
def lin_scalings(d):
  s = [-1.0 if m == -1 else 1.0 for m in d["monos"]]
  for i, (l, h) in enumerate(zip(d["lo"], d["hi"])):
    if l is not None and h is not None:
      s[i] *= h - l
  return s


def lin_norms(K, order):
  K = np.asarray(K, dtype=np.float64)
  return np.abs(K).sum(axis=0) if order == 1 else np.sqrt((K * K).sum(axis=0))


def lin_viol(d):
  K = np.array(d["K"], dtype=np.float64)
  v = -np.inf
  if any(d["monos"]):
    v = max(v, float((-(K * np.array(d["monos"], dtype=np.float64)[:, None])).max()))
  for a, b in d["mdom"]:
    v = max(v, float((K[b] - K[a]).max()))
  if d["rdom"]:
    s = lin_scalings(d)
    for a, b in d["rdom"]:
      v = max(v, float((s[b] * K[b] - s[a] * K[a]).max()))
  if d["norm"]:
    nr = lin_norms(K, d["norm"])
    v = max(v, float(np.where(nr < 1e-8, 0.0, np.abs(nr - 1.0)).max()))
  return v


def lin_instances(b):
  K = np.array(b["K"], dtype=np.float64)
  insts = []
  for u in range(b["units"]):
    insts += [("mono", i, u) for i in range(b["n"]) if b["monos"][i] != 0]
    insts += [("mdom", k, u) for k in range(len(b["mdom"]))]
    insts += [("rdom", k, u) for k in range(len(b["rdom"]))]
    if b["norm"] and lin_norms(K, b["norm"])[u] > 0.5:
      insts += [("norm+", 0, u), ("norm-", 0, u)]
  return insts


def lin_desc(b, eps, g, inst=None, delta=0.0, forms=0):
  K = np.array(b["K"], dtype=np.float64)
  inj = None
  if inst is not None:
    kind, k, u = inst
    inj = dict(kind=kind, loc=[k], unit=u, delta=delta)
    sc = lin_scalings(b)
    if kind == "mono":
      K[k, u] = -delta * b["monos"][k]
    elif kind == "mdom":
      p, q = b["mdom"][k]
      t = (K[p, u] - K[q, u] + delta) / 2.0
      K[p, u] -= t
      K[q, u] += t
    elif kind == "rdom":
      p, q = b["rdom"][k]
      t = (sc[p] * K[p, u] - sc[q] * K[q, u] + delta) / (sc[p] ** 2 + sc[q] ** 2)
      K[p, u] -= t * sc[p]
      K[q, u] += t * sc[q]
    elif kind == "norm+" or (kind == "norm-" and delta >= 1.0):
      K[:, u] *= 1.0 + delta
    elif kind == "norm-":
      K[:, u] *= 1.0 - delta
  d = dict(b)
  d.update(layer="linear", K=[[float(x) for x in r] for r in K], eps=eps, gclass=g, inj=inj, forms=forms)
  return d


def lin_family():
  def b(monos, K, mdom=(), rdom=(), lo=None, hi=None, norm=None):
    n = len(monos)
    return dict(n=n, units=len(K[0]), monos=list(monos), mdom=[list(p) for p in mdom], rdom=[list(p) for p in rdom],
                lo=lo or [None] * n, hi=hi or [None] * n, norm=norm, K=K)
  return [
      b([1, -1, 0], [[1.0, 0.5], [-0.5, -2.0], [-1.0, 3.0]]),
      b([1, 1, 1], [[2.0, 1.0], [1.0, 0.5], [0.5, 3.0]], mdom=[(0, 1)]),
      b([-1, -1, 0], [[-0.5], [-0.25], [0.25]], rdom=[(0, 1)], lo=[0.0, -1.0, None], hi=[2.0, 1.0, None], norm=1),
      b([1, 1], [[0.6, 0.0, 0.28], [0.8, 1.0, 0.96]], rdom=[(1, 0)], lo=[0.0, 0.0], hi=[1.0, 4.0], norm=2),
  ]


def gen_linear(ctx, rng, out):
  enum = [(bi, b, inst) for bi, b in enumerate(lin_family()) for inst in lin_instances(b)]
  ctx.c12_enum["linear"] = len(enum)
  chosen = enum if ctx.tier == "thorough" else rng.sample(enum, min(len(enum), 20))
  ctx.c12_done["linear"] = len(chosen)
  for k, (bi, b, inst) in enumerate(chosen):
    eps = EPS[(k + bi) % 4]
    out.append(lin_desc(b, eps, "enum", inst, [10.0, 30.0, 100.0][k % 3] * eps))
  for bi, b in enumerate(lin_family()):
    out.append(lin_desc(b, EPS[(bi + ctx.seed) % 4], "enumbase"))
  for _ in range(ctx.n(70, 1500)):
    n = rng.randint(1, 5)
    units = rng.choice([1, 1, 2, 3])
    monos = [rng.choice([-1, 0, 1, 1]) for _ in range(n)]
    if n >= 2 and rng.random() < 0.3:   # a same-direction pair, decreasing half of the time
      a, b_ = rng.sample(range(n), 2)
      monos[a] = monos[b_] = rng.choice([-1, -1, 1])
    lo = [None] * n
    hi = [None] * n
    mdom, rdom = [], []
    inc = [i for i in range(n) if monos[i] == 1]
    if len(inc) >= 2 and rng.random() < 0.5:
      mdom.append(rng.sample(inc, 2))
    same = [i for i in range(n) if monos[i] != 0 and not any(i in p for p in mdom)]
    cand = [(a, b_) for a in same for b_ in same if a != b_ and monos[a] == monos[b_]]
    if cand and rng.random() < 0.6:
      rdom.append(list(rng.choice(cand)))
    for i in range(n):
      if any(i in p for p in rdom) or rng.random() < 0.3:
        lo[i] = tfimpl.dy(rng, -2, 2)
        hi[i] = lo[i] + rng.choice([0.5, 1.0, 2.0, 4.0])
      elif rng.random() < 0.2:
        lo[i] = tfimpl.dy(rng, -2, 2)
    norm = rng.choice([None, None, 1, 2])
    f32, eps = pick_f32(rng)
    sc = lin_scalings(dict(monos=monos, lo=lo, hi=hi))
    cols = []
    for _ in range(units):
      a = [float(rng.randint(0, 4)) * (monos[i] if monos[i] else rng.choice([-1, 1])) for i in range(n)]
      for _ in range(3):
        for p, q in mdom:
          if a[p] < a[q]:
            a[p], a[q] = a[q], a[p]
        for p, q in rdom:
          if sc[p] * a[p] < sc[q] * a[q]:
            a[p] = monos[p] * np.ceil(abs(sc[q] * a[q] / sc[p]))
        for p, q in mdom:
          if a[p] < a[q]:
            a[q] = a[p]
      cols.append(a)
    K = np.array(cols, dtype=np.float64).T
    if norm:
      nr = lin_norms(K, norm)
      if rng.random() < 0.85:
        for u in range(units):
          if nr[u] == 0:
            K[0, u] = float(monos[0] if monos[0] else 1)
        nr = lin_norms(K, norm)
        K = K / nr
      else:
        K = K * 0.0   # all-zero columns pass the norm check
    g = rng.choice(["feasible", "inject", "inject", "inject", "below", "random"])
    if g == "random":
      K = np.array([[tfimpl.dy(rng, -2, 2) for _ in range(units)] for _ in range(n)])
    b = dict(n=n, units=units, monos=monos, mdom=mdom, rdom=rdom, lo=lo, hi=hi, norm=norm,
             K=[[float(x) for x in r] for r in K])
    insts = lin_instances(b)
    if g in ("inject", "below") and insts:
      delta = (rng.choice([10.0, 25.0, 100.0]) if g == "inject" else rng.choice([0.05, 0.3])) * eps
      out.append(mark(lin_desc(b, eps, g, rng.choice(insts), delta, rng.randrange(2)), f32))
    else:
      out.append(mark(lin_desc(b, eps, g if g == "random" else "feasible", None, 0.0, rng.randrange(2)), f32))
  # small but not numerically-zero columns (norm between the 1e-8 escape and eps) violate the norm constraint by ~1
  for order in (1, 2):
    for e_, sc_ in ((1e-4, 2.0 ** -15), (1e-2, 2.0 ** -10), (1e-6, 2.0 ** -22)):
      out.append(dict(layer="linear", n=2, units=2, monos=[1, 0], mdom=[], rdom=[], lo=[None, None], hi=[None, None],
                      norm=order, K=[[0.5, sc_], [0.5, sc_]] if order == 1 else [[0.6, sc_], [-0.8, 0.0]], eps=e_,
                      gclass="smallnorm", inj=dict(kind="norm", loc=[0], unit=1, delta=1.0), forms=0))
  # all-zero columns cannot be normalised and pass the norm check (documented special case)
  for order in (1, 2):
    out.append(dict(layer="linear", n=2, units=2, monos=[1, 0], mdom=[], rdom=[], lo=[None, None], hi=[None, None],
                    norm=order, K=[[0.0, 0.5], [0.0, 0.5]] if order == 1 else [[0.0, 0.6], [0.0, -0.8]], eps=1e-4,
                    gclass="zeronorm", inj=None, forms=0))
  # regression witness of the fixed defect A (units > 1 with a norm)
  out.append(dict(layer="linear", n=2, units=2, monos=[1, 1], mdom=[], rdom=[], lo=[None, None], hi=[None, None],
                  norm=1, K=[[0.5, 0.5], [0.5, 0.5]], eps=1e-4, gclass="witnessA", inj=None, forms=0))
  out.append(dict(layer="linear", n=2, units=2, monos=[1, 1], mdom=[], rdom=[], lo=[None, None], hi=[None, None],
                  norm=1, K=[[0.5, 0.5], [0.5, 3.5]], eps=1e-4, gclass="witnessA",
                  inj=dict(kind="norm", loc=[0], unit=1, delta=3.0), forms=0))


def eval_linear(tf, tfl, d):
  eps = d["eps"]
  n, units = d["n"], d["units"]
  monos = list(d["monos"]) if not d.get("forms") else [_MONO_STR[m] for m in d["monos"]]
  any_lo = any(v is not None for v in d["lo"])
  any_hi = any(v is not None for v in d["hi"])
  lo = list(d["lo"]) if not d.get("forms") else [("none" if v is None else v) for v in d["lo"]]
  layer = tfl.layers.Linear(
      num_input_dims=n, units=units, monotonicities=monos,
      monotonic_dominances=latgen.tuples(d["mdom"]), range_dominances=latgen.tuples(d["rdom"]),
      input_min=lo if any_lo else None, input_max=list(d["hi"]) if any_hi else None,
      normalization_order=d["norm"], dtype=dtname(d))
  layer.build((None, n) if units == 1 else (None, units, n))
  K = held(d, d["K"])
  layer.kernel.assign(K.astype(dtname(d)))
  out = check_dtype(d, layer.kernel) or outcome_of(tf, lambda: layer.assert_constraints(eps))
  v = lin_viol(dict(d, K=K))
  decisive = []
  if d["norm"]:
    decisive = [abs(x - 1.0) for x in lin_norms(K, d["norm"])]
  coq = None
  if not out.startswith("error") and not near_threshold(decisive, eps):
    ob = lambda xs: clist([copt(x) for x in xs]) if any(x is not None for x in xs) else "(@nil (option Q))"
    coq = "CLin (mkLinA %s %s %s %s %s %s %s) %s %s %s" % (
        cnat(units), czl(d["monos"]), cnatpairs(d["mdom"]), cnatpairs(d["rdom"]), ob(d["lo"]), ob(d["hi"]),
        copt(d["norm"], cnat), cqm(K.tolist()), cq(eps), cbool(out == "returned"))
  klass = "linear_%s_%s_u%d%s_%s%s" % (d["gclass"], (d["inj"] or {}).get("kind", "-"), min(units, 2),
                                       "_L%d" % d["norm"] if d["norm"] else "", out[:8], "_f32" if is_f32(d) else "")
  return Case(d, coq=coq, pred_fail=verdict(out, v, eps), nontrivial=bool(v > 0), klass=klass,
              info={"outcome": out, "largest_violation": v})


# ----------------------------------------------------------------------------
# CategoricalCalibration
# ----------------------------------------------------------------------------
def cat_viol(d):
  K = np.array(d["K"], dtype=np.float64)
  v = -np.inf
  if d["omin"] is not None:
    v = max(v, float(d["omin"] - K.min()))
  if d["omax"] is not None:
    v = max(v, float(K.max() - d["omax"]))
  for i, j in d["pairs"]:
    v = max(v, float((K[i] - K[j]).max()))
  return v


def cat_instances(b):
  insts = []
  for u in range(b["units"]):
    insts += [("pair", k, u) for k in range(len(b["pairs"]))]
    if b["omin"] is not None:
      insts += [("lower", k, u) for k in range(b["nb"])]
    if b["omax"] is not None:
      insts += [("upper", k, u) for k in range(b["nb"])]
  return insts


def cat_desc(b, eps, g, inst=None, delta=0.0):
  K = np.array(b["K"], dtype=np.float64)
  inj = None
  if inst is not None:
    kind, k, u = inst
    inj = dict(kind=kind, loc=[k], unit=u, delta=delta)
    if kind == "pair":
      i, j = b["pairs"][k]
      t = (K[j, u] - K[i, u] + delta) / 2.0
      K[i, u] += t
      K[j, u] -= t
    elif kind == "lower":
      K[k, u] = b["omin"] - delta
    else:
      K[k, u] = b["omax"] + delta
  d = dict(b)
  d.update(layer="categorical", K=[[float(x) for x in r] for r in K], eps=eps, gclass=g, inj=inj)
  return d


def cat_family():
  def b(K, pairs, omin, omax, default=None):
    return dict(nb=len(K), units=len(K[0]), pairs=[list(p) for p in pairs], omin=omin, omax=omax, K=K, default=default)
  return [
      b([[0.0, 0.5], [1.0, 0.5], [2.0, 1.5]], [(0, 1), (1, 2)], 0.0, 2.0),
      b([[1.0], [3.0], [2.0], [0.0]], [(3, 0), (0, 2), (3, 2), (2, 1)], 0.0, None, default=-1),
      b([[0.5, 1.0, -1.0], [0.0, 1.0, -2.0]], [(1, 0)], None, 1.0),
  ]


def gen_categorical(ctx, rng, out):
  enum = [(bi, b, inst) for bi, b in enumerate(cat_family()) for inst in cat_instances(b)]
  ctx.c12_enum["categorical"] = len(enum)
  chosen = enum if ctx.tier == "thorough" else rng.sample(enum, min(len(enum), 20))
  ctx.c12_done["categorical"] = len(chosen)
  for k, (bi, b, inst) in enumerate(chosen):
    eps = EPS[(k + bi) % 4]
    out.append(cat_desc(b, eps, "enum", inst, [10.0, 30.0, 100.0][k % 3] * eps))
  for bi, b in enumerate(cat_family()):
    out.append(cat_desc(b, EPS[(bi + ctx.seed) % 4], "enumbase"))
  for _ in range(ctx.n(60, 1200)):
    nb = rng.randint(2, 5)
    units = rng.choice([1, 1, 2, 3])
    rank = list(range(nb))
    rng.shuffle(rank)
    cand = [(i, j) for i in range(nb) for j in range(nb) if rank[i] < rank[j]]
    pairs = [list(p) for p in rng.sample(cand, rng.randint(0, min(4, len(cand))))]
    bmode = rng.choice(["none", "min", "max", "both"])
    a = tfimpl.dy(rng, -2, 2)
    omin = a if bmode in ("min", "both") else None
    omax = a + 4.0 if bmode in ("max", "both") else None
    omin, omax = tfimpl.zero_bound(rng, omin, omax)
    lo = omin if omin is not None else (omax - 4.0 if omax is not None else -2.0)
    K = np.array([[lo + rank[b_] * rng.choice([0.0, 0.5, 1.0]) for _ in range(units)] for b_ in range(nb)])
    f32, eps = pick_f32(rng)
    g = rng.choice(["feasible", "inject", "inject", "inject", "below", "random"])
    if g == "random":
      K = np.array([[tfimpl.dy(rng, -3, 3) for _ in range(units)] for _ in range(nb)])
    b = dict(nb=nb, units=units, pairs=pairs, omin=omin, omax=omax, K=[[float(x) for x in r] for r in K],
             default=rng.choice([None, None, -1]))
    insts = cat_instances(b)
    if g in ("inject", "below") and insts:
      delta = (rng.choice([10.0, 25.0, 100.0]) if g == "inject" else rng.choice([0.05, 0.3])) * eps
      out.append(mark(cat_desc(b, eps, g, rng.choice(insts), delta), f32))
    else:
      out.append(mark(cat_desc(b, eps, g if g == "random" else "feasible"), f32))
  # witness of the fixed defect D9: pair (0,1) in order, pair (1,2) violated
  out.append(dict(layer="categorical", nb=3, units=1, pairs=[[0, 1], [1, 2]], omin=None, omax=None,
                  K=[[0.0], [2.0], [1.0]], eps=1e-6, gclass="witnessD9", inj=dict(kind="pair", loc=[1], unit=0, delta=1.0),
                  default=None))


def eval_categorical(tf, tfl, d):
  eps = d["eps"]
  layer = tfl.layers.CategoricalCalibration(
      num_buckets=d["nb"], units=d["units"], output_min=d["omin"], output_max=d["omax"],
      monotonicities=[tuple(p) for p in d["pairs"]] or None, default_input_value=d["default"], dtype=dtname(d))
  layer.build((None, 1))
  K = held(d, d["K"])
  layer.kernel.assign(K.astype(dtname(d)))
  out = check_dtype(d, layer.kernel) or outcome_of(tf, lambda: layer.assert_constraints(eps))
  v = cat_viol(dict(d, K=K))
  coq = None
  if not out.startswith("error"):
    coq = "CCat (mkCatA %s %s %s %s) %s %s %s" % (cnat(d["units"]), copt(d["omin"]), copt(d["omax"]),
                                                  cnatpairs(d["pairs"]), cqm(K.tolist()), cq(eps),
                                                  cbool(out == "returned"))
  klass = "categorical_%s_%s_u%d_%s%s" % (d["gclass"], (d["inj"] or {}).get("kind", "-"), min(d["units"], 2), out[:8],
                                          "_f32" if is_f32(d) else "")
  return Case(d, coq=coq, pred_fail=verdict(out, v, eps), nontrivial=bool(v > 0), klass=klass,
              info={"outcome": out, "largest_violation": v})


# ----------------------------------------------------------------------------
# KroneckerFactoredLattice
# ----------------------------------------------------------------------------
def kfl_viols(d):
  """(largest violation of the eps-checked kinds, largest violation of the kinds checked without eps)."""
  L, units, dims, terms = d["L"], d["units"], d["dims"], d["terms"]
  K = np.array(d["kernel"], dtype=np.float64).reshape(L, units, dims, terms)
  S = np.array(d["scale"], dtype=np.float64)
  ve, vs = -np.inf, -np.inf
  if d["monos"]:
    sg = np.sign(S)[None, :, :]
    for dd, m in enumerate(d["monos"]):
      if m and L > 1:
        ve = max(ve, float((-(sg * np.diff(K[:, :, dd, :], axis=0))).max()))
  omin, omax = d["omin"], d["omax"]
  if omin is not None and omax is not None:
    ve = max(ve, float((np.abs(K).max(axis=0).prod(axis=1) - 1.0).max()))
    vs = max(vs, float((np.abs(S) - (omax - omin) / 2.0).max()))
  elif omin is not None:
    vs = max(vs, float((-K).max()), float((-S).max()))
  elif omax is not None:
    vs = max(vs, float((-K).max()), float(S.max()))
  return ve, vs


def kfl_bmode(b):
  return ("both" if b["omin"] is not None and b["omax"] is not None else "min" if b["omin"] is not None else
          "max" if b["omax"] is not None else "none")


def kfl_instances(b):
  L, units, dims, terms = b["L"], b["units"], b["dims"], b["terms"]
  K = np.array(b["kernel"], dtype=np.float64).reshape(L, units, dims, terms)
  S = np.array(b["scale"], dtype=np.float64)
  bm = kfl_bmode(b)
  insts = []
  for u in range(units):
    for t in range(terms):
      if b["monos"]:
        insts += [("mono", k, dd, u, t) for dd in range(dims) if b["monos"][dd] and S[u, t] != 0 for k in range(L - 1)]
      if bm == "both":
        if np.abs(K[:, u, :, t]).max(axis=0).prod() > 0:
          insts += [("product", 0, dd, u, t) for dd in range(dims)]
        insts += [("scale+", 0, 0, u, t), ("scale-", 0, 0, u, t)]
      elif bm in ("min", "max"):
        insts += [("negative", k, dd, u, t) for k in range(L) for dd in range(dims)]
        insts.append(("scale", 0, 0, u, t))
  return insts


def kfl_desc(b, eps, g, inst=None, delta=0.0, forms=0):
  L, units, dims, terms = b["L"], b["units"], b["dims"], b["terms"]
  K = np.array(b["kernel"], dtype=np.float64).reshape(L, units, dims, terms)
  S = np.array(b["scale"], dtype=np.float64)
  bm = kfl_bmode(b)
  inj = None
  if inst is not None:
    kind, k, dd, u, t = inst
    inj = dict(kind=kind, loc=[k, dd, t], unit=u, delta=delta)
    if kind == "mono":
      sg = np.sign(S[u, t])
      tt = (sg * (K[k + 1, u, dd, t] - K[k, u, dd, t]) + delta) / 2.0
      K[k + 1, u, dd, t] -= sg * tt
      K[k, u, dd, t] += sg * tt
    elif kind == "product":
      K[:, u, dd, t] *= (1.0 + delta) / np.abs(K[:, u, :, t]).max(axis=0).prod()
    elif kind == "negative":
      K[k, u, dd, t] = -delta
    elif kind in ("scale+", "scale-"):
      S[u, t] = ((b["omax"] - b["omin"]) / 2.0 + delta) * (1.0 if kind == "scale+" else -1.0)
    elif kind == "scale":
      S[u, t] = -delta if bm == "min" else delta
  d = dict(b)
  d.update(layer="kfl", scale=[[float(x) for x in r] for r in S], kernel=[float(x) for x in K.ravel()], eps=eps,
           gclass=g, inj=inj, forms=forms)
  return d


def kfl_family():
  def b(L, units, dims, terms, monos, omin, omax, scale, kernel):
    assert len(kernel) == L * units * dims * terms
    return dict(L=L, units=units, dims=dims, terms=terms, monos=monos, omin=omin, omax=omax, scale=scale, kernel=kernel)
  return [
      # [k][u][d][t]
      b(3, 1, 2, 2, [1, 0], 0.0, 2.0, [[1.0, -1.0]],
        [0.0, 1.0, 0.5, -0.5,   0.5, 0.5, -1.0, 0.25,   1.0, 0.0, 0.25, 1.0]),
      b(2, 2, 2, 1, [1, 1], 0.0, None, [[1.0], [0.5]],
        [0.0, 0.25, 0.5, 0.0,   1.0, 0.5, 2.0, 3.0]),
      b(2, 1, 1, 2, None, None, 1.0, [[-1.0, -0.5]], [0.5, 0.0, 1.0, 2.0]),
      b(3, 2, 2, 2, [0, 1], None, None, [[1.0, -2.0], [-1.0, 0.5]],
        [0.0, 1.0, -1.0, 2.0, 3.0, -3.0, 2.0, 0.0,   -2.0, 0.5, 0.0, 1.0, 1.0, 1.0, 1.0, 1.0,
         5.0, -5.0, 0.5, 0.0, -1.0, 4.0, 0.0, 2.0]),
  ]


def gen_kfl(ctx, rng, out):
  enum = [(bi, b, inst) for bi, b in enumerate(kfl_family()) for inst in kfl_instances(b)]
  ctx.c12_enum["kfl"] = len(enum)
  chosen = enum if ctx.tier == "thorough" else rng.sample(enum, min(len(enum), 25))
  ctx.c12_done["kfl"] = len(chosen)
  for k, (bi, b, inst) in enumerate(chosen):
    eps = EPS[(k + bi) % 4]
    out.append(kfl_desc(b, eps, "enum", inst, [10.0, 30.0, 100.0][k % 3] * eps))
  for bi, b in enumerate(kfl_family()):
    out.append(kfl_desc(b, EPS[(bi + ctx.seed) % 4], "enumbase"))
  for _ in range(ctx.n(60, 1200)):
    L = rng.choice([2, 2, 3])
    dims = rng.randint(1, 3)
    units = rng.choice([1, 1, 2])
    terms = rng.randint(1, 3)
    monos = rng.choice([None, [rng.choice([0, 1, 1]) for _ in range(dims)]])
    bmode = rng.choice(["none", "min", "max", "both", "both"])
    a = tfimpl.dy(rng, -2, 2)
    omin = a if bmode in ("min", "both") else None
    omax = a + rng.choice([1.0, 2.0, 4.0]) if bmode in ("max", "both") else None
    omin, omax = tfimpl.zero_bound(rng, omin, omax)
    bound = (omax - omin) / 2.0 if bmode == "both" else 1.0
    if bmode == "min":
      sc = [0.0, 0.5, 1.0, 2.0]
    elif bmode == "max":
      sc = [0.0, -0.5, -1.0]
    else:
      sc = [bound, -bound, bound / 2, -bound / 2, 0.0]
    S = np.array([[rng.choice(sc) for _ in range(terms)] for _ in range(units)])
    signed = bmode in ("none", "both")
    K = np.zeros((L, units, dims, terms))
    for u in range(units):
      for dd in range(dims):
        for t in range(terms):
          vals = [rng.randint(-8 if signed else 0, 8) / 8.0 for _ in range(L)]
          if monos and monos[dd]:
            vals.sort(reverse=(S[u, t] < 0))
          K[:, u, dd, t] = vals
    f32, eps = pick_f32(rng)
    g = rng.choice(["feasible", "inject", "inject", "inject", "below", "random"])
    if g == "random":
      K = np.array([tfimpl.dy(rng, -1.5, 1.5) for _ in range(K.size)]).reshape(K.shape)
      S = np.array([[tfimpl.dy(rng, -2, 2) for _ in range(terms)] for _ in range(units)])
    b = dict(L=L, dims=dims, units=units, terms=terms, monos=monos, omin=omin, omax=omax,
             scale=[[float(x) for x in r] for r in S], kernel=[float(x) for x in K.ravel()])
    insts = kfl_instances(b)
    if g in ("inject", "below") and insts:
      delta = (rng.choice([10.0, 25.0, 100.0]) if g == "inject" else rng.choice([0.05, 0.3])) * eps
      out.append(mark(kfl_desc(b, eps, g, rng.choice(insts), delta, rng.randrange(2)), f32))
    else:
      out.append(mark(kfl_desc(b, eps, g if g == "random" else "feasible", None, 0.0, rng.randrange(2)), f32))


def eval_kfl(tf, tfl, d):
  eps = d["eps"]
  L, units, dims, terms = d["L"], d["units"], d["dims"], d["terms"]
  monos = d["monos"]
  if monos is not None and d.get("forms"):
    monos = [_MONO_STR[m] for m in monos]
  layer = tfl.layers.KroneckerFactoredLattice(
      lattice_sizes=L, units=units, num_terms=terms, monotonicities=monos, output_min=d["omin"],
      output_max=d["omax"], dtype=dtname(d))
  layer.build(tf.TensorShape((None, dims) if units == 1 else (None, units, dims)))
  K = held(d, d["kernel"])
  S = held(d, d["scale"])
  layer.kernel.assign(K.reshape(1, L, units * dims, terms).astype(dtname(d)))
  layer.scale.assign(S.astype(dtname(d)))
  out = check_dtype(d, layer.kernel, layer.scale) or outcome_of(tf, lambda: layer.assert_constraints(eps))
  ve, vs = kfl_viols(dict(d, kernel=K, scale=S))
  coq = None
  if not out.startswith("error"):
    coq = "CKfl (mkKA %s %s %s %s %s %s %s) %s %s %s %s" % (
        cnat(L), cnat(units), cnat(dims), cnat(terms), czl(d["monos"] or []), copt(d["omin"]), copt(d["omax"]),
        cqm(S.tolist()), cql(K.tolist()), cq(eps), cbool(out == "returned"))
  bm = ("B" if d["omin"] is not None and d["omax"] is not None else "m" if d["omin"] is not None else
        "x" if d["omax"] is not None else "-")
  klass = "kfl_%s_%s_%s_u%d_%s%s" % (d["gclass"], (d["inj"] or {}).get("kind", "-"), bm, min(units, 2), out[:8],
                                     "_f32" if is_f32(d) else "")
  return Case(d, coq=coq, pred_fail=verdict(out, ve, eps, vs), nontrivial=bool(max(ve, vs) > 0), klass=klass,
              info={"outcome": out, "largest_violation_eps_kinds": ve, "largest_violation_strict_kinds": vs})


# ----------------------------------------------------------------------------
# RTL
# ----------------------------------------------------------------------------
def gen_rtl(ctx, rng, out):
  for k_ in range(ctx.n(20, 120)):
    rank = rng.choice([2, 2, 3])
    n_inc, n_unc = rng.randint(1, 3), rng.randint(0, 3)
    # in 40% of the cases the violation is placed in a lattice group fed ONLY by unconstrained inputs (such a group has
    # no monotonicity to assert but still has output bounds)
    unc_group = rng.random() < 0.4
    if unc_group:
      n_unc = rank + rng.randint(1, 3)
    if n_inc + n_unc < rank:
      n_unc = rank - n_inc
    num_lattices = max(rng.randint(2, 4), -(-(n_inc + n_unc) // rank))   # every input must fit
    out.append(dict(layer="rtl", rank=rank, size=rng.choice([2, 2, 3]), n_inc=n_inc, n_unc=n_unc, unc_group=unc_group,
                    num_lattices=num_lattices,
                    bmode=rng.choice(["both", "min"]) if unc_group else rng.choice(["none", "both", "min"]),
                    kseed=rng.randrange(10 ** 6), eps=rng.choice(EPS[1:]) if k_ % 8 == 3 else rng.choice(EPS),
                    gclass=rng.choice(["feasible", "inject", "inject", "inject", "below"]),
                    pick=[rng.random(), rng.random(), rng.random()], mult=rng.choice([10.0, 25.0, 100.0]),
                    seed=rng.randrange(100)))
    if k_ % 8 == 3:
      out[-1]["dtype"] = "float32"   # one RTL in eight (eps >= 1e-4)


def eval_rtl(tf, tfl, d):
  eps = d["eps"]
  omin = -3.0 if d["bmode"] in ("both", "min") else None
  omax = 40.0 if d["bmode"] == "both" else None
  layer = tfl.layers.RTL(num_lattices=d["num_lattices"], lattice_rank=d["rank"], lattice_size=d["size"],
                         output_min=omin, output_max=omax, random_seed=d["seed"], dtype=dtname(d))
  inputs = {}
  if d["n_unc"]:
    inputs["unconstrained"] = tf.zeros((1, d["n_unc"]), dtype=dtname(d))
  inputs["increasing"] = tf.zeros((1, d["n_inc"]), dtype=dtname(d))
  layer(inputs)
  subs = list(layer._lattice_layers.values())  # pylint: disable=protected-access
  rng = random.Random(d["kseed"])
  cfgs, Ws = [], []
  for sub in subs:
    monos = [1 if m in (1, "increasing") else 0 for m in (sub.monotonicities or [0] * d["rank"])]
    cfg = dict(sizes=[int(s) for s in sub.lattice_sizes], units=int(sub.units), monos=monos, edge=[], trap=[],
               uni=[0] * d["rank"], mdom=[], rdom=[], jmono=[], juni=[], omin=sub.output_min, omax=sub.output_max)
    cfgs.append(cfg)
    Ws.append(lat_feasible(rng, cfg, interior=False))
  inj = None
  if d["gclass"] in ("inject", "below"):
    cand = [i for i, c in enumerate(cfgs) if not any(c["monos"])] if d.get("unc_group") else []
    li = cand[int(d["pick"][0] * len(cand))] if cand else int(d["pick"][0] * len(subs))
    ineqs = lat_ineqs(cfgs[li])
    if ineqs:
      qi = int(d["pick"][1] * len(ineqs))
      u = int(d["pick"][2] * cfgs[li]["units"])
      delta = (d["mult"] if d["gclass"] == "inject" else 0.2) * eps
      Ws[li], single = inject_single(Ws[li], u, ineqs, qi, delta)
      inj = dict(layer=li, kind=ineqs[qi][0], loc=ineqs[qi][1], unit=u, delta=delta, single=single)
  # RTL does not pass its dtype on to the lattice layers it builds (they are float32 whatever dtype the RTL was given;
  # reported separately): the model and the numpy predicate receive the values the sub-layers REALLY hold
  Ws = [held(dict(dtype=sub.kernel.dtype.base_dtype.name), W) for sub, W in zip(subs, Ws)]
  for sub, W in zip(subs, Ws):
    sub.kernel.assign(W.astype(sub.kernel.dtype.base_dtype.name))
  out = outcome_of(tf, lambda: layer.assert_constraints(eps))
  v = max(lat_viol(W, cfg) for W, cfg in zip(Ws, cfgs))
  coq = None
  if not out.startswith("error"):
    coq = "CRtl %s %s %s" % (clist(["(%s, %s)" % (coq_lat_cfg(c), cql(flat(W))) for c, W in zip(cfgs, Ws)]), cq(eps),
                             cbool(out == "returned"))
  klass = "rtl_%s_%s_layers%d_%s%s" % (d["gclass"], (inj or {}).get("kind", "-"), len(subs), out[:8],
                                       "_f32" if is_f32(d) else "")
  if not is_f32(d) and any(sub.kernel.dtype.base_dtype.name != "float64" for sub in subs):
    klass += "_f64rtl-holds-f32"
  return Case(d, coq=coq, pred_fail=verdict(out, v, eps), nontrivial=bool(v > 0), klass=klass,
              info={"outcome": out, "largest_violation": v, "injected": inj,
                    "sublayers": [dict(units=c["units"], monos=c["monos"]) for c in cfgs]})


# ----------------------------------------------------------------------------
def gen_descs(ctx):
  out = []
  rng = ctx.rng
  ctx.c12_enum, ctx.c12_done = {}, {}
  gen_lattice(ctx, rng, out)
  gen_pwl(ctx, rng, out)
  gen_linear(ctx, rng, out)
  gen_categorical(ctx, rng, out)
  gen_kfl(ctx, rng, out)
  gen_rtl(ctx, rng, out)
  return out


_EVAL = {"lattice": eval_lattice, "pwl": eval_pwl, "pwllib": eval_pwl, "linear": eval_linear,
         "categorical": eval_categorical, "kfl": eval_kfl, "rtl": eval_rtl}


def eval_cases(ctx, descs):
  tf, tfl = tfimpl.tfl()
  cases = []
  for d in descs:
    cases.append(_EVAL[d["layer"]](tf, tfl, d))
  return cases


def extra(ctx, stats):
  total = getattr(ctx, "c12_enum", {})
  done = getattr(ctx, "c12_done", {})
  stats["single_violation_placements_in_families"] = dict(total)
  stats["single_violation_placements_run"] = dict(done)
  stats["exhaustive_domain"] = (
      "every (covered inequality instance, unit) - each vertex pair / square / range quadruple / triangle / bound "
      "vertex / keypoint / ordering pair / term - of the fixed small configurations small_family() (15 Lattice), "
      "pwl_family() (5), lin_family() (4), cat_family() (3), kfl_family() (4), one injected violation each; the "
      "Lattice placements violate ONLY the chosen inequality whenever the other covered inequalities do not imply it")
  stats["exhaustive"] = bool(total and all(done.get(k) == v for k, v in total.items()))
  return []


def _probe_d72(ctx):
  """Known finding D72: the KFL assert accepts increasing but NEGATIVE factors, for which the function decreases."""
  tf, tfl = tfimpl.tfl()
  layer = tfl.layers.KroneckerFactoredLattice(lattice_sizes=2, units=1, num_terms=1, monotonicities=[1, 1],
                                              dtype="float64")
  layer.build(tf.TensorShape((None, 2)))
  layer.kernel.assign(np.array([[-1.0, -1.0], [0.0, 0.0]]).reshape(1, 2, 2, 1))
  layer.scale.assign(np.array([[1.0]]))
  try:
    layer.assert_constraints(eps=0.0)
  except tf.errors.InvalidArgumentError:
    return None
  y = layer(np.array([[0.0, 0.0], [1.0, 0.0]])).numpy().ravel()
  if y[0] > y[1] + 1e-9:
    return ("KroneckerFactoredLattice(2, monotonicities=[1,1]) with factors [-1,0],[-1,0]: assert_constraints(0) returned "
            "although f(0,0)=%g > f(1,0)=%g" % (y[0], y[1]))
  return None


KNOWN_PROBES = {"kfl_assert_does_not_check_nonnegativity": _probe_d72}
