"""C03 - Premade and composed models stay monotone and bounded after any training history."""
import json
import numpy as np
from common import Case, cq, cql, cqm, clist, cnat, cnatl, cnatpairs, cbool, copt
import tfimpl

ID = "C03"
HMODULE = "H_C03"
EXTRA_CHECK_FNS = ["check_wiring"]
SHARD = 12
RULE = ("real tfl.premade models (CalibratedLattice, CalibratedLinear, CalibratedLatticeEnsemble with explicit / "
        "'random' / 'rtl_layer' (thorough: also Crystals-prefitted) structure; all_vertices and kronecker_factored "
        "parameterization; hypercube and simplex; with and without output calibration, linear combination, shared or "
        "separate calibrators) over a feature mix (increasing numeric, decreasing numeric with default_value, "
        "categorical with ordering pairs (with/without default bucket), unconstrained numeric; several monotonicity "
        "spellings), explicit input keypoints, output bounds [-1,2] / [0,1] / [1,2] / one-sided / none. Every model runs "
        "a HISTORY: model.fit (mse, run_eagerly, batch 16, 64 rows with out-of-range and missing values) with SGD lr in "
        "{0.05,0.5,5,50} or Adam(5) on adversarial anti-monotone targets (scale 1 or 1000) or a huge constant, "
        "set_weights of an earlier state, a freshly constructed model. After construction and after EVERY op the "
        "property predicates are evaluated on the real model on a grid (24 base points incl. missing values x every "
        "constrained feature swept over in-range, keypoint, and far out-of-range values / all buckets): pairwise "
        "monotonicity, categorical pairs, bounds for all points; plus every layer's assert_constraints(). For EVERY "
        "model every weight is extracted after construction, after the first op and after the last op (skipped for a "
        "state whose weights exceed 1e3) and Coq evaluates the composed model on 16 grid points against model(x) "
        "(float32, 1e-5): cal_lattice_eval / cal_kfl_eval / cal_linear_eval for single-lattice (all_vertices AND "
        "kronecker_factored; KFL: the layer's hyperparameters as the layer holds them, kernel / scale / bias) and "
        "linear models, ensemble2_eval for ensembles. Ensembles (explicit, 'random', 'rtl_layer', thorough: Crystals; "
        "average or linear combination; shared or separate calibrators; with/without output calibration; Lattice or "
        "KroneckerFactoredLattice members) are extracted by walking the KERAS GRAPH of the built model back from its "
        "output, not from the configuration: output calibrator, combiner (keras Average / RTL average_outputs, or "
        "kernel + bias of tfl_output_linear_combination; a plain Add is rendered as the sum it computes), the member "
        "layers in the combiner's input order, and for every lattice dimension the tensor it receives followed through "
        "the tf.identity pass-throughs to (calibration layer, output unit) and on to the model input = feature index; "
        "for RTL the flattened input columns (sorted keys, units per feature), _rtl_structure, the per-monotonicity "
        "lattice layers with their units, and the output order of RTL.call. Members carry the layer's own "
        "lattice_sizes / interpolation / monotonicities / bounds. Coq then decides the hypotheses of the composition "
        "theorems on the extracted structure (check_wiring): single models as before (KFL: kfl_feasible per (unit, "
        "term) relative to the sign of the scale, fixed bias, monotonicity flags = feature flags, calibrators inside "
        "[0, L-1]); ensembles with ens_ok (Model/PremadeCheck.v) at the float32 tolerance: every dimension reading an "
        "increasing / decreasing / categorically ordered feature is a monotone dimension of its member (kernel "
        "non-decreasing along it; KFL: flagged), its calibrator unit has the feature's direction / ordered pairs and "
        "stays inside [0, size-1] with exact segment tables, kernels inside the bounds ([0,1] under an output "
        "calibrator), KFL layers feasible with the model's bounds, combiner weights >= 0 and (bounded or "
        "output-calibrated model) of sum one without bias, monotone bounded output calibrator, and - structures other "
        "than RTL - no lattice reads a feature twice. C03_wiring_check_sound / C03_checked_ensemble_* prove that this "
        "check at tolerance 0 implies the hypotheses of C03_ensemble_monotone_mixed / C03_ensemble_bounded_mixed and "
        "hence monotonicity and bounds of ensemble2_eval for ALL inputs. Two fixed kronecker_factored models run "
        "hostile histories with new-style AND legacy (per-variable) SGD, two fixed 'random' ensembles need the fill-up "
        "pass of set_random_lattice_ensemble, in every run. Non-trivial = the model is still non-constant on the grid "
        "after its last training op (coverage of the hostile histories); distinct = distinct descs.")
TRUSTED = ["models: Model/Premade.v, Model/PremadeKFL.v (hand-written from premade.py / premade_lib.py build_* functions) "
           "on top of Model/PWLEval.v, Model/CategoricalEval.v, Model/LatticeInterp.v, Model/LinearEval.v, Model/KFL.v, "
           "Model/RTLStructure.v; constraint theorems C01/C04/C06/C07, evaluation theorems C02/C05/C20 and the RTL "
           "wiring theorems C17 are reused, not re-proved",
           "Keras behaviour, hand-modelled from tf_keras (optimizer.py:731-736, legacy/optimizer_v2.py:767-796) and "
           "observed by the histories: new-style optimizers assign every variable and then apply every "
           "variable.constraint; legacy optimizers assign-then-constrain per variable in the order of grads_and_vars "
           "(layer order scale, bias, kernel under model.fit); constructors do not apply constraints; set_weights "
           "copies values verbatim; a non-trainable KFL bias is never touched",
           "initial values: C03_reachable_feasible_*_from_init (Props/C03.v section G) have no initial-value hypothesis "
           "left - the values the premade builders start from (Proofs/PremadeInit.v, on the C10 initialiser models) "
           "satisfy the invariants whenever the configuration is valid AND output_initialization lies sorted inside "
           "[output_min, output_max] (verify_config does not check that: C03_init_refuted_output_initialization_"
           "unchecked; the generator only draws such values). That the builders hand exactly those arguments to the "
           "initialisers is tied on every run by Harness/H_C03Init.v (fresh CalibratedLattice / CalibratedLinear "
           "models, every constrained variable, arguments taken from the config); RTL / aggregation lattices, "
           "categorical and KFL variables start from random draws (theorems quantify over every draw) and are "
           "observed on every freshly built model (assert_constraints + predicates; check_wiring for KFL)",
           "the wiring checks run at the float32 tolerance 1e-5 (and accept the all-zero combiner of known finding "
           "D32, which the predicate on the implementation reports); soundness is proved for ensembles at tolerance 0 "
           "(C03_wiring_check_sound, term_ok_sound / kfl_layer_ok_feasible for KFL members). check_wiring1 / kfl_ok "
           "for SINGLE lattice / linear models (Harness/H_C03.v) use the same procedures but have no soundness lemma "
           "of their own",
           "ensemble extraction (harness/props/c03.py _extract_ensemble): Keras graph metadata (_keras_history, "
           "layer.input, RTL._rtl_structure / _lattice_layers) is trusted to describe what model(x) computes; the "
           "in-Coq comparison of ensemble2_eval with model(x) on 16 points per state checks it; RTL.call's flattening "
           "and output order are mirrored by hand. A model whose graph has another shape is reported (class "
           "'wiring'), not silently skipped. The Crystals prefitting itself (which lattices are chosen) is C17's subject"]
LIMITS = ["ensembles: the Coq comparison and wiring check cover the three sampled states of every history (after "
          "construction, first op, last op; not states with weights > 1e3); the states in between are judged by the "
          "predicates on the implementation only. 'No lattice reads a feature twice' is checked for explicit / random "
          "/ Crystals structures because set_random_lattice_ensemble promises it (C03_ensemble_monotone's "
          "one-position hypothesis); the monotonicity theorems themselves (reads_monotone) do not need it",
          "KFL members: C03_reachable_feasible_kfl covers updates that apply BOTH KFL constraints after kernel and scale "
          "received their raw values (every new-style optimizer, legacy optimizers with the layer's variable order). A "
          "legacy optimizer handed the kernel before the scale, or any optimizer handed only the scale variable, is NOT "
          "covered and really breaks monotonicity (C03_kfl_scale_moved_after_kernel_constraint_refuted; reproduced on "
          "the implementation, not in the generator stream because model.fit cannot produce it)",
          "the RTL theorems are stated over the RTL layer's flattened inputs (premade_lib supplies the monotone "
          "features first, in feature order) and assume each lattice constrained along the dimensions its "
          "monotonicity tuple flags (C01 / C07 give that per layer)",
          "the strict Lattice constraint model of C01 covers monotonicity, trusts and bounds; unimodality, dominance "
          "and joint constraints of premade lattices are exercised by the histories only",
          "inherits the guards of C01 (D1) and C04 (D2): those configurations are not in the default generator stream",
          "categorical inputs range over bucket indices and the default value (an out-of-vocabulary index yields 0)",
          "float32 models: rounding outside the model (comparison 1e-5, predicates 2e-5 relative); histories whose "
          "weights overflow to non-finite values (unbounded linear models only) are counted as 'diverged', not judged"]

_STATS = {}
MONO_INC = ["increasing", 1, "Increasing", "INCREASING"]
MONO_DEC = ["decreasing", -1, "Decreasing"]


# --------------------------------------------------------------------------
# generator
# --------------------------------------------------------------------------
def _kps(rng, n=None):
  n = n or rng.choice([2, 3, 3, 4])
  start = rng.choice([-1.0, 0.0, 0.0, 0.5])
  out = [start]
  for _ in range(n - 1):
    out.append(out[-1] + rng.choice([0.25, 0.5, 1.0, 2.0]))
  return out


def _features(rng, kind, same_size=None, max_vertices=48):
  """inc numeric, dec numeric with default, categorical with pairs, unconstrained numeric (+ optional extra)."""
  def ls():
    return same_size if same_size else rng.choice([2, 2, 3])
  feats = [
      dict(name="a", type="num", mono=rng.choice(MONO_INC), dir=1, kps=_kps(rng), default=None, ls=ls()),
      dict(name="b", type="num", mono=rng.choice(MONO_DEC), dir=-1, kps=_kps(rng), default=rng.choice([-1.0, -1.0, -8.0]), ls=ls()),
  ]
  nb = rng.choice([3, 3, 4])
  pairs = rng.choice([[[0, 1], [1, 2]], [[0, 2]], [[2, 0], [1, 0]], [[0, 1]]])
  if nb == 4 and rng.random() < 0.5:
    pairs = pairs + [[2, 3]] if [2, 0] not in pairs else pairs + [[0, 3]]
  feats.append(dict(name="c", type="cat", nb=nb, pairs=pairs, default=rng.choice([None, -1, -1]), ls=ls()))
  always = rng.random() < 0.25
  # monotone AND convex AND bounded calibrators are known finding D2 (C04): not generated
  feats.append(dict(name="d", type="num", mono=rng.choice([0, "none", 0]), dir=0, kps=_kps(rng), default=None, ls=ls(),
                    convexity=0 if always else rng.choice([0, 0, 0, 1, -1]), always_monotonic=always))
  r = rng.random()
  if r < 0.3:
    feats.append(dict(name="e", type="num", mono=rng.choice(MONO_INC), dir=1, kps=_kps(rng),
                      default=rng.choice([None, -2.0]), ls=ls()))
  elif r < 0.45:
    feats.append(dict(name="e", type="cat", nb=3, pairs=[], default=None, ls=ls()))
  if kind == "lattice":
    while np.prod([f["ls"] for f in feats]) > max_vertices:
      feats.pop()
  rng.shuffle(feats)
  return feats


def _bounds(rng, kind, allow_none=False):
  choices = [(-1.0, 2.0), (-1.0, 2.0), (0.0, 1.0), (1.0, 2.0), (-2.0, -0.5)]
  if allow_none:
    choices += [(None, None), (None, None)]
  return rng.choice(choices)


def _ops(rng, fresh_ok=True):
  ops = []
  n = rng.choice([3, 4, 4, 5])
  for i in range(n):
    r = rng.random()
    if i > 0 and r < 0.2:
      ops.append(dict(op="restore", k=rng.randrange(0, i + 1)))
    elif i > 0 and r < 0.3 and fresh_ok:
      ops.append(dict(op="fresh"))
    else:
      if rng.random() < 0.25:
        o = dict(op="fit", opt="adam", lr=5.0)
      else:
        o = dict(op="fit", opt="sgd", lr=rng.choice([0.002, 0.05, 0.5, 5.0, 50.0]))
      o["target"] = rng.choice(["anti", "anti", "anti", "pro", "anti_big", "anti_big", "const_lo", "const_hi"])
      ops.append(o)
  return ops


def _model_desc(rng, kind):
  m = dict(kind=kind, param="all_vertices", interpolation=rng.choice(["hypercube", "simplex"]),
           output_calibration=rng.random() < 0.4, random_seed=rng.randrange(1000))
  same = None
  if kind == "lattice":
    if rng.random() < 0.3:
      m["param"] = "kronecker_factored"
      m["num_terms"] = rng.choice([1, 2])
      m["interpolation"] = "hypercube"
      same = rng.choice([2, 3])
    lo, hi = _bounds(rng, kind)
  elif kind == "linear":
    lo, hi = _bounds(rng, kind, allow_none=True)
    # use_bias is the config's default True in most models: a bounded / output-calibrated model must ignore it
    m["use_bias"] = rng.random() < 0.7
  else:
    structure = rng.choice(["explicit", "explicit", "random", "rtl_layer", "rtl_layer"])
    m["structure"] = structure
    m["use_linear_combination"] = rng.random() < 0.4
    m["separate_calibrators"] = rng.random() < 0.6
    m["num_lattices"] = rng.choice([2, 3])
    m["lattice_rank"] = 2
    if rng.random() < 0.3:
      m["param"] = "kronecker_factored"
      m["num_terms"] = rng.choice([1, 2])
      m["interpolation"] = "hypercube"
    if structure == "rtl_layer" or m["param"] == "kronecker_factored":
      same = rng.choice([2, 2, 3])
    lo, hi = _bounds(rng, kind)
  if rng.random() < 0.15 and m["param"] == "all_vertices":
    # one-sided bounds, incl. a bound that is exactly 0.0 (falsy but set)
    lo, hi = rng.choice([(0.0, None), (None, 1.0), (None, 0.0), (-1.0, None), (0.0, None)])
    m["output_calibration"] = False
  m["output_min"], m["output_max"] = lo, hi
  a = -1.0 if lo is None else lo
  b = a + 3.0 if hi is None else hi
  if lo is None and hi is not None:
    a = hi - 3.0
  m["output_init"] = [a, b] if rng.random() < 0.7 else [a, (a + b) / 2.0, b]
  return m, same


def gen_descs(ctx):
  rng = ctx.rng
  out = []
  kinds = ["lattice", "linear", "ensemble"]
  n = ctx.n(24, 60)
  for i in range(n):
    kind = kinds[i % 3]
    m, same = _model_desc(rng, kind)
    feats = _features(rng, kind, same_size=same)
    if kind == "ensemble" and m["structure"] == "explicit":
      names = [f["name"] for f in feats]
      lat = []
      for _ in range(rng.choice([2, 3])):
        lat.append(sorted(rng.sample(names, rng.choice([1, 2, 2, 3])), key=names.index))
      for nm in names:  # every feature is used
        if not any(nm in l for l in lat):
          rng.choice(lat).append(nm)
      m["lattices"] = lat
    if kind == "ensemble" and m["structure"] != "explicit":
      need = -(-len(feats) // m["lattice_rank"])
      m["num_lattices"] = max(m["num_lattices"], need, 2)
    out.append(dict(model=m, features=feats, ops=_ops(rng), seed=rng.randrange(10 ** 6)))
  # fixed regression configurations of the two findings made while building this check
  out.append(dict(
      model=dict(kind="linear", param="all_vertices", interpolation="hypercube", output_calibration=False,
                 random_seed=1, use_bias=False, output_min=1.0, output_max=2.0, output_init=[1.0, 2.0]),
      features=[dict(name="a", type="num", mono="increasing", dir=1, kps=[0.0, 0.5, 1.0], default=None, ls=2),
                dict(name="d", type="num", mono=0, dir=0, kps=[0.0, 1.0, 2.0], default=None, ls=2)],
      ops=[dict(op="fit", opt="sgd", lr=5.0, target="const_lo")], seed=0))
  out.append(dict(
      model=dict(kind="ensemble", structure="rtl_layer", param="all_vertices", interpolation="hypercube",
                 output_calibration=False, random_seed=1, use_linear_combination=False, separate_calibrators=True,
                 num_lattices=2, lattice_rank=2, output_min=0.0, output_max=1.0, output_init=[0.0, 1.0]),
      features=[dict(name="a", type="num", mono="Increasing", dir=1, kps=[0.0, 0.5, 1.0], default=None, ls=2),
                dict(name="d", type="num", mono=0, dir=0, kps=[0.0, 1.0, 2.0], default=None, ls=2),
                dict(name="c", type="cat", nb=3, pairs=[[0, 1], [1, 2]], default=None, ls=2)],
      ops=[dict(op="fit", opt="sgd", lr=0.5, target="anti"), dict(op="fit", opt="sgd", lr=0.5, target="anti"),
           dict(op="fit", opt="sgd", lr=0.5, target="anti"), dict(op="fit", opt="sgd", lr=0.5, target="anti")], seed=0))
  # 'random' structure whose lattices must be FILLED UP (3 lattices of rank 3 over 4 features: 5 of the 9 slots are
  # drawn in the second pass of set_random_lattice_ensemble, which promises lattices without repeated features)
  for rseed, sep in ((7, False), (8, True)):
    out.append(dict(
        model=dict(kind="ensemble", structure="random", param="all_vertices", interpolation="hypercube",
                   output_calibration=False, random_seed=rseed, use_linear_combination=sep, separate_calibrators=sep,
                   num_lattices=3, lattice_rank=3, output_min=-1.0, output_max=2.0, output_init=[-1.0, 2.0]),
        features=[dict(name="a", type="num", mono="increasing", dir=1, kps=[0.0, 0.5, 1.0], default=None, ls=2),
                  dict(name="b", type="num", mono="decreasing", dir=-1, kps=[-1.0, 0.0, 2.0], default=-8.0, ls=2),
                  dict(name="c", type="cat", nb=3, pairs=[[0, 1], [1, 2]], default=-1, ls=2),
                  dict(name="d", type="num", mono=0, dir=0, kps=[0.0, 1.0, 2.0], default=None, ls=2)],
        ops=[dict(op="fit", opt="sgd", lr=5.0, target="anti"), dict(op="fit", opt="adam", lr=5.0, target="anti_big")],
        seed=20 + rseed))
  # one-sided bound that is exactly 0.0 on a calibrated linear model without output calibration (seeded change
  # C03-m2: a truthiness test dropped the bound and built an unbounded model with a bias)
  out.append(dict(
      model=dict(kind="linear", param="all_vertices", interpolation="hypercube", output_calibration=False,
                 random_seed=2, use_bias=True, output_min=0.0, output_max=None, output_init=[0.0, 3.0]),
      features=[dict(name="a", type="num", mono="increasing", dir=1, kps=[0.0, 0.5, 1.0], default=None, ls=2),
                dict(name="d", type="num", mono=0, dir=0, kps=[0.0, 1.0, 2.0], default=None, ls=2)],
      ops=[dict(op="fit", opt="sgd", lr=0.05, target="anti"), dict(op="fit", opt="sgd", lr=0.002, target="const_lo"),
           dict(op="fit", opt="sgd", lr=0.05, target="anti")],
      seed=5))
  out.append(dict(
      model=dict(kind="lattice", param="all_vertices", interpolation="hypercube", output_calibration=False,
                 random_seed=2, output_min=None, output_max=0.0, output_init=[-3.0, 0.0]),
      features=[dict(name="a", type="num", mono="increasing", dir=1, kps=[0.0, 0.5, 1.0], default=None, ls=2),
                dict(name="d", type="num", mono=0, dir=0, kps=[0.0, 1.0, 2.0], default=None, ls=2)],
      ops=[dict(op="fit", opt="sgd", lr=0.05, target="anti"), dict(op="fit", opt="sgd", lr=0.002, target="const_hi"),
           dict(op="fit", opt="sgd", lr=5.0, target="const_hi")],
      seed=6))
  # ensemble with a linear combination, no output calibration and exactly ONE bound that excludes 0 (seeded change
  # C03-m6: the combiner lost its normalisation, weights no longer summed to 1, outputs fell below output_min)
  for lo_, hi_, tgt in ((1.0, None, "const_lo"), (None, -1.0, "const_hi")):
    a_ = lo_ if lo_ is not None else hi_ - 3.0
    out.append(dict(
        model=dict(kind="ensemble", structure="explicit", param="all_vertices", interpolation="hypercube",
                   output_calibration=False, random_seed=7, use_linear_combination=True, separate_calibrators=True,
                   num_lattices=2, lattice_rank=2, lattices=[["a", "d"], ["a", "c"]],
                   output_min=lo_, output_max=hi_, output_init=[a_, a_ + 3.0]),
        features=[dict(name="a", type="num", mono="increasing", dir=1, kps=[0.0, 0.5, 1.0], default=None, ls=2),
                  dict(name="d", type="num", mono=0, dir=0, kps=[0.0, 1.0, 2.0], default=None, ls=2),
                  dict(name="c", type="cat", nb=3, pairs=[[0, 1], [1, 2]], default=None, ls=2)],
        ops=[dict(op="fit", opt="sgd", lr=0.05, target="anti"), dict(op="fit", opt="sgd", lr=0.002, target=tgt),
             dict(op="fit", opt="sgd", lr=0.05, target="anti")], seed=8))
  # fixed kronecker_factored single-lattice models (the composed Coq model cal_kfl_eval is compared on them in every
  # run): hostile histories that flip the sign of the scale, new-style AND legacy (per-variable) optimizers
  kfl_feats = [dict(name="a", type="num", mono="increasing", dir=1, kps=[0.0, 0.5, 1.0], default=None, ls=2),
               dict(name="b", type="num", mono="decreasing", dir=-1, kps=[-1.0, 0.0, 2.0], default=-8.0, ls=2),
               dict(name="c", type="cat", nb=3, pairs=[[0, 1], [1, 2]], default=-1, ls=2),
               dict(name="d", type="num", mono=0, dir=0, kps=[0.0, 1.0, 2.0], default=None, ls=2, convexity=0,
                    always_monotonic=False)]
  out.append(dict(
      model=dict(kind="lattice", param="kronecker_factored", num_terms=2, interpolation="hypercube",
                 output_calibration=False, random_seed=3, output_min=-1.0, output_max=2.0, output_init=[-1.0, 2.0]),
      features=kfl_feats,
      ops=[dict(op="fit", opt="sgd", lr=5.0, target="anti_big"), dict(op="fit", opt="sgd_legacy", lr=5.0, target="anti"),
           dict(op="restore", k=1), dict(op="fit", opt="adam", lr=5.0, target="const_lo"),
           dict(op="fit", opt="sgd_legacy", lr=0.5, target="pro")], seed=11))
  out.append(dict(
      model=dict(kind="lattice", param="kronecker_factored", num_terms=1, interpolation="hypercube",
                 output_calibration=True, random_seed=4, output_min=0.0, output_max=1.0, output_init=[0.0, 0.5, 1.0]),
      features=[dict(f, ls=3) for f in kfl_feats[:3]],
      ops=[dict(op="fit", opt="sgd_legacy", lr=50.0, target="anti_big"), dict(op="fit", opt="sgd", lr=0.5, target="pro")],
      seed=12))
  if ctx.tier == "thorough":
    m, same = _model_desc(rng, "ensemble")
    m.update(structure="crystals", param="all_vertices", num_lattices=3, lattice_rank=2)
    out.append(dict(model=m, features=_features(rng, "ensemble", same_size=same), ops=_ops(rng, fresh_ok=False),
                    seed=rng.randrange(10 ** 6)))
  return out


# --------------------------------------------------------------------------
# the real models
# --------------------------------------------------------------------------
def _keras():
  tf, tfl = tfimpl.tfl()
  version_fn = getattr(tf.keras, "version", None)
  if version_fn and version_fn().startswith("3."):
    import tf_keras as keras  # pylint: disable=g-import-not-at-top
  else:
    keras = tf.keras
  return tf, tfl, keras


def _feature_configs(tfl, feats):
  fcs = []
  for f in feats:
    if f["type"] == "cat":
      kw = dict(name=f["name"], num_buckets=f["nb"], lattice_size=f["ls"], default_value=f["default"])
      if f["pairs"]:
        kw["monotonicity"] = [tuple(p) for p in f["pairs"]]
      fcs.append(tfl.configs.FeatureConfig(**kw))
    else:
      fcs.append(tfl.configs.FeatureConfig(
          name=f["name"], monotonicity=f["mono"], lattice_size=f["ls"], default_value=f["default"],
          pwl_calibration_input_keypoints=list(f["kps"]),
          pwl_calibration_convexity=f.get("convexity", 0),
          pwl_calibration_always_monotonic=f.get("always_monotonic", False)))
  return fcs


def _data(desc, rs, n=64):
  cols = []
  for f in desc["features"]:
    if f["type"] == "cat":
      c = rs.randint(0, f["nb"], size=(n, 1)).astype(np.int32)
      if f["default"] is not None:
        c[rs.rand(n) < 0.15, 0] = f["default"]
    else:
      lo, hi = f["kps"][0], f["kps"][-1]
      c = (np.round(rs.uniform(lo - 0.5, hi + 0.5, size=(n, 1)) * 16) / 16.0).astype(np.float32)
      if f["default"] is not None:
        c[rs.rand(n) < 0.15, 0] = f["default"]
    cols.append(c)
  return cols


def _score(desc, cols):
  """A function that is increasing in every increasing feature, decreasing in every decreasing one and ordered
  along every categorical pair; the adversarial target is its negation."""
  s = np.zeros((cols[0].shape[0], 1), np.float64)
  for f, c in zip(desc["features"], cols):
    c = c.astype(np.float64)
    if f["type"] == "cat":
      rank = np.zeros(f["nb"])
      for _ in range(f["nb"]):
        for a, b in f["pairs"]:
          rank[b] = max(rank[b], rank[a] + 1)
      idx = np.where(c[:, 0] < 0, f["nb"] - 1, c[:, 0]).astype(int)
      s += rank[idx][:, None]
    elif f["dir"] != 0:
      span = f["kps"][-1] - f["kps"][0]
      s += f["dir"] * (np.clip(c, f["kps"][0], f["kps"][-1]) - f["kps"][0]) / span
  return s


def _free(desc, cols):
  """A term in the unconstrained numeric features (keeps a trained model non-constant)."""
  u = np.zeros((cols[0].shape[0], 1), np.float64)
  for f, c in zip(desc["features"], cols):
    if f["type"] == "num" and f["dir"] == 0:
      span = f["kps"][-1] - f["kps"][0]
      u += (np.clip(c.astype(np.float64), f["kps"][0], f["kps"][-1]) - f["kps"][0]) / span
  return u


def _target(desc, cols, kind):
  s = _score(desc, cols)
  u = _free(desc, cols)
  if kind == "anti":
    y = -s + u
  elif kind == "anti_big":
    y = 1000.0 * (-s + u)
  elif kind == "pro":
    y = 0.5 * s + u
  elif kind == "const_lo":
    y = np.full_like(s, -1000.0)
  else:
    y = np.full_like(s, 1000.0)
  return y.astype(np.float32)


def _model_config(tfl, desc, feature_configs):
  m = desc["model"]
  common_kw = dict(feature_configs=feature_configs, output_min=m["output_min"], output_max=m["output_max"],
                   output_calibration=m["output_calibration"], output_initialization=list(m["output_init"]))
  if m["kind"] == "linear":
    return tfl.configs.CalibratedLinearConfig(use_bias=m.get("use_bias", False), **common_kw)
  kw = dict(parameterization=m["param"], interpolation=m["interpolation"], random_seed=m["random_seed"])
  if m["param"] == "kronecker_factored":
    kw["num_terms"] = m.get("num_terms", 2)
  kw.update(common_kw)
  if m["kind"] == "lattice":
    return tfl.configs.CalibratedLatticeConfig(**kw)
  kw.update(use_linear_combination=m["use_linear_combination"], separate_calibrators=m["separate_calibrators"])
  if m["structure"] == "explicit":
    return tfl.configs.CalibratedLatticeEnsembleConfig(lattices=[list(l) for l in m["lattices"]], **kw)
  structure = m["structure"]
  return tfl.configs.CalibratedLatticeEnsembleConfig(
      lattices=structure, num_lattices=m["num_lattices"], lattice_rank=m["lattice_rank"], **kw)


def _build(desc, notes):
  tf, tfl, keras = _keras()
  m = desc["model"]
  keras.utils.set_random_seed(desc["seed"] % (2 ** 31))
  cfg = _model_config(tfl, desc, _feature_configs(tfl, desc["features"]))
  if m["kind"] == "lattice":
    return tfl.premade.CalibratedLattice(cfg)
  if m["kind"] == "linear":
    return tfl.premade.CalibratedLinear(cfg)
  if m["structure"] == "random":
    tfl.premade_lib.set_random_lattice_ensemble(cfg)
    cfg.lattices = [[str(x) for x in l] for l in cfg.lattices]
  elif m["structure"] == "crystals":
    try:
      pre_cfg = tfl.premade_lib.construct_prefitting_model_config(cfg)
      pre = tfl.premade.CalibratedLatticeEnsemble(pre_cfg)
      rs = np.random.RandomState(desc["seed"])
      cols = _data(desc, rs)
      pre.compile(loss="mse", optimizer=keras.optimizers.Adam(0.05), run_eagerly=True)
      pre.fit(cols, _score(desc, cols).astype(np.float32) + (cols[0] * 0).astype(np.float32), batch_size=16, epochs=3, verbose=0)
      tfl.premade_lib.set_crystals_lattice_ensemble(cfg, pre_cfg, pre)
      cfg.lattices = [[str(x) for x in l] for l in cfg.lattices]
      notes.append("crystals")
    except ValueError as e:  # known finding D13 (zero-importance feature) belongs to C17
      notes.append("crystals prefitting raised %s; fell back to a random structure" % (str(e)[:80],))
      cfg.lattices = "random"
      tfl.premade_lib.set_random_lattice_ensemble(cfg)
      cfg.lattices = [[str(x) for x in l] for l in cfg.lattices]
  return tfl.premade.CalibratedLatticeEnsemble(cfg)


# --------------------------------------------------------------------------
# predicates on the real model
# --------------------------------------------------------------------------
def _candidates(f, with_missing):
  if f["type"] == "cat":
    vals = list(range(f["nb"]))
    if with_missing and f["default"] is not None:
      vals.append(f["default"])
    return vals
  k = f["kps"]
  vals = [k[0] - 100.0, k[0] - 0.5, k[0]]
  for a, b in zip(k[:-1], k[1:]):
    vals += [a + (b - a) * 0.25, a + (b - a) * 0.5, b]
  vals += [k[-1] + 0.5, k[-1] + 100.0]
  vals = sorted(set(v for v in vals if f["default"] is None or v != f["default"]))
  if with_missing and f["default"] is not None:
    vals.append(f["default"])
  return vals


def _grid(desc):
  """Rows to evaluate and the index structure of the sweeps: a deterministic function of the desc."""
  rs = np.random.RandomState(desc["seed"] + 7)
  feats = desc["features"]
  cands = [_candidates(f, True) for f in feats]
  base = [[c[rs.randint(len(c))] for c in cands] for _ in range(24)]
  rows = [list(b) for b in base]
  sweeps = []  # (feature index, [row indices in sweep order], [swept values])
  for i, f in enumerate(feats):
    constrained = (f["type"] == "cat" and f["pairs"]) or (f["type"] == "num" and f["dir"] != 0)
    if not constrained:
      continue
    vals = _candidates(f, False)
    for b in base:
      idx = []
      for v in vals:
        r = list(b)
        r[i] = v
        idx.append(len(rows))
        rows.append(r)
      sweeps.append((i, idx, vals))
  return rows, sweeps


def _inputs(desc, rows):
  cols = []
  for j, f in enumerate(desc["features"]):
    col = np.array([[r[j]] for r in rows])
    cols.append(col.astype(np.int32) if f["type"] == "cat" else col.astype(np.float32))
  return cols


def _combiner_zero(model):
  """Known-finding-D32 state: the normalized (weighted-average) Linear combiner has only ~zero weights."""
  for l in model.layers:
    if type(l).__name__ == "Linear" and getattr(l, "normalization_order", None):
      if float(np.abs(l.kernel.numpy()).sum()) < 1e-6:
        return True
  return False


def _evaluate(tf, desc, model, rows, sweeps, cols):
  """Returns (failures [(class, text)], outputs, finite)."""
  out = model(cols, training=False).numpy().reshape(-1).astype(np.float64)
  fails = []
  m = desc["model"]
  if not np.all(np.isfinite(out)):
    return [("nonfinite", "model output is not finite")], out, False
  scale = max(1.0, float(np.abs(out).max()))
  tol = 2e-5 * scale
  feats = desc["features"]
  for i, idx, vals in sweeps:
    f = feats[i]
    o = out[idx]
    if f["type"] == "num":
      d = np.diff(o) * f["dir"]
      if d.min() < -tol:
        k = int(np.argmin(d))
        fails.append(("mono", "output not %s in feature %s (monotonicity %r): x=%r -> %r gives %r -> %r, other inputs %r" % (
            "non-decreasing" if f["dir"] > 0 else "non-increasing", f["name"], f["mono"], vals[k], vals[k + 1],
            float(o[k]), float(o[k + 1]), rows[idx[0]])))
        break
    else:
      for a, b in f["pairs"]:
        if o[a] > o[b] + tol:
          fails.append(("catpair", "categorical pair (%d, %d) of feature %s out of order: %r > %r, other inputs %r" % (
              a, b, f["name"], float(o[a]), float(o[b]), rows[idx[0]])))
          break
      if fails and fails[-1][0] == "catpair":
        break
  lo, hi = m["output_min"], m["output_max"]
  btol = 2e-5 * max(1.0, abs(lo or 0.0), abs(hi or 0.0))
  if lo is not None and out.min() < lo - btol or hi is not None and out.max() > hi + btol:
    k = int(np.argmin(out)) if (lo is not None and out.min() < lo - btol) else int(np.argmax(out))
    cls = "d32" if _combiner_zero(model) and abs(out[k]) < 1e-6 else "bounds"
    fails.append((cls, "output %r outside [output_min, output_max] = [%r, %r] at input %r" % (float(out[k]), lo, hi, rows[k])))
  for l in model.layers:
    if hasattr(l, "assert_constraints"):
      try:
        l.assert_constraints(eps=1e-4)
      except tf.errors.InvalidArgumentError as e:
        fails.append(("assert", "layer %s fails its own assert_constraints(eps=1e-4): %s" % (l.name, str(e)[:200])))
      except TypeError:
        try:
          l.assert_constraints()
        except tf.errors.InvalidArgumentError as e:
          fails.append(("assert", "layer %s fails its own assert_constraints(): %s" % (l.name, str(e)[:200])))
  return fails, out, True


# --------------------------------------------------------------------------
# extraction + Coq rendering (single lattice / linear, all_vertices)
# --------------------------------------------------------------------------
def _f(x):
  return float(np.asarray(x, dtype=np.float64))


def _pwl_tables(l, u=0):
  kps = [float(v) for v in np.asarray(l._interpolation_keypoints).reshape(-1)]  # pylint: disable=protected-access
  lens = [float(v) for v in np.asarray(l._lengths).reshape(-1)]  # pylint: disable=protected-access
  col = [float(v) for v in l.kernel.numpy()[:, u]]
  return kps, lens, col


def _calib_term(l, f, u=0):
  """Coq calib of unit u of the calibration layer l (feature desc f)."""
  if f["type"] == "cat":
    return "(CCat %s %s)" % (cql([float(v) for v in l.kernel.numpy()[:, u]]),
                             "None" if l.default_input_value is None else "(Some (%d)%%Z)" % int(l.default_input_value))
  kps, lens, col = _pwl_tables(l, u)
  miss = "None"
  if l.impute_missing:
    miss = "(Some (%s, %s))" % (cq(float(l.missing_input_value)), cq(_f(l.missing_output.numpy().reshape(-1)[u])))
  return "(CPwl %s %s %s %s)" % (cql(kps), cql(lens), cql(col), miss)


def _feat_term(f):
  """the FEATURE's configured monotonicity is the reference of the wiring check"""
  if f["type"] == "cat":
    return "(MPairs %s)" % cnatpairs(f["pairs"])
  return "(MNum (%d)%%Z)" % int(f["dir"])


def _extract(desc, model):
  layers = {l.name: l for l in model.layers}
  cals, feats = [], []
  for f in desc["features"]:
    cals.append(_calib_term(layers["tfl_calib_" + f["name"]], f))
    feats.append(_feat_term(f))
  oc = "None"
  if "tfl_output_calib" in layers:
    oc = "(Some (%s, %s, %s))" % tuple(cql(t) for t in _pwl_tables(layers["tfl_output_calib"]))
  m = desc["model"]
  kfl = "None"
  if m["kind"] == "linear":
    l = layers["tfl_linear_0"]
    k = [float(v) for v in l.kernel.numpy()[:, 0]]
    b = _f(l.bias.numpy()) if l.use_bias else 0.0
    lat = "Hypercube (@nil nat) (@nil (list Q)) %s %s" % (cql(k), cq(b))
    lin = True
  elif m["param"] == "kronecker_factored":
    # the KroneckerFactoredLattice layer: hyperparameters as the LAYER holds them and its three variables
    l = layers["tfl_kronecker_factored_lattice_0"]
    kern = l.kernel.numpy()  # (1, L, units * dims, terms)
    assert l.units == 1 and not l.clip_inputs and kern.shape[0] == 1
    kfl = "(Some (mkKflW %s %s %s %s %s %s %s %s %s))" % (
        cnat(l.lattice_sizes), _kfl_monos(l), copt(l.output_min), copt(l.output_max), cnat(kern.shape[2]), cnat(kern.shape[3]),
        clist([cqm([[float(v) for v in row] for row in mat]) for mat in kern[0]]),
        cqm([[float(v) for v in row] for row in l.scale.numpy()]), cql([float(v) for v in l.bias.numpy()]))
    lat = "Hypercube (@nil nat) (@nil (list Q)) (@nil Q) 0"
    lin = False
  else:
    l = layers["tfl_lattice_0"]
    sc = "Hypercube" if l.interpolation == "hypercube" else "Simplex"
    lat = "%s %s %s (@nil Q) 0" % (sc, cnatl(list(l.lattice_sizes)), cqm([[float(v)] for v in l.kernel.numpy()[:, 0]]))
    lin = False
  return lin, lat, clist(cals), oc, clist(feats), kfl


def _kfl_monos(l):
  monos = l.monotonicities
  if monos is None:
    return "None"
  monos = [{"increasing": 1, "none": 0}.get(str(v).lower(), v) for v in monos]
  return "(Some %s)" % clist([cbool(bool(int(v))) for v in monos])


# --------------------------------------------------------------------------
# extraction + Coq rendering (ensembles): the wiring is read from the Keras graph of the built model, not from
# the configuration
# --------------------------------------------------------------------------
class _Unmodelled(Exception):
  pass


def _hist(t):
  h = t._keras_history  # pylint: disable=protected-access
  return h.layer, h.tensor_index


def _through_identities(t):
  """Follows tf.identity pass-through nodes (TFOpLambda) back to the layer that produced the tensor."""
  layer, k = _hist(t)
  while type(layer).__name__ == "TFOpLambda":
    fn = getattr(layer, "function", None)
    if getattr(fn, "__name__", "") != "identity":
      raise _Unmodelled("op layer %s (%s) between calibrator and lattice" % (layer.name, getattr(fn, "__name__", "?")))
    inp = layer.input
    if isinstance(inp, (list, tuple)):
      raise _Unmodelled("op layer %s has %d inputs" % (layer.name, len(inp)))
    layer, k = _hist(inp)
  return layer, k


def _feature_of(calib_layer, names):
  """index (into the model's inputs = desc features) of the feature a calibration layer reads"""
  src, _ = _hist(calib_layer.input)
  if type(src).__name__ != "InputLayer" or not src.name.startswith("tfl_input_"):
    raise _Unmodelled("calibration layer %s does not read a model input" % calib_layer.name)
  return names.index(src.name[len("tfl_input_"):])


def _as_list(x):
  return list(x) if isinstance(x, (list, tuple)) else [x]


def _lattice_member(desc, l, reads, u=0):
  """Coq member2 of unit u of the Lattice / KroneckerFactoredLattice layer l; reads = [(feature index, calibration
  layer, calibrator unit)] per lattice dimension, in the order the layer sees its inputs."""
  feats = desc["features"]
  idx = cnatl([i for i, _, _ in reads])
  cals = clist([_calib_term(cl, feats[i], cu) for i, cl, cu in reads])
  if type(l).__name__ == "Lattice":
    if l.clip_inputs:
      raise _Unmodelled("lattice %s clips its inputs" % l.name)
    sc = "Hypercube" if l.interpolation == "hypercube" else "Simplex"
    return "(MLat (mkMember %s %s %s %s %s))" % (
        idx, cals, sc, cnatl(list(l.lattice_sizes)), cqm([[float(v)] for v in l.kernel.numpy()[:, u]]))
  if type(l).__name__ == "KroneckerFactoredLattice":
    kern = l.kernel.numpy()  # (1, L, units * dims, terms)
    units = int(l.units)
    dims = kern.shape[2] // units
    par = "(MK.mkPar (MK.unpack %s %s %s %s %s) %s %s)" % (
        cnat(l.lattice_sizes), cnat(units), cnat(dims), cnat(kern.shape[3]),
        clist([cqm([[float(v) for v in row] for row in mat]) for mat in kern[0]]),
        cqm([[float(v) for v in row] for row in l.scale.numpy()]), cql([float(v) for v in l.bias.numpy()]))
    cfg = "(MK.mkCfg %s %s %s %s %s)" % (cnat(l.lattice_sizes), _kfl_monos(l), copt(l.output_min), copt(l.output_max),
                                        cbool(bool(l.clip_inputs)))
    return "(MKfl %s %s %s %s %s)" % (idx, cals, cfg, par, cnat(u))
  raise _Unmodelled("ensemble member %s is a %s" % (l.name, type(l).__name__))


def _explicit_members(desc, lattice_tensors, names):
  """lattice_tensors: the tensors the combiner receives, in its order."""
  members = []
  for t in lattice_tensors:
    l, _ = _hist(t)
    reads = []
    for x in _as_list(l.input):
      cl, cu = _through_identities(x)
      if type(cl).__name__ not in ("PWLCalibration", "CategoricalCalibration"):
        raise _Unmodelled("lattice %s reads %s (%s)" % (l.name, cl.name, type(cl).__name__))
      reads.append((_feature_of(cl, names), cl, cu))
    members.append(_lattice_member(desc, l, reads))
  return members


def _rtl_members(desc, rtl, names):
  """The lattices of a tfl.layers.RTL layer in the order of its (joint) output columns. Mirrors RTL.call: the inputs
  are flattened key by key in sorted key order, every entry of _rtl_structure gathers its columns, the outputs of the
  entries without a monotone dimension come first."""
  x = rtl.input
  if not isinstance(x, dict):
    x = {"unconstrained": x}
  flat = []  # flattened input column -> (feature index, calibration layer, unit)
  for key in sorted(x.keys()):
    for t in _as_list(x[key]):
      cl, _ = _through_identities(t)
      if type(cl).__name__ not in ("PWLCalibration", "CategoricalCalibration"):
        raise _Unmodelled("RTL reads %s (%s)" % (cl.name, type(cl).__name__))
      i = _feature_of(cl, names)
      for u in range(int(t.shape[-1])):
        flat.append((i, cl, u))
  outs = [[], []]
  for monotonicities, inputs_for_units in rtl._rtl_structure:  # pylint: disable=protected-access
    l = rtl._lattice_layers[str(monotonicities)]  # pylint: disable=protected-access
    if int(l.units) != len(inputs_for_units):
      raise _Unmodelled("RTL entry %s: %d units for %d input groups" % (monotonicities, l.units, len(inputs_for_units)))
    for u, cols in enumerate(inputs_for_units):
      outs[max(monotonicities)].append(_lattice_member(desc, l, [flat[int(j)] for j in cols], u))
  return outs[0] + outs[1]


def _extract_ensemble(desc, model):
  """(members, combiner, output calibrator) Coq terms of a built CalibratedLatticeEnsemble, walking the Keras graph
  back from the model output."""
  names = [f["name"] for f in desc["features"]]
  if [n for n in model.input_names] != ["tfl_input_" + n for n in names]:
    raise _Unmodelled("model inputs %r are not the features %r" % (model.input_names, names))
  outs = _as_list(model.output)
  if len(outs) != 1:
    raise _Unmodelled("%d model outputs" % len(outs))
  top, _ = _hist(outs[0])
  oc = "None"
  if type(top).__name__ == "PWLCalibration":
    if top.impute_missing or int(top.units) != 1:
      raise _Unmodelled("output calibrator with missing-value handling / units")
    oc = "(Some (%s, %s, %s))" % tuple(cql(t) for t in _pwl_tables(top))
    top, _ = _hist(top.input)
  lin = None
  if type(top).__name__ == "Linear":
    lin = top
    if lin.input_min is not None or lin.input_max is not None:
      raise _Unmodelled("combiner Linear layer with input bounds")
    top, _ = _hist(lin.input)
  kind = type(top).__name__
  if kind == "RTL":
    members = _rtl_members(desc, top, names)
    averaged = bool(top.average_outputs)
    if top.separate_outputs:
      raise _Unmodelled("RTL with separate outputs")
  elif kind in ("Average", "Add", "Concatenate"):
    members = _explicit_members(desc, _as_list(top.input), names)
    averaged = kind == "Average"
    if (kind == "Concatenate") != (lin is not None):
      raise _Unmodelled("lattice outputs joined by %s %s a linear combination" % (kind, "with" if lin is not None else "without"))
  else:
    raise _Unmodelled("ensemble outputs combined by a %s layer" % kind)
  if lin is not None:
    if averaged:
      raise _Unmodelled("linear combination of an averaged ensemble")
    comb = "(LinComb %s %s)" % (cql([float(v) for v in lin.kernel.numpy()[:, 0]]),
                                cq(_f(lin.bias.numpy()) if lin.use_bias else 0.0))
  elif averaged:
    comb = "Average"
  else:  # a plain sum of the members (keras Add / RTL without averaging): rendered as what it computes
    comb = "(LinComb %s %s)" % (cql([1.0] * len(members)), cq(0.0))
  return clist(members), comb, oc


def _coq_case_ensemble(desc, model, rows, out, pick):
  m = desc["model"]
  members, comb, oc = _extract_ensemble(desc, model)
  pts = [[float(v) for v in rows[i]] for i in pick]
  outs = [float(out[i]) for i in pick]
  multi = m["structure"] == "rtl_layer"  # RTL tiles its inputs; every other structure promises distinct features
  return "Ens (mkE (mkEns %s %s %s %s %s %s %s) %s %s)" % (
      members, comb, oc, clist([_feat_term(f) for f in desc["features"]]), copt(m["output_min"]), copt(m["output_max"]),
      cbool(multi), cqm(pts), cql(outs))


def _coq_case(desc, model, rows, out, pick):
  m = desc["model"]
  if m["kind"] == "ensemble":
    return _coq_case_ensemble(desc, model, rows, out, pick)
  lin, lat, cals, oc, feats, kfl = _extract(desc, model)
  pts = [[float(v) for v in rows[i]] for i in pick]
  outs = [float(out[i]) for i in pick]
  return "Single (mk %s %s %s %s %s %s %s %s %s %s)" % (cbool(lin), lat, cals, oc, feats, copt(m["output_min"]),
                                               copt(m["output_max"]), cqm(pts), cql(outs), kfl)


# --------------------------------------------------------------------------
def _run_history(desc):
  tf, tfl, keras = _keras()
  notes = []
  model = _build(desc, notes)
  rows, sweeps = _grid(desc)
  cols = _inputs(desc, rows)
  rs = np.random.RandomState(desc["seed"])
  data = _data(desc, rs)
  m = desc["model"]
  # single-lattice (all_vertices AND kronecker_factored), linear and ensemble models have a composed Coq model
  modelled = True
  pick = list(range(0, 24, 3)) + [24 + 5 * j for j in range(8) if 24 + 5 * j < len(rows)]
  states = [model.get_weights()]
  coq_terms, all_fails = [], []
  trained_nonconstant = None
  diverged = False

  def judge(tag, want_coq):
    nonlocal diverged
    fails, out, finite = _evaluate(tf, desc, model, rows, sweeps, cols)
    weights_finite = all(np.all(np.isfinite(w)) for w in model.get_weights())
    if not finite or not weights_finite:
      bounded = m["output_min"] is not None or m["output_max"] is not None or m["output_calibration"]
      diverged = True
      if bounded and m["kind"] != "linear":
        all_fails.append(("nonfinite", "%s: non-finite weights/outputs in a bounded model" % tag))
      return out
    for cls, text in fails:
      all_fails.append((cls, " ".join(("%s: %s" % (tag, text)).split())))
    if want_coq and modelled:
      big = max(float(np.abs(w).max()) for w in model.get_weights())
      if big <= 1e3:
        try:
          coq_terms.append(_coq_case(desc, model, rows, out, pick))
        except _Unmodelled as e:
          all_fails.append(("wiring", "%s: the built model is not wired as premade_lib's builders are modelled: %s" % (tag, e)))
    return out

  judge("after construction", True)
  for j, op in enumerate(desc["ops"]):
    if diverged:
      break
    tag = "after op %d %s" % (j, json.dumps(op, sort_keys=True))
    try:
      if op["op"] == "fit":
        if op["opt"] == "adam":
          opt = keras.optimizers.Adam(op["lr"])
        elif op["opt"] == "sgd_legacy":  # per-variable assign-then-constrain, variables in layer order
          opt = keras.optimizers.legacy.SGD(op["lr"])
        else:
          opt = keras.optimizers.SGD(op["lr"])
        model.compile(loss="mse", optimizer=opt, run_eagerly=True)
        model.fit(data, _target(desc, data, op["target"]), batch_size=16, epochs=1, verbose=0)
      elif op["op"] == "restore":
        model.set_weights(states[min(op["k"], len(states) - 1)])
      else:
        model = _build(desc, [])
      out = judge(tag, j == 0 or j == len(desc["ops"]) - 1)
    except (tf.errors.OpError, ValueError, TypeError) as e:
      # a model that can no longer be trained / evaluated (e.g. the unclipped simplex lattice indexing outside
      # its kernel because a calibrator left the lattice's input range)
      all_fails.append(("raised", " ".join(("%s: the model raised %s: %s" % (tag, type(e).__name__, str(e)[:300])).split())))
      diverged = True
      break
    if not diverged:
      states.append(model.get_weights())
      if op["op"] == "fit":
        trained_nonconstant = bool(out.max() - out.min() > 1e-4)
        _STATS["states_after_fit"] = _STATS.get("states_after_fit", 0) + 1
        _STATS["states_after_fit_nonconstant"] = _STATS.get("states_after_fit_nonconstant", 0) + int(trained_nonconstant)
        hostile = op["target"] != "pro" and (op["lr"] >= 5.0 or op["target"] in ("anti_big", "const_lo", "const_hi"))
        if hostile:
          _STATS["states_after_hostile_fit"] = _STATS.get("states_after_hostile_fit", 0) + 1
          _STATS["states_after_hostile_fit_nonconstant"] = (
              _STATS.get("states_after_hostile_fit_nonconstant", 0) + int(trained_nonconstant))
  return all_fails, coq_terms, trained_nonconstant, diverged, notes


def eval_cases(ctx, descs):
  cases = []
  for d in descs:
    if d.get("kind") in ("init_tie", "e2e_tie") and "desc" in d:
      # replay of a finding of the initial-value / end-to-end description ties (harness/props/c03_init.py)
      import sys
      from props import c03_init
      cases.append(c03_init.replay_case(ctx, d, sys.modules[__name__]))
      continue
    fails, terms, nonconst, diverged, notes = _run_history(d)
    other = [f for f in fails if f[0] != "d32"]
    pred_fail, fail_class = None, None
    if other:
      fail_class, pred_fail = other[0]
    elif fails:
      fail_class, pred_fail = fails[0]
    m = d["model"]
    klass = "%s_%s%s%s_%s" % (
        m["kind"] if m["kind"] != "ensemble" else "ens-" + m["structure"],
        "kfl" if m["param"] == "kronecker_factored" else m["interpolation"][:5],
        "_oc" if m["output_calibration"] else "", "_lc" if m.get("use_linear_combination") else "",
        "diverged" if diverged else ("nonconstant" if nonconst else "constant"))
    _STATS["histories"] = _STATS.get("histories", 0) + 1
    _STATS["ops_judged"] = _STATS.get("ops_judged", 0) + 1 + len(d["ops"])
    if any(o["op"] == "fit" for o in d["ops"]):
      _STATS["trained_models"] = _STATS.get("trained_models", 0) + 1
      _STATS["trained_models_still_nonconstant"] = _STATS.get("trained_models_still_nonconstant", 0) + int(bool(nonconst) and not diverged)
      _STATS["trained_models_diverged_nonfinite"] = _STATS.get("trained_models_diverged_nonfinite", 0) + int(diverged)
    cases.append(Case(d, coq=terms or None, pred_fail=pred_fail, nontrivial=bool(nonconst) and not diverged, klass=klass,
                      info={"fail_class": fail_class, "all_failures": [t for _, t in fails][:6], "notes": notes,
                            "states_compared_in_coq": len(terms)}))
  return cases


KNOWN_CLASSES = {
    # D32: bounded model whose normalized Linear combiner was driven to the zero vector outputs 0 outside the bounds
    "weighted_average_all_zero_weights": lambda case: case.info.get("fail_class") == "d32",
}


def _probe_d57(ctx):
  """Fixed witness of known finding D57 on the real code: the scale of a KFL layer is
  updated alone (its sign flips) and the kernel, constrained against the old sign, is not
  constrained again."""
  tf, tfl = tfimpl.tfl()
  import tf_keras as keras
  keras.utils.set_random_seed(0)
  l = tfl.layers.KroneckerFactoredLattice(lattice_sizes=2, num_terms=1, monotonicities=[1],
                                          output_min=-1.0, output_max=1.0)
  l(tf.zeros((1, 1)))
  keras.optimizers.SGD(1.0).apply_gradients([(tf.ones_like(l.scale) * 1.5, l.scale)])
  y = l(tf.constant([[0.0], [1.0]])).numpy().ravel()
  if y[0] > y[1] + 1e-6:
    return "scale-only SGD step on KroneckerFactoredLattice(2, monotonicities=[1], bounds [-1,1]): f(0)=%.4f > f(1)=%.4f" % (
        y[0], y[1])
  return None


def _probe_d65(ctx):
  """Fixed witness of known finding D65: verify_config accepts an output_initialization outside
  [output_min, output_max]; the freshly built model is out of bounds."""
  tf, tfl = tfimpl.tfl()
  fcs = [tfl.configs.FeatureConfig(name=n, lattice_size=2, monotonicity="increasing",
                                   pwl_calibration_input_keypoints=[0., 1., 2.]) for n in "ab"]
  cfg = tfl.configs.CalibratedLatticeConfig(feature_configs=fcs, output_min=0., output_max=1.,
                                            output_initialization=[-5., 5.])
  tfl.premade_lib.verify_config(cfg)
  m = tfl.premade.CalibratedLattice(cfg)
  y = m.predict([np.array([[0.], [2.]])] * 2, verbose=0).ravel()
  if y.min() < -1e-6 or y.max() > 1 + 1e-6:
    return "CalibratedLattice(output_min=0, output_max=1, output_initialization=[-5,5]) right after construction: f(0,0)=%.3f, f(2,2)=%.3f" % (
        y[0], y[1])
  return None


KNOWN_PROBES = {"kfl_scale_changed_after_kernel_constraint": _probe_d57,
                "output_initialization_outside_bounds": _probe_d65}


def extra(ctx, stats):
  stats.update(_STATS)
  # initial values of fresh premade models against the values of Props/C03.v section G (Harness/H_C03Init.v)
  import sys
  from props import c03_init
  return c03_init.init_tie(ctx, stats, sys.modules[__name__])
