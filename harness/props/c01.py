"""C01 - Lattice weight constraint returns kernels meeting every strict shape constraint."""
import numpy as np
from common import Case, cq, cql, cqm, clist, cnat, cnatl, copt, czl, cz, cbool
import latgen
import latpred
import tfimpl

ID = "C01"
HMODULE = "H_C01"
RULE = ("random valid Lattice configurations (rank 1-4, sizes 2-5, <= 72 vertices, units 1-3, monotone subsets, "
        "Edgeworth / trapezoid trusts of both directions - matching or not, monotone or free conditional "
        "feature -, one/two-sided bounds, plus unimodality / dominance / joint families alongside (pairs occasionally "
        "duplicated), ~5% configurations WITHOUT a monotone dimension but with unimodalities / joint monotonicities / "
        "joint unimodalities (strict path = Dykstra result, clipped), "
        "num_projection_iterations 0-4) x kernel classes (random, far +-64, ties, sorted, anti-sorted, "
        "constant, noisy-feasible; unit columns of different magnitude; ~12% 'feasible_rich': a kernel meeting EVERY "
        "configured constraint - all eight families and the bounds - exactly, built by latgen.feasible_rich from the "
        "NNLS projection of a random kernel onto the constraint polyhedron, made exactly representable, fitted into "
        "the bounds and re-checked with the exact predicates: ties, active and slack constraints, plateaus on a "
        "bound, not additive; LatticeConstraints and finalize_constraints must return it unchanged). Each desc runs "
        "lattice_lib.finalize_constraints(w) and strict LatticeConstraints(w) (with the real Dykstra stage's "
        "output handed to the model). ~10% of the cases run in float32 (class suffix _f32; kernels are multiples of "
        "1/8 below 17, exact in float32) with the constraint object taken from a built float32 tfl.layers.Lattice "
        "(layer.kernel.constraint); a further ~8% take the constraint from a built float64 layer (suffix _layer). "
        "Non-trivial = the constraint changed the kernel; distinct = distinct (config, kernel).")
TRUSTED = ["model: Model/LatticeFinalize.v (hand-written from lattice_lib.finalize_constraints and helpers, "
           "LatticeConstraints.__call__); the Dykstra stage is NOT part of this property's model: its real output "
           "is an input of the model (the theorems hold for an arbitrary kernel entering finalize)",
           "tie: finalize_constraints and LatticeConstraints (direct object, or layer.kernel.constraint of a built "
           "Lattice layer) called on float64 kernels (tolerance 1e-9) and on float32 kernels (tolerance 1e-5, passed to "
           "Coq with the case: CTol); compared in Coq"]
LIMITS = ["documented exception (>= 2 trapezoid trusts sharing a conditional feature while Edgeworth trusts "
          "exist): trapezoid inequalities are not demanded there",
          "float rounding outside the model (float64: tolerance 1e-9, predicate tolerance 1e-7; float32 cases: 1e-5 "
          "* max(1, |v|) in the Coq comparison and in the predicates)"]
SHARD = 60

PRED_TOL = 1e-7


def documented_exception(cfg):
  if not cfg["edge"]:
    return False
  conds = [c for _, c, _ in cfg["trap"]]
  return len(conds) != len(set(conds))


def trap_mono_cond_with_edgeworth(cfg):
  return bool(cfg["edge"]) and any(cfg["monos"][c] for _, c, _ in cfg["trap"])


def _d1(case):
  """The config is in the D1 class and the ONLY failing clause is monotonicity along a conditional dimension of a
  trapezoid trust (per-call-site class: trust and bound clauses, and monotonicity along other dimensions, are not
  suppressed - the theorems C01_edgeworth / C01_trapezoid / C01_bounds carry no D1 guard)."""
  if not trap_mono_cond_with_edgeworth(case.desc["cfg"]):
    return False
  clauses = (case.pred_fail or "").split("; ")
  return all("monotonicity along the monotone conditional dimension of a trapezoid trust" in c for c in clauses)


KNOWN_CLASSES = {"trap_mono_cond_with_edgeworth": _d1}


F32_TOL = 1e-5
F32_KCLASSES = ["random", "random", "ties", "sorted", "constant", "noise"]


def violations(w, cfg, scale, rel=PRED_TOL):
  out = []
  tol = rel * max(1.0, scale)
  # monotone dimensions that are the CONDITIONAL feature of a trapezoid trust are judged separately: known finding D1
  # concerns exactly them (theorem C01_monotone carries the guard; the Edgeworth / trapezoid / bounds theorems do not)
  cond = set(c for _, c, _ in cfg["trap"])
  m_cond = [m if d in cond else 0 for d, m in enumerate(cfg["monos"])]
  m_rest = [0 if d in cond else m for d, m in enumerate(cfg["monos"])]
  v = latpred.mono_viol(w, cfg["sizes"], m_rest)
  if v > tol: out.append("monotonicity along a monotone dimension violated by %r" % v)
  v = latpred.mono_viol(w, cfg["sizes"], m_cond)
  if v > tol: out.append("monotonicity along the monotone conditional dimension of a trapezoid trust violated by %r" % v)
  v = latpred.edgeworth_viol(w, cfg["sizes"], cfg["edge"])
  if v > tol: out.append("edgeworth trust violated by %r" % v)
  if not documented_exception(cfg):
    v = latpred.trapezoid_viol(w, cfg["sizes"], cfg["trap"])
    if v > tol: out.append("trapezoid trust violated by %r" % v)
  v = latpred.bounds_viol(w, cfg["omin"], cfg["omax"])
  if v > tol: out.append("output bounds violated by %r" % v)
  return out


def _f32_exact(w):
  a = np.asarray(w, dtype=np.float64)
  return bool((a.astype(np.float32).astype(np.float64) == a).all())


def gen_descs(ctx):
  rng = ctx.rng
  out = []
  for _ in range(ctx.n(400, 5000)):
    # ~5%: no monotone dimension but unimodalities / joint constraints (Dykstra block entered, finalize is the identity)
    cfg = latgen.gen_cfg_nomono(rng) if rng.random() < 0.05 else latgen.gen_cfg(rng)
    f32 = rng.random() < 0.1
    klass = rng.choice(F32_KCLASSES if f32 else latgen.KERNEL_CLASSES)
    w = None
    if rng.random() < 0.12:
      # a RICH kernel meeting every configured constraint exactly (must come back unchanged)
      w, tag = latgen.feasible_rich(rng, cfg)
      if w is not None and f32 and not _f32_exact(w):
        w = None
      if w is not None:
        klass = "feasible_rich"
    if w is None:
      w = latgen.gen_kernel(rng, cfg, klass, unit_scale=not f32)
      if f32 and klass == "random":
        # a few 2^-12 on top of the 1/8 grid: exact in float32, not in float16 / bfloat16
        w = [[v + rng.choice([0, 0, 1, -1, 3, -5]) * 2.0 ** -12 for v in row] for row in w]
    d = dict(cfg=cfg, kclass=klass, w=w, iters=rng.choice([0, 1, 1, 2, 4]))
    if f32:
      d["dtype"] = "float32"
    if f32 or rng.random() < 0.08:
      d["via_layer"] = True     # the constraint object is layer.kernel.constraint of a built tfl.layers.Lattice
    out.append(d)
  return out


def coq_cfg(cfg):
  tr = lambda ts: clist(["(%s, %s, %s)" % (cnat(m), cnat(c), cz(d)) for m, c, d in ts]) if ts else "(@nil trust)"
  return "(mkLat %s %s %s %s %s %s %s)" % (cnatl(cfg["sizes"]), cnat(cfg["units"]), czl(cfg["monos"]),
                                           tr(cfg["edge"]), tr(cfg["trap"]), copt(cfg["omin"]), copt(cfg["omax"]))


def flat(m):
  return [float(x) for row in np.asarray(m) for x in row]


def build_constraint(tfl, cfg, iters, via_layer, dtype):
  """The strict LatticeConstraints: built directly, or taken from a built Lattice layer of the given dtype."""
  kw = latgen.constraint_kwargs(cfg, iters, True)
  if not via_layer:
    return tfl.lattice_layer.LatticeConstraints(**kw)
  kw["monotonic_at_every_step"] = kw.pop("enforce_strict_monotonicity")
  layer = tfl.layers.Lattice(units=cfg["units"], kernel_initializer="zeros", dtype=dtype, **kw)
  rank = len(cfg["sizes"])
  layer.build((None, rank) if cfg["units"] == 1 else (None, cfg["units"], rank))
  if layer.kernel.dtype.base_dtype.name != dtype:
    raise ValueError("layer built with dtype=%s has a kernel of dtype %s" % (dtype, layer.kernel.dtype.base_dtype.name))
  return layer.kernel.constraint


def eval_cases(ctx, descs):
  tf, tfl = tfimpl.tfl()
  lib = tfl.lattice_lib
  cases = []
  for d in descs:
    cfg = d["cfg"]
    f32 = d.get("dtype") == "float32"
    dtype = "float32" if f32 else "float64"
    rel = F32_TOL if f32 else 1e-9       # model comparison / "unchanged"
    prel = F32_TOL if f32 else PRED_TOL  # property inequalities
    W = np.array(d["w"], dtype=np.float64)
    Wt = tf.constant(W.astype(np.float32) if f32 else W)
    W = Wt.numpy().astype(np.float64)    # what the implementation really receives (identical: the kernels are exact)
    scale = float(np.abs(W).max())
    fails = []
    # (a) finalize_constraints on the raw kernel
    fin_t = lib.finalize_constraints(
        Wt, lattice_sizes=list(cfg["sizes"]), monotonicities=list(cfg["monos"]),
        edgeworth_trusts=latgen.tuples(cfg["edge"]), trapezoid_trusts=latgen.tuples(cfg["trap"]),
        output_min=cfg["omin"], output_max=cfg["omax"])
    # (b) strict constraint
    con = build_constraint(tfl, cfg, d["iters"], bool(d.get("via_layer")), dtype)
    out_t = con(Wt)
    fin, out = fin_t.numpy().astype(np.float64), out_t.numpy().astype(np.float64)
    ran = bool(any(cfg["monos"]) or any(cfg["uni"]) or cfg["jmono"] or cfg["juni"])
    if ran:
      wd = lib.project_by_dykstra(Wt, **latgen.dykstra_kwargs(cfg, d["iters"])).numpy().astype(np.float64)
    else:
      wd = W
    if fin_t.dtype != Wt.dtype or out_t.dtype != Wt.dtype:
      fails.append("a %s kernel comes back as %s (finalize_constraints) / %s (LatticeConstraints)" % (
          dtype, fin_t.dtype.name, out_t.dtype.name))
    if not (np.all(np.isfinite(out)) and np.all(np.isfinite(fin))):
      fails.append("non-finite kernel returned")
    else:
      if any(cfg["monos"]):
        # finalize (any mode) must give monotone / trust-feasible kernels; bounds only when trusts exist
        # (otherwise the layer's final clip enforces them)
        fcfg = dict(cfg)
        if not (cfg["edge"] or cfg["trap"]):
          fcfg = dict(cfg, omin=None, omax=None)
        fails += ["finalize_constraints: " + s for s in violations(fin, fcfg, scale, prel)]
      fails += ["LatticeConstraints: " + s for s in violations(out, cfg, scale, prel)]
      # feasible kernels are returned unchanged: the strict constraint when EVERY configured constraint (all eight
      # families and the bounds) holds exactly; lattice_lib.finalize_constraints when the constraints it is given
      # (monotonicity, trusts, bounds) hold exactly
      if latgen.exactly_feasible(W, cfg):
        if np.abs(out - W).max() > rel * max(1.0, scale):
          fails.append("LatticeConstraints: feasible kernel changed by %r" % np.abs(out - W).max())
      fin_cfg = dict(cfg, uni=[0] * len(cfg["sizes"]), mdom=[], rdom=[], jmono=[], juni=[])
      if latgen.exactly_feasible(W, fin_cfg):
        if np.abs(fin - W).max() > rel * max(1.0, scale):
          fails.append("finalize_constraints: feasible kernel changed by %r" % np.abs(fin - W).max())
      elif d["kclass"] == "feasible_rich":
        fails.append("harness: a feasible_rich kernel does not pass the exact predicates")
    coq = ["CFin %s %s %s" % (coq_cfg(cfg), cql(flat(W)), cql(flat(fin))),
           "CCon %s %s %s %s" % (coq_cfg(cfg), cbool(ran), cql(flat(wd)), cql(flat(out)))]
    if f32:
      coq = ["CTol %s (%s)" % (cq(F32_TOL), c) for c in coq]
    moved = np.abs(out - W).max() > 1e-12
    nomono_ran = ran and not any(cfg["monos"])
    klass = "r%d_u%d_%s%s%s%s%s_%s%s" % (len(cfg["sizes"]), cfg["units"], "nomonoDykstra" if nomono_ran else "",
                                        "E" if cfg["edge"] else "", "T" if cfg["trap"] else "",
                                        "B" if cfg["omin"] is not None or cfg["omax"] is not None else "",
                                        "O" if (any(cfg["uni"]) or cfg["mdom"] or cfg["rdom"] or cfg["jmono"] or cfg["juni"]) else "",
                                        d["kclass"], "_f32" if f32 else ("_layer" if d.get("via_layer") else ""))
    cases.append(Case(d, coq=coq, pred_fail="; ".join(fails) if fails else None,
                      nontrivial=bool(moved) or d["kclass"] == "feasible_rich", klass=klass,
                      info={"finalize_output": flat(fin), "constraint_output": flat(out)}))
  return cases
