"""C01 - Lattice weight constraint returns kernels meeting every strict shape constraint."""
import numpy as np
from common import Case, cq, cql, cqm, clist, cnat, cnatl, copt, czl, cz, cbool
import latgen
import latpred
import tfimpl

ID = "C01"
HMODULE = "H_C01"
RULE = ("random valid Lattice configurations (rank 1-4, sizes 2-5, <= 72 vertices, units 1-3, monotone subsets, "
        "Edgeworth / trapezoid trusts of both directions - matching or not, monotone or free conditional "
        "feature -, one/two-sided bounds, plus unimodality / dominance / joint families alongside (pairs occasionally "
        "duplicated), ~5% configurations WITHOUT a monotone dimension but with unimodalities / joint monotonicities / "
        "joint unimodalities (strict path = Dykstra result, clipped), "
        "num_projection_iterations 0-4) x kernel classes (random, far +-64, ties, sorted, anti-sorted, "
        "constant, noisy-feasible; unit columns of different magnitude). Each desc runs "
        "lattice_lib.finalize_constraints(w) and strict LatticeConstraints(w) (with the real Dykstra stage's "
        "output handed to the model). Non-trivial = the constraint changed the kernel; distinct = distinct "
        "(config, kernel).")
TRUSTED = ["model: Model/LatticeFinalize.v (hand-written from lattice_lib.finalize_constraints and helpers, "
           "LatticeConstraints.__call__); the Dykstra stage is NOT part of this property's model: its real output "
           "is an input of the model (the theorems hold for an arbitrary kernel entering finalize)",
           "tie: finalize_constraints and LatticeConstraints called on float64 kernels; compared in Coq"]
LIMITS = ["documented exception (>= 2 trapezoid trusts sharing a conditional feature while Edgeworth trusts "
          "exist): trapezoid inequalities are not demanded there",
          "float rounding outside the model (tolerance 1e-9; predicate tolerance 1e-7)"]
SHARD = 60

PRED_TOL = 1e-7


def documented_exception(cfg):
  if not cfg["edge"]:
    return False
  conds = [c for _, c, _ in cfg["trap"]]
  return len(conds) != len(set(conds))


def trap_mono_cond_with_edgeworth(cfg):
  return bool(cfg["edge"]) and any(cfg["monos"][c] for _, c, _ in cfg["trap"])


def _d1(case):
  """The config is in the D1 class and the ONLY failing clause is monotonicity along a conditional dimension of a
  trapezoid trust (per-call-site class: trust and bound clauses, and monotonicity along other dimensions, are not
  suppressed - the theorems C01_edgeworth / C01_trapezoid / C01_bounds carry no D1 guard)."""
  if not trap_mono_cond_with_edgeworth(case.desc["cfg"]):
    return False
  clauses = (case.pred_fail or "").split("; ")
  return all("monotonicity along the monotone conditional dimension of a trapezoid trust" in c for c in clauses)


KNOWN_CLASSES = {"trap_mono_cond_with_edgeworth": _d1}


def violations(w, cfg, scale):
  out = []
  tol = PRED_TOL * max(1.0, scale)
  # monotone dimensions that are the CONDITIONAL feature of a trapezoid trust are judged separately: known finding D1
  # concerns exactly them (theorem C01_monotone carries the guard; the Edgeworth / trapezoid / bounds theorems do not)
  cond = set(c for _, c, _ in cfg["trap"])
  m_cond = [m if d in cond else 0 for d, m in enumerate(cfg["monos"])]
  m_rest = [0 if d in cond else m for d, m in enumerate(cfg["monos"])]
  v = latpred.mono_viol(w, cfg["sizes"], m_rest)
  if v > tol: out.append("monotonicity along a monotone dimension violated by %r" % v)
  v = latpred.mono_viol(w, cfg["sizes"], m_cond)
  if v > tol: out.append("monotonicity along the monotone conditional dimension of a trapezoid trust violated by %r" % v)
  v = latpred.edgeworth_viol(w, cfg["sizes"], cfg["edge"])
  if v > tol: out.append("edgeworth trust violated by %r" % v)
  if not documented_exception(cfg):
    v = latpred.trapezoid_viol(w, cfg["sizes"], cfg["trap"])
    if v > tol: out.append("trapezoid trust violated by %r" % v)
  v = latpred.bounds_viol(w, cfg["omin"], cfg["omax"])
  if v > tol: out.append("output bounds violated by %r" % v)
  return out


def gen_descs(ctx):
  rng = ctx.rng
  out = []
  for _ in range(ctx.n(400, 5000)):
    # ~5%: no monotone dimension but unimodalities / joint constraints (Dykstra block entered, finalize is the identity)
    cfg = latgen.gen_cfg_nomono(rng) if rng.random() < 0.05 else latgen.gen_cfg(rng)
    klass = rng.choice(latgen.KERNEL_CLASSES)
    out.append(dict(cfg=cfg, kclass=klass, w=latgen.gen_kernel(rng, cfg, klass), iters=rng.choice([0, 1, 1, 2, 4])))
  return out


def coq_cfg(cfg):
  tr = lambda ts: clist(["(%s, %s, %s)" % (cnat(m), cnat(c), cz(d)) for m, c, d in ts]) if ts else "(@nil trust)"
  return "(mkLat %s %s %s %s %s %s %s)" % (cnatl(cfg["sizes"]), cnat(cfg["units"]), czl(cfg["monos"]),
                                           tr(cfg["edge"]), tr(cfg["trap"]), copt(cfg["omin"]), copt(cfg["omax"]))


def flat(m):
  return [float(x) for row in np.asarray(m) for x in row]


def eval_cases(ctx, descs):
  tf, tfl = tfimpl.tfl()
  lib = tfl.lattice_lib
  cases = []
  for d in descs:
    cfg = d["cfg"]
    W = np.array(d["w"], dtype=np.float64)
    scale = float(np.abs(W).max())
    fails = []
    # (a) finalize_constraints on the raw kernel
    fin = lib.finalize_constraints(
        tf.constant(W), lattice_sizes=list(cfg["sizes"]), monotonicities=list(cfg["monos"]),
        edgeworth_trusts=latgen.tuples(cfg["edge"]), trapezoid_trusts=latgen.tuples(cfg["trap"]),
        output_min=cfg["omin"], output_max=cfg["omax"]).numpy()
    # (b) strict constraint
    con = tfl.lattice_layer.LatticeConstraints(**latgen.constraint_kwargs(cfg, d["iters"], True))
    out = con(tf.constant(W)).numpy()
    ran = bool(any(cfg["monos"]) or any(cfg["uni"]) or cfg["jmono"] or cfg["juni"])
    if ran:
      wd = lib.project_by_dykstra(tf.constant(W), **latgen.dykstra_kwargs(cfg, d["iters"])).numpy()
    else:
      wd = W
    if not (np.all(np.isfinite(out)) and np.all(np.isfinite(fin))):
      fails.append("non-finite kernel returned")
    else:
      if any(cfg["monos"]):
        # finalize (any mode) must give monotone / trust-feasible kernels; bounds only when trusts exist
        # (otherwise the layer's final clip enforces them)
        fcfg = dict(cfg)
        if not (cfg["edge"] or cfg["trap"]):
          fcfg = dict(cfg, omin=None, omax=None)
        fails += ["finalize_constraints: " + s for s in violations(fin, fcfg, scale)]
      fails += ["LatticeConstraints: " + s for s in violations(out, cfg, scale)]
      # feasible kernels are returned unchanged
      if not violations(W, dict(cfg), 0.0) and latpred.trapezoid_viol(W, cfg["sizes"], cfg["trap"]) <= 0 \
         and latpred.unimodality_viol(W, cfg["sizes"], cfg["uni"]) <= 0 \
         and latpred.monotonic_dominance_viol(W, cfg["sizes"], cfg["mdom"]) <= 0 \
         and latpred.range_dominance_viol(W, cfg["sizes"], cfg["rdom"]) <= 0 \
         and latpred.joint_monotonicity_viol(W, cfg["sizes"], cfg["jmono"]) <= 0 and not cfg["juni"]:
        if np.abs(out - W).max() > 1e-9 * max(1.0, scale):
          fails.append("LatticeConstraints: feasible kernel changed by %r" % np.abs(out - W).max())
    coq = ["CFin %s %s %s" % (coq_cfg(cfg), cql(flat(W)), cql(flat(fin))),
           "CCon %s %s %s %s" % (coq_cfg(cfg), cbool(ran), cql(flat(wd)), cql(flat(out)))]
    moved = np.abs(out - W).max() > 1e-12
    nomono_ran = ran and not any(cfg["monos"])
    klass = "r%d_u%d_%s%s%s%s%s_%s" % (len(cfg["sizes"]), cfg["units"], "nomonoDykstra" if nomono_ran else "",
                                      "E" if cfg["edge"] else "", "T" if cfg["trap"] else "",
                                      "B" if cfg["omin"] is not None or cfg["omax"] is not None else "",
                                      "O" if (any(cfg["uni"]) or cfg["mdom"] or cfg["rdom"] or cfg["jmono"] or cfg["juni"]) else "",
                                      d["kclass"])
    cases.append(Case(d, coq=coq, pred_fail="; ".join(fails) if fails else None, nontrivial=bool(moved), klass=klass,
                      info={"finalize_output": flat(fin), "constraint_output": flat(out)}))
  return cases
