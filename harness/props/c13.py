"""C13 - Regularizers compute the documented Laplacian/torsion/Hessian/wrinkle penalties."""
import itertools
from fractions import Fraction

import numpy as np
from common import Case, cq, cqm, clist, cnat, cnatl, cbool
import tfimpl

ID = "C13"
HMODULE = "H_C13"
FUNCTIONAL = True  # the property states regularizer(kernel) == documented sum
RULE = ("the real regularizer objects (tfl.lattice_layer.LaplacianRegularizer/TorsionRegularizer, "
        "tfl.pwl_calibration_layer.Laplacian/Hessian/WrinkleRegularizer), called directly on float64 "
        "tensors/variables or through a float64 Lattice / PWLCalibration layer built with "
        "kernel_regularizer=(name, l1, l2) (layer.losses). Lattice: rank 1-4 with unequal sizes 2-5 "
        "(<= 108 vertices), units 1-3, sizes as list or tuple, each of l1/l2 zero / scalar / per-dimension "
        "list / tuple (zeros in some dimensions, all-zero and empty lists included); kernels random dyadic, "
        "constant, additively separable, single spike; per-dimension amounts of the wrong length must be "
        "rejected with ValueError at construction (object and layer). PWL: 2-7 rows, units 1-3, cyclic or not, amounts "
        "0/0.5/1/2 (int or float); kernels random, constant / linear / quadratic keypoint outputs (class suffix _poly; "
        "non-cyclic: the Hessian / wrinkle must vanish; is_cyclic: they must equal the norm of the wrap-around "
        "differences alone, closed form of C13_cyclic_hessian_on_linear_index / C13_cyclic_wrinkle_on_quadratic_index). ~10% of the "
        "cases run in float32 (class suffix _f32): float32 tensors / variables, and float32 Lattice / PWLCalibration "
        "layers (the layers' default dtype), same dyadic kernels, tolerance 1e-5. In Coq "
        "both the code-shaped model and the documented formula are evaluated on the same kernel and compared "
        "with the returned value. Non-trivial = the returned value is non-zero; distinct = distinct "
        "(regularizer, configuration, kernel).")
TRUSTED = ["model: Model/Regularizers.v (hand-written from lattice_lib.laplacian_regularizer / "
           "torsion_regularizer and the three pwl_calibration_layer regularizer classes; transpose+reshape "
           "modelled by its index-level meaning); the scalar torsion amount is modelled without a square "
           "root (sqrt(l)*sqrt(l) = l; theorem C13_torsion_scalar_sqrt_oracle covers any exact root)",
           "tie: regularizer objects / layer.losses evaluated in float64 (and, for a tenth of the cases, float32) on "
           "dyadic kernels, compared in Coq with the code-shaped model AND with the documented formula (tolerance 1e-9 "
           "relative; float32: 1e-5, carried by the case)"]
LIMITS = ["float rounding of reduce_sum and of math.sqrt(l)*math.sqrt(l) is outside the model (tolerance 1e-9; float32 "
          "cases 1e-5 * max(1, |v|) in the Coq comparison and in the predicates)",
          "per-dimension amount lists longer than the lattice rank are outside the theorems' domain (amount_ok); "
          "both regularizer constructors reject wrong lengths with ValueError, which is tested, not proved; "
          "negative scalar torsion amounts (math.sqrt raises) are outside the model's domain",
          "the docstring EXAMPLE of the lattice regularizers ('3 x 2 lattice') numbers vertices with dimension "
          "0 fastest, the code and the interpolation use row-major numbering (dimension 0 slowest); the "
          "documented formula is modelled with the interpolation's numbering"]

KINDS = ["lat_laplacian", "lat_torsion", "pwl_laplacian", "pwl_hessian", "pwl_wrinkle"]
TOL = 1e-9
TOL32 = 1e-5


def fine(rng, v):
  """float32 cases only: moves a value by a few 2^-12 (still exact in float32, but not in float16 / bfloat16: a lossy
  cast on the float32 path is invisible on multiples of 1/8)."""
  return v + rng.choice([0, 0, 1, -1, 3, -5]) * 2.0 ** -12


def is_f32(d):
  return d.get("dtype") == "float32"


def tol_of(d):
  return TOL32 if is_f32(d) else TOL


# --------------------------------------------------------------------------
# generators
# --------------------------------------------------------------------------
def _gen_amount(rng, rank, form, torsion):
  if form == "zero":
    return {"form": "scalar", "v": 0.0}
  if form == "scalar":
    return {"form": "scalar", "v": rng.choice([0.25, 0.5, 1.0, 2.0, 2.25, 4.0, 1])}
  if form == "empty":
    return {"form": "list", "v": []}
  if form == "allzero":
    return {"form": rng.choice(["list", "tuple"]), "v": [0.0] * rank}
  v = [rng.choice([0.0, 0.0, 0.5, 1.0, 2.0, 1]) for _ in range(rank)]
  if not any(v):
    v[rng.randrange(rank)] = 1.0
  if torsion and rank >= 2 and sum(1 for a in v if a) < 2 and rng.random() < 0.7:
    for i in rng.sample(range(rank), 2):
      v[i] = v[i] or rng.choice([0.5, 2.0])
  return {"form": form, "v": v}


def _gen_sizes(rng):
  rank = rng.choice([1, 2, 2, 3, 3, 3, 4, 4])
  while True:
    hi = {1: 6, 2: 5, 3: 5, 4: 4}[rank]
    sizes = [rng.randint(2, hi) for _ in range(rank)]
    if int(np.prod(sizes)) <= 108 and (rank == 1 or len(set(sizes)) > 1 or rng.random() < 0.15):
      return sizes


def _lattice_kernel(rng, sizes, units, kclass):
  rank = len(sizes)
  n = int(np.prod(sizes))
  cols = []
  for _ in range(units):
    if kclass == "constant":
      c = tfimpl.dy(rng)
      col = [c] * n
    elif kclass == "separable":
      fs = [[tfimpl.dy(rng, -4, 4) for _ in range(s)] for s in sizes]
      col = [sum(fs[d][v[d]] for d in range(rank)) for v in itertools.product(*[range(s) for s in sizes])]
    elif kclass == "spike":
      col = [0.0] * n
      col[rng.randrange(n)] = tfimpl.dy(rng)
    else:
      col = [tfimpl.dy(rng) for _ in range(n)]
    cols.append(col)
  return [[cols[u][r] for u in range(units)] for r in range(n)]


def _pwl_kernel(rng, rows, units, kclass):
  cols = []
  for _ in range(units):
    b = tfimpl.dy(rng, -4, 4)
    if kclass == "constant":
      col = [b] + [0.0] * (rows - 1)
    elif kclass == "linear":
      h = tfimpl.dy(rng, -2, 2)
      col = [b] + [h] * (rows - 1)
    elif kclass == "quadratic":
      h, c = tfimpl.dy(rng, -2, 2), tfimpl.dy(rng, -1, 1)
      col = [b] + [h + c * i for i in range(rows - 1)]
    else:
      col = [b] + [tfimpl.dy(rng, -4, 4) for _ in range(rows - 1)]
    cols.append(col)
  return [[cols[u][r] for u in range(units)] for r in range(rows)]


def gen_descs(ctx):
  rng = ctx.rng
  out = []
  forms = ["zero", "scalar", "scalar", "list", "list", "tuple", "tuple", "allzero", "empty"]
  for kind in ("lat_laplacian", "lat_torsion"):
    for _ in range(ctx.n(150, 2500)):
      sizes = _gen_sizes(rng)
      if kind == "lat_torsion" and len(sizes) == 1 and rng.random() < 0.7:
        sizes = sizes + [rng.randint(2, 4)]
      rank = len(sizes)
      units = rng.choice([1, 1, 2, 3])
      mode = rng.choice(["l1", "l2", "l1", "l2", "both", "both", "both", "both", "both", "none"])
      f1 = rng.choice(forms[1:]) if mode in ("l1", "both") else "zero"
      f2 = rng.choice(forms[1:]) if mode in ("l2", "both") else "zero"
      l1 = _gen_amount(rng, rank, f1, kind == "lat_torsion")
      l2 = _gen_amount(rng, rank, f2, kind == "lat_torsion")
      kclass = rng.choice(["random", "random", "random", "random", "random", "constant", "separable", "separable", "spike", "spike"])
      via = "object"
      # through the layer only where the layer's own verification accepts the amounts
      if rng.random() < 0.2 and (_truthy(l1) or _truthy(l2)) and l1["v"] != [] and l2["v"] != []:
        via = "layer"
      out.append(dict(kind=kind, sizes=sizes, sizes_form=rng.choice(["list", "tuple"]), units=units,
                      l1=l1, l2=l2, cyclic=False, kclass=kclass, via=via,
                      input_form=rng.choice(["constant", "variable"]),
                      kernel=_lattice_kernel(rng, sizes, units, kclass)))
      if rng.random() < (0.25 if via == "layer" else 0.07):
        out[-1]["dtype"] = "float32"
        if kclass in ("random", "spike"):
          out[-1]["kernel"] = [[fine(rng, v) for v in row] for row in out[-1]["kernel"]]
  # per-dimension amounts whose length differs from the rank: both regularizers must
  # reject them with ValueError at construction (directly or through the layer)
  for kind in ("lat_laplacian", "lat_torsion"):
    for _ in range(ctx.n(16, 200)):
      sizes = _gen_sizes(rng)
      rank = len(sizes)
      units = rng.choice([1, 2, 3])

      def bad():
        n = rng.choice([rank + 1, rank + 1, rank + 2] + ([rank - 1] if rank >= 2 else []))
        v = [rng.choice([0.0, 0.5, 1.0, 2.0]) for _ in range(n)]
        if rng.random() < 0.8 and not any(v):
          v[0] = 1.0
        return {"form": rng.choice(["list", "tuple"]), "v": v}
      which = rng.choice(["l1", "l2", "both"])
      good = _gen_amount(rng, rank, rng.choice(["zero", "scalar", "list", "tuple"]), kind == "lat_torsion")
      l1 = bad() if which in ("l1", "both") else good
      l2 = bad() if which in ("l2", "both") else good
      out.append(dict(kind=kind, sizes=sizes, sizes_form=rng.choice(["list", "tuple"]), units=units,
                      l1=l1, l2=l2, cyclic=False, kclass="random", via=rng.choice(["object", "object", "layer"]),
                      input_form="constant", expect="ValueError",
                      kernel=_lattice_kernel(rng, sizes, units, "random")))
  for kind in ("pwl_laplacian", "pwl_hessian", "pwl_wrinkle"):
    for _ in range(ctx.n(70, 1200)):
      rows = rng.choice([2, 3, 3, 3, 4, 4, 5, 6, 7])
      units = rng.choice([1, 1, 2, 3])
      mode = rng.choice(["l1", "l2", "both", "both", "none"] if rng.random() < 0.3 else ["l1", "l2", "both"])
      amounts = [0.5, 1.0, 2.0, 1, 2, 0.25]
      l1 = rng.choice(amounts) if mode in ("l1", "both") else rng.choice([0.0, 0])
      l2 = rng.choice(amounts) if mode in ("l2", "both") else rng.choice([0.0, 0])
      kclass = rng.choice(["random", "random", "random", "random", "constant", "linear", "quadratic"] +
                          (["linear", "quadratic"] if kind != "pwl_laplacian" else []))
      via = "layer" if (rng.random() < 0.25 and (l1 or l2)) else "object"
      out.append(dict(kind=kind, sizes=[], sizes_form="list", units=units,
                      l1={"form": "scalar", "v": l1}, l2={"form": "scalar", "v": l2},
                      cyclic=rng.random() < 0.5, kclass=kclass, via=via,
                      input_form=rng.choice(["constant", "variable"]),
                      kernel=_pwl_kernel(rng, rows, units, kclass)))
      if rng.random() < (0.25 if via == "layer" else 0.07):
        out[-1]["dtype"] = "float32"
        if kclass in ("random", "spike"):
          out[-1]["kernel"] = [[fine(rng, v) for v in row] for row in out[-1]["kernel"]]
  return out


# --------------------------------------------------------------------------
# implementation runner
# --------------------------------------------------------------------------
def _truthy(a):
  return bool(a["v"])


def _py_amount(a):
  if a["form"] == "scalar":
    return a["v"]
  return tuple(a["v"]) if a["form"] == "tuple" else list(a["v"])


def _coq_amount(a):
  if a["form"] == "scalar":
    return "(Scalar %s)" % cq(a["v"])
  return "(PerDim %s)" % (clist([cq(x) for x in a["v"]]) if a["v"] else "(@nil Q)")


def _construct_rejected(tfl, d, l1, l2):
  """Constructs the regularizer (or the layer that owns it) from wrong-length
  per-dimension amounts. Returns None if it raised ValueError, else a message."""
  sizes = tuple(d["sizes"]) if d["sizes_form"] == "tuple" else list(d["sizes"])
  name = "laplacian" if d["kind"] == "lat_laplacian" else "torsion"
  try:
    if d["via"] == "layer":
      tfl.layers.Lattice(lattice_sizes=sizes, units=d["units"], kernel_regularizer=(name, l1, l2), dtype="float64")
    else:
      cls = tfl.lattice_layer.LaplacianRegularizer if name == "laplacian" else tfl.lattice_layer.TorsionRegularizer
      cls(sizes, l1, l2)
  except ValueError:
    return None
  except Exception as e:  # pylint: disable=broad-except
    return "%s regularizer with per-dimension amounts of the wrong length raised %s instead of ValueError" % (
        name, type(e).__name__)
  return ("%s regularizer accepted per-dimension amounts l1=%r l2=%r for %d lattice dimensions "
          "(expected ValueError at construction)" % (name, l1, l2, len(d["sizes"])))


def _run(tf, tfl, d, l1, l2):
  """Calls the real regularizer (directly or through a layer) and returns a float."""
  kind = d["kind"]
  dtname = "float32" if is_f32(d) else "float64"
  k = np.array(d["kernel"], dtype=dtname)

  def layer_loss(layer):
    losses = layer.losses
    assert len(losses) == 1, losses
    if layer.kernel.dtype.base_dtype.name != dtname or losses[0].dtype.name != dtname:
      raise TypeError("layer built with dtype=%s has a %s kernel and a %s regularization loss" % (
          dtname, layer.kernel.dtype.base_dtype.name, losses[0].dtype.name))
    return float(losses[0])
  if kind.startswith("lat_"):
    sizes = tuple(d["sizes"]) if d["sizes_form"] == "tuple" else list(d["sizes"])
    if d["via"] == "layer":
      name = "laplacian" if kind == "lat_laplacian" else "torsion"
      layer = tfl.layers.Lattice(lattice_sizes=sizes, units=d["units"], kernel_regularizer=(name, l1, l2),
                                 dtype=dtname)
      rank = len(d["sizes"])
      layer.build((None, rank) if d["units"] == 1 else (None, d["units"], rank))
      layer.kernel.assign(k)
      return layer_loss(layer)
    cls = tfl.lattice_layer.LaplacianRegularizer if kind == "lat_laplacian" else tfl.lattice_layer.TorsionRegularizer
    reg = cls(sizes, l1, l2)
  else:
    if d["via"] == "layer":
      name = kind[4:]
      nkp = len(d["kernel"]) + (1 if d["cyclic"] else 0)
      layer = tfl.layers.PWLCalibration(input_keypoints=[float(i * i + i) for i in range(nkp)], units=d["units"],
                                        is_cyclic=d["cyclic"], kernel_regularizer=(name, l1, l2), dtype=dtname)
      layer.build((None, d["units"]))
      layer.kernel.assign(k)
      return layer_loss(layer)
    cls = {"pwl_laplacian": tfl.pwl_calibration_layer.LaplacianRegularizer,
           "pwl_hessian": tfl.pwl_calibration_layer.HessianRegularizer,
           "pwl_wrinkle": tfl.pwl_calibration_layer.WrinkleRegularizer}[kind]
    reg = cls(l1=l1, l2=l2, is_cyclic=d["cyclic"])
  x = tf.Variable(k) if d["input_form"] == "variable" else tf.constant(k)
  res = reg(x)
  if res.dtype.name != dtname:
    raise TypeError("regularizer of a %s kernel returns %s" % (dtname, res.dtype.name))
  return float(res)


# --------------------------------------------------------------------------
# documented formulas, written directly (exact arithmetic) - the property
# predicate evaluated on the implementation's output
# --------------------------------------------------------------------------
def _amt(a, dim):
  return Fraction(a["v"]) if a["form"] == "scalar" else Fraction(a["v"][dim]) if dim < len(a["v"]) else Fraction(0)


def _pair_amt(a, i, j):
  return Fraction(a["v"]) if a["form"] == "scalar" else _amt(a, i) * _amt(a, j)


def _reference(d):
  K = [[Fraction(x) for x in row] for row in d["kernel"]]
  units = d["units"]
  kind = d["kind"]
  tot = Fraction(0)
  if kind.startswith("lat_"):
    sizes = d["sizes"]
    rank = len(sizes)
    strides = [int(np.prod(sizes[i + 1:])) for i in range(rank)]
    for v in itertools.product(*[range(s) for s in sizes]):
      f = sum(a * b for a, b in zip(v, strides))
      for u in range(units):
        if kind == "lat_laplacian":
          for i in range(rank):
            if v[i] + 1 < sizes[i]:
              delta = K[f + strides[i]][u] - K[f][u]
              tot += _amt(d["l1"], i) * abs(delta) + _amt(d["l2"], i) * delta * delta
        else:
          for i in range(rank):
            for j in range(i + 1, rank):
              if v[i] + 1 < sizes[i] and v[j] + 1 < sizes[j]:
                t = K[f][u] + K[f + strides[i] + strides[j]][u] - K[f + strides[i]][u] - K[f + strides[j]][u]
                tot += _pair_amt(d["l1"], i, j) * abs(t) + _pair_amt(d["l2"], i, j) * t * t
    return tot
  rows = len(K)
  order = {"pwl_laplacian": 1, "pwl_hessian": 2, "pwl_wrinkle": 3}[kind]
  if kind == "pwl_wrinkle" and rows < 3:
    return Fraction(0)
  coef = {1: [-1, 1], 2: [1, -2, 1], 3: [-1, 3, -3, 1]}[order]
  l1, l2 = Fraction(d["l1"]["v"]), Fraction(d["l2"]["v"])
  for u in range(units):
    y = []
    acc = Fraction(0)
    for r in range(rows):
      acc += K[r][u]
      y.append(acc)
    n = rows if d["cyclic"] else max(rows - order, 0)
    for i in range(n):
      t = sum(c * y[(i + o) % rows] for o, c in enumerate(coef))
      tot += l1 * abs(t) + l2 * t * t
  return tot


def _cyclic_wrap_sum(d):
  """is_cyclic Hessian / wrinkle on keypoint outputs linear / quadratic in the index: the l1/l2 norm of the wrap-around
  differences alone (C13_cyclic_hessian_on_linear_index: k b, -(k b); C13_cyclic_wrinkle_on_quadratic_index:
  -(k b + k^2 c), 2 k b + (2 k^2 - 2 k) c, -(k b) + (2 k - k^2) c for y_i = a + b i + c i^2), summed over the units.
  Written from the theorems' closed form, not from the difference formula. None where no closed form is proved."""
  kind, kc, k = d["kind"], d["kclass"], len(d["kernel"])
  if not d["cyclic"] or kc not in ("linear", "quadratic"):
    return None
  l1, l2 = Fraction(d["l1"]["v"]), Fraction(d["l2"]["v"])
  tot = Fraction(0)
  for u in range(d["units"]):
    hs = [Fraction(d["kernel"][r][u]) for r in range(1, k)]
    # heights h + c' * i  <=>  y_i = bias + (h - c'/2) i + (c'/2) i^2
    cp = (hs[1] - hs[0]) if len(hs) >= 2 else Fraction(0)
    b, c = hs[0] - cp / 2, cp / 2
    if kind == "pwl_hessian" and c == 0 and k >= 2:
      terms = [k * b, -(k * b)]
    elif kind == "pwl_wrinkle" and k >= 3:
      terms = [-(k * b + k * k * c), 2 * k * b + (2 * k * k - 2 * k) * c, -(k * b) + (2 * k - k * k) * c]
    else:
      return None
    tot += sum(l1 * abs(t) + l2 * t * t for t in terms)
  return tot


def _close(a, b, tol=TOL):
  return abs(a - b) <= tol * max(1.0, abs(b))


def eval_cases(ctx, descs):
  tf, tfl = tfimpl.tfl()
  cases = []
  for d in descs:
    kind = d["kind"]
    l1, l2 = _py_amount(d["l1"]), _py_amount(d["l2"])
    if d.get("expect") == "ValueError":
      cases.append(Case(d, coq=None, pred_fail=_construct_rejected(tfl, d, l1, l2), nontrivial=True,
                        klass="%s_wrong_length_rejected" % kind[4:7]))
      continue
    fail = None
    try:
      out = _run(tf, tfl, d, l1, l2)
    except Exception as e:  # pylint: disable=broad-except
      out = None
      fail = "regularizer raised %s: %s" % (type(e).__name__, str(e)[:200])
    info = {"impl_output": out}
    if out is not None:
      ref = float(_reference(d))
      info["documented_sum"] = ref
      if out != out or out in (float("inf"), float("-inf")):
        fail = "regularizer returned a non-finite value %r" % out
      elif out < 0:
        fail = "regularizer is negative for non-negative amounts: %r" % out
      elif not _close(out, ref, tol_of(d)):
        fail = "regularizer %r differs from the documented sum %r" % (out, ref)
      else:
        # the Hessian / wrinkle zero clauses carry the NON-CYCLIC guard (C13_zero_clauses_non_cyclic_guard); for
        # is_cyclic the clause is false (C13_*_cyclic_refuted) and the value is the norm of the wrap-around differences
        non_cyclic = not d["cyclic"]
        zero_expected = (
            (d["kclass"] == "constant") or
            (kind == "lat_torsion" and d["kclass"] == "separable") or
            (kind == "pwl_hessian" and d["kclass"] == "linear" and non_cyclic) or
            (kind == "pwl_wrinkle" and d["kclass"] in ("linear", "quadratic") and non_cyclic))
        if zero_expected and abs(out) > tol_of(d):
          fail = "regularizer should vanish on a %s %s kernel but returned %r" % (
              "cyclic" if d["cyclic"] else "non-cyclic", d["kclass"], out)
        wrap = _cyclic_wrap_sum(d)
        if fail is None and wrap is not None:
          info["cyclic_wrap_around_sum"] = float(wrap)
          if not _close(out, float(wrap), tol_of(d)):
            fail = ("cyclic %s regularizer on a %s kernel is %r, the wrap-around differences alone give %r" % (
                kind[4:], d["kclass"], out, float(wrap)))
      if fail is None and _truthy(d["l1"]) and _truthy(d["l2"]) and d["via"] == "object":
        # linear in (l1, l2): R(l1, l2) = R(l1, 0) + R(0, l2)
        try:
          a = _run(tf, tfl, d, l1, 0.0)
          b = _run(tf, tfl, d, 0.0, l2)
          if not _close(a + b, out, tol_of(d)):
            fail = "not additive in l1/l2: R(l1,l2)=%r, R(l1,0)+R(0,l2)=%r" % (out, a + b)
        except Exception as e:  # pylint: disable=broad-except
          fail = "regularizer raised %s with one amount set to 0" % type(e).__name__
    if out is None or out != out or out in (float("inf"), float("-inf")):
      coq = None
    else:
      coq = "mk %s %s %s %s %s %s %s %s %s" % (
          cnat(KINDS.index(kind)), cnatl(d["sizes"]), cnat(d["units"]), _coq_amount(d["l1"]),
          _coq_amount(d["l2"]), cbool(d["cyclic"]), cqm(d["kernel"]), cq(out), "tol32" if is_f32(d) else "tol")
    if kind.startswith("lat_"):
      klass = "%s_r%d_u%s_%s" % (kind[4:7], len(d["sizes"]), "1" if d["units"] == 1 else "n",
                                  "layer" if d["via"] == "layer" else _aclass(d["l1"], d["l2"]))
    else:
      klass = "pwl_%s_k%s_%s%s" % (kind[4:7], "2" if len(d["kernel"]) == 2 else "3" if len(d["kernel"]) == 3 else "4+",
                                   "cyc" if d["cyclic"] else "lin", "_layer" if d["via"] == "layer" else "")
      if d["kclass"] in ("linear", "quadratic") and kind != "pwl_laplacian":
        klass += "_poly"
    if is_f32(d):
      klass += "_f32"
    cases.append(Case(d, coq=coq, pred_fail=fail, nontrivial=bool(out), klass=klass, info=info))
  return cases


def _aclass(l1, l2):
  """Coarse class of the two amounts."""
  def one(a):
    if a["form"] == "scalar":
      return 1 if a["v"] else 0
    if not a["v"]:
      return 0
    return 2 if all(a["v"]) else 3
  return ["zero", "scalar", "perdim", "perdim0"][max(one(l1), one(l2))]
