"""C20 - Linear layer computes the clipped affine function."""
import numpy as np
from common import Case, cq, cql, cqm, clist, cnat, copt
import tfimpl

ID = "C20"
HMODULE = "H_C20"
FUNCTIONAL = True  # the property states output == formula; a disagreement is a failing input
RULE = ("random Linear layers (1-5 inputs, 1-3 units, every subset of lower/upper input bounds, bias on/off, "
        "dyadic kernels; half of them sign-feasible for their monotonicities) evaluated on a base point drawn "
        "inside/on/outside the bounds plus points moved along one constrained input; the Coq model evaluates "
        "the same points. Non-trivial = the layer has >= 2 inputs or a bound that actually clips a point; "
        "distinct = distinct (config, kernel, points).")
TRUSTED = ["model: Model/LinearEval.v (hand-written from linear_layer.py Linear.call/build); "
           "tie: Linear layer built in float64 with assigned kernel/bias, outputs compared in Coq"]
LIMITS = ["float rounding of the matmul/reduce_sum is outside the model (tolerance 1e-9)"]


def gen_descs(ctx):
  rng = ctx.rng
  out = []
  for _ in range(ctx.n(240, 4000)):
    n = rng.randint(1, 5)
    units = rng.choice([1, 1, 2, 3])
    monos = [rng.choice([-1, 0, 1]) for _ in range(n)]
    lo, hi = [], []
    mode = rng.choice(["none", "mixed", "mixed", "all"])
    for _ in range(n):
      a = tfimpl.dy(rng, -4, 4)
      b = a + rng.choice([0.0, 0.5, 1.0, 3.0])
      if mode == "none":
        lo.append(None); hi.append(None)
      elif mode == "all":
        lo.append(a); hi.append(b)
      else:
        lo.append(rng.choice([None, a])); hi.append(rng.choice([None, b]))
    feasible = rng.random() < 0.5
    K = []
    for i in range(n):
      row = []
      for _ in range(units):
        v = tfimpl.dy(rng)
        if feasible and monos[i] != 0:
          v = abs(v) * monos[i]
        row.append(v)
      K.append(row)
    use_bias = rng.random() < 0.7
    bias = [tfimpl.dy(rng) for _ in range(units)] if use_bias else None

    def coord(i):
      c = rng.random()
      if lo[i] is not None and c < 0.2: return lo[i]
      if hi[i] is not None and c < 0.4: return hi[i]
      return tfimpl.dy(rng, -6, 6)
    base = [[coord(i) for i in range(n)] for _ in range(units)]
    pts = [base]
    for _ in range(2):
      i = rng.randrange(n)
      p = [list(r) for r in base]
      d = rng.choice([0.125, 1.0, 5.0])
      for r in p:
        r[i] += d
      pts.append(p)
    out.append(dict(n=n, units=units, monos=monos, lo=lo, hi=hi, K=K, bias=bias, pts=pts, feasible=feasible))
  return out


def eval_cases(ctx, descs):
  tf, tfl = tfimpl.tfl()
  cases = []
  for d in descs:
    n, units = d["n"], d["units"]
    any_lo = any(v is not None for v in d["lo"])
    any_hi = any(v is not None for v in d["hi"])
    layer = tfl.layers.Linear(
        num_input_dims=n, units=units, monotonicities=d["monos"],
        input_min=d["lo"] if any_lo else None, input_max=d["hi"] if any_hi else None,
        use_bias=d["bias"] is not None, dtype="float64")
    layer.build((None, n) if units == 1 else (None, units, n))
    layer.kernel.assign(np.array(d["K"], dtype=np.float64))
    if d["bias"] is not None:
      layer.bias.assign(np.float64(d["bias"][0]) if units == 1 else np.array(d["bias"], dtype=np.float64))
    x = np.array(d["pts"], dtype=np.float64)  # (batch, units, n)
    if units == 1:
      x = x[:, 0, :]
    y = layer(tf.constant(x)).numpy()  # (batch, units)
    outs = [[float(v) for v in row] for row in y]
    # property predicate on the implementation: monotone along the moved input
    fail = None
    if d["feasible"]:
      base = d["pts"][0]
      for p, o in zip(d["pts"][1:], outs[1:]):
        i = [k for k in range(n) if p[0][k] != base[0][k]][0]
        for u in range(units):
          diff = o[u] - outs[0][u]
          if d["monos"][i] == 1 and diff < -1e-9 or d["monos"][i] == -1 and diff > 1e-9:
            fail = "output of unit %d not monotone in input %d (monotonicity %d): %r -> %r" % (
                u, i, d["monos"][i], outs[0][u], o[u])
    bs = clist(["(%s, %s)" % (copt(l), copt(h)) for l, h in zip(d["lo"], d["hi"])])
    bias = d["bias"] if d["bias"] is not None else [0.0] * units
    coq = "mk %s %s %s %s %s %s" % (cnat(units), cqm(d["K"]), cql(bias), bs,
                                     clist([cqm(p) for p in d["pts"]]), cqm(outs))
    clips = any((l is not None and r[i] < l) or (h is not None and r[i] > h)
                for p in d["pts"] for r in p for i, (l, h) in enumerate(zip(d["lo"], d["hi"])))
    klass = "n%d_u%d_%s%s" % (min(n, 3), units, "clip" if clips else "noclip", "" if d["bias"] is not None else "_nobias")
    cases.append(Case(d, coq=coq, pred_fail=fail, nontrivial=(n >= 2 or clips), klass=klass,
                      info={"impl_outputs": outs}))
  return cases
