"""C20 - Linear layer computes the clipped affine function."""
import numpy as np
from common import Case, cq, cql, cqm, clist, cnat, copt, czl, cnatpairs
import tfimpl

ID = "C20"
HMODULE = "H_C20"
FUNCTIONAL = True  # the property states output == formula; a disagreement is a failing input
RULE = ("random Linear layers (1-5 inputs, 1-3 units, every subset of lower/upper input bounds, bias on/off, "
"dyadic kernels; half of them sign-feasible for their monotonicities; input_min / input_max given as list, "
        "tuple, and with 'none' / 'None' / 'NONE' strings in place of None; a quarter of the layers with a SCALAR "
        "monotonicities argument 'increasing' / 1 / -1 / 'decreasing' / 'none' / 0, which Linear.__init__ broadcasts "
        "to every input) evaluated on a base point drawn "
        "inside/on/outside the bounds plus points moved along one constrained input; the Coq model evaluates "
        "the same points. A third of the cases are CONSTRAINED layers: random monotonicities, acyclic "
        "monotonic/range dominance graphs, bounds, normalization none/1/2 (a share all-increasing with order 1), "
        "raw kernels random/ties/zeros/all-negative/far; the real layer.kernel.constraint is applied to the raw "
        "kernel, then the layer is called on probe points (moves along constrained inputs, +d steps of both inputs "
        "of a monotonic dominance pair, full-range sweeps of both inputs of a range dominance pair); the Coq model "
        "projects the raw kernel itself and evaluates Linear.call; monotonicity, both dominance effects and the "
        "weighted-average range are evaluated on the real outputs. ~10% of the layers of both kinds are built in "
        "float32 - the layers' DEFAULT dtype - (class suffix _f32): plain layers with the same dyadic kernels and "
        "points (every product and sum is exact in float32), constrained layers with the raw kernel scaled by 1/8 "
        "and without the 'far' class; outputs compared with tolerance 1e-5. Non-trivial = the layer has >= 2 inputs or a "
        "bound that actually clips a point; distinct = distinct (config, kernel, points).")
TRUSTED = ["model: Model/LinearEval.v + Model/LinearLayer.v (hand-written from linear_layer.py Linear.call/build), "
           "Model/LinearProject.v (linear_lib.project, property C06); square root of the order-2 norm is an oracle "
           "in the theorems and a truncated Newton iteration when the model is executed; "
           "tie: Linear layer built in float64 (tolerance 1e-9) or float32 (tolerance 1e-5, passed to Coq with the "
           "case: CTol) with assigned kernel/bias (constrained cases: after "
           "layer.kernel.assign(layer.kernel.constraint(layer.kernel))), constrained kernel and outputs compared in Coq"]
LIMITS = ["float rounding of the matmul/reduce_sum and of the projection is outside the model (tolerance 1e-9; "
          "float32 layers: 1e-5 * max(1, |v|) in the Coq comparison and in the predicates)",
          "weighted average: a numerically-zero projected column (L1 norm < 1e-8) is outside the guarantee "
          "(guard of C20_projected_weighted_average, refuted witness C20_projected_weighted_average_zero_refuted, "
          "known finding D32); such columns are generated and compared with the model and held only to the degenerate "
          "range of C20_projected_weighted_average_degenerate (|output - bias| <= L1 norm * clipped-input range)",
          "monotonic-dominance EFFECT: false where the dominant input is clipped (saturated) at x_dom or x_dom + d "
          "(C20_monotonic_dominance_effect_clipped_refuted, witness reproduced on the real layer: monotonicities "
          "[1,1], dominance (0,1), input 0 bounded to [0,1], kernel (1,1), x=(1,0), d=1: dominant step 0, weak step "
          "1); the guard `unclipped` is in every effect theorem; probes with a clipped dominant input are held to "
          "C20_monotonic_dominance_effect_general (weak step <= k_dom * d, dominant step = k_dom * clipped "
          "step; class tag mdomclipped) AND to the statement's own clause, whose failures there are reported as "
          "known finding D73 (class monotonic_dominance_effect_dominant_clipped; one fixed witness case per run)",
          "normalization_order is modelled for None, 1 and 2 only; the code passes any other value (3, inf, 0.5, "
          "'euclidean', 0, ...) to tf.norm(ord=...) while the model treats every order other than 1 as the L2 norm, "
          "so other orders are not generated and nothing is claimed about them",
          "dominance cycles (ValueError from the kernel constraint) are exercised on LinearConstraints in C06, not "
          "through the layer"]


BOUND_FORMS = ["list", "list", "list", "tuple", "str", "str", "tuple_str"]
# a single monotonicity (not a list/tuple) is broadcast to every input by Linear.__init__
SCALAR_MONOS = [("increasing", 1), (1, 1), (-1, -1), ("decreasing", -1), ("none", 0), (0, 0)]


def bounds_arg(vals, form, present):
  """The input_min / input_max argument in one of its accepted spellings: a list (None when no bound is set), a
  tuple, a list/tuple with 'none' strings (any capitalisation) in place of None."""
  if form == "list":
    return list(vals) if present else None
  spell = ["none", "None", "NONE"]
  if form in ("str", "tuple_str"):
    vals = [spell[i % 3] if v is None else v for i, v in enumerate(vals)]
  return tuple(vals) if form.startswith("tuple") else list(vals)


def monos_arg(d):
  """The monotonicities argument: the scalar when the desc has one, else the list (ints)."""
  if d.get("monos_scalar") is not None:
    return d["monos_scalar"][0]
  return d["monos"]


def gen_descs(ctx):
  rng = ctx.rng
  out = []
  for _ in range(ctx.n(240, 4000)):
    n = rng.randint(1, 5)
    units = rng.choice([1, 1, 2, 3])
    monos = [rng.choice([-1, 0, 1]) for _ in range(n)]
    monos_scalar = None
    if rng.random() < 0.25:
      monos_scalar = list(rng.choice(SCALAR_MONOS))
      monos = [monos_scalar[1]] * n
    lo, hi = [], []
    mode = rng.choice(["none", "mixed", "mixed", "all"])
    for _ in range(n):
      a = tfimpl.dy(rng, -4, 4)
      b = a + rng.choice([0.0, 0.5, 1.0, 3.0])
      if mode == "none":
        lo.append(None); hi.append(None)
      elif mode == "all":
        lo.append(a); hi.append(b)
      else:
        lo.append(rng.choice([None, a])); hi.append(rng.choice([None, b]))
    feasible = rng.random() < 0.5
    K = []
    for i in range(n):
      row = []
      for _ in range(units):
        v = tfimpl.dy(rng)
        if feasible and monos[i] != 0:
          v = abs(v) * monos[i]
        row.append(v)
      K.append(row)
    use_bias = rng.random() < 0.7
    bias = [tfimpl.dy(rng) for _ in range(units)] if use_bias else None

    def coord(i):
      c = rng.random()
      if lo[i] is not None and c < 0.2: return lo[i]
      if hi[i] is not None and c < 0.4: return hi[i]
      return tfimpl.dy(rng, -6, 6)
    base = [[coord(i) for i in range(n)] for _ in range(units)]
    pts = [base]
    for _ in range(2):
      i = rng.randrange(n)
      p = [list(r) for r in base]
      d = rng.choice([0.125, 1.0, 5.0])
      for r in p:
        r[i] += d
      pts.append(p)
    d = dict(n=n, units=units, monos=monos, lo=lo, hi=hi, K=K, bias=bias, pts=pts, feasible=feasible,
             monos_scalar=monos_scalar, lo_form=rng.choice(BOUND_FORMS), hi_form=rng.choice(BOUND_FORMS))
    if rng.random() < 0.1:
      d["dtype"] = "float32"   # kernel, bias and points are multiples of 1/8 below 16: exact, and so is every product
      if not feasible:
        d["K"] = [[fine(rng, v) for v in row] for row in K]
    out.append(d)
  for _ in range(ctx.n(120, 2000)):
    d = gen_constrained(rng)
    if rng.random() < 0.1:
      # float32: raw kernel on the 1/64 grid with |w| <= 1 (no 'far' class), so that the float32 rounding of the
      # projected (no longer dyadic) weights times |x| <= 11 stays well below the tolerance
      if d["wclass"] == "far":
        d["W"] = [[v / 8.0 for v in row] for row in d["W"]]
      d["W"] = [[v / 8.0 for v in row] for row in d["W"]]
      d["dtype"] = "float32"
    out.append(d)
  out.append(d73_witness())
  return out


F32_TOL = 1e-5


def fine(rng, v):
  """float32 cases only: moves a value by a few 2^-12 (still exact in float32, but not in float16 / bfloat16: a lossy
  cast on the float32 path is invisible on multiples of 1/8)."""
  return v + rng.choice([0, 0, 1, -1, 3, -5]) * 2.0 ** -12



def is_f32(d):
  return d.get("dtype") == "float32"


def np_dtype(d):
  return np.float32 if is_f32(d) else np.float64


def wrap_tol(d, term):
  return "CTol %s (%s)" % (cq(F32_TOL), term) if is_f32(d) else term


def rand_dag(rng, nodes, max_pairs):
  """Random acyclic pair list (a, b) with a before b in a hidden order."""
  nodes = list(nodes)
  order = list(nodes)
  rng.shuffle(order)
  pos = {v: k for k, v in enumerate(order)}
  pairs = []
  for _ in range(rng.randint(1, max_pairs)):
    a, b = rng.sample(nodes, 2)
    if pos[a] > pos[b]:
      a, b = b, a
    pairs.append([a, b])
  return pairs


def gen_constrained(rng):
  """A configured layer whose real kernel constraint is applied before the call."""
  n = rng.randint(2, 6)
  units = rng.choice([1, 1, 2, 3])
  wavg = rng.random() < 0.3
  monos = [1] * n if wavg else [rng.choice([-1, 0, 1, 1]) for _ in range(n)]
  monos_scalar = None
  if rng.random() < 0.25:
    monos_scalar = list(rng.choice(SCALAR_MONOS[:2] if wavg else SCALAR_MONOS))
    monos = [monos_scalar[1]] * n
  inc = [i for i in range(n) if monos[i] == 1]
  dec = [i for i in range(n) if monos[i] == -1]
  mode = rng.choice(["plain", "mdom", "rdom", "both", "both", "mdom", "rdom"])
  mdom, rdom, used = [], [], set()
  if mode == "both" and not wavg and monos_scalar is None and n >= 4:
    monos = [1] * 4 + monos[4:]      # room for a monotonic-dominance pair and a range-dominance pair
    inc = [i for i in range(n) if monos[i] == 1]
    dec = [i for i in range(n) if monos[i] == -1]
  if mode in ("mdom", "both") and len(inc) >= 2:
    k = rng.randint(2, min(len(inc), 4 if mode == "mdom" else 2))
    sub = rng.sample(inc, k)
    mdom = [[b, a] for a, b in rand_dag(rng, sub, 2 * k)]  # (dominant, weak)
    used = set(x for p in mdom for x in p)
  lo, hi = [None] * n, [None] * n
  for i in range(n):
    c = rng.random()
    a = tfimpl.dy(rng, -4, 4)
    if c < 0.3:
      lo[i], hi[i] = a, a + rng.choice([0.5, 1.0, 2.0, 3.0])
    elif c < 0.35:
      lo[i], hi[i] = a, a  # zero width
    elif c < 0.45:
      lo[i] = a
    elif c < 0.55:
      hi[i] = a
  if mode in ("rdom", "both"):
    pool = [i for i in (inc if rng.random() < 0.6 or len(dec) < 2 else dec) if i not in used]
    if len(pool) >= 2:
      k = rng.randint(2, min(len(pool), 4))
      sub = rng.sample(pool, k)
      for i in sub:
        a = tfimpl.dy(rng, -4, 4)
        lo[i], hi[i] = a, a + rng.choice([0.5, 1.0, 2.0, 3.0])
      rdom = [[b, a] for a, b in rand_dag(rng, sub, 2 * k)]
  if mdom and rdom and rng.random() < 0.7:
    # both dominance kinds configured: the monotonic-dominance inputs get bounds of DIFFERENT widths, so a projection
    # that applied the range scalings to them as well would order the wrong quantities (seeded change C20-m4)
    for j, i in enumerate(sorted(used)):
      a = tfimpl.dy(rng, -2, 2)
      lo[i], hi[i] = a, a + [4.0, 0.5, 2.0, 1.0][j % 4]
  norm = 1 if wavg else rng.choice([None, None, 1, 2])
  wclass = rng.choice(["random", "random", "random", "ties", "zeros", "allneg", "far", "onezero"])
  W = []
  for i in range(n):
    row = []
    for u in range(units):
      if wclass == "zeros":
        v = 0.0
      elif wclass == "ties":
        v = float(rng.choice([-1, 0, 1, 1, 2]))
      elif wclass == "far":
        v = tfimpl.dy(rng, -64, 64)
      elif wclass == "allneg":
        v = -abs(tfimpl.dy(rng)) - 0.125
      elif wclass == "onezero" and u == 0:
        v = -abs(tfimpl.dy(rng)) if monos[i] == 1 else (abs(tfimpl.dy(rng)) if monos[i] == -1 else 0.0)
      else:
        v = tfimpl.dy(rng)
      row.append(v)
    W.append(row)
  use_bias = rng.random() < (0.3 if wavg else 0.6)
  bias = [tfimpl.dy(rng) for _ in range(units)] if use_bias else None

  def coord(i):
    c = rng.random()
    if lo[i] is not None and c < 0.15: return lo[i]
    if hi[i] is not None and c < 0.3: return hi[i]
    return tfimpl.dy(rng, -6, 6)
  same_rows = rng.random() < 0.5
  row0 = [coord(i) for i in range(n)]
  base = [list(row0) if same_rows else [coord(i) for i in range(n)] for _ in range(units)]
  md_pair = rng.choice(mdom) if mdom else None
  md_d = rng.choice([0.125, 0.5, 1.0, 3.0])
  if md_pair is not None and rng.random() < 0.7:
    # put the dominant input where the step stays inside its bounds, when there is room
    dom = md_pair[0]
    for r in base:
      l = lo[dom] if lo[dom] is not None else -6.0
      h = hi[dom] if hi[dom] is not None else 6.0
      if h - l >= md_d:
        r[dom] = l + rng.choice([0.0, (h - l - md_d) / 2.0, h - l - md_d])
  pts = [base]
  probes = []

  def moved(i, fn):
    p = [list(r) for r in base]
    for r in p:
      r[i] = fn(r[i])
    pts.append(p)
    return len(pts) - 1
  cons = [i for i in range(n) if monos[i] != 0]
  for _ in range(2):
    if cons:
      i = rng.choice(cons)
      d = rng.choice([0.125, 1.0, 5.0])
      probes.append(dict(type="mono", i=i, a=0, b=moved(i, lambda v, d=d: v + d)))
  if md_pair is not None:
    dom, weak = md_pair
    probes.append(dict(type="mdom", dom=dom, weak=weak, d=md_d,
                       pd=moved(dom, lambda v: v + md_d), pw=moved(weak, lambda v: v + md_d)))
  if rdom:
    dom, weak = rng.choice(rdom)
    probes.append(dict(type="rdom", dom=dom, weak=weak,
                       dl=moved(dom, lambda v: lo[dom]), dh=moved(dom, lambda v: hi[dom]),
                       wl=moved(weak, lambda v: lo[weak]), wh=moved(weak, lambda v: hi[weak])))
  return dict(kind="proj", n=n, units=units, monos=monos, mdom=mdom, rdom=rdom, lo=lo, hi=hi, norm=norm,
              W=W, wclass=wclass, bias=bias, pts=pts, probes=probes, wavg=wavg, monos_scalar=monos_scalar,
              lo_form=rng.choice(BOUND_FORMS), hi_form=rng.choice(BOUND_FORMS))


D73_PREFIX = "monotonic dominance effect with the dominant input clipped:"


def d73_witness():
  """Known finding D73, fixed witness (C20_monotonic_dominance_effect_clipped_refuted): monotonicities [1, 1],
  dominance (0, 1), input 0 bounded to [0, 1], kernel (1, 1) = its own projection, no bias, x = (1, 0), d = 1."""
  return dict(kind="proj", n=2, units=1, monos=[1, 1], mdom=[[0, 1]], rdom=[], lo=[0.0, None], hi=[1.0, None],
              norm=None, W=[[1.0], [1.0]], wclass="d73_witness", bias=None,
              pts=[[[1.0, 0.0]], [[2.0, 0.0]], [[1.0, 1.0]]],
              probes=[dict(type="mdom", dom=0, weak=1, d=1.0, pd=1, pw=2)], wavg=False, monos_scalar=None,
              lo_form="list", hi_form="list")


def _is_mdom_dominant_clipped(case):
  """D73: a constrained-layer case whose ONLY failing clause is the monotonic-dominance effect on a probe whose
  dominant coordinate is clipped (at x_dom or at x_dom + d) by the layer's own bounds in some unit; the clause string
  is produced only when every other clause of the case (monotonicity, range dominance, weighted average, the weaker
  bound 'weak step <= k_dom * d', 'dominant step = k_dom * clipped step') holds."""
  d = case.desc
  if d.get("kind") != "proj" or not (case.pred_fail or "").startswith(D73_PREFIX):
    return False
  for pr in d.get("probes", []):
    if pr.get("type") != "mdom":
      continue
    dom, dd = pr["dom"], pr["d"]
    for u in range(d["units"]):
      xd = d["pts"][0][u][dom]
      if _clip(xd, d["lo"][dom], d["hi"][dom]) != xd or _clip(xd + dd, d["lo"][dom], d["hi"][dom]) != xd + dd:
        return True
  return False


KNOWN_CLASSES = {"monotonic_dominance_effect_dominant_clipped": _is_mdom_dominant_clipped}


def form_class(d):
  """Histogram suffix: M<scalar> for a scalar monotonicities argument, Bt / Bs / Bts for tuple / 'none'-string bounds."""
  forms = set([d.get("lo_form", "list"), d.get("hi_form", "list")])
  out = ""
  if d.get("monos_scalar") is not None:
    out += "_M%s" % (d["monos_scalar"][0],)
  if forms != set(["list"]):
    out += "_B" + ("t" if forms & set(["tuple", "tuple_str"]) else "") + ("s" if forms & set(["str", "tuple_str"]) else "")
  return out


def _clip(v, l, h):
  if h is not None: v = min(v, h)
  if l is not None: v = max(v, l)
  return v


def eval_constrained(tf, tfl, d):
  """Runs the real layer with its real constraint applied; returns a Case."""
  n, units = d["n"], d["units"]
  any_lo = any(v is not None for v in d["lo"])
  any_hi = any(v is not None for v in d["hi"])
  layer = tfl.layers.Linear(
      num_input_dims=n, units=units, monotonicities=monos_arg(d),
      monotonic_dominances=[tuple(p) for p in d["mdom"]] or None,
      range_dominances=[tuple(p) for p in d["rdom"]] or None,
      input_min=bounds_arg(d["lo"], d.get("lo_form", "list"), any_lo),
      input_max=bounds_arg(d["hi"], d.get("hi_form", "list"), any_hi),
      use_bias=d["bias"] is not None, normalization_order=d["norm"], dtype="float32" if is_f32(d) else "float64")
  dt = np_dtype(d)
  rel = F32_TOL if is_f32(d) else 1e-9
  layer.build((None, n) if units == 1 else (None, units, n))
  layer.kernel.assign(np.array(d["W"], dtype=dt))
  if layer.kernel.constraint is not None:
    layer.kernel.assign(layer.kernel.constraint(layer.kernel))
  if d["bias"] is not None:
    layer.bias.assign(dt(d["bias"][0]) if units == 1 else np.array(d["bias"], dtype=dt))
  kern = [[float(v) for v in row] for row in layer.kernel.numpy()]
  x = np.array(d["pts"], dtype=dt)
  if units == 1:
    x = x[:, 0, :]
  yt = layer(tf.constant(x))
  y = yt.numpy()
  outs = [[float(v) for v in row] for row in y]
  if layer.kernel.dtype.base_dtype.name != np.dtype(dt).name or yt.dtype.name != np.dtype(dt).name:
    return Case(d, coq=None, pred_fail="constrained layer built with dtype=%s has a %s kernel and returns %s" % (
        np.dtype(dt).name, layer.kernel.dtype.base_dtype.name, yt.dtype.name), nontrivial=True, klass="proj_dtype")
  R = np.array(kern)
  if not (np.all(np.isfinite(R)) and np.all(np.isfinite(y))):
    return Case(d, coq=None, pred_fail="constrained layer: non-finite kernel or output after the kernel constraint",
                nontrivial=True, klass="proj_nonfinite", info={"impl_constrained_kernel": repr(kern)})
  scale = max(1.0, float(np.abs(y).max()))
  eps = rel * scale
  fail = None
  known_fail = None
  pts = d["pts"]
  lo, hi = d["lo"], d["hi"]
  checked = set()
  for pr in d["probes"]:
    for u in range(units):
      if pr["type"] == "mono":
        i = pr["i"]
        diff = outs[pr["b"]][u] - outs[pr["a"]][u]
        if (d["monos"][i] == 1 and diff < -eps) or (d["monos"][i] == -1 and diff > eps):
          fail = "constrained layer: output of unit %d not monotone in input %d (monotonicity %d): %r -> %r" % (
              u, i, d["monos"][i], outs[pr["a"]][u], outs[pr["b"]][u])
        checked.add("mono")
      elif pr["type"] == "mdom":
        dom, dd = pr["dom"], pr["d"]
        xd = pts[0][u][dom]
        if _clip(xd, lo[dom], hi[dom]) == xd and _clip(xd + dd, lo[dom], hi[dom]) == xd + dd:
          ed = outs[pr["pd"]][u] - outs[0][u]
          ew = outs[pr["pw"]][u] - outs[0][u]
          if ew > ed + eps:
            fail = ("constrained layer: unit %d changes more along weak input %d (%r) than along dominant "
                    "input %d (%r) for the step %r" % (u, pr["weak"], ew, dom, ed, dd))
          checked.add("mdom")
        else:
          # dominant input clipped at x_dom or x_dom + d: the effect clause does not hold there
          # (C20_monotonic_dominance_effect_clipped_refuted); what holds at EVERY point
          # (C20_monotonic_dominance_effect_general): the weak step moves the output by at most k_dom * d, the
          # dominant step by k_dom * (clip(x_dom + d) - clip(x_dom)), between 0 and k_dom * d
          ed = outs[pr["pd"]][u] - outs[0][u]
          ew = outs[pr["pw"]][u] - outs[0][u]
          kd = float(R[dom, u])
          cdiff = _clip(xd + dd, lo[dom], hi[dom]) - _clip(xd, lo[dom], hi[dom])
          if ew > kd * dd + eps:
            fail = ("constrained layer: unit %d changes more along weak input %d (%r) than the dominant weight "
                    "%r times the step %r (dominant input %d clipped)" % (u, pr["weak"], ew, kd, dd, dom))
          elif abs(ed - kd * cdiff) > eps * max(1.0, dd):
            fail = ("constrained layer: unit %d changes by %r along the clipped dominant input %d, not by its weight "
                    "%r times the clipped step %r" % (u, ed, dom, kd, cdiff))
          elif ew > ed + eps and known_fail is None:
            # the statement's own clause, which is FALSE here (known finding D73): kept in the stream
            known_fail = ("%s unit %d changes more along weak input %d (%r) than along dominant input %d (%r) for "
                          "the step %r; the dominant input goes from %r to %r under the bounds (%r, %r)" % (
                              D73_PREFIX, u, pr["weak"], ew, dom, ed, dd, xd, xd + dd, lo[dom], hi[dom]))
          checked.add("mdomclipped")
      elif pr["type"] == "rdom":
        ed = outs[pr["dh"]][u] - outs[pr["dl"]][u]
        ew = outs[pr["wh"]][u] - outs[pr["wl"]][u]
        sg = d["monos"][pr["dom"]]
        if sg * ew > sg * ed + eps or sg * ew < -eps or sg * ed < -eps:
          fail = ("constrained layer: unit %d changes more across the range of weak input %d (%r) than across "
                  "the range of dominant input %d (%r)" % (u, pr["weak"], ew, pr["dom"], ed))
        checked.add("rdom")
  zero_col = False
  if d["wavg"]:
    for u in range(units):
      s = float(np.abs(R[:, u]).sum())
      if s < 1e-6:
        # outside the guard (numerically zero column is returned as it is, known finding D32): not held to the
        # weighted-average range, but to what C20_projected_weighted_average_degenerate states: the output minus
        # the bias is between min * s and max * s of the clipped inputs, s = the column's L1 norm < 1e-8
        zero_col = True
        b = d["bias"][u] if d["bias"] is not None else 0.0
        for p, o in zip(pts, outs):
          cl = [_clip(p[u][i], lo[i], hi[i]) for i in range(n)]
          if not (min(cl) * s - eps <= o[u] - b <= max(cl) * s + eps):
            fail = ("constrained all-increasing layer with normalization_order=1 and a numerically-zero column "
                    "(L1 norm %r): unit %d output minus bias %r is not within norm times [min %r, max %r] of the "
                    "clipped inputs" % (s, u, o[u] - b, min(cl), max(cl)))
        continue
      b = d["bias"][u] if d["bias"] is not None else 0.0
      for p, o in zip(pts, outs):
        cl = [_clip(p[u][i], lo[i], hi[i]) for i in range(n)]
        if not (min(cl) - eps <= o[u] - b <= max(cl) + eps):
          fail = ("constrained all-increasing layer with normalization_order=1: unit %d output minus bias %r is "
                  "not between min %r and max %r of the clipped inputs" % (u, o[u] - b, min(cl), max(cl)))
      checked.add("wavg")
  if fail is None:
    fail = known_fail   # only when every other clause holds
  cfg = "(mkLin %s %s %s %s %s %s)" % (
      czl(d["monos"]), cnatpairs(d["mdom"]), cnatpairs(d["rdom"]),
      clist([copt(v) for v in d["lo"]]), clist([copt(v) for v in d["hi"]]), cnat(d["norm"] or 0))
  coq = wrap_tol(d, "mkP %s %s %s %s %s %s %s" % (cfg, cnat(units), cqm(d["W"]), copt(d["bias"], cql),
                                                 clist([cqm(p) for p in pts]), cqm(kern), cqm(outs)))
  klass = "proj_u%d_%s%s%s%s_%s%s%s%s" % (units, "m" if d["mdom"] else "", "r" if d["rdom"] else "",
                                          "n%d" % d["norm"] if d["norm"] else "", "_wavg" if d["wavg"] else "",
                                          "+".join(sorted(checked)) or "none", "_zerocol" if zero_col else "",
                                          form_class(d), "_f32" if is_f32(d) else "")
  return Case(d, coq=coq, pred_fail=fail, nontrivial=True, klass=klass,
              info={"impl_outputs": outs, "impl_constrained_kernel": kern})


def eval_cases(ctx, descs):
  tf, tfl = tfimpl.tfl()
  cases = []
  for d in descs:
    try:
      cases.append(eval_one(tf, tfl, d))
    except (ValueError, TypeError, tf.errors.OpError) as e:
      # every generated configuration and input is valid: an exception is a failing input
      cases.append(Case(d, coq=None, klass="raised", nontrivial=True,
                        pred_fail="building or calling the layer raised %s on a valid configuration: %s" % (
                            type(e).__name__, " ".join(str(e).split())[:300])))
  return cases


def eval_one(tf, tfl, d):
  if d.get("kind") == "proj":
    return eval_constrained(tf, tfl, d)
  n, units = d["n"], d["units"]
  any_lo = any(v is not None for v in d["lo"])
  any_hi = any(v is not None for v in d["hi"])
  layer = tfl.layers.Linear(
      num_input_dims=n, units=units, monotonicities=monos_arg(d),
      input_min=bounds_arg(d["lo"], d.get("lo_form", "list"), any_lo),
      input_max=bounds_arg(d["hi"], d.get("hi_form", "list"), any_hi),
      use_bias=d["bias"] is not None, dtype="float32" if is_f32(d) else "float64")
  dt = np_dtype(d)
  rel = F32_TOL if is_f32(d) else 1e-9
  layer.build((None, n) if units == 1 else (None, units, n))
  layer.kernel.assign(np.array(d["K"], dtype=dt))
  if d["bias"] is not None:
    layer.bias.assign(dt(d["bias"][0]) if units == 1 else np.array(d["bias"], dtype=dt))
  x = np.array(d["pts"], dtype=dt)  # (batch, units, n)
  if units == 1:
    x = x[:, 0, :]
  yt = layer(tf.constant(x))
  y = yt.numpy()  # (batch, units)
  outs = [[float(v) for v in row] for row in y]
  # property predicate on the implementation: monotone along the moved input
  fail = None
  if layer.kernel.dtype.base_dtype.name != np.dtype(dt).name or yt.dtype.name != np.dtype(dt).name:
    fail = "layer built with dtype=%s has a %s kernel and returns %s" % (
        np.dtype(dt).name, layer.kernel.dtype.base_dtype.name, yt.dtype.name)
  if d["feasible"]:
    base = d["pts"][0]
    for p, o in zip(d["pts"][1:], outs[1:]):
      i = [k for k in range(n) if p[0][k] != base[0][k]][0]
      for u in range(units):
        diff = o[u] - outs[0][u]
        eps = rel * max(1.0, abs(o[u]))
        if d["monos"][i] == 1 and diff < -eps or d["monos"][i] == -1 and diff > eps:
          fail = "output of unit %d not monotone in input %d (monotonicity %d): %r -> %r" % (
              u, i, d["monos"][i], outs[0][u], o[u])
  bs = clist(["(%s, %s)" % (copt(l), copt(h)) for l, h in zip(d["lo"], d["hi"])])
  bias = d["bias"] if d["bias"] is not None else [0.0] * units
  coq = wrap_tol(d, "mk %s %s %s %s %s %s" % (cnat(units), cqm(d["K"]), cql(bias), bs,
                                              clist([cqm(p) for p in d["pts"]]), cqm(outs)))
  clips = any((l is not None and r[i] < l) or (h is not None and r[i] > h)
              for p in d["pts"] for r in p for i, (l, h) in enumerate(zip(d["lo"], d["hi"])))
  klass = "n%d_u%d_%s%s%s%s" % (min(n, 3), units, "clip" if clips else "noclip",
                                "" if d["bias"] is not None else "_nobias", form_class(d), "_f32" if is_f32(d) else "")
  return Case(d, coq=coq, pred_fail=fail, nontrivial=(n >= 2 or clips), klass=klass,
              info={"impl_outputs": outs})
