"""C07 - KroneckerFactoredLattice after its constraints: monotone, bounded."""
import numpy as np
from common import Case, cq, cql, cqm, clist, cnat, copt, cbool
import tfimpl

ID = "C07"
HMODULE = "H_C07"
EXTRA_CHECK_FNS = ["check_bounds"]
SHARD = 30
RULE = ("KroneckerFactoredLattice layers built in float64 (and ~10% of all cases, class suffix _f32, in float32 - the "
        "layer's DEFAULT dtype - with dims <= 3, kernels of the classes small / zeros / power / ties / sorted, scales "
        "halved, every assigned value exact in float32, tolerance 1e-5): lattice_sizes 2-4, dims 1-4, units 1-3, terms 1-3, "
        "monotonicity subsets (none / None / EMPTY list [] or tuple () / all-zero list / some / all; ints, strings, "
        "tuple), bounds "
        "none/min/max/both, clip_inputs on/off; kernels random / negative / far (+-64) / ties / sorted / zeros / "
        "perfect d-th powers; scales random / with exact zeros / one-signed / large / tiny; constraint "
        "histories from {kernel.constraint, scale.constraint, finalize_constraints} in both orders and "
        "repeated, optionally with a re-assigned scale (signs flipped or zeroed) and / or a re-assigned kernel between "
        "two applications (classes _reassign / _kupdate), and the interleaving kernel constraint - every scale sign "
        "flipped - scale constraint only (class _stale); "
        "each history is replayed by the Coq model and kernel, scale and outputs on a grid (vertices, cell "
        "interiors, out-of-range, lines along every monotone input) are compared in Coq; the lib functions "
        "finalize_weight_constraints / _approximately_project_monotonicity / _approximately_project_bounds / "
        "finalize_scale_constraints / evaluate_with_hypercube_interpolation are also compared directly. "
        "Implementation-side predicate: pairwise monotonicity along monotone inputs when a kernel constraint follows the "
        "last update of kernel and scale (C07_monotone_history), bounds on the grid when a kernel constraint follows the "
        "last KERNEL update and a scale constraint the last SCALE update (C07_bounded_history; the scale may change sign "
        "after the kernel constraint); no constraint application flips the sign of a scale entry; the bias is "
        "non-trainable exactly when the layer is bounded and is never touched by a constraint application. "
        "Non-trivial = a constraint application changed kernel or scale; distinct = distinct descriptions.")
TRUSTED = ["model: Model/KFL.v (hand-written from kronecker_factored_lattice_lib.py and "
           "kronecker_factored_lattice_layer.py); tf.pow(x, 1/dims) is an exact-root oracle in the theorems "
           "(root d x >= 1 and (root d x)^d == x for x >= 1) and a truncated Newton iteration when executed",
           "tie: layer built in float64 (tolerance 1e-9) or float32 (tolerance 1e-5, passed to Coq with the case: "
           "CTol), parameters assigned, constraints applied through the variables' "
           ".constraint / finalize_constraints(), parameters and outputs compared in Coq; the model's "
           "constrained parameters are additionally checked against the bounds inside Coq (check_bounds)"]
LIMITS = ["the optimizer changing scale AFTER the kernel was constrained against the old sign, with no further "
          "KERNEL constraint application, carries the bound claim but no monotonicity claim: the output can decrease "
          "(C07_monotone_after_stale_kernel_constraint_refuted, class _stale); the statement's 'once the constraints "
          "have been applied' is read as 'the kernel constraint was applied after the last sign change'",
          "out-of-range inputs with clip_inputs=False are compared (model = implementation) but carry no "
          "monotonicity / bound claim",
          "float rounding (one-ulp excursions after the division by the dims-th root) is outside the model; "
          "tolerance 1e-9 (float32 layers: 1e-5 * max(1, |v|) in the Coq comparison and in the predicates; the direct "
          "kronecker_factored_lattice_lib calls run in float64 only)"]

F32_KCLASSES = ["small", "small", "zeros", "power", "ties", "sorted"]
F32_TOL = 1e-5


def fine(rng, v):
  """float32 cases only: moves a value by a few 2^-12 (still exact in float32, but not in float16 / bfloat16: a lossy
  cast on the float32 path is invisible on multiples of 1/8)."""
  return v + rng.choice([0, 0, 1, -1, 3, -5]) * 2.0 ** -12


def is_f32(d):
  return d.get("dtype") == "float32"


STEP_SEQS = [["K"], ["S"], ["K", "S"], ["S", "K"], ["F"], ["K", "S", "K"], ["S", "K", "S"], ["F", "F"],
             ["K", "S", "F"], ["K", "K"], ["F", "K"], ["S", "F", "S"]]


def _kernel(rng, klass, L, units, dims, terms):
  """Returns k[i][j][t] (implementation layout without the leading 1)."""
  k = np.zeros((L, units * dims, terms))
  for j in range(units * dims):
    for t in range(terms):
      if klass == "random":
        v = [tfimpl.dy(rng) for _ in range(L)]
      elif klass == "negative":
        v = [-abs(tfimpl.dy(rng)) for _ in range(L)]
      elif klass == "far":
        v = [tfimpl.dy(rng, -64, 64) for _ in range(L)]
      elif klass == "ties":
        v = [float(rng.choice([-1, 0, 1, 1, 2])) for _ in range(L)]
      elif klass == "sorted":
        v = sorted(abs(tfimpl.dy(rng, 0, 2)) for _ in range(L))
        if rng.random() < 0.3:
          v = v[::-1]
      elif klass == "zeros":
        v = [0.0] * L
      elif klass == "small":
        v = [tfimpl.dy(rng, -1, 1) for _ in range(L)]
      else:  # "power": max |v| is exactly 2 (or 1/2), so the max-product is a perfect dims-th power
        m = rng.choice([2.0, 2.0, 0.5])
        v = [m * rng.choice([-1.0, -0.5, 0.0, 0.25, 0.5, 1.0]) for _ in range(L)]
        v[rng.randrange(L)] = m * rng.choice([-1.0, 1.0])
      k[:, j, t] = v
  return k.tolist()


def _scale(rng, klass, units, terms, omin, omax):
  out = []
  for _ in range(units):
    row = []
    for _ in range(terms):
      if klass == "random":
        v = tfimpl.dy(rng, -4, 4)
      elif klass == "zeros":
        v = rng.choice([0.0, 0.0, tfimpl.dy(rng, -4, 4)])
      elif klass == "pos":
        v = abs(tfimpl.dy(rng, -4, 4))
      elif klass == "neg":
        v = -abs(tfimpl.dy(rng, -4, 4))
      elif klass == "large":
        v = tfimpl.dy(rng, -64, 64)
      else:  # tiny
        v = rng.choice([0.0, 1e-9, -1e-9, 0.125, -0.125])
      row.append(v)
    out.append(row)
  return out


def _monos(rng, dims):
  """Returns (monotonicities argument as JSON, list of 0/1 or None)."""
  c = rng.random()
  if c < 0.12:
    return None, None
  if rng.random() < 0.1:
    # an EMPTY list / tuple: `if self.monotonicities:` and canonicalize_monotonicities treat it like None
    # (no kernel constraint object, finalize_constraints leaves an unbounded layer unchanged)
    return {"form": rng.choice(["int", "tuple"]), "ms": []}, []
  if c < 0.22:
    ms = [0] * dims
  elif c < 0.45:
    ms = [1] * dims
  else:
    ms = [rng.choice([0, 1]) for _ in range(dims)]
  form = rng.choice(["int", "int", "str", "tuple"])
  return {"form": form, "ms": ms}, ms


def _points(rng, L, units, dims, ms, clip):
  """Points (each: one row of dims coordinates per unit)."""
  def coord(kind):
    if kind == "vertex":
      return float(rng.randrange(L))
    if kind == "interior":
      return rng.randrange(L - 1) + rng.choice([0.125, 0.25, 0.5, 0.75, 0.875])
    if kind == "edge":
      return rng.choice([0.0, float(L - 1)])
    return rng.choice([-1.5, -0.25, L - 1 + 0.25, L - 1 + 0.5, L + 1.0])
  pts = []
  for kind in ["vertex", "interior", "interior", "edge", "mixed", "mixed", "outside"]:
    p = []
    for _ in range(units):
      if kind == "mixed":
        p.append([coord(rng.choice(["vertex", "interior", "interior", "outside"])) for _ in range(dims)])
      else:
        p.append([coord(kind) for _ in range(dims)])
    pts.append(p)
  # lines along monotone dims (or along a random dim when there is none: plain comparison only)
  lines = []
  cand = [d for d in range(dims) if ms and ms[d]] or [rng.randrange(dims)]
  rng.shuffle(cand)
  for d in cand[:2]:
    base = [[coord(rng.choice(["vertex", "interior", "interior", "outside" if clip else "interior"]))
             for _ in range(dims)] for _ in range(units)]
    vals = sorted(set([-1.25, 0.0, 0.375, 1.0, L - 1.5, float(L - 1), L - 0.5, L + 2.0] +
                      [rng.randrange(8 * (L - 1) + 1) / 8.0 for _ in range(2)]))
    idx = []
    for v in vals:
      p = [list(r) for r in base]
      for r in p:
        r[d] = v
      idx.append(len(pts))
      pts.append(p)
    lines.append({"dim": d, "idx": idx})
  return pts, lines


def gen_descs(ctx):
  rng = ctx.rng
  out = []
  for _ in range(ctx.n(230, 4000)):
    L = rng.choice([2, 2, 3, 3, 4])
    dims = rng.choice([1, 2, 2, 3, 3, 4])
    units = rng.choice([1, 1, 2, 3])
    terms = rng.choice([1, 2, 2, 3])
    marg, ms = _monos(rng, dims)
    bmode = rng.choice(["none", "min", "max", "both", "both"])
    a = tfimpl.dy(rng, -4, 4)
    omin = a if bmode in ("min", "both") else None
    omax = (a + rng.choice([0.5, 1.0, 2.0, 5.0])) if bmode in ("max", "both") else None
    omin, omax = tfimpl.zero_bound(rng, omin, omax)
    clip = rng.random() < 0.6
    kclass = rng.choice(["random", "random", "negative", "far", "ties", "sorted", "zeros", "power", "power", "small"])
    sclass = rng.choice(["random", "random", "zeros", "pos", "neg", "large", "tiny"])
    k0 = _kernel(rng, kclass, L, units, dims, terms)
    s0 = _scale(rng, sclass, units, terms, omin, omax)
    b0 = [tfimpl.dy(rng, -4, 4) for _ in range(units)] if bmode == "none" else None
    steps = [[s] for s in rng.choice(STEP_SEQS)]
    hist = rng.random()
    if hist < 0.3:
      # the scale is re-assigned (signs flipped / zeroed / redrawn) between two applications
      how = rng.choice(["flip", "zero", "redraw"])
      if how == "flip":
        s2 = [[-v for v in row] for row in s0]
      elif how == "zero":
        s2 = [[rng.choice([0.0, v, -v]) for v in row] for row in s0]
      else:
        s2 = _scale(rng, rng.choice(["random", "zeros", "large"]), units, terms, omin, omax)
      steps = steps + [["A", s2]] + [[s] for s in rng.choice(STEP_SEQS)]
    elif hist < 0.42:
      # the interleaving of C07_stale_kernel_constraint_not_monotone: kernel constrained against the OLD signs, every
      # scale sign flipped, then only the scale constraint. Bounds are claimed (C07_bounded_history: kb_fresh and
      # s_fresh), monotonicity is not (km_fresh is false); the model comparison runs as for every history.
      s2 = [[-v if v else rng.choice([0.0, 1.0, -0.5]) for v in row] for row in s0]
      steps = ([[s] for s in rng.choice([["K"], ["F"], ["K", "S"], ["S", "K"], ["K", "K"]])] + [["A", s2]] +
               [[s] for s in rng.choice([["S"], ["S"], ["S", "S"]])])
    elif hist < 0.54:
      # the KERNEL is re-assigned between two applications (optionally the scale as well, before or after it)
      k2 = _kernel(rng, rng.choice(["random", "negative", "ties", "sorted", "power", "small"]), L, units, dims, terms)
      mid = [["B", k2]]
      if rng.random() < 0.4:
        s2 = [[rng.choice([v, -v, 0.0]) for v in row] for row in s0]
        mid = rng.choice([[["A", s2]] + mid, mid + [["A", s2]], mid + [["S"], ["A", s2]], [["A", s2], ["K"]] + mid])
      steps = steps + mid + [[s] for s in rng.choice(STEP_SEQS)]
    iform = rng.choice(["tensor", "tensor", "list", "rows"])
    pts, lines = _points(rng, L, units, dims, ms, clip)
    d = dict(kind="layer", L=L, dims=dims, units=units, terms=terms, monos=marg, omin=omin, omax=omax,
             clip=clip, k0=k0, s0=s0, b0=b0, steps=steps, iform=iform, pts=pts, lines=lines,
             kclass=kclass, sclass=sclass)
    if dims <= 3 and rng.random() < 0.2:
      # float32 layer: moderate magnitudes (|kernel| <= 2, so products <= 8; scales halved), and every assigned
      # value is made exact in float32
      f = lambda v: float(np.float32(v))
      if kclass not in F32_KCLASSES:
        d["kclass"] = kclass = rng.choice(F32_KCLASSES)
        d["k0"] = _kernel(rng, kclass, L, units, dims, terms)
      if sclass == "large":
        d["sclass"] = sclass = "random"
        d["s0"] = _scale(rng, sclass, units, terms, omin, omax)
      if kclass in ("small", "ties"):
        d["k0"] = [[[fine(rng, v) for v in r] for r in m] for m in d["k0"]]
      d["s0"] = [[f(fine(rng, v / 2.0) if abs(v) >= 0.125 else v / 2.0) for v in row] for row in d["s0"]]
      d["steps"] = [[st[0], [[f(min(max(v / 2.0, -2.0), 2.0)) for v in row] for row in st[1]]] if st[0] == "A" else
                    ["B", _kernel(rng, rng.choice(F32_KCLASSES), L, units, dims, terms)] if st[0] == "B" else st
                    for st in d["steps"]]
      d["dtype"] = "float32"
    out.append(d)
  for _ in range(ctx.n(110, 2000)):
    L = rng.choice([2, 3, 4])
    dims = rng.choice([1, 2, 3])
    units = rng.choice([1, 2, 3])
    terms = rng.choice([1, 2, 3])
    fn = rng.choice(["W", "W", "mono", "bounds", "scale", "eval"])
    kclass = rng.choice(["random", "negative", "far", "ties", "sorted", "power", "small"])
    k0 = _kernel(rng, kclass, L, units, dims, terms)
    bmode = rng.choice(["none", "min", "max", "both", "both"])
    a = tfimpl.dy(rng, -4, 4)
    omin = a if bmode in ("min", "both") else None
    omax = (a + rng.choice([0.5, 1.0, 2.0, 5.0])) if bmode in ("max", "both") else None
    omin, omax = tfimpl.zero_bound(rng, omin, omax)
    s0 = _scale(rng, rng.choice(["random", "zeros", "pos", "neg", "large"]), units, terms, omin, omax)
    ms = [rng.choice([0, 1, 1]) for _ in range(dims)]
    if fn == "W" and rng.random() < 0.2:
      ms = None
    if fn == "mono" and not any(ms):
      ms[rng.randrange(dims)] = 1
    d = dict(kind="lib", fn=fn, L=L, dims=dims, units=units, terms=terms, ms=ms, omin=omin, omax=omax, k0=k0,
             s0=s0, kclass=kclass)
    if fn == "eval":
      d["clip"] = rng.random() < 0.5
      d["b0"] = [tfimpl.dy(rng, -4, 4) for _ in range(units)]
      d["pts"], _ = _points(rng, L, units, dims, None, d["clip"])
      d["iform"] = rng.choice(["tensor", "list"])
    out.append(d)
  return out


# --------------------------------------------------------------------------
def _ck(k):
  return clist([cqm(m) for m in k])


def _cmonos(ms):
  return "None" if ms is None else "(Some %s)" % clist([cbool(bool(m)) for m in ms])


def _cfg(L, ms, omin, omax, clip):
  return "(mkCfg %s %s %s %s %s)" % (cnat(L), _cmonos(ms), copt(omin), copt(omax), cbool(clip))


def _csteps(steps):
  names = {"K": "StepK", "S": "StepS", "F": "StepF"}
  return clist([names[s[0]] for s in steps]) if steps else "(@nil step)"


def _cpts(pts):
  return clist([cqm(p) for p in pts]) if pts else "(@nil (list (list Q)))"


def _inputs(tf, pts, units, dims, iform, dtype=np.float64):
  x = np.array(pts, dtype=dtype)  # (batch, units, dims)
  if units == 1:
    x = x[:, 0, :]
  if iform == "list":
    return [tf.constant(x[..., d:d + 1]) for d in range(dims)], None
  if iform == "rows" and len(pts) % 2 == 0:
    # an extra "rows" axis between batch and (units,) dims
    shp = (len(pts) // 2, 2) + x.shape[1:]
    return tf.constant(x.reshape(shp)), len(pts)
  return tf.constant(x), None


def _outs(y, n, units):
  y = y.numpy().reshape(n, units)
  return [[float(v) for v in row] for row in y]


def _monos_arg(marg):
  if marg is None:
    return None
  ms = marg["ms"]
  if marg["form"] == "str":
    return ["increasing" if m else "none" for m in ms]
  if marg["form"] == "tuple":
    return tuple(ms)
  return list(ms)


def _eval_layer(tf, tfl, d):
  L, units, dims, terms = d["L"], d["units"], d["dims"], d["terms"]
  ms = d["monos"]["ms"] if d["monos"] is not None else None
  f32 = is_f32(d)
  dt = np.float32 if f32 else np.float64
  rel = F32_TOL if f32 else 1e-9
  layer = tfl.layers.KroneckerFactoredLattice(
      lattice_sizes=L, units=units, num_terms=terms, monotonicities=_monos_arg(d["monos"]),
      output_min=d["omin"], output_max=d["omax"], clip_inputs=d["clip"], dtype="float32" if f32 else "float64")
  pts = d["pts"]
  x, _ = _inputs(tf, pts, units, dims, d["iform"], dt)
  y0 = layer(x)  # builds
  if any(v.dtype.base_dtype.name != np.dtype(dt).name for v in (layer.kernel, layer.scale, layer.bias)) or \
     y0.dtype.name != np.dtype(dt).name:
    return Case(d, coq=None, klass="layer_dtype", pred_fail="layer built with dtype=%s has %s / %s / %s kernel / scale / "
                "bias and returns %s" % (np.dtype(dt).name, layer.kernel.dtype.base_dtype.name,
                                         layer.scale.dtype.base_dtype.name, layer.bias.dtype.base_dtype.name, y0.dtype.name))
  si = layer.scale.numpy().astype(np.float64).tolist()
  bi = layer.bias.numpy().astype(np.float64).tolist()
  layer.kernel.assign(np.array(d["k0"], dtype=dt)[None])
  layer.scale.assign(np.array(d["s0"], dtype=dt))
  if d["b0"] is not None:
    layer.bias.assign(np.array(d["b0"], dtype=dt))
  b0 = layer.bias.numpy().astype(np.float64).tolist()
  cfg = _cfg(L, ms, d["omin"], d["omax"], d["clip"])
  # split the history at the scale re-assignments
  segs, cur = [], []
  # freshness flags of Proofs/KFLHistory.v (km_fresh / kb_fresh / s_fresh), computed over the WHOLE history
  km = kb = sf = False
  for s in d["steps"]:
    if s[0] in ("A", "B"):
      segs.append((cur, s))
      cur = []
      if s[0] == "A":
        km = sf = False
      else:
        km = kb = False
    else:
      cur.append(s)
      if s[0] in ("K", "F"):
        km = kb = True
      if s[0] in ("S", "F"):
        sf = True
  segs.append((cur, None))
  sign_fail = None
  two_sided = d["omin"] is not None and d["omax"] is not None
  terms_coq = []
  changed = False
  seen_k = seen_s = False
  for si_, (seg, assign) in enumerate(segs):
    kb_ = layer.kernel.numpy()[0].astype(np.float64).tolist()
    sb = layer.scale.numpy().astype(np.float64).tolist()
    for s in seg:
      if s[0] == "K":
        if layer.kernel.constraint is not None:
          layer.kernel.assign(layer.kernel.constraint(layer.kernel))
      elif s[0] == "S":
        if layer.scale.constraint is not None:
          layer.scale.assign(layer.scale.constraint(layer.scale))
      else:
        layer.finalize_constraints()
    ka = layer.kernel.numpy()[0].astype(np.float64).tolist()
    sa = layer.scale.numpy().astype(np.float64).tolist()
    changed = changed or ka != kb_ or sa != sb
    # C07_scale_sign_stable / C07_scale_sign_kept_two_sided on the implementation: no constraint application flips the
    # sign of a scale entry; it is kept, or (one-sided bounds only) becomes 0
    for ra, rb in zip(sa, sb):
      for va, vb in zip(ra, rb):
        if np.sign(va) != np.sign(vb) and (two_sided or va != 0.0):
          sign_fail = "a constraint application changed the sign of a scale entry: %r -> %r" % (vb, va)
    last = si_ == len(segs) - 1
    if last:
      seen_k = any(s[0] in ("K", "F") for s in seg)
      seen_s = any(s[0] in ("S", "F") for s in seg)
      y = layer(x)
      outs = _outs(y, len(pts), units)
    term = "CLayer %s %s %s %s %s %s %s %s %s %s %s %s %s %s" % (
        cfg, cnat(units), cnat(dims), cnat(terms), cqm(si), cql(bi), _ck(kb_), cqm(sb), cql(b0),
        _csteps(seg), _ck(ka), cqm(sa), _cpts(pts if last else []),
        cqm(outs) if last else "(@nil (list Q))")
    terms_coq.append("CTol %s (%s)" % (cq(F32_TOL), term) if f32 else term)
    if assign is not None:
      if assign[0] == "A":
        layer.scale.assign(np.array(assign[1], dtype=dt))
      else:
        layer.kernel.assign(np.array(assign[1], dtype=dt)[None])
  # property predicate on the implementation's outputs
  fail = None
  # the fixed-bias hypothesis of C07_bounded / C07_bounded_history on the implementation: the bias of a bounded layer is
  # not trainable (no optimizer moves it) and no constraint application touches it (C07_bias_untouched_by_constraints)
  bias_fail = None
  bounded = d["omin"] is not None or d["omax"] is not None
  if bool(layer.bias.trainable) == bounded:
    bias_fail = "the bias of a layer %s output bounds is %strainable" % (
        "with" if bounded else "without", "" if layer.bias.trainable else "not ")
  elif layer.bias.numpy().astype(np.float64).tolist() != b0:
    bias_fail = "the constraint applications changed the bias: %r -> %r" % (b0, layer.bias.numpy().tolist())
  # auxiliary (C07_idempotent / C07_order_irrelevant on the implementation): once both constraints
  # have been applied, applying them again, or having applied them in the other order, does not
  # change the function
  aux_fail = None
  if seen_k and seen_s:
    last_seg = segs[-1][0]
    layer.finalize_constraints()
    if layer.kernel.constraint is not None:
      layer.kernel.assign(layer.kernel.constraint(layer.kernel))
    if layer.scale.constraint is not None:
      layer.scale.assign(layer.scale.constraint(layer.scale))
    outs2 = _outs(layer(x), len(pts), units)
    for o1, o2, p in zip(outs, outs2, pts):
      for u in range(units):
        if abs(o1[u] - o2[u]) > rel * max(1.0, abs(o1[u])):
          aux_fail = "re-applying the constraints changed the output of unit %d at %r: %r -> %r" % (u, p[u], o1[u], o2[u])
    names = [s[0] for s in last_seg]
    if names in (["K", "S"], ["S", "K"]):
      layer.kernel.assign(np.array(kb_, dtype=dt)[None])
      layer.scale.assign(np.array(sb, dtype=dt))
      for nm in reversed(names):
        v = layer.kernel if nm == "K" else layer.scale
        if v.constraint is not None:
          v.assign(v.constraint(v))
      outs3 = _outs(layer(x), len(pts), units)
      for o1, o3, p in zip(outs, outs3, pts):
        for u in range(units):
          if abs(o1[u] - o3[u]) > rel * max(1.0, abs(o1[u])):
            aux_fail = "the order of kernel and scale constraint changes the output of unit %d at %r: %r vs %r" % (
                u, p[u], o1[u], o3[u])
  def tol(*vs):
    return rel * max([1.0] + [abs(v) for v in vs])
  def inr(p):
    return all(0.0 <= c <= L - 1 for r in p for c in r)
  # claims per C07_monotone_history / C07_bounded_history: monotone when a kernel constraint follows the last update of
  # kernel and scale; bounded when a kernel constraint follows the last KERNEL update and a scale constraint the last
  # SCALE update (the scale may change sign after the kernel constraint)
  if km and ms:
    for ln in d["lines"]:
      if not ms[ln["dim"]]:
        continue
      idx = [i for i in ln["idx"] if d["clip"] or inr(pts[i])]
      for a, b in zip(idx, idx[1:]):
        for u in range(units):
          if outs[b][u] < outs[a][u] - tol(outs[a][u], outs[b][u]):
            fail = ("output of unit %d decreases along monotone input %d: f(%r)=%r > f(%r)=%r" % (
                u, ln["dim"], pts[a][u], outs[a][u], pts[b][u], outs[b][u]))
  if kb and sf and bounded:
    for p, o in zip(pts, outs):
      if not (d["clip"] or inr(p)):
        continue
      for u in range(units):
        if d["omin"] is not None and o[u] < d["omin"] - tol(d["omin"]):
          fail = "output %r of unit %d at %r below output_min %r" % (o[u], u, p[u], d["omin"])
        if d["omax"] is not None and o[u] > d["omax"] + tol(d["omax"]):
          fail = "output %r of unit %d at %r above output_max %r" % (o[u], u, p[u], d["omax"])
  fail = fail or sign_fail or bias_fail or aux_fail
  mclass = "mNone" if ms is None else ("mEmpty" if not ms else
                                       ("m0" if not any(ms) else ("mall" if all(ms) else "msome")))
  bclass = ("min" if d["omin"] is not None else "") + ("max" if d["omax"] is not None else "") or "nob"
  names = "".join(s[0] for s in d["steps"])
  hclass = ("kupdate" if "B" in names else ("stale" if kb and sf and not km else "reassign")) if ("A" in names or "B" in names) \
      else (names if len(names) <= 2 else "repeat")
  klass = "layer_%s_%s_%s%s" % (mclass, bclass, hclass, "_f32" if f32 else "")
  return Case(d, coq=terms_coq, pred_fail=fail, nontrivial=changed, klass=klass,
              info={"impl_outputs": outs, "impl_kernel": ka, "impl_scale": sa})


def _eval_lib(tf, tfl, d):
  from tensorflow_lattice.python import kronecker_factored_lattice_lib as kl  # pylint: disable=g-import-not-at-top
  L, units, dims, terms = d["L"], d["units"], d["dims"], d["terms"]
  k0 = tf.constant(np.array(d["k0"], dtype=np.float64)[None])
  s0 = tf.constant(np.array(d["s0"], dtype=np.float64))
  fn = d["fn"]
  shape = "%s %s %s %s" % (cnat(L), cnat(units), cnat(dims), cnat(terms))
  coq, changed, info = None, True, {}
  if fn == "W":
    k1 = kl.finalize_weight_constraints(k0, units=units, scale=s0, monotonicities=d["ms"],
                                        output_min=d["omin"], output_max=d["omax"]).numpy()[0].tolist()
    coq = "CLibW %s %s %s %s %s %s %s" % (_cmonos(d["ms"]), copt(d["omin"]), copt(d["omax"]), shape,
                                           _ck(d["k0"]), cqm(d["s0"]), _ck(k1))
    changed = k1 != d["k0"]
    info = {"impl_kernel": k1}
  elif fn == "mono":
    f = getattr(kl, "_approximately_project_monotonicity", None)
    if f is not None:
      k1 = f(k0, units=units, scale=s0, monotonicities=d["ms"]).numpy()[0].tolist()
      coq = "CLibMono %s %s %s %s %s" % (clist([cbool(bool(m)) for m in d["ms"]]), shape, _ck(d["k0"]),
                                          cqm(d["s0"]), _ck(k1))
      changed = k1 != d["k0"]
      info = {"impl_kernel": k1}
  elif fn == "bounds":
    f = getattr(kl, "_approximately_project_bounds", None)
    if f is not None:
      k1 = f(k0, units=units, output_min=d["omin"], output_max=d["omax"]).numpy()[0].tolist()
      coq = "CLibBounds %s %s %s %s %s" % (copt(d["omin"]), copt(d["omax"]), shape, _ck(d["k0"]), _ck(k1))
      changed = k1 != d["k0"]
      info = {"impl_kernel": k1}
  elif fn == "scale":
    s1 = kl.finalize_scale_constraints(s0, output_min=d["omin"], output_max=d["omax"]).numpy().tolist()
    coq = "CLibScale %s %s %s %s" % (copt(d["omin"]), copt(d["omax"]), cqm(d["s0"]), cqm(s1))
    changed = s1 != d["s0"]
    info = {"impl_scale": s1}
  else:
    x, _ = _inputs(tf, d["pts"], units, dims, d["iform"])
    y = kl.evaluate_with_hypercube_interpolation(
        inputs=x, scale=s0, bias=tf.constant(np.array(d["b0"], dtype=np.float64)), kernel=k0, units=units,
        num_terms=terms, lattice_sizes=L, clip_inputs=d["clip"])
    outs = _outs(y, len(d["pts"]), units)
    coq = "CLibEval %s %s %s %s %s %s %s" % (cbool(d["clip"]), shape, _ck(d["k0"]), cqm(d["s0"]), cql(d["b0"]),
                                              _cpts(d["pts"]), cqm(outs))
    info = {"impl_outputs": outs}
  return Case(d, coq=coq, pred_fail=None, nontrivial=changed, klass="lib_%s" % fn, info=info)


def eval_cases(ctx, descs):
  tf, tfl = tfimpl.tfl()
  cases = []
  for d in descs:
    if d["kind"] == "layer":
      cases.append(_eval_layer(tf, tfl, d))
    else:
      cases.append(_eval_lib(tf, tfl, d))
  return cases


def _probe_d75(ctx):
  """Known finding D75 (the C07 face of D57): kernel constraint, then the scale changes sign, then only the scale
  constraint: both constraints 'have been applied', the output is inside the bounds but decreasing."""
  tf, tfl = tfimpl.tfl()
  l = tfl.layers.KroneckerFactoredLattice(lattice_sizes=2, num_terms=1, monotonicities=[1], output_min=0.0,
                                          output_max=1.0, dtype="float64")
  x = np.array([[0.0], [1.0]])
  l(x)
  l.kernel.assign(np.array([[[[0.0]], [[1.0]]]]))
  l.scale.assign([[1.0]])
  l.kernel.assign(l.kernel.constraint(l.kernel))
  l.scale.assign([[-1.0]])
  l.scale.assign(l.scale.constraint(l.scale))
  y = l(x).numpy().ravel()
  if y[0] > y[1] + 1e-9:
    return ("kernel.constraint, scale sign flip, scale.constraint on KroneckerFactoredLattice(2, monotonicities=[1], "
            "bounds [0,1]): f(0)=%g > f(1)=%g" % (y[0], y[1]))
  return None


KNOWN_PROBES = {"stale_kernel_constraint_after_scale_sign_change": _probe_d75}
