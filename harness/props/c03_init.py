"""C03, tie of the initial-value theorems (Props/C03.v section G, Harness/H_C03Init.v).

Builds real tfl.premade.CalibratedLattice (all_vertices) and CalibratedLinear models and
compares the FRESH weights of every constrained variable with the initial values the
theorems C03_init_feasible_xxx are about.  The Coq side gets the arguments from the model
CONFIG (feature list, keypoints, lattice sizes, output bounds, output_initialization),
not from the built layers: a builder that hands a different init range / monotonicity /
keypoint list to an initialiser is a disagreement here."""
import random
import numpy as np
import common
from common import cq, cql, cqm, clist, cnat, cnatl, cnatpairs, cbool, copt


def _range_term(m, kind, ls=None):
  if kind == "to_lattice":
    return "(InputToLattice %s)" % cnat(ls)
  if m["output_calibration"]:
    return "InputToFinalCalibration"
  return "(ModelOutput %s %s)" % (copt(m["output_min"]), copt(m["output_max"]))


def _mat(a):
  a = np.asarray(a, dtype=np.float64)
  return cqm([[float(v) for v in row] for row in a])


def _terms(c03, desc, model):
  """[(what, coq term)] for every constrained variable of the fresh model."""
  m = desc["model"]
  layers = {l.name: l for l in model.layers}
  feats = desc["features"]
  oi = cql([float(v) for v in m["output_init"]])
  out = []
  for f in feats:
    l = layers["tfl_calib_" + f["name"]]
    r = _range_term(m, "to_lattice" if m["kind"] == "lattice" else "model", f["ls"])
    if f["type"] == "cat":
      out.append(("categorical calibrator %s" % f["name"],
                  "(ICat %s %s %s)" % (cnatpairs(f["pairs"]), r, _mat(l.kernel.numpy()))))
      continue
    missing = []
    if l.impute_missing and l.missing_output_value is None and l.output_min is not None and l.output_max is not None:
      missing = [float(v) for v in l.missing_output.numpy().reshape(-1)]
    out.append(("PWL calibrator %s" % f["name"],
                "(IPwl %s %s %s %s %s %s %s)" % (cql([float(v) for v in f["kps"]]), c03._feat_term(f),
                                                 cbool(bool(f.get("always_monotonic", False))), r, oi,
                                                 _mat(l.kernel.numpy()), cql(missing))))
  if "tfl_output_calib" in layers:
    out.append(("output calibrator", "(IOutCal %s %s)" % (oi, _mat(layers["tfl_output_calib"].kernel.numpy()))))
  fts = clist([c03._feat_term(f) for f in feats])
  if m["kind"] == "linear":
    out.append(("linear layer", "(ILin %s %s)" % (fts, _mat(layers["tfl_linear_0"].kernel.numpy()))))
  else:
    l = layers["tfl_lattice_0"]
    out.append(("lattice layer",
                "(ILat %s %s %s %s %s %s %s)" % (cnatl([f["ls"] for f in feats]), fts,
                                                 "[%s]%%Z" % "; ".join("0" for _ in feats), cnat(1),
                                                 _range_term(m, "model"), oi, _mat(l.kernel.numpy()))))
  return out


def _e2e_term(c03, desc, model):
  """Coq case of Harness/H_C03E2E.v: the CONFIG of the model (not its layers) + points and the fresh model's outputs."""
  m = desc["model"]
  layers = {l.name: l for l in model.layers}
  feats = []
  for f in desc["features"]:
    if f["type"] == "cat":
      kern = [float(v) for v in layers["tfl_calib_" + f["name"]].kernel.numpy()[:, 0]]
      dv = "None" if f["default"] is None else "(Some (%d)%%Z)" % int(f["default"])
      feats.append("(FCat %s %s %s %s %s)" % (cnatpairs(f["pairs"]), cnat(f["nb"]), dv, cql(kern), cnat(f["ls"])))
    else:
      feats.append("(FNum (%d)%%Z %s %s (%d)%%Z %s %s)" % (
          int(f["dir"]), cbool(bool(f.get("always_monotonic", False))), cql([float(v) for v in f["kps"]]),
          int(f.get("convexity", 0)), copt(f["default"]), cnat(f["ls"])))
  rows, _ = c03._grid(desc)
  pick = list(range(0, min(24, len(rows)), 3)) + list(range(24, len(rows), max(1, (len(rows) - 24) // 6)))[:6]
  sel = [rows[i] for i in pick]
  out = model(c03._inputs(desc, sel), training=False).numpy().reshape(-1).astype(np.float64)
  raws = _feasible_update(desc, model)
  out2 = model(c03._inputs(desc, sel), training=False).numpy().reshape(-1).astype(np.float64)
  return "(mkC %s %s %s %s %s %s %s %s %s %s %s %s)" % (
      cbool(m["kind"] == "linear"), clist(feats), cbool(m["interpolation"] == "simplex"), cbool(bool(m["output_calibration"])),
      cbool(bool(m.get("use_bias", False))), copt(m["output_min"]), copt(m["output_max"]),
      cql([float(v) for v in m["output_init"]]), cqm([[float(v) for v in r] for r in sel]), cql([float(v) for v in out]),
      clist(raws), cql([float(v) for v in out2]))


def _span(lo, hi):
  """a non-empty interval inside the (possibly one-sided / absent) bounds"""
  if lo is None and hi is None:
    return -1.0, 2.0
  if lo is None:
    return hi - 3.0, hi
  if hi is None:
    return lo, lo + 3.0
  return lo, hi


def _f32(v):
  return [float(x) for x in np.asarray(v, dtype=np.float32)]


def _feasible_update(desc, model):
  """One optimizer-style update of the real model with raw values that are non-trivial (non-linear kernel,
  curved calibrators) but FEASIBLE: every variable is assigned, then every constraint is applied (what
  tf_keras Optimizer.apply_gradients does).  Returns the raw values as Coq rawv terms in state order."""
  m = desc["model"]
  layers = {l.name: l for l in model.layers}
  lattice = m["kind"] == "lattice"
  raws = []
  for f in desc["features"]:
    l = layers["tfl_calib_" + f["name"]]
    if lattice:
      lo, hi = 0.0, f["ls"] - 1.0
    elif m["output_calibration"]:
      lo, hi = 0.0, 1.0
    else:
      lo, hi = _span(m["output_min"], m["output_max"])
    if f["type"] == "cat":
      k0 = l.kernel.numpy()[:, 0].astype(np.float64)
      vals = _f32(lo + (k0 - lo) * 0.5 + (hi - lo) * 0.125)
      l.kernel.assign(np.asarray(vals, dtype=np.float32).reshape(-1, 1))
      raws.append("(RCat %s)" % cql(vals))
      continue
    k = np.asarray(f["kps"], dtype=np.float64)
    t = (k - k[0]) / (k[-1] - k[0])
    mono = f["dir"] if f["dir"] != 0 else (1 if f.get("always_monotonic", False) else 0)
    conv = int(f.get("convexity", 0))
    if mono == -1:
      t = 1.0 - t
    if conv == -1:
      y = 1.0 - (1.0 - t) ** 2
    elif conv == 1 or mono != 0:
      y = t ** 2
    else:
      y = (2.0 * t - 1.0) ** 2
    outs = lo + (hi - lo) * (0.125 + 0.75 * y)
    col = _f32([outs[0]] + list(np.diff(outs)))
    l.kernel.assign(np.asarray(col, dtype=np.float32).reshape(-1, 1))
    mo = "None"
    if l.impute_missing and l.missing_output_value is None:
      mv = _f32([lo + (hi - lo) * 0.3125])[0]
      l.missing_output.assign(np.asarray([[mv]], dtype=np.float32))
      mo = "(Some %s)" % cq(mv)
    raws.append("(RPwl %s %s)" % (cql(col), mo))
  n = len(desc["features"])
  if lattice:
    l = layers["tfl_lattice_0"]
    sizes = [f["ls"] for f in desc["features"]]
    lo, hi = (0.0, 1.0) if m["output_calibration"] else _span(m["output_min"], m["output_max"])
    flat = []
    for idx in np.ndindex(*sizes):
      ts = [i / (s - 1.0) for i, s in zip(idx, sizes)]
      g = (sum(x * x for x in ts) + float(np.prod(ts))) / (n + 1.0)
      flat.append(lo + (hi - lo) * (0.125 + 0.75 * g))
    flat = _f32(flat)
    l.kernel.assign(np.asarray(flat, dtype=np.float32).reshape(-1, 1))
    raws.append("(RLat %s)" % cql(flat))
  else:
    l = layers["tfl_linear_0"]
    weighted = m["output_min"] is not None or m["output_max"] is not None or m["output_calibration"]
    w = []
    for j, f in enumerate(desc["features"]):
      constrained = weighted or (f["type"] == "cat" and f["pairs"]) or (f["type"] == "num" and f["dir"] != 0)
      w.append((j + 1.0) if constrained else -0.5)
    w = np.asarray(w, dtype=np.float64)
    if weighted:
      w = w / w.sum()
    else:
      w = w * 0.25
    w = _f32(w)
    l.kernel.assign(np.asarray(w, dtype=np.float32).reshape(-1, 1))
    b = 0.0
    if l.use_bias:
      b = 0.375
      l.bias.assign(np.asarray(b, dtype=np.float32).reshape(l.bias.shape))
    raws.append("(RLin %s %s)" % (cql(w), cq(b)))
  if "tfl_output_calib" in layers:
    l = layers["tfl_output_calib"]
    lo, hi = _span(m["output_min"], m["output_max"])
    nk = l.kernel.shape[0]
    t = np.linspace(0.0, 1.0, nk)
    outs = lo + (hi - lo) * (0.125 + 0.75 * t ** 2)
    col = _f32([outs[0]] + list(np.diff(outs)))
    l.kernel.assign(np.asarray(col, dtype=np.float32).reshape(-1, 1))
    raws.append("(RPwl %s None)" % cql(col))
  for v in model.trainable_variables:
    if getattr(v, "constraint", None) is not None:
      v.assign(v.constraint(v))
  return raws


def replay_case(ctx, d, c03):
  """Re-runs one finding of the two ties on the model its desc determines."""
  desc = d["desc"]
  model = c03._build(desc, [])
  if d["kind"] == "e2e_tie":
    terms, hmod = [_e2e_term(c03, desc, model)], "H_C03E2E"
  else:
    terms, hmod = [t for _, t in _terms(c03, desc, model)], "H_C03Init"
  bad, errors = common.run_coq_cases(ctx, hmod, terms, shard=4)
  fail = None
  if errors:
    fail = "the comparison of Harness/%s.v could not run: %s" % (hmod, "; ".join(errors)[:300])
  elif bad:
    fail = ("fresh premade model differs from the model description / initial values of Props/C03.v "
            "(Harness/%s.v, %d of %d terms)" % (hmod, len(bad), len(terms)))
  return common.Case(d, coq=None, pred_fail=fail, klass=d["kind"])


def init_tie(ctx, stats, c03):
  rng = random.Random(ctx.seed * 7919 + 17)
  descs = []
  for i in range(ctx.n(6, 24)):
    kind = "linear" if i % 3 == 2 else "lattice"
    m, same = c03._model_desc(rng, kind)
    if m["param"] != "all_vertices":      # KFL parameters start from random draws: decided by check_wiring on every fresh model
      m["param"], same = "all_vertices", None
      m.pop("num_terms", None)
    if i % 3 != 0:
      m["output_calibration"] = False       # the init range is np.min / np.max of output_initialization
    if m["output_min"] is not None and m["output_max"] is not None and i % 2 == 0:
      # output_initialization STRICTLY inside the bounds (init range != output range), sorted: it also feeds the
      # output calibrator
      lo, hi = m["output_min"], m["output_max"]
      mid = [lo + (hi - lo) * rng.choice([0.25, 0.5, 0.5, 0.75]) for _ in range(rng.choice([0, 1, 2]))]
      m["output_init"] = sorted([lo + (hi - lo) * rng.choice([0.125, 0.25])] + mid + [lo + (hi - lo) * rng.choice([0.75, 0.875])])
    descs.append(dict(model=m, features=c03._features(rng, kind, same_size=same, max_vertices=36),
                      seed=rng.randrange(10 ** 6), ops=[]))
  terms, where = [], []
  e2e = []
  for d in descs:
    model = c03._build(d, [])
    for what, t in _terms(c03, d, model):
      terms.append(t)
      where.append((what, d))
    e2e.append(_e2e_term(c03, d, model))
  bad, errors = common.run_coq_cases(ctx, "H_C03Init", terms, shard=60)
  # section H: the model description built from the CONFIG, run through the layer machine's Init, against the fresh model
  bad2, errors2 = common.run_coq_cases(ctx, "H_C03E2E", e2e, shard=4)
  stats["fresh_models_end_to_end_description_compared_in_coq"] = len(e2e)
  stats["fresh_models_initial_values_compared_in_coq"] = len(descs)
  stats["fresh_variables_compared_in_coq"] = len(terms)
  out = []
  if errors:
    out.append(("init-tie-broken", "the initial-value comparison could not run: %s" % "; ".join(errors)[:600],
                {"case": {"kind": "init_tie"}}, False))
  if errors2:
    out.append(("e2e-tie-broken", "the end-to-end description comparison could not run: %s" % "; ".join(errors2)[:600],
                {"case": {"kind": "e2e_tie"}}, False))
  for i in bad2[:3]:
    out.append(("end-to-end-description-differs",
                "fresh premade model: the model description Props/C03.v section H quantifies over (built from the config "
                "by Harness/H_C03E2E.v cl_of / cn_of), taken through Init of the layer machine, does not compute the "
                "function of the freshly built Keras model, or of the model after one update (assign feasible non-linear "
                "raw values to every variable, apply every constraint); model=%s" % (str(descs[i]["model"])[:300],),
                {"case": {"kind": "e2e_tie", "desc": descs[i], "coq": e2e[i][:6000]}}, True))
  for i in bad[:3]:
    what, d = where[i]
    out.append(("initial-value-differs",
                "fresh premade model: the %s does not start from the value of Props/C03.v section G "
                "(C03_init_feasible_xxx speak about another initial value) model=%s" % (
                    what, str(d["model"])[:300]),
                {"case": {"kind": "init_tie", "what": what, "desc": d, "coq": terms[i][:4000]}}, True))
  return out
