"""C03, tie of the initial-value theorems (Props/C03.v section G, Harness/H_C03Init.v).

Builds real tfl.premade.CalibratedLattice (all_vertices) and CalibratedLinear models and
compares the FRESH weights of every constrained variable with the initial values the
theorems C03_init_feasible_xxx are about.  The Coq side gets the arguments from the model
CONFIG (feature list, keypoints, lattice sizes, output bounds, output_initialization),
not from the built layers: a builder that hands a different init range / monotonicity /
keypoint list to an initialiser is a disagreement here."""
import random
import numpy as np
import common
from common import cq, cql, cqm, clist, cnat, cnatl, cnatpairs, cbool, copt


def _range_term(m, kind, ls=None):
  if kind == "to_lattice":
    return "(InputToLattice %s)" % cnat(ls)
  if m["output_calibration"]:
    return "InputToFinalCalibration"
  return "(ModelOutput %s %s)" % (copt(m["output_min"]), copt(m["output_max"]))


def _mat(a):
  a = np.asarray(a, dtype=np.float64)
  return cqm([[float(v) for v in row] for row in a])


def _terms(c03, desc, model):
  """[(what, coq term)] for every constrained variable of the fresh model."""
  m = desc["model"]
  layers = {l.name: l for l in model.layers}
  feats = desc["features"]
  oi = cql([float(v) for v in m["output_init"]])
  out = []
  for f in feats:
    l = layers["tfl_calib_" + f["name"]]
    r = _range_term(m, "to_lattice" if m["kind"] == "lattice" else "model", f["ls"])
    if f["type"] == "cat":
      out.append(("categorical calibrator %s" % f["name"],
                  "(ICat %s %s %s)" % (cnatpairs(f["pairs"]), r, _mat(l.kernel.numpy()))))
      continue
    missing = []
    if l.impute_missing and l.missing_output_value is None and l.output_min is not None and l.output_max is not None:
      missing = [float(v) for v in l.missing_output.numpy().reshape(-1)]
    out.append(("PWL calibrator %s" % f["name"],
                "(IPwl %s %s %s %s %s %s %s)" % (cql([float(v) for v in f["kps"]]), c03._feat_term(f),
                                                 cbool(bool(f.get("always_monotonic", False))), r, oi,
                                                 _mat(l.kernel.numpy()), cql(missing))))
  if "tfl_output_calib" in layers:
    out.append(("output calibrator", "(IOutCal %s %s)" % (oi, _mat(layers["tfl_output_calib"].kernel.numpy()))))
  fts = clist([c03._feat_term(f) for f in feats])
  if m["kind"] == "linear":
    out.append(("linear layer", "(ILin %s %s)" % (fts, _mat(layers["tfl_linear_0"].kernel.numpy()))))
  else:
    l = layers["tfl_lattice_0"]
    out.append(("lattice layer",
                "(ILat %s %s %s %s %s %s %s)" % (cnatl([f["ls"] for f in feats]), fts,
                                                 "[%s]%%Z" % "; ".join("0" for _ in feats), cnat(1),
                                                 _range_term(m, "model"), oi, _mat(l.kernel.numpy()))))
  return out


def init_tie(ctx, stats, c03):
  rng = random.Random(ctx.seed * 7919 + 17)
  descs = []
  for i in range(ctx.n(6, 24)):
    kind = "linear" if i % 3 == 2 else "lattice"
    m, same = c03._model_desc(rng, kind)
    if m["param"] != "all_vertices":      # KFL parameters start from random draws: decided by check_wiring on every fresh model
      m["param"], same = "all_vertices", None
      m.pop("num_terms", None)
    if i % 3 != 0:
      m["output_calibration"] = False       # the init range is np.min / np.max of output_initialization
    if m["output_min"] is not None and m["output_max"] is not None and i % 2 == 0:
      # output_initialization STRICTLY inside the bounds (init range != output range), sorted: it also feeds the
      # output calibrator
      lo, hi = m["output_min"], m["output_max"]
      mid = [lo + (hi - lo) * rng.choice([0.25, 0.5, 0.5, 0.75]) for _ in range(rng.choice([0, 1, 2]))]
      m["output_init"] = sorted([lo + (hi - lo) * rng.choice([0.125, 0.25])] + mid + [lo + (hi - lo) * rng.choice([0.75, 0.875])])
    descs.append(dict(model=m, features=c03._features(rng, kind, same_size=same, max_vertices=36),
                      seed=rng.randrange(10 ** 6), ops=[]))
  terms, where = [], []
  for d in descs:
    model = c03._build(d, [])
    for what, t in _terms(c03, d, model):
      terms.append(t)
      where.append((what, d))
  bad, errors = common.run_coq_cases(ctx, "H_C03Init", terms, shard=60)
  stats["fresh_models_initial_values_compared_in_coq"] = len(descs)
  stats["fresh_variables_compared_in_coq"] = len(terms)
  out = []
  if errors:
    out.append(("init-tie-broken", "the initial-value comparison could not run: %s" % "; ".join(errors)[:600],
                {"case": {"kind": "init_tie"}}, False))
  for i in bad[:3]:
    what, d = where[i]
    out.append(("initial-value-differs",
                "fresh premade model: the %s does not start from the value of Props/C03.v section G "
                "(C03_init_feasible_xxx speak about another initial value) model=%s" % (
                    what, str(d["model"])[:300]),
                {"case": {"kind": "init_tie", "what": what, "desc": d, "coq": terms[i][:4000]}}, True))
  return out
