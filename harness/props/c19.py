"""C19 - Gradients delivered to training equal the true derivatives of layer functions."""
from fractions import Fraction
import numpy as np
from common import Case, cq, cql, cqm, clist, cnat, cnatl, cz, czl, copt, cbool, frac
import tfimpl

ID = "C19"
HMODULE = "H_C19"
FUNCTIONAL = True  # the property states gradient == formula; a disagreement is a failing input
RULE = ("tf.GradientTape gradients of the real code compared in Coq with the model: (prod) "
        "kfl_lib.custom_reduce_prod on float32 (tolerance 1e-5) and float64 (tolerance 1e-9) dyadic tensors of rank 1-4, "
        "every reduction axis (positive and "
        "negative), with exact zeros planted per slice along the reduced axis (none / one / several / all, "
        "incl. -0.0) and a random upstream gradient; (kfl) KroneckerFactoredLattice layer output, gradient "
        "w.r.t. kernel, scale and inputs for one unit, with kernels/inputs that make factors of the product exactly "
        "zero, clip_inputs on (points inside and outside the range) and off (points inside, and for half of the "
        "layers also outside the range: extrapolated / faded-out weights); "
        "(hyper/simplex/pwl/cat) gradient of one output of a float64 Lattice / PWLCalibration / "
        "CategoricalCalibration layer w.r.t. its kernel, for two different kernels, against the model's "
        "interpolation weights at interior, vertex/keypoint, boundary and out-of-range inputs, tensor and list "
        "input forms, units 1-3. Non-trivial = the slice set contains a zero or the point is not a vertex / the "
        "layer has > 1 unit; distinct = distinct descs.")
TRUSTED = ["model: Model/Gradients.v (hand-written from kronecker_factored_lattice_lib.custom_reduce_prod/"
           "evaluate_with_hypercube_interpolation, lattice_lib.compute_interpolation_weights/"
           "evaluate_with_simplex_interpolation, pwl_calibration_lib.compute_interpolation_weights + "
           "PWLCalibration.call, CategoricalCalibration.call)",
           "TensorFlow's reverse-mode autodiff of its built-in ops and of tf.custom_gradient plumbing is trusted; "
           "what is checked is the hand-written grad_fn and the structure of the evaluation expressions",
           "reference for the KFL input gradient: the same evaluation with custom_reduce_prod replaced by "
           "tf.reduce_prod (testing only, not modelled)"]
LIMITS = ["custom_reduce_prod itself is compared in float32 (1e-5) and float64 (1e-9); the KroneckerFactoredLattice "
          "LAYER cases run in float32 only (tolerance 1e-5)",
          "KFL inputs at integer distance from a lattice vertex (kinks of the 1-D weights) carry no input-gradient "
          "comparison; outside points with clip_inputs=False are chosen off those kinks",
          "PWLCalibration input_keypoints_type='learned_interior' (softmax of logits) is not covered; fixed keypoints only",
          "gradients w.r.t. INPUTS are compared with autodiff of the plain-product expression only (testing), "
          "at points where the interpolation is differentiable"]

TOL32 = 1e-5
TOL64 = 1e-9


def _dy(rng, lo, hi, denom):
  return rng.randint(int(lo * denom), int(hi * denom)) / float(denom)


def _nz(rng, denom=4, hi=4):
  v = 0.0
  while v == 0.0:
    v = _dy(rng, -hi, hi, denom)
  return v


# --------------------------------------------------------------------------
# generators
# --------------------------------------------------------------------------
def gen_prod(rng):
  rank = rng.choice([1, 2, 2, 3, 3, 4])
  shape = [rng.randint(1, 4) for _ in range(rank)]
  axis = rng.randrange(-rank, rank)
  n = shape[axis]
  others = [s for k, s in enumerate(shape) if k != axis % rank]
  m = int(np.prod(others)) if others else 1
  # a third of the cases run in float64 (finer dyadics: multiples of 1/64; products of <= 4 of them are exact)
  dtype = "float64" if rng.random() < 0.35 else "float32"
  rows, pats = [], []
  for _ in range(m):
    row = [_nz(rng, 64, 4) if dtype == "float64" else _nz(rng) for _ in range(n)]
    pat = rng.choice(["none", "one", "one", "several", "several", "all"])
    if pat == "one":
      k = 1
    elif pat == "several":
      k = rng.randint(2, n) if n >= 2 else 1
    elif pat == "all":
      k = n
    else:
      k = 0
    for i in rng.sample(range(n), k):
      row[i] = rng.choice([0.0, 0.0, 0.0, -0.0])
    rows.append(row)
    pats.append("none" if k == 0 else "one" if k == 1 else "all" if k == n else "several")
  arr = np.array(rows, dtype=np.float64).reshape(others + [n])
  t = np.moveaxis(arr, -1, axis % rank)
  g = [_dy(rng, -2, 2, 4) for _ in range(m)]
  g = np.array(g).reshape(others) if others else np.array(g[0])
  return dict(kind="prod", shape=shape, axis=axis, t=t.tolist(), g=g.tolist(), pats=sorted(set(pats)), dtype=dtype)


def _lattice_coord(rng, s, allow_out):
  c = rng.random()
  if c < 0.25:
    return float(rng.randint(0, s - 1))           # vertex
  if allow_out and c < 0.4:
    return rng.choice([-1.5, -0.25, s - 1 + 0.375, s + 1.0])  # outside the range
  return _dy(rng, 0, s - 1, 8)                    # inside (maybe on a face)


def gen_lattice(rng, interp):
  dims = rng.choice([1, 2, 2, 3, 3, 4])
  if interp == "hypercube" and rng.random() < 0.06:
    dims = rng.choice([8, 9])     # the matmul branch of batch_outer_operation (more than 6 outer products)
    sizes = [2] * dims
  elif rng.random() < 0.35:
    sizes = [2] * dims
  else:
    sizes = [rng.choice([2, 3, 3, 4]) for _ in range(dims)]
  units = rng.choice([1, 1, 2, 3])
  clip = rng.random() < 0.6
  as_list = rng.random() < 0.3
  # simplex interpolation without clipping gathers out of the kernel for out-of-range points (TF raises)
  allow_out = clip or (interp == "hypercube" and rng.random() < 0.3)
  xs = [[_lattice_coord(rng, s, allow_out) for s in sizes] for _ in range(units)]
  if rng.random() < 0.2 and dims >= 2:   # tied coordinates (simplex sort ties)
    for x in xs:
      x[1] = x[0] if x[0] <= sizes[1] - 1 else x[1]
  if dims >= 2 and rng.random() < 0.15:
    # per-dimension clipping of LIST inputs: mixed sizes and a coordinate above the range of a smaller dimension
    sizes = [rng.choice([2, 3]) for _ in range(dims)]
    big = rng.randrange(dims)
    sizes[big] = 4
    clip, as_list = True, True
    for x in xs:
      for k in range(dims):
        x[k] = min(x[k], sizes[k] - 1.0) if x[k] >= 0 else x[k]
      k = rng.choice([j for j in range(dims) if j != big])
      x[k] = sizes[k] - 1 + rng.choice([0.375, 1.0, 5.0])
  nv = int(np.prod(sizes))
  kernels = [[[_dy(rng, -8, 8, 8) for _ in range(units)] for _ in range(nv)] for _ in range(2)]
  return dict(kind="lattice", interp=interp, sizes=sizes, units=units, clip=clip, as_list=as_list,
              xs=xs, kernels=kernels)


def gen_pwl(rng):
  nk = rng.randint(2, 6)
  kp = [_dy(rng, -4, 0, 8)]
  tiny_at = rng.randrange(nk - 1) if rng.random() < 0.15 else None   # a pair of keypoints 2^-22 apart
  for j in range(nk - 1):
    kp.append(kp[-1] + (2.0 ** -22 if j == tiny_at else rng.choice([0.125, 0.5, 0.75, 1.0, 1.5, 3.0])))
  units = rng.choice([1, 1, 2, 3])
  cyclic = nk >= 3 and rng.random() < 0.35   # a cyclic calibrator needs >= 2 free weights
  missing_form = rng.choice(["none", "none", "value", "tensor"])
  missing_value = kp[0] - 1.0 if rng.random() < 0.5 else kp[rng.randrange(nk)] + 0.0625
  shared = units > 1 and rng.random() < 0.3 and missing_form != "tensor"

  def coord():
    c = rng.random()
    if c < 0.2: return kp[rng.randrange(nk)]
    if c < 0.3: return kp[0] - rng.choice([0.5, 2.0])
    if c < 0.4: return kp[-1] + rng.choice([0.5, 2.0])
    if c < 0.55 and missing_form == "value": return missing_value
    if c < 0.7: return _dy(rng, kp[-2], kp[-1], 16)   # last segment (the one a cyclic calibrator folds back)
    return _dy(rng, kp[0], kp[-1], 16)
  xs = [coord() for _ in range(units)]
  if tiny_at is not None:
    # a point strictly inside the 2^-22 piece (exact in float64): its weight is (x - kp) / 2^-22 = 1/4, 1/2 or 3/4
    xs[rng.randrange(units)] = kp[tiny_at] + rng.choice([0.25, 0.5, 0.75]) * 2.0 ** -22
  if shared:
    xs = [xs[0]] * units
  is_missing = [float(rng.random() < 0.4) for _ in range(units)] if missing_form == "tensor" else None
  nw = nk - (1 if cyclic else 0)
  kernels = [[[_dy(rng, -8, 8, 8) for _ in range(units)] for _ in range(nw)] for _ in range(2)]
  return dict(kind="pwl", keypoints=kp, units=units, cyclic=cyclic, missing_form=missing_form,
              missing_value=missing_value, shared=shared, xs=xs, is_missing=is_missing, kernels=kernels)


def gen_cat(rng):
  nb = rng.randint(2, 6)
  units = rng.choice([1, 1, 2, 3])
  default = rng.choice([None, None, -1, nb + 3, 0])
  idx = []
  for _ in range(units):
    c = rng.random()
    if c < 0.15: idx.append(rng.choice([-1, -2, nb, nb + 1]))
    elif c < 0.35 and default is not None: idx.append(default)
    else: idx.append(rng.randrange(nb))
  float_input = rng.random() < 0.4
  kernels = [[[_dy(rng, -8, 8, 8) for _ in range(units)] for _ in range(nb)] for _ in range(2)]
  return dict(kind="cat", nb=nb, units=units, default=default, idx=idx, float_input=float_input, kernels=kernels)


def gen_kfl(rng):
  size = rng.choice([2, 2, 3, 4])
  dims = rng.randint(1, 4)
  units = rng.choice([1, 1, 2, 3])
  T = rng.randint(1, 3)
  clip = rng.random() < 0.7
  # clip_inputs=False: half of the layers are also evaluated OUTSIDE [0, size-1], where the weights are
  # extrapolated ([1 - x, x] for size 2) or fade out (hat weights); never at integer distance from a vertex
  outside_noclip = not clip and rng.random() < 0.5
  xs = []
  for _ in range(units):
    x = []
    for _ in range(dims):
      c = rng.random()
      if c < 0.45: x.append(float(rng.randint(0, size - 1)))
      elif c < 0.62 and clip: x.append(rng.choice([-0.75, size - 1 + 0.5]))
      elif c < 0.7 and outside_noclip: x.append(rng.choice([-0.75, -1.5, size - 1 + 0.5, size + 0.25]))
      else: x.append(rng.randint(0, (size - 1) * 4 - 1) / 4.0 + 0.125)   # never an integer: differentiable in x
    if outside_noclip and all(0.0 <= v <= size - 1.0 for v in x):
      x[rng.randrange(dims)] = rng.choice([-0.75, -1.5, size - 1 + 0.5, size + 0.25])
    xs.append(x)
  # kernel[k][u*dims+d][t]
  kernel = [[[_nz(rng, 4, 2) for _ in range(T)] for _ in range(units * dims)] for _ in range(size)]
  zero_mode = rng.choice(["none", "some", "some", "many"])
  nzero = 0
  for u in range(units):
    for d in range(dims):
      for t in range(T):
        p = {"none": 0.0, "some": 0.25, "many": 0.7}[zero_mode]
        if rng.random() < p:
          nzero += 1
          xv = min(max(xs[u][d], 0.0), size - 1.0) if clip else xs[u][d]
          for k in range(size):
            if abs(xv - k) < 1 or (size == 2 and not 0.0 <= xv <= 1.0) or rng.random() < 0.3:
              kernel[k][u * dims + d][t] = 0.0
  scale = [[_dy(rng, -2, 2, 4) for _ in range(T)] for _ in range(units)]
  bias = [_dy(rng, -2, 2, 4) for _ in range(units)]
  return dict(kind="kfl", size=size, dims=dims, units=units, T=T, clip=clip, xs=xs, kernel=kernel,
              scale=scale, bias=bias, unit=rng.randrange(units), zero_mode=zero_mode if nzero else "none")


def gen_descs(ctx):
  rng = ctx.rng
  out = []
  # the two witnesses of Props/C19.v *_refuted (clip_inputs=False, point outside the range), replayed on the
  # real layer on every run; the model must reproduce the implementation's non-convex weights
  for sizes, x in (([2], [1.5]), ([3], [2.5])):
    for as_list in (False, True):
      out.append(dict(kind="lattice", interp="hypercube", sizes=sizes, units=1, clip=False, as_list=as_list,
                      xs=[x], kernels=[[[0.5]] * sizes[0], [[-1.0 * k] for k in range(sizes[0])]]))
  for _ in range(ctx.n(160, 3000)): out.append(gen_prod(rng))
  for _ in range(ctx.n(90, 1200)): out.append(gen_kfl(rng))
  for _ in range(ctx.n(110, 1000)): out.append(gen_lattice(rng, "hypercube"))
  for _ in range(ctx.n(110, 1000)): out.append(gen_lattice(rng, "simplex"))
  for _ in range(ctx.n(70, 1000)): out.append(gen_pwl(rng))
  for _ in range(ctx.n(30, 500)): out.append(gen_cat(rng))
  return out


# --------------------------------------------------------------------------
# implementation runners
# --------------------------------------------------------------------------
def _close(a, b, tol):
  return abs(a - b) <= tol * max(1.0, abs(b))


def _cube(c):
  return clist([cqm(m) for m in c])


def eval_prod(tf, kfl_lib, d):
  f64 = d.get("dtype", "float32") == "float64"
  npdt = np.float64 if f64 else np.float32
  tol = TOL64 if f64 else TOL32
  t = tf.constant(np.array(d["t"], dtype=npdt))
  g = tf.constant(np.array(d["g"], dtype=npdt))
  rank = len(d["shape"])
  axis = d["axis"]
  n = d["shape"][axis]
  with tf.GradientTape() as tape:
    tape.watch(t)
    y = kfl_lib.custom_reduce_prod(t, axis)
  grad = tape.gradient(y, t, output_gradients=g).numpy()
  rows = np.moveaxis(np.array(d["t"], dtype=np.float64), axis % rank, -1).reshape(-1, n)
  grows = np.moveaxis(grad.astype(np.float64), axis % rank, -1).reshape(-1, n)
  dys = np.array(d["g"], dtype=np.float64).reshape(-1)
  fwd = y.numpy().astype(np.float64).reshape(-1)
  fail = None
  if fwd.shape[0] != rows.shape[0]:
    fail = "custom_reduce_prod output has %d slices, expected %d" % (fwd.shape[0], rows.shape[0])
  else:
    # the property itself on the implementation: gradient == dy * product of the other entries
    for r in range(rows.shape[0]):
      fr = [frac(v) for v in rows[r]]
      for i in range(n):
        want = frac(dys[r])
        for j in range(n):
          if j != i:
            want *= fr[j]
        if not _close(float(grows[r][i]), float(want), tol):
          fail = ("custom_reduce_prod gradient differs from the derivative of the plain product: slice %r "
                  "(upstream %r) position %d: got %r, derivative %r" % ([float(v) for v in rows[r]], float(dys[r]), i,
                                                                        float(grows[r][i]), float(want)))
          break
      if fail: break
  if y.dtype != t.dtype or grad.dtype != npdt:
    fail = fail or "custom_reduce_prod on %s returned %s with a %s gradient" % (t.dtype.name, y.dtype.name, grad.dtype)
  coq = "%s %s %s %s %s" % ("CProd64" if f64 else "CProd", cqm(rows.tolist()), cql(dys.tolist()), cql(fwd.tolist()),
                            cqm(grows.tolist()))
  klass = "prod%s_ax%s_%s" % ("64" if f64 else "", "neg" if axis < 0 else "pos", "+".join(d["pats"]))
  return Case(d, coq=coq, pred_fail=fail, nontrivial=(d["pats"] != ["none"]), klass=klass,
              info={"impl_grad": grows.tolist(), "impl_fwd": fwd.tolist()})


def _unit_grads(tf, layer, call, units):
  """For each unit u: (output u, gradient of output u w.r.t. layer.kernel as ndarray)."""
  with tf.GradientTape(persistent=True) as tape:
    y = call()
    if isinstance(y, list):
      y = tf.concat(y, axis=1)
    ys = [y[0, u] for u in range(units)]
  out = []
  for u in range(units):
    g = tape.gradient(ys[u], layer.kernel)
    out.append((float(ys[u].numpy()), np.zeros(layer.kernel.shape) if g is None else tf.convert_to_tensor(g).numpy()))
  del tape
  return out


def _kernel_grad_cases(tf, layer, call, units, kernels):
  """Returns (grads[kernel][unit] -> column u of d out_u / d kernel, fail or None)."""
  fail = None
  grads = []
  for K in kernels:
    Ka = np.array(K, dtype=layer.kernel.dtype.as_numpy_dtype)
    layer.kernel.assign(Ka)
    per_unit = []
    for u, (yu, g) in enumerate(_unit_grads(tf, layer, call, units)):
      col = g[:, u]
      other = np.delete(g, u, axis=1)
      if other.size and np.max(np.abs(other)) > 1e-12:
        fail = fail or "gradient of output %d w.r.t. another unit's kernel column is not zero" % u
      per_unit.append([float(v) for v in col])
    grads.append(per_unit)
  for u in range(units):
    if any(abs(a - b) > 1e-12 for a, b in zip(grads[0][u], grads[1][u])):
      fail = fail or "kernel gradient of output %d depends on the kernel's value: %r vs %r" % (
          u, grads[0][u], grads[1][u])
  return grads, fail


def eval_lattice(tf, tfl, d):
  sizes, units, dims = d["sizes"], d["units"], len(d["sizes"])
  layer = tfl.layers.Lattice(lattice_sizes=sizes, units=units, interpolation=d["interp"],
                             clip_inputs=d["clip"], dtype="float64")
  xs = np.array(d["xs"], dtype=np.float64)   # (units, dims)
  x = xs[0][None, :] if units == 1 else xs[None, :, :]
  if d["as_list"]:
    inp = [tf.constant(x[..., k:k + 1]) for k in range(dims)]
  else:
    inp = tf.constant(x)
  layer(inp)  # builds
  grads, fail = _kernel_grad_cases(tf, layer, lambda: layer(inp), units, d["kernels"])
  in_domain = d["clip"] or all(0 <= v <= s - 1 for row in d["xs"] for v, s in zip(row, sizes))
  if in_domain and fail is None:
    for u in range(units):
      g = grads[0][u]
      if min(g) < -1e-12:
        fail = "Lattice kernel gradient (interpolation weights) has a negative entry %r at x=%r" % (min(g), d["xs"][u])
      elif abs(sum(g) - 1.0) > 1e-9:
        fail = "Lattice kernel gradient (interpolation weights) sums to %r, not 1, at x=%r" % (sum(g), d["xs"][u])
  if not in_domain and fail is None:
    # unclipped input outside the lattice range: the statement's "(non-negative, summing to one for Lattice)" is not
    # met there (known finding D69; theorems C19_lattice_unclipped_outside_*_refuted)
    for u in range(units):
      g = grads[0][u]
      if min(g) < -1e-12 or abs(sum(g) - 1.0) > 1e-9:
        fail = ("unclipped out-of-range input: Lattice kernel gradient (interpolation weights) has minimum %r and sum %r "
                "at x=%r" % (min(g), sum(g), d["xs"][u]))
        break
  if d["interp"] == "hypercube":
    coq = "CHyper %s %s %s %s %s" % (cbool(d["clip"]), cbool(d["as_list"]), cnatl(sizes), cqm(d["xs"]), _cube(grads))
  else:
    coq = "CSimplex %s %s %s %s" % (cbool(d["clip"]), cnatl(sizes), cqm(d["xs"]), _cube(grads))
  vertex = all(float(v).is_integer() for row in d["xs"] for v in row)
  klass = "%s_%s_u%d_%s%s%s" % (d["interp"][:5], "all2" if all(s == 2 for s in sizes) else "gen", min(units, 2),
                                "clip" if d["clip"] else "noclip", "_list" if d["as_list"] else "",
                                "" if in_domain else "_outside")
  return Case(d, coq=coq, pred_fail=fail, nontrivial=(not vertex or units > 1), klass=klass,
              info={"impl_kernel_grads": grads})


def eval_pwl(tf, tfl, d):
  units, kp = d["units"], d["keypoints"]
  kw = {}
  if d["missing_form"] == "value":
    kw = dict(impute_missing=True, missing_input_value=d["missing_value"])
  elif d["missing_form"] == "tensor":
    kw = dict(impute_missing=True)
  layer = tfl.layers.PWLCalibration(input_keypoints=kp, units=units, is_cyclic=d["cyclic"], dtype="float64", **kw)
  x = np.array([d["xs"][:1]] if d["shared"] else [d["xs"]], dtype=np.float64)   # (1, 1) or (1, units)
  inp = tf.constant(x)
  if d["missing_form"] == "tensor":
    inp = [inp, tf.constant(np.array([d["is_missing"]], dtype=np.float64))]
  layer(inp)
  grads, fail = _kernel_grad_cases(tf, layer, lambda: layer(inp), units, d["kernels"])
  if d["missing_form"] == "tensor":
    miss = d["is_missing"]
  elif d["missing_form"] == "value":
    miss = [1.0 if v == d["missing_value"] else 0.0 for v in d["xs"]]
  else:
    miss = [0.0] * units
  kps = kp[:-1]
  lens = [b - a for a, b in zip(kp[:-1], kp[1:])]
  coq = "CPwl %s %s %s %s %s %s" % (cbool(d["cyclic"]), cql(kps), cql(lens), cql(d["xs"]), cql(miss), _cube(grads))
  klass = "pwl_u%d%s%s_%s" % (min(units, 2), "_cyclic" if d["cyclic"] else "", "_shared" if d["shared"] else "",
                              d["missing_form"])
  return Case(d, coq=coq, pred_fail=fail, nontrivial=True, klass=klass, info={"impl_kernel_grads": grads})


def eval_cat(tf, tfl, d):
  units, nb = d["units"], d["nb"]
  # float32: the layer's tf.one_hot is float32 whatever the layer dtype (a float64 layer raises in matmul);
  # the gradients are exactly 0 or 1 anyway
  layer = tfl.layers.CategoricalCalibration(num_buckets=nb, units=units, default_input_value=d["default"])
  x = np.array([d["idx"]] if units > 1 else [[d["idx"][0]]])
  inp = tf.constant(x.astype(np.float32 if d["float_input"] else np.int32))
  layer(inp)
  grads, fail = _kernel_grad_cases(tf, layer, lambda: layer(inp), units, d["kernels"])
  coq = "CCat %s %s %s %s" % (cnat(nb), copt(d["default"], cz), czl(d["idx"]), _cube(grads))
  klass = "cat_u%d%s%s" % (min(units, 2), "_default" if d["default"] is not None else "",
                           "_float" if d["float_input"] else "")
  return Case(d, coq=coq, pred_fail=fail, nontrivial=True, klass=klass, info={"impl_kernel_grads": grads})


def eval_kfl(tf, tfl, kfl_lib, d):
  size, dims, units, T, u = d["size"], d["dims"], d["units"], d["T"], d["unit"]
  layer = tfl.layers.KroneckerFactoredLattice(lattice_sizes=size, units=units, num_terms=T, clip_inputs=d["clip"])
  xs = np.array(d["xs"], dtype=np.float32)
  x = tf.constant(xs[0][None, :] if units == 1 else xs[None, :, :])
  layer(x)
  layer.kernel.assign(np.array(d["kernel"], dtype=np.float32)[None, ...])
  layer.scale.assign(np.array(d["scale"], dtype=np.float32))
  layer.bias.assign(np.array(d["bias"], dtype=np.float32))

  def grads():
    with tf.GradientTape() as tape:
      tape.watch(x)
      y = layer(x)
      yu = y[0, u]
    gk, gs, gx = tape.gradient(yu, [layer.kernel, layer.scale, x])
    return float(yu.numpy()), gk.numpy().astype(np.float64), gs.numpy().astype(np.float64), gx.numpy().astype(np.float64)
  out, gk, gs, gx = grads()
  # the mathematically identical expression: same evaluation with the plain built-in product
  saved = kfl_lib.custom_reduce_prod
  kfl_lib.custom_reduce_prod = lambda t, axis: tf.reduce_prod(t, axis=axis)
  try:
    rout, rgk, rgs, rgx = grads()
  finally:
    kfl_lib.custom_reduce_prod = saved
  fail = None
  for name, a, b in (("kernel", gk, rgk), ("scale", gs, rgs), ("inputs", gx, rgx)):
    err = np.abs(a - b) - TOL32 * np.maximum(1.0, np.abs(b))
    if np.max(err) > 0:
      pos = np.unravel_index(np.argmax(err), err.shape)
      fail = ("KFL gradient w.r.t. %s differs from autodiff of the plain tf.reduce_prod expression at %r: "
              "%r vs %r" % (name, tuple(int(p) for p in pos), float(a[pos]), float(b[pos])))
      break
  if fail is None and not _close(out, rout, TOL32):
    fail = "KFL output %r differs from the plain-product expression %r" % (out, rout)
  # Ks[t][d][k] = kernel[k][u*dims+d][t]
  Ks = [[[d["kernel"][k][u * dims + dd][t] for k in range(size)] for dd in range(dims)] for t in range(T)]
  gK = [[[float(gk[0, k, u * dims + dd, t]) for k in range(size)] for dd in range(dims)] for t in range(T)]
  other = np.delete(gk[0], list(range(u * dims, (u + 1) * dims)), axis=1)
  if fail is None and other.size and np.max(np.abs(other)) > 1e-12:
    fail = "gradient of KFL output %d w.r.t. another unit's kernel is not zero" % u
  gxu = gx[0] if units == 1 else gx[0, u]

  def kink(v):   # input on a kink of its 1-D interpolation weights: not differentiable, not compared
    return float(v).is_integer() and (size != 2 or (d["clip"] and v in (0.0, 1.0)))
  gxo = [None if kink(v) else float(g) for v, g in zip(d["xs"][u], gxu)]
  coq = "CKfl %s %s %s %s %s %s %s %s %s %s" % (
      cbool(d["clip"]), cnat(size), cql(d["xs"][u]), cq(d["bias"][u]), cql(d["scale"][u]), _cube(Ks),
      cq(out), _cube(gK), cql([float(v) for v in gs[u]]), clist([copt(g) for g in gxo]))
  outside = any(not 0.0 <= v <= size - 1.0 for v in d["xs"][u])
  klass = "kfl_s%d_u%d_%s_zeros-%s" % (min(size, 3), min(units, 2),
                                       "clip" if d["clip"] else ("noclip-outside" if outside else "noclip"), d["zero_mode"])
  return Case(d, coq=coq, pred_fail=fail, nontrivial=True, klass=klass,
              info={"impl_out": out, "impl_grad_kernel_unit": gK, "impl_grad_scale": gs[u].tolist(),
                    "impl_grad_inputs": gx.tolist(), "reference_grad_inputs": rgx.tolist()})


def eval_cases(ctx, descs):
  tf, tfl = tfimpl.tfl()
  from tensorflow_lattice.python import kronecker_factored_lattice_lib as kfl_lib  # pylint: disable=g-import-not-at-top
  cases = []
  for d in descs:
    k = d["kind"]
    try:
      if k == "prod":
        cases.append(eval_prod(tf, kfl_lib, d))
      elif k == "lattice":
        cases.append(eval_lattice(tf, tfl, d))
      elif k == "pwl":
        cases.append(eval_pwl(tf, tfl, d))
      elif k == "cat":
        cases.append(eval_cat(tf, tfl, d))
      elif k == "kfl":
        cases.append(eval_kfl(tf, tfl, kfl_lib, d))
      else:
        raise ValueError("unknown case kind %r" % k)
    except (tf.errors.OpError, ValueError, TypeError) as e:
      # every generated configuration is valid and inside the domain: an exception is a failing input
      cases.append(Case(d, coq=None, klass="raised_" + k,
                        pred_fail="%s case: the implementation raised %s: %s" % (
                            k, type(e).__name__, " ".join(str(e).split())[:300])))
  return cases


def _d69(case):
  d = case.desc
  return (d.get("kind") == "lattice" and not d.get("clip") and
          (case.pred_fail or "").startswith("unclipped out-of-range input: Lattice kernel gradient"))


KNOWN_CLASSES = dict(globals().get("KNOWN_CLASSES", {}), lattice_weights_unclipped_outside=_d69)
