"""C08 - Iterative (Dykstra) projection: feasible fixed, converges to the L2-nearest point."""
import itertools
import json
import random
import numpy as np
from common import Case, cq, cql, cqm, clist, cnat, cnatl, copt, czl, cz, cbool, cnatpairs
import latgen
import latpred
import tfimpl
from props import c04 as pwl

ID = "C08"
HMODULE = "H_C08"
RULE = ("lattice_lib.project_by_dykstra on random valid configurations: every family singly and in "
        "combinations (monotonicity, unimodality, Edgeworth / trapezoid trusts of both directions, monotonic and "
        "range dominance, joint monotonicity, joint unimodality), rank 1-4, sizes 2-4, units 1-3, iterations 0-6; "
        "kernels: random, far, ties, constant, additive monotone kernels that are feasible for most configs, and "
        "'feasible_rich' kernels (latgen.feasible_rich: NNLS projection of a random kernel onto the polyhedron of ALL "
        "configured families, made exactly representable and re-checked with the exact predicates: ties, active and "
        "slack constraints, not additive) that every iteration count must return unchanged. "
        "The Coq model runs the same sweeps. PWL: project_all_constraints with 0-12 iterations (model of C04). "
        "Implementation-side predicates: a feasible kernel is returned unchanged; for the six exact families the "
        "result of any generated number of sweeps is not farther from a feasible kernel (constant kernel; NNLS-"
        "nearest feasible kernel) than the input was (the proved Fejer-type bound); and (testing, named as such) "
        "for the six families whose limit must be the nearest point, the result of 300 sweeps is compared with the "
        "exact Euclidean projection computed independently (NNLS on the dual) and re-projecting it must not move "
        "it. The same test for the PWL calibrator (monotonicity +1/-1 with BOUND / CLAMPED bounds, no convexity): "
        "project_all_constraints with 300 iterations against the exact projection onto the feasible columns "
        "(least-distance programming via NNLS, constraints written on every keypoint output). "
        "Non-trivial = projection changed the kernel; distinct = distinct (config, kernel).")
TRUSTED = ["model: Model/LatticeDykstra.v (hand-written from lattice_lib.project_by_dykstra and the eight "
           "_project_partial_* functions) and Model/PWLProject.v",
           "convergence of Dykstra's iterates (Boyle-Dykstra 1986) is cited, not proved; its consequence is "
           "tested numerically against an independent exact projection (scipy NNLS)",
           "tie: project_by_dykstra / project_all_constraints on float64 kernels; compared in Coq"]
LIMITS = ["asymptotic statements (violation -> 0, closeness of the strict constraint at finite n) are tested, not proved",
          "float rounding outside the model (tolerance 1e-9)"]
SHARD = 40


def single_family_cfg(rng):
  """A configuration exercising mostly one family (so that every family is hit often)."""
  fam = rng.choice(["mono", "uni", "edge", "trap", "mdom", "rdom", "jmono", "juni", "mix", "mix", "cancel"])
  if fam == "mix":
    cfg = latgen.gen_cfg(rng, max_vertices=48)
    cfg["fam"] = "mix"
    return cfg
  rank = rng.choice([1, 2, 2, 3])
  if fam in ("edge", "trap", "mdom", "rdom", "jmono", "cancel") and rank < 2:
    rank = 2
  if fam == "juni" and rng.random() < 0.5:
    rank = rng.choice([2, 2, 3])
  while True:
    sizes = [rng.choice([2, 3, 3, 4, 5]) for _ in range(rank)]
    if int(np.prod(sizes)) <= 50:
      break
  cfg = dict(sizes=sizes, units=rng.choice([1, 1, 2]), monos=[0] * rank, edge=[], trap=[], uni=[0] * rank,
             mdom=[], rdom=[], jmono=[], juni=[], omin=None, omax=None, fam=fam)
  if fam == "mono":
    cfg["monos"] = [rng.choice([0, 1, 1]) for _ in range(rank)]
    if not any(cfg["monos"]):
      cfg["monos"][0] = 1
  elif fam == "cancel":
    # per-dimension flags whose SUM is zero (increasing = +1, valley = +1, peak = -1): a shortcut that tests the sum
    # instead of counting the non-zero flags would skip the whole projection
    a, b = rng.sample(range(rank), 2)
    cfg["sizes"][b] = rng.choice([3, 4])
    cfg["uni"][b] = -1
    if rng.random() < 0.5:
      cfg["monos"][a] = 1
    else:
      cfg["sizes"][a] = rng.choice([3, 4])
      cfg["uni"][a] = 1
    cfg["fam"] = "uni"
  elif fam == "uni":
    d = rng.randrange(rank)
    cfg["sizes"][d] = rng.choice([3, 4, 5])
    cfg["uni"][d] = rng.choice([-1, 1])
  elif fam in ("edge", "trap"):
    m, c = rng.sample(range(rank), 2)
    cfg["monos"][m] = 1
    if rng.random() < 0.4:
      cfg["monos"][c] = 1
    cfg[fam] = [[m, c, rng.choice([-1, 1])]]
  elif fam in ("mdom", "rdom"):
    a, b = rng.sample(range(rank), 2)
    cfg["monos"][a] = cfg["monos"][b] = 1
    cfg[fam] = [[a, b]]
  elif fam == "jmono":
    a, b = rng.sample(range(rank), 2)
    cfg["jmono"] = [[a, b]]
    if rng.random() < 0.5:
      cfg["monos"][a] = 1
  elif fam == "juni":
    if rank == 3 and rng.random() < 0.25:
      # three jointly unimodal dimensions (3x3x3): the 2^3 offset patterns of junimod_group
      cfg["sizes"] = [3, 3, 3]
      cfg["juni"] = [[rng.sample(range(3), 3), rng.choice(["valley", "peak"])]]
      return cfg
    k = rng.randint(1, min(2, rank))
    dims = rng.sample(range(rank), k)
    for d in dims:
      cfg["sizes"][d] = rng.choice([3, 3, 4])
    cfg["juni"] = [[dims, rng.choice(["valley", "peak"])]]
    rest = [d for d in range(rank) if d not in dims]
    if len(rest) >= k and rng.random() < 0.6:
      # a second group of the SAME arity (their roll-back terms must be kept apart by the dimensions)
      dims2 = rng.sample(rest, k)
      for d in dims2:
        cfg["sizes"][d] = 3
      if int(np.prod(cfg["sizes"])) <= 81:
        cfg["juni"].append([dims2, rng.choice(["valley", "peak"])])
  return cfg


def feasible_candidate(rng, cfg):
  """Additive kernel increasing in the monotone dims, constant elsewhere."""
  sizes = cfg["sizes"]
  coef = [rng.choice([0.0, 0.5, 1.0, 2.0]) if cfg["monos"][d] else 0.0 for d in range(len(sizes))]
  for a, b in cfg["mdom"]:
    if coef[a] < coef[b]:
      coef[a], coef[b] = coef[b], coef[a]
  base = tfimpl.dy(rng, -2, 2)
  col = [base + sum(c * v for c, v in zip(coef, idx)) for idx in itertools.product(*[range(s) for s in sizes])]
  return [[x * (u + 1) for u in range(cfg["units"])] for x in col]


def fixed_cfgs():
  """Configurations that particular seeded changes needed in order to manifest (seeded/C08-m1..m5); generated on every
  run so that detection does not depend on the seed."""
  def cfg(sizes, **kw):
    r = len(sizes)
    c = dict(sizes=sizes, units=1, monos=[0] * r, edge=[], trap=[], uni=[0] * r, mdom=[], rdom=[], jmono=[], juni=[],
             omin=None, omax=None, fam="fixed")
    c.update(kw)
    return c
  return [
      cfg([2, 3], monos=[1, 0], edge=[[0, 1, 1]]),                      # Edgeworth: main size 2, conditional size 3
      cfg([3, 2], monos=[1, 0], edge=[[0, 1, -1]]),                     # ... and the other way round
      cfg([2, 4], monos=[1, 0], edge=[[0, 1, 1]], units=2),
      cfg([4], uni=[1]), cfg([4, 2], uni=[-1, 0]), cfg([6], uni=[-1]),  # unimodal dimensions of even size
      cfg([3, 3], monos=[1, 0], uni=[0, -1]), cfg([3, 3], uni=[1, -1]),  # per-dimension flags whose sum cancels
      cfg([3, 3], juni=[[[0], "valley"], [[1], "peak"]]),               # two joint-unimodality groups of equal arity
      cfg([3, 3], juni=[[[0], "peak"], [[1], "peak"]]),
      cfg([3, 3, 3], juni=[[[0, 1], "valley"], [[2, 0], "peak"]]),
  ]


def gen_descs(ctx):
  rng = ctx.rng
  out = []
  for cfg in fixed_cfgs():
    for klass, iters in (("random", 2), ("far", 1)):
      out.append(dict(kind="dyk", cfg=cfg, kclass=klass, w=latgen.gen_kernel(rng, cfg, klass), iters=iters))
    out.append(dict(kind="converge", cfg=cfg, w=latgen.gen_kernel(rng, cfg, "random"), iters=300))
  for _ in range(ctx.n(150, 3000)):
    cfg = single_family_cfg(rng)
    klass = rng.choice(["random", "random", "far", "ties", "constant", "feasible", "feasible", "feasible_rich",
                        "feasible_rich"])
    w = None
    if klass == "feasible_rich":
      # meets EVERY configured family exactly (project_by_dykstra knows no bounds); constant when the generator
      # finds no other exactly representable kernel
      w, _ = latgen.feasible_rich(rng, cfg, with_bounds=False)
      if w is None:
        klass = "constant"
    if w is None:
      w = feasible_candidate(rng, cfg) if klass == "feasible" else latgen.gen_kernel(rng, cfg, klass)
    out.append(dict(kind="dyk", cfg=cfg, kclass=klass, w=w, iters=rng.choice([0, 1, 1, 2, 3, 6])))
  for d in pwl.gen_descs(ctx)[:ctx.n(60, 1500)]:
    if d["kind"] == "proj" and not d.get("cyclic"):
      d = dict(d, kind="pwl", via_layer=False)
      d.pop("dtype", None)     # float64, direct constraint object (the float32 / layer routes belong to C04)
      out.append(d)
  # nearest-point tests (implementation only): exact families, one unit, small lattices
  for _ in range(ctx.n(6, 150)):
    while True:
      cfg = single_family_cfg(rng)
      if not cfg["rdom"] and not cfg["juni"] and int(np.prod(cfg["sizes"])) <= 27:
        break
    cfg["units"] = 1
    out.append(dict(kind="nearest", cfg=cfg, w=latgen.gen_kernel(rng, cfg, rng.choice(["random", "far"])), iters=300))
  # convergence tests (implementation only), ALL eight families and mixtures: the violation tends to zero and a
  # converged result is a fixed point
  for _ in range(ctx.n(10, 200)):
    while True:
      cfg = single_family_cfg(rng)
      if int(np.prod(cfg["sizes"])) <= 36:
        break
    out.append(dict(kind="converge", cfg=cfg, w=latgen.gen_kernel(rng, cfg, rng.choice(["random", "far", "ties"])),
                    iters=300))
  # PWL nearest-point tests (implementation only): monotonicity +1/-1 with bounds (BOUND / CLAMPED), no convexity,
  # trials batched across the units axis
  for _ in range(ctx.n(8, 150)):
    out.append(gen_pwl_nearest(rng))
  return out


def gen_pwl_nearest(rng):
  mono = rng.choice([-1, 1])
  nk = rng.randint(2, 7)
  lengths = [rng.choice([0.5, 1.0, 1.0, 2.0]) for _ in range(nk - 1)]
  bmode = rng.choice(["min", "max", "both", "both", "both"])
  a = tfimpl.dy(rng, -4, 4)
  omin = a if bmode in ("min", "both") else None
  omax = a + rng.choice([0.5, 1.0, 4.0, 8.0]) if bmode in ("max", "both") else None
  omin, omax = tfimpl.zero_bound(rng, omin, omax)
  clamp_min = bool(omin is not None and rng.random() < 0.3)
  clamp_max = bool(omax is not None and rng.random() < 0.3)
  units = rng.choice([1, 2, 3])
  klass = rng.choice(["random", "random", "far", "wrongsign", "near"])
  W = []
  for r in range(nk):
    row = []
    for _ in range(units):
      if klass == "far":
        v = tfimpl.dy(rng, -32, 32) if r == 0 else tfimpl.dy(rng, -16, 16)
      elif klass == "wrongsign":
        v = tfimpl.dy(rng) if r == 0 else -abs(tfimpl.dy(rng)) * mono
      elif klass == "near":
        v = (omin if omin is not None else omax) if r == 0 else mono * tfimpl.dy(rng, -1, 2)
      else:
        v = tfimpl.dy(rng)
      row.append(v)
    W.append(row)
  return dict(kind="pwlnearest", mono=mono, lengths=lengths, omin=omin, omax=omax, clamp_min=clamp_min,
              clamp_max=clamp_max, units=units, W=W, wclass=klass, iters=300)


def pwl_constraint_rows(d):
  """Rows (g, h) meaning g . x >= h of the feasible set of a monotone bounded PWL column x = (bias, heights): sign of
  every height, EVERY keypoint output (cumulative sum) within the bounds, clamped ends as two inequalities."""
  n = len(d["lengths"]) + 1
  G, H = [], []
  for i in range(1, n):
    g = np.zeros(n)
    g[i] = d["mono"]
    G.append(g)
    H.append(0.0)
  for k in range(n):
    c = np.zeros(n)
    c[:k + 1] = 1.0
    if d["omin"] is not None:
      G.append(c)
      H.append(d["omin"])
    if d["omax"] is not None:
      G.append(-c)
      H.append(-d["omax"])
  first, last = np.zeros(n), np.ones(n)
  first[0] = 1.0
  lo_end, hi_end = (first, last) if d["mono"] == 1 else (last, first)
  if d["clamp_min"]:
    G.append(-lo_end)
    H.append(-d["omin"])
  if d["clamp_max"]:
    G.append(hi_end)
    H.append(d["omax"])
  return np.array(G), np.array(H)


def nearest_affine(w, G, H):
  """Euclidean projection of w onto {x : G x >= H} (Lawson-Hanson least-distance programming via NNLS); None when
  the set is empty."""
  from scipy.optimize import nnls  # pylint: disable=g-import-not-at-top
  w = np.asarray(w, dtype=np.float64)
  h = H - G @ w
  E = np.vstack([G.T, h[None, :]])
  f = np.zeros(E.shape[0])
  f[-1] = 1.0
  u, _ = nnls(E, f, maxiter=50 * E.shape[1] + 1000)
  r = E @ u - f
  if abs(r[-1]) < 1e-12:
    return None
  return w - r[:-1] / r[-1]


def focus(ctx, desc):
  """Cases derived from a model/implementation disagreement: the same configuration run to convergence, from the
  disagreeing kernel and from fresh ones, plus a feasible kernel (must stay unchanged)."""
  if desc.get("kind") != "dyk":
    return []
  cfg = desc["cfg"]
  rng = random.Random(ctx.seed * 7919 + len(json.dumps(desc, default=str)))
  out = [dict(kind="converge", cfg=cfg, w=desc["w"], iters=300)]
  for klass in ("random", "far", "ties"):
    out.append(dict(kind="converge", cfg=cfg, w=latgen.gen_kernel(rng, cfg, klass), iters=300))
  out.append(dict(kind="dyk", cfg=cfg, kclass="feasible", w=feasible_candidate(rng, cfg), iters=3))
  for it in (1, 3, 6):
    w, _ = latgen.feasible_rich(rng, cfg, with_bounds=False)
    if w is not None:
      out.append(dict(kind="dyk", cfg=cfg, kclass="feasible_rich", w=w, iters=it))
  return out


def all_viols(w, cfg):
  return latpred.all_viols(w, cfg)


def coq_dyk_cfg(cfg, iters):
  tr = lambda ts: clist(["(%s, %s, %s)" % (cnat(m), cnat(c), cz(d)) for m, c, d in ts]) if ts else "(@nil trust)"
  ju = clist(["(%s, %s)" % (cnatl(d), cbool(s == "valley")) for d, s in cfg["juni"]]) if cfg["juni"] else "(@nil (list nat * bool))"
  return "(mkDykCfg %s %s %s %s %s %s %s %s %s %s %s)" % (
      cnatl(cfg["sizes"]), cnat(cfg["units"]), czl(cfg["monos"]), czl(cfg["uni"]), tr(cfg["edge"]), tr(cfg["trap"]),
      cnatpairs(cfg["mdom"]), cnatpairs(cfg["rdom"]), cnatpairs(cfg["jmono"]), ju, cnat(iters))


def flat(m):
  return [float(x) for row in np.asarray(m) for x in row]


def eval_pwl_nearest(tf, tfl, d):
  """project_all_constraints with 300 iterations against the exact Euclidean projection onto the feasible columns
  (the limit claimed by the property; the model-level statement is C08_pwl_fixpoint_nearest)."""
  plib = tfl.pwl_calibration_lib
  W = np.array(d["W"], dtype=np.float64)
  scale = max(1.0, float(np.abs(W).max()))
  _, _, cmin, cmax = plib.convert_all_constraints(d["omin"], d["omax"], d["clamp_min"], d["clamp_max"])
  kw = dict(monotonicity=d["mono"], output_min=d["omin"], output_max=d["omax"], output_min_constraints=cmin,
            output_max_constraints=cmax, convexity=0, lengths=tf.constant(d["lengths"], dtype=tf.float64),
            num_projection_iterations=d["iters"])
  R = plib.project_all_constraints(weights=tf.constant(W), **kw).numpy()
  fails = []
  dist = viol = 0.0
  if not np.all(np.isfinite(R)):
    fails.append("PWL: non-finite kernel returned")
  else:
    G, H = pwl_constraint_rows(d)
    for u in range(W.shape[1]):
      target = nearest_affine(W[:, u], G, H)
      if target is None or float((G @ target - H).min()) < -1e-7 * scale:
        continue  # empty feasible set or solver failure: nothing to compare with
      dist = max(dist, float(np.abs(R[:, u] - target).max()))
      viol = max(viol, float((H - G @ R[:, u]).max()))
    if viol > 1e-3 * scale:
      fails.append("PWL: after 300 iterations the largest violation is still %r" % viol)
    if dist > 2e-3 * scale:
      fails.append("PWL: after 300 iterations the result is %r away from the Euclidean-nearest feasible kernel" % dist)
    again = plib.project_all_constraints(weights=tf.constant(R), **kw).numpy()
    if np.abs(again - R).max() > 2e-3 * scale:
      fails.append("PWL: re-projecting the converged result moves it by %r" % np.abs(again - R).max())
  klass = "pwlnearest_m%d_%s%s%s" % (d["mono"], "b" if d["omin"] is not None else "", "B" if d["omax"] is not None else "",
                                     "_cl" if d["clamp_min"] or d["clamp_max"] else "")
  return Case(d, coq=None, pred_fail="; ".join(fails) if fails else None,
              nontrivial=bool(np.abs(R - W).max() > 1e-12), klass=klass,
              info={"distance_to_nearest": dist, "violation": viol})


def eval_cases(ctx, descs):
  tf, tfl = tfimpl.tfl()
  lib = tfl.lattice_lib
  cases = []
  for d in descs:
    if d["kind"] == "pwl":
      c = pwl.eval_cases(ctx, [dict(d, kind="proj")])[0]
      # feasible fixed ("feasible: a kernel satisfying every configured constraint is changed") / idempotence are
      # already evaluated by the C04 predicate; keep only those clauses
      fail = None
      if c.pred_fail:
        cl = [x for x in c.pred_fail.split("; ") if x.startswith("idempotence") or x.startswith("feasible:")]
        fail = "; ".join("PWL " + x for x in cl) or None
      cases.append(Case(d, coq=c.coq.replace("CProj", "CPwl", 1), pred_fail=fail, nontrivial=c.nontrivial,
                        klass="pwl_" + c.klass))
      continue
    if d["kind"] == "pwlnearest":
      cases.append(eval_pwl_nearest(tf, tfl, d))
      continue
    cfg = d["cfg"]
    W = np.array(d["w"], dtype=np.float64)
    scale = max(1.0, float(np.abs(W).max()))
    out = lib.project_by_dykstra(tf.constant(W), **latgen.dykstra_kwargs(cfg, d["iters"])).numpy()
    fails = []
    if not np.all(np.isfinite(out)):
      fails.append("non-finite kernel returned")
    if d["kind"] == "converge":
      viol = all_viols(out, cfg)
      if viol > 1e-3 * scale:
        fails.append("after %d sweeps the largest violation is still %r (input violation %r)" % (
            d["iters"], viol, all_viols(W, cfg)))
      again = lib.project_by_dykstra(tf.constant(out), **latgen.dykstra_kwargs(cfg, d["iters"])).numpy()
      if np.abs(again - out).max() > 2e-3 * scale:
        fails.append("re-projecting the converged result moves it by %r" % np.abs(again - out).max())
      cases.append(Case(d, coq=None, pred_fail="; ".join(fails) if fails else None,
                        nontrivial=bool(np.abs(out - W).max() > 1e-12), klass="converge_" + cfg.get("fam", "mix"),
                        info={"violation": viol}))
      continue
    if d["kind"] == "nearest":
      A = latpred.constraint_rows(cfg)
      target = latpred.nearest_feasible(W[:, 0], A)
      dist = float(np.abs(out[:, 0] - target).max())
      viol = all_viols(out, cfg)
      if viol > 1e-3 * scale:
        fails.append("after 300 sweeps the largest violation is still %r" % viol)
      if dist > 2e-3 * scale:
        fails.append("after 300 sweeps the result is %r away from the Euclidean-nearest feasible kernel" % dist)
      again = lib.project_by_dykstra(tf.constant(out), **latgen.dykstra_kwargs(cfg, 300)).numpy()
      if np.abs(again - out).max() > 2e-3 * scale:
        fails.append("re-projecting the converged result moves it by %r" % np.abs(again - out).max())
      cases.append(Case(d, coq=None, pred_fail="; ".join(fails) if fails else None,
                        nontrivial=bool(np.abs(out - W).max() > 1e-12), klass="nearest_" + cfg.get("fam", "mix"),
                        info={"distance_to_nearest": dist, "violation": viol}))
      continue
    feasible = all_viols(W, cfg) <= 0.0
    if feasible and np.abs(out - W).max() > 1e-9 * scale:
      fails.append("a kernel satisfying every configured constraint is changed by %r" % np.abs(out - W).max())
    if d["kclass"] == "feasible_rich" and not feasible:
      fails.append("harness: a feasible_rich kernel does not pass the exact predicates")
    # Fejer-type bound (proved for the model: C08_dykstra_never_farther_from_feasible): for the six exact
    # families the result of ANY number of sweeps is not farther from ANY feasible kernel than the input was.
    if not cfg["rdom"] and not cfg["juni"] and np.all(np.isfinite(out)):
      A = latpred.constraint_rows(cfg)
      for u in range(W.shape[1]):
        refs = [("the constant kernel", np.full(W.shape[0], float(W[:, u].mean())))]
        y = latpred.nearest_feasible(W[:, u], A)
        if A.shape[0] == 0 or float((A @ y).min()) >= -1e-9 * scale:
          refs.append(("the nearest feasible kernel (NNLS)", y))
        for name, y in refs:
          d0, d1 = float(np.linalg.norm(W[:, u] - y)), float(np.linalg.norm(out[:, u] - y))
          if d1 > d0 + 1e-6 * scale:
            fails.append("unit %d: after %d sweeps the kernel is farther from %s (%r) than the input was (%r)"
                         % (u, d["iters"], name, d1, d0))
    coq = "CDyk %s %s %s" % (coq_dyk_cfg(cfg, d["iters"]), cql(flat(W)), cql(flat(out)))
    moved = bool(np.abs(out - W).max() > 1e-12)
    cases.append(Case(d, coq=coq, pred_fail="; ".join(fails) if fails else None, nontrivial=moved or feasible,
                      klass="%s_%s%s" % (cfg.get("fam", "mix"), d["kclass"], "_feasible" if feasible else ""),
                      info={"impl_output": flat(out)}))
  return cases
