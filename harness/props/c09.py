"""C09 - Units and examples never interact."""
import numpy as np
from common import Case, cq, cql, cqm, clist, cnat, copt, cbool, czl, cnatpairs, Ctx
import latgen
import tfimpl
from props import c01, c04, c06, c07, c08

ID = "C09"
HMODULE = "H_C09"
RULE = ("(a) weight constraints on multi-unit kernels whose columns differ by orders of magnitude - Lattice (strict "
        "and non-strict, all families, 0-3 iterations), PWLCalibration, Linear, Categorical: Coq runs the SINGLE-unit "
        "model on each column alone and compares with the corresponding column of the implementation's multi-unit "
        "result; the implementation is also compared with itself (column alone, permuted units). "
        "KroneckerFactoredLattice (2-3 units of different magnitudes, histories of kernel.constraint / "
        "scale.constraint / finalize_constraints on the real multi-unit layer): Coq runs the ONE-unit KFL model on "
        "unit u's slice kernel[:, :, u*dims:(u+1)*dims, :], scale row and bias and compares kernel, scale and the "
        "outputs with unit u of the multi-unit implementation; the implementation is also compared with a real "
        "one-unit layer per unit and with the unit-reversed layer. (b) output-unit locality (kinds outunit = fixed "
        "3-unit configurations, unitloc = randomised): a real 2-4 unit Lattice (hypercube/simplex, tensor/list "
        "inputs), PWLCalibration (fixed/learned keypoints, missing value, split outputs), CategoricalCalibration, "
        "Linear (bias, input clipping), KroneckerFactoredLattice (terms == units every other case) with random "
        "float64 weights; every parameter tensor's unit-v slice (kernel column / KFL kernel slice, scale row, bias "
        "entry, missing output, keypoint-logits row) is perturbed one at a time and unit v's input slice is "
        "replaced: every other unit's output must stay within 1e-12 (and unit v's own output must react to at "
        "least one of the perturbations); kernels are square (rows == units) every other case so that a transposed "
        "/ wrong-axis use keeps the shapes. CDF (units = kernel columns x sparsity_factor, all reductions): "
        "perturbing kernel column j leaves the units of the other columns unchanged, and with sparsity_factor > 1 "
        "perturbing input dimension i leaves the units not connected to i unchanged. (c) batch independence "
        "(kinds batch = fixed configurations, batchr = randomised per run, options stratified over the cases of a "
        "run): Lattice (hypercube, simplex; clip on/off; tensor and list inputs; 1-3 units), PWLCalibration "
        "(missing_input_value / [inputs, is_missing] / given missing_output_value / none; learned keypoints; cyclic; "
        "(batch, 1) inputs for several units; split outputs), CategoricalCalibration, Linear, "
        "KroneckerFactoredLattice, CDF (mean / geometric_mean / none, relu6 / sigmoid, the three input-scaling "
        "types, sparsity 1-2), RTL (tensor / dict of tensors / dict of lists / mixed; all_vertices and "
        "kronecker_factored; separate / averaged outputs), ParallelCombination (tensor / list in, single / list "
        "out), Aggregation over ragged inputs (inner Lattice, calibrators + Linear, premade CalibratedLattice; list "
        "and dict), pwl_calibration_fn and cdf_fn (every parameter tensor carries the batch axis: row b of the "
        "output against row b of inputs and parameters), premade CalibratedLattice, CalibratedLinear, "
        "CalibratedLatticeEnsemble (explicit, 'random', 'rtl_layer'), AggregateFunction with random feature "
        "configs. Random dyadic weights are assigned to every variable (premade: as they are, or projected once by "
        "each variable's own constraint - always for simplex lattices); a batch of 4-8 rows with duplicate rows, "
        "out-of-range values, keypoint values and missing values is evaluated, then (i) every row alone, (ii) a "
        "random permutation, (iii) a random sub-batch and the batch padded in front and behind with other rows, "
        "(iv) duplicate rows of the batch: the shared rows' outputs must agree within 1e-9 (float64 wherever the "
        "API takes it) or 1e-5 (float32-only paths: RTL, premade models other than CalibratedLattice, fixed CDF "
        "scaling, given missing output of pwl_calibration_fn); an exception or a wrong number of output rows on "
        "any of these evaluations is a failure too. (b), (c) are differential testing on the implementation. "
        "Non-trivial = units > 1 and the constraint moved the kernel / the batch has > 1 distinct rows.")
TRUSTED = ["models: the single-unit instances of Model/LatticeDykstra.v + Model/LatticeFinalize.v, "
           "Model/PWLProject.v, Model/LinearProject.v, Model/KFL.v (+ Model/KFLUnits.v slice_unit); per-column theorems: C06_per_unit, C06_categorical_per_unit, "
           "C04_per_unit, C09_* (Props/C09.v)",
           "batch handling inside TensorFlow kernels is runtime behaviour, observed not modelled"]
LIMITS = ["batch independence is decided by differential testing on the implementation (the models have no batch "
          "axis: C09_kfl_batch_rows is a statement about the model's form); output-unit independence is proved on "
          "the evaluation models (C09_*_output_unit_local) and tested on the implementation",
          "float rounding outside the model (1e-9 float64, 1e-5 float32 paths): a cross-example leak smaller than "
          "the tolerance is not seen",
          "batch / unit sampling per quick run: 6 randomised batch cases per kind (18 kinds) and 6 unit-locality "
          "cases per layer (6 layers), 60 / 80 in the thorough tier; batches have at most 8 rows (+3 padding), "
          "ragged rows 1-4 elements (no empty example: its mean is NaN), eager execution only (no tf.function / "
          "graph-mode model.predict batching), no training-mode behaviour (constraints and regularizers see no "
          "batch)",
          "inputs <= -1 are not sampled for simplex lattices without clipping (the implementation truncates "
          "towards zero and tf.gather raises on CPU) and premade models with simplex lattices get projected weights "
          "for the same reason; premade Crystals ensembles are not built here (C17)"]
SHARD = 40


def gen_descs(ctx):
  rng = ctx.rng
  out = []
  for _ in range(ctx.n(70, 1500)):
    cfg = latgen.gen_cfg(rng, max_vertices=36)
    cfg["units"] = rng.choice([2, 3])
    out.append(dict(kind="lat", cfg=cfg, w=latgen.gen_kernel(rng, cfg, rng.choice(["random", "far", "ties", "noise"])),
                    iters=rng.choice([0, 1, 2, 3]), strict=rng.random() < 0.7))
  sub = Ctx(ID, ctx.tier, ctx.seed + 17)
  for d in c04.gen_descs(sub):
    if d["kind"] == "proj" and not d.get("cyclic") and len(out) < ctx.n(70, 1500) + ctx.n(60, 1200):
      d = dict(d, kind="pwl", via_layer=False)
      if d["units"] == 1:
        d["units"] = 3
        d["W"] = [[row[0], row[0] * 8 + 1, -row[0] * 0.125] for row in d["W"]]
      out.append(d)
  n0 = len(out)
  for d in c06.gen_descs(sub):
    if len(out) >= n0 + ctx.n(80, 1600):
      break
    if d["units"] == 1:
      d["units"] = 3
      d["W"] = [[row[0], row[0] * 8 + 1, -row[0] * 0.125] for row in d["W"]]
    if d["kind"] == "cat" and d.get("pairs") is not None:
      out.append(dict(d, kind="cat9"))
    elif d["kind"] == "linear":
      out.append(dict(d, kind="lin9"))
  for _ in range(ctx.n(40, 600)):
    out.append(_gen_kfl9(rng))
  for k in ["lattice_hyper", "lattice_simplex", "pwl", "categorical", "linear", "kfl", "cdf", "pwl_fn", "cdf_fn",
            "rtl", "parallel", "premade_lattice", "premade_linear"]:
    for _ in range(ctx.n(2, 12)):
      out.append(dict(kind="batch", layer=k, seed=rng.randrange(10 ** 6)))
  for k in ["lattice", "pwl", "categorical", "linear", "kfl"]:
    for _ in range(ctx.n(3, 20)):
      out.append(dict(kind="outunit", layer=k, seed=rng.randrange(10 ** 6)))
  # randomised configurations / weights / batch compositions (the two loops above are fixed configurations)
  for k in BATCHR_KINDS:
    for j in range(ctx.n(6, 60)):
      out.append(dict(kind="batchr", layer=k, var=j, seed=rng.randrange(10 ** 9)))
  for k in UNITLOC_KINDS:
    for j in range(ctx.n(6, 80)):
      out.append(dict(kind="unitloc", layer=k, var=j, seed=rng.randrange(10 ** 9)))
  return out


def _mat(t):
  return [[float(v) for v in row] for row in np.asarray(t)]


# --------------------------------------------------------------------------
# KroneckerFactoredLattice: units of different magnitudes through the real constraints
def _gen_kfl9(rng):
  L = rng.choice([2, 3, 3, 4])
  dims = rng.choice([1, 2, 2, 3])
  units = rng.choice([2, 3])
  terms = rng.choice([1, 2, 3])
  marg, ms = c07._monos(rng, dims)
  bmode = rng.choice(["none", "min", "max", "both", "both"])
  a = tfimpl.dy(rng, -4, 4)
  omin = a if bmode in ("min", "both") else None
  omax = (a + rng.choice([0.5, 1.0, 2.0, 5.0])) if bmode in ("max", "both") else None
  omin, omax = tfimpl.zero_bound(rng, omin, omax)
  clip = rng.random() < 0.6
  kclass = rng.choice(["random", "random", "negative", "ties", "sorted", "power", "small"])
  sclass = rng.choice(["random", "random", "zeros", "pos", "neg", "large"])
  k0 = np.array(c07._kernel(rng, kclass, L, units, dims, terms))
  # unit 1 is 8 x larger, unit 2 is 8 x smaller (and of the other sign): a reduction over the
  # wrong axis (max-product, mean over terms, cummax across units) shows
  mags = [1.0, 8.0, -0.125]
  for u in range(units):
    k0[:, u * dims:(u + 1) * dims, :] *= mags[u]
  s0 = c07._scale(rng, sclass, units, terms, omin, omax)
  b0 = [tfimpl.dy(rng, -4, 4) for _ in range(units)] if bmode == "none" else None
  steps = [[s] for s in rng.choice(c07.STEP_SEQS)]
  pts, _ = c07._points(rng, L, units, dims, ms, clip)
  return dict(kind="kfl9", L=L, dims=dims, units=units, terms=terms, monos=marg, omin=omin, omax=omax, clip=clip,
              k0=k0.tolist(), s0=s0, b0=b0, steps=steps, pts=pts[:10], kclass=kclass, sclass=sclass)


def _run_kfl(tf, tfl, d, units, k0, s0, b0, pts):
  """Builds a real layer with `units` units, assigns, applies d['steps'], returns (kernel, scale, bias0, outs)."""
  layer = tfl.layers.KroneckerFactoredLattice(
      lattice_sizes=d["L"], units=units, num_terms=d["terms"], monotonicities=c07._monos_arg(d["monos"]),
      output_min=d["omin"], output_max=d["omax"], clip_inputs=d["clip"], dtype="float64")
  x, _ = c07._inputs(tf, pts, units, d["dims"], "tensor")
  layer(x)
  layer.kernel.assign(np.array(k0, dtype=np.float64)[None])
  layer.scale.assign(np.array(s0, dtype=np.float64))
  if b0 is not None:
    layer.bias.assign(np.array(b0, dtype=np.float64).reshape(layer.bias.shape))
  bias = [float(v) for v in np.asarray(layer.bias.numpy()).reshape(-1)]
  for s in d["steps"]:
    if s[0] == "K":
      if layer.kernel.constraint is not None:
        layer.kernel.assign(layer.kernel.constraint(layer.kernel))
    elif s[0] == "S":
      if layer.scale.constraint is not None:
        layer.scale.assign(layer.scale.constraint(layer.scale))
    else:
      layer.finalize_constraints()
  return (layer.kernel.numpy()[0], layer.scale.numpy(), bias, np.asarray(c07._outs(layer(x), len(pts), units)))


def _eval_kfl9(tf, tfl, d):
  L, units, dims, terms = d["L"], d["units"], d["dims"], d["terms"]
  ms = d["monos"]["ms"] if d["monos"] is not None else None
  k0 = np.array(d["k0"], dtype=np.float64)
  pts = d["pts"]
  k1, s1, bias, outs = _run_kfl(tf, tfl, d, units, k0, d["s0"], d["b0"], pts)
  fails = []
  scale = max(1.0, float(np.abs(k0).max()))
  tol = 1e-9
  # the implementation against itself: a real one-unit layer per unit, and the unit-reversed layer
  for u in range(units):
    ku, su, _, ou = _run_kfl(tf, tfl, d, 1, k0[:, u * dims:(u + 1) * dims, :], [d["s0"][u]],
                             [d["b0"][u]] if d["b0"] is not None else None, [[p[u]] for p in pts])
    if np.abs(ku - k1[:, u * dims:(u + 1) * dims, :]).max() > tol * scale:
      fails.append("KFL: kernel of unit %d after the constraints differs from the one-unit layer's by %r" % (
          u, np.abs(ku - k1[:, u * dims:(u + 1) * dims, :]).max()))
    if np.abs(su[0] - s1[u]).max() > tol * max(1.0, np.abs(s1).max()):
      fails.append("KFL: scale of unit %d after the constraints differs from the one-unit layer's" % u)
    if np.abs(ou[:, 0] - outs[:, u]).max() > tol * max(1.0, np.abs(outs).max()):
      fails.append("KFL: output of unit %d differs from the one-unit layer's by %r" % (u, np.abs(ou[:, 0] - outs[:, u]).max()))
  perm = list(range(units))[::-1]
  kp = np.concatenate([k0[:, v * dims:(v + 1) * dims, :] for v in perm], axis=1)
  k1p, s1p, _, outsp = _run_kfl(tf, tfl, d, units, kp, [d["s0"][v] for v in perm],
                                [d["b0"][v] for v in perm] if d["b0"] is not None else None,
                                [[p[v] for v in perm] for p in pts])
  k1_perm = np.concatenate([k1[:, v * dims:(v + 1) * dims, :] for v in perm], axis=1)
  if (np.abs(k1p - k1_perm).max() > tol * scale or np.abs(s1p - s1[perm]).max() > tol * max(1.0, np.abs(s1).max())
      or np.abs(outsp - outs[:, perm]).max() > tol * max(1.0, np.abs(outs).max())):
    fails.append("KFL: permuting units does not permute the constrained parameters / outputs")
  names = {"K": "KFL.StepK", "S": "KFL.StepS", "F": "KFL.StepF"}
  cmonos = "None" if ms is None else "(Some %s)" % clist([cbool(bool(m)) for m in ms])
  cfg = "(KFL.mkCfg %s %s %s %s %s)" % (cnat(L), cmonos, copt(d["omin"]), copt(d["omax"]), cbool(d["clip"]))
  ck = lambda k: clist([cqm(m) for m in np.asarray(k).tolist()])
  coq = "CKfl %s %s %s %s %s %s %s %s %s %s %s %s" % (
      cfg, cnat(units), cnat(dims), cnat(terms), ck(k0), cqm(d["s0"]), cql(bias),
      clist([names[s[0]] for s in d["steps"]]), ck(k1), cqm(_mat(s1)), clist([cqm(p) for p in pts]), cqm(_mat(outs)))
  changed = bool(np.abs(k1 - k0).max() > 1e-12 or np.abs(s1 - np.array(d["s0"])).max() > 1e-12)
  return Case(d, coq=coq, pred_fail="; ".join(fails) or None, nontrivial=changed,
              klass="kfl_%s" % "".join(s[0] for s in d["steps"]),
              info={"impl_kernel": np.asarray(k1).tolist(), "impl_scale": _mat(s1), "impl_outputs": _mat(outs)})


def _impl_self_checks(con, W, out, scale, what):
  """constraint(K)[:, u] == constraint(K[:, u:u+1]) and permutation equivariance, on the implementation."""
  tf, _ = tfimpl.tfl()
  fails = []
  units = W.shape[1]
  tol = 1e-9 * max(1.0, scale)
  for u in range(units):
    alone = con(tf.constant(W[:, u:u + 1])).numpy()
    if np.abs(alone[:, 0] - out[:, u]).max() > tol:
      fails.append("%s: column %d of the multi-unit result differs from the result for that column alone by %r" % (
          what, u, np.abs(alone[:, 0] - out[:, u]).max()))
  perm = list(range(units))[::-1]
  outp = con(tf.constant(W[:, perm])).numpy()
  if np.abs(outp - out[:, perm]).max() > tol:
    fails.append("%s: permuting units does not permute the result (%r)" % (what, np.abs(outp - out[:, perm]).max()))
  return fails


def _rand_dyadic(rs, shape, lo=-2.0, hi=2.0):
  return np.round(rs.uniform(lo, hi, size=shape) * 8) / 8.0


def _batch_case(tf, tfl, d):
  """layer(x)[i] == layer(x[i:i+1]); layer(x[perm]) == layer(x)[perm]."""
  rs = np.random.RandomState(d["seed"])
  k = d["layer"]
  tol = 1e-9
  n = 6
  if k in ("lattice_hyper", "lattice_simplex"):
    sizes = [int(s) for s in rs.choice([2, 3], size=rs.randint(1, 4))]
    units = int(rs.choice([1, 2]))
    layer = tfl.layers.Lattice(lattice_sizes=sizes, units=units, interpolation={"hyper": "hypercube", "simplex": "simplex"}[k.split("_")[1]], dtype="float64")
    x = rs.uniform(-0.5, max(sizes) - 0.5, size=(n, units, len(sizes)) if units > 1 else (n, len(sizes)))
    f = lambda z: layer(tf.constant(z)).numpy()
    f(x)
    layer.kernel.assign(_rand_dyadic(rs, layer.kernel.shape))
  elif k == "pwl":
    units = int(rs.choice([1, 3]))
    layer = tfl.layers.PWLCalibration(input_keypoints=[0.0, 0.5, 1.5, 3.0], units=units, dtype="float64",
                                      impute_missing=True, missing_input_value=-1.0)
    x = rs.choice([-1.0, 0.0, 0.25, 0.5, 1.0, 2.9, 3.0, 4.0], size=(n, units))
    f = lambda z: layer(tf.constant(z)).numpy()
    f(x)
    layer.kernel.assign(_rand_dyadic(rs, layer.kernel.shape))
  elif k == "categorical":
    units = int(rs.choice([1, 2]))
    layer = tfl.layers.CategoricalCalibration(num_buckets=4, units=units, default_input_value=-1, dtype="float64")
    x = rs.choice([-1, 0, 1, 2, 3], size=(n, units)).astype(np.int32)
    f = lambda z: layer(tf.constant(z)).numpy()
    f(x)
    layer.kernel.assign(_rand_dyadic(rs, layer.kernel.shape))
  elif k == "linear":
    units = int(rs.choice([1, 2]))
    layer = tfl.layers.Linear(num_input_dims=3, units=units, input_min=[0.0, None, -1.0], input_max=[1.0, 2.0, None],
                              dtype="float64")
    x = _rand_dyadic(rs, (n, units, 3) if units > 1 else (n, 3), -3, 3)
    f = lambda z: layer(tf.constant(z)).numpy()
    f(x)
    layer.kernel.assign(_rand_dyadic(rs, layer.kernel.shape))
  elif k == "kfl":
    units = int(rs.choice([1, 2]))
    layer = tfl.layers.KroneckerFactoredLattice(lattice_sizes=3, units=units, num_terms=2, dtype="float64")
    x = rs.uniform(-0.5, 2.5, size=(n, units, 2) if units > 1 else (n, 2))
    f = lambda z: layer(tf.constant(z)).numpy()
    f(x)
    layer.kernel.assign(_rand_dyadic(rs, layer.kernel.shape))
  elif k == "cdf":
    layer = tfl.layers.CDF(num_keypoints=4, units=int(rs.choice([1, 2])), reduction=str(rs.choice(["mean", "none"])))
    x = rs.uniform(-1, 2, size=(n, 3)).astype(np.float32)
    f = lambda z: layer(tf.constant(z)).numpy()
    tol = 1e-6
  elif k == "pwl_fn":
    from tensorflow_lattice.python import conditional_pwl_calibration as cp  # pylint: disable=g-import-not-at-top
    kip = rs.uniform(-1, 1, size=(n, 2)).astype(np.float32)
    kop = rs.uniform(-1, 1, size=(n, 4)).astype(np.float32)
    x = np.concatenate([rs.uniform(-0.5, 1.5, size=(n, 1)).astype(np.float32), kip, kop], axis=1)
    f = lambda z: cp.pwl_calibration_fn(tf.constant(z[:, :1]), tf.constant(z[:, 1:3]), tf.constant(z[:, 3:])).numpy()
    tol = 1e-6
  elif k == "cdf_fn":
    from tensorflow_lattice.python import conditional_cdf as cc  # pylint: disable=g-import-not-at-top
    kp = rs.uniform(-1, 1, size=(1, 3, 4, 1)).astype(np.float32)
    sc = rs.uniform(0.1, 2, size=(1, 3, 4, 1)).astype(np.float32)
    x = rs.uniform(-1, 2, size=(n, 3)).astype(np.float32)
    f = lambda z: cc.cdf_fn(tf.constant(z), tf.constant(kp), tf.constant(sc)).numpy()
    tol = 1e-6
  elif k == "rtl":
    layer = tfl.layers.RTL(num_lattices=3, lattice_rank=2, random_seed=int(d["seed"] % 100))
    x = rs.uniform(0, 1, size=(n, 4)).astype(np.float32)
    f = lambda z: layer({"unconstrained": tf.constant(z[:, :2]), "increasing": tf.constant(z[:, 2:])})
    g = f
    def f(z, g=g):  # pylint: disable=function-redefined
      r = g(z)
      if isinstance(r, dict):
        return np.concatenate([np.asarray(r[key]) for key in sorted(r)], axis=1)
      return np.asarray(r)
    tol = 1e-6
  elif k == "parallel":
    layer = tfl.layers.ParallelCombination([
        tfl.layers.PWLCalibration(input_keypoints=[0.0, 1.0, 2.0]),
        tfl.layers.CategoricalCalibration(num_buckets=3)], single_output=True)
    x = np.stack([rs.uniform(-0.5, 2.5, size=n), rs.choice([0, 1, 2], size=n)], axis=1).astype(np.float32)
    f = lambda z: layer(tf.constant(z)).numpy()
    tol = 1e-6
  else:
    fcs = [tfl.configs.FeatureConfig(name="a", lattice_size=2, monotonicity="increasing",
                                     pwl_calibration_input_keypoints=[0.0, 0.5, 1.0]),
           tfl.configs.FeatureConfig(name="b", lattice_size=2, pwl_calibration_input_keypoints=[0.0, 1.0, 2.0]),
           tfl.configs.FeatureConfig(name="c", num_buckets=3)]
    if k == "premade_lattice":
      model = tfl.premade.CalibratedLattice(tfl.configs.CalibratedLatticeConfig(feature_configs=fcs, output_initialization=[0.0, 1.0]))
    else:
      model = tfl.premade.CalibratedLinear(tfl.configs.CalibratedLinearConfig(feature_configs=fcs, output_initialization=[0.0, 1.0]))
    x = np.stack([rs.uniform(-0.5, 1.5, size=n), rs.uniform(-0.5, 2.5, size=n), rs.choice([0, 1, 2], size=n)],
                 axis=1).astype(np.float32)
    f = lambda z: model([tf.constant(z[:, i:i + 1]) for i in range(3)]).numpy()
    tol = 1e-6
  full = np.asarray(f(x))
  fails = []
  for i in range(n):
    single = np.asarray(f(x[i:i + 1]))
    if np.abs(single[0] - full[i]).max() > tol * max(1.0, np.abs(full).max()):
      fails.append("%s: row %d evaluated alone differs from the same row inside the batch by %r" % (
          k, i, np.abs(single[0] - full[i]).max()))
      break
  perm = rs.permutation(n)
  pf = np.asarray(f(x[perm]))
  if np.abs(pf - full[perm]).max() > tol * max(1.0, np.abs(full).max()):
    fails.append("%s: permuting the batch does not permute the outputs (%r)" % (k, np.abs(pf - full[perm]).max()))
  sub = np.asarray(f(x[:3]))
  if np.abs(sub - full[:3]).max() > tol * max(1.0, np.abs(full).max()):
    fails.append("%s: a sub-batch gives different outputs (%r)" % (k, np.abs(sub - full[:3]).max()))
  return fails, len(set(map(tuple, np.asarray(x).reshape(n, -1)))) > 1


def _outunit_case(tf, tfl, d):
  """Output of unit u depends only on unit u's parameters and inputs."""
  rs = np.random.RandomState(d["seed"])
  k = d["layer"]
  units, n = 3, 5
  if k == "lattice":
    sizes = [2, 3]
    layer = tfl.layers.Lattice(lattice_sizes=sizes, units=units, dtype="float64",
                               interpolation=str(rs.choice(["hypercube", "simplex"])))
    x = rs.uniform(0, 1.9, size=(n, units, 2))
  elif k == "pwl":
    layer = tfl.layers.PWLCalibration(input_keypoints=[0.0, 1.0, 2.5], units=units, dtype="float64")
    x = rs.uniform(-0.5, 3, size=(n, units))
  elif k == "categorical":
    layer = tfl.layers.CategoricalCalibration(num_buckets=4, units=units, dtype="float64")
    x = rs.choice([0, 1, 2, 3], size=(n, units)).astype(np.int32)
  elif k == "linear":
    layer = tfl.layers.Linear(num_input_dims=2, units=units, dtype="float64")
    x = _rand_dyadic(rs, (n, units, 2))
  else:
    layer = tfl.layers.KroneckerFactoredLattice(lattice_sizes=2, units=units, num_terms=2, dtype="float64")
    x = rs.uniform(0, 1, size=(n, units, 2))
  base = layer(tf.constant(x)).numpy()
  for v in layer.weights:
    v.assign(_rand_dyadic(rs, v.shape))
  base = layer(tf.constant(x)).numpy()
  fails = []
  v_unit = int(rs.randint(units))
  # perturb inputs of unit v
  x2 = np.array(x)
  if x2.ndim == 3:
    x2[:, v_unit, :] = x2[::-1, v_unit, :]
  else:
    x2[:, v_unit] = x2[::-1, v_unit]
  o2 = layer(tf.constant(x2)).numpy()
  others = [u for u in range(units) if u != v_unit]
  if np.abs(o2[:, others] - base[:, others]).max() > 1e-12:
    fails.append("%s: changing the inputs of unit %d changes the output of another unit" % (k, v_unit))
  # perturb parameters of unit v (kernel column / slice)
  kern = layer.kernel.numpy()
  k2 = np.array(kern)
  if k == "kfl":
    dims = kern.shape[2] // units
    k2[:, :, v_unit * dims:(v_unit + 1) * dims, :] += 1.0
  else:
    k2[:, v_unit] += 1.0
  layer.kernel.assign(k2)
  o3 = layer(tf.constant(x)).numpy()
  if np.abs(o3[:, others] - base[:, others]).max() > 1e-12:
    fails.append("%s: changing the parameters of unit %d changes the output of another unit" % (k, v_unit))
  if np.abs(o3[:, v_unit] - base[:, v_unit]).max() == 0 and k != "categorical":
    fails.append("%s: changing the parameters of unit %d does not change its own output (wrong slice?)" % (k, v_unit))
  return fails


# --------------------------------------------------------------------------
# (c') batch independence, randomised configurations / weights / batch compositions
BATCHR_KINDS = ["lattice_hyper", "lattice_simplex", "pwl", "categorical", "linear", "kfl", "cdf", "rtl", "parallel",
                "aggregation", "pwl_fn", "cdf_fn", "premade_lattice", "premade_linear", "premade_ens_explicit",
                "premade_ens_random", "premade_ens_rtl", "premade_aggregate"]


def _pick(rs, xs):
  return xs[int(rs.randint(len(xs)))]


def _strat(rs, var, xs):
  """Stratified choice: the var-th case of a kind takes the var-th option (every quick run covers all of them); the
  random stream is advanced either way."""
  r = _pick(rs, xs)
  return xs[var % len(xs)] if var is not None else r


def _vals(rs, shape, lo, hi, special=()):
  """Inputs for a feature with range [lo, hi]: inside, at the ends / keypoints, and out of range (multiples of 1/16)."""
  span = float(hi - lo)
  x = np.round(rs.uniform(lo - 0.3 * span - 0.5, hi + 0.3 * span + 0.5, size=shape) * 16) / 16.0
  pool = np.array([lo, hi] + [float(v) for v in special], dtype=np.float64)
  return np.where(rs.random_sample(shape) < 0.3, pool[rs.randint(len(pool), size=shape)], x)


def _keypoints(rs, nk):
  k = [float(_pick(rs, [-2.0, -0.5, 0.0, 0.0, 1.0]))]
  for _ in range(nk - 1):
    k.append(k[-1] + float(_pick(rs, [0.125, 0.5, 0.5, 1.0, 1.5, 2.0])))
  return k


def _assign_random(rs, weights, lo=-2.0, hi=2.0):
  for v in weights:
    v.assign(_rand_dyadic(rs, tuple(v.shape), lo, hi).astype(v.dtype.as_numpy_dtype))


def _rows_first(r):
  """Layer output (tensor / list of tensors / dict of tensors) as one array, examples first."""
  if isinstance(r, dict):
    r = [r[key] for key in sorted(r)]
  if isinstance(r, (list, tuple)):
    parts = [np.asarray(t, dtype=np.float64) for t in r]
    return np.concatenate([t.reshape(t.shape[0], -1) for t in parts], axis=1)
  return np.asarray(r, dtype=np.float64)


def _take(cols, idx):
  idx = [int(i) for i in idx]
  return [c[idx] if isinstance(c, np.ndarray) else [c[i] for i in idx] for c in cols]


def _cat(a, b):
  return [np.concatenate([x, y], axis=0) if isinstance(x, np.ndarray) else list(x) + list(y) for x, y in zip(a, b)]


def _bb_lattice(tf, tfl, rs, N, interp, var=None):
  while True:
    sizes = [int(_pick(rs, [2, 2, 3, 4])) for _ in range(int(rs.randint(1, 5)))]
    if int(np.prod(sizes)) <= 64:
      break
  units = int(_pick(rs, [1, 1, 2, 3]))
  clip, form = _strat(rs, var, [(True, "tensor"), (False, "list"), (False, "tensor"), (True, "list")])
  layer = tfl.layers.Lattice(lattice_sizes=sizes, units=units, interpolation=interp, clip_inputs=clip, dtype="float64")
  x = np.stack([_vals(rs, (N, units), 0.0, s - 1.0, range(s)) for s in sizes], axis=-1)
  if interp == "simplex" and not clip:
    # simplex interpolation truncates towards zero to find the cell: unclipped inputs <= -1 index outside the kernel
    # (tf.gather raises on CPU); that is not this property's subject
    x = np.maximum(x, -0.9375)

  def f(cols):
    z = cols[0]
    if form == "tensor":
      inp = tf.constant(z if units > 1 else z[:, 0, :])
    elif units > 1:
      inp = [tf.constant(z[:, :, j:j + 1]) for j in range(len(sizes))]
    else:
      inp = [tf.constant(z[:, 0, j:j + 1]) for j in range(len(sizes))]
    return _rows_first(layer(inp))
  f([x[:2]])
  _assign_random(rs, layer.weights)
  return f, [x], 1e-9, "%s_%s_u%d" % ("clip" if clip else "noclip", form, min(units, 2))


def _bb_pwl(tf, tfl, rs, N, var=None):
  units = int(_pick(rs, [1, 1, 2, 3]))
  kps = _keypoints(rs, int(rs.randint(2, 7)))
  kptype = "learned_interior" if (len(kps) > 2 and rs.rand() < 0.35) else "fixed"
  miss = _strat(rs, var, ["value", "tensor", "value_out", "none", "tensor_out", "value"])
  mval = float(_pick(rs, [kps[0] - 1.0, -7.5, kps[0], 0.5 * (kps[0] + kps[-1])]))
  split = bool(units > 1 and rs.rand() < 0.3)
  narrow = bool(units > 1 and rs.rand() < 0.3)
  layer = tfl.layers.PWLCalibration(
      input_keypoints=kps, units=units, is_cyclic=bool(len(kps) > 2 and rs.rand() < 0.2), impute_missing=miss != "none",
      missing_input_value=mval if miss.startswith("value") else None,
      missing_output_value=float(_pick(rs, [-3.0, 0.0, 5.0])) if miss.endswith("_out") else None,
      split_outputs=split, input_keypoints_type=kptype, dtype="float64")
  w = 1 if narrow else units
  x = _vals(rs, (N, w), kps[0], kps[-1], kps + ([mval] if miss.startswith("value") else []))
  m = (rs.random_sample((N, w)) < 0.3).astype(np.float64)
  # the first two rows of every batch: one wholly missing, one wholly present
  x[0, :], m[0, :] = mval, 1.0
  x[1, :], m[1, :] = kps[0] + 0.0625, 0.0
  x[2, 0], m[2, 0] = mval, 1.0
  if miss.startswith("value") and mval == kps[0] + 0.0625:
    x[1, :] = kps[-1]

  def f(cols):
    if miss.startswith("tensor"):
      return _rows_first(layer([tf.constant(cols[0]), tf.constant(cols[1])]))
    return _rows_first(layer(tf.constant(cols[0])))
  f([x[:2], m[:2]])
  _assign_random(rs, layer.weights)
  return f, [x, m], 1e-9, "%s_%s_u%d%s%s" % (miss, kptype.split("_")[0], min(units, 2), "_narrow" if narrow else "",
                                             "_split" if split else "")


def _bb_categorical(tf, tfl, rs, N, var=None):
  nb = int(rs.randint(2, 7))
  units = int(_pick(rs, [1, 1, 2, 3]))
  default = _pick(rs, [None, -1, -1, nb + 2])
  split = bool(units > 1 and rs.rand() < 0.3)
  narrow = bool(units > 1 and rs.rand() < 0.3)
  layer = tfl.layers.CategoricalCalibration(num_buckets=nb, units=units, default_input_value=default,
                                            split_outputs=split, dtype="float64")
  npdt = _pick(rs, [np.int32, np.int32, np.int64])
  x = rs.randint(-2, nb + 3, size=(N, 1 if narrow else units)).astype(npdt)
  f = lambda cols: _rows_first(layer(tf.constant(cols[0])))
  f([x[:2]])
  _assign_random(rs, layer.weights)
  return f, [x], 1e-9, "default_%s_u%d%s%s" % ("none" if default is None else "set", min(units, 2),
                                               "_narrow" if narrow else "", "_split" if split else "")


def _bb_linear(tf, tfl, rs, N, var=None):
  dims = int(rs.randint(1, 6))
  units = int(_pick(rs, [1, 1, 2, 3]))
  bounds = _strat(rs, var, ["none", "both", "partial"])
  lo = hi = None
  if bounds != "none":
    lo = [(-1.0 if (bounds == "both" or rs.rand() < 0.5) else None) for _ in range(dims)]
    hi = [(1.5 if (bounds == "both" or rs.rand() < 0.5) else None) for _ in range(dims)]
  layer = tfl.layers.Linear(num_input_dims=dims, units=units, use_bias=bool(rs.rand() < 0.6), input_min=lo,
                            input_max=hi, dtype="float64")
  x = _vals(rs, (N, units, dims), -1.0, 1.5)
  f = lambda cols: _rows_first(layer(tf.constant(cols[0] if units > 1 else cols[0][:, 0, :])))
  f([x[:2]])
  _assign_random(rs, layer.weights)
  return f, [x], 1e-9, "bounds_%s_u%d" % (bounds, min(units, 2))


def _bb_kfl(tf, tfl, rs, N, var=None):
  L = int(_pick(rs, [2, 2, 3, 4]))
  dims = int(rs.randint(1, 5))
  units = int(_pick(rs, [1, 1, 2, 3]))
  terms = int(rs.randint(1, 4))
  clip, form = _strat(rs, var, [(True, "tensor"), (False, "list"), (False, "tensor"), (True, "list")])
  omin, omax = _pick(rs, [(None, None), (None, None), (0.0, 1.0), (-1.0, None), (None, 2.0)])
  layer = tfl.layers.KroneckerFactoredLattice(lattice_sizes=L, units=units, num_terms=terms, clip_inputs=clip,
                                              output_min=omin, output_max=omax, dtype="float64")
  x = _vals(rs, (N, units, dims), 0.0, L - 1.0, range(L))

  def f(cols):
    z = cols[0]
    if form == "tensor":
      inp = tf.constant(z if units > 1 else z[:, 0, :])
    elif units > 1:
      inp = [tf.constant(z[:, :, j:j + 1]) for j in range(dims)]
    else:
      inp = [tf.constant(z[:, 0, j:j + 1]) for j in range(dims)]
    return _rows_first(layer(inp))
  f([x[:2]])
  _assign_random(rs, layer.weights)
  return f, [x], 1e-9, "%s_%s_u%d_t%d" % ("clip" if clip else "noclip", form, min(units, 2), min(terms, 2))


def _cdf_shape(rs):
  sf = int(_pick(rs, [1, 1, 2]))
  units = sf * int(rs.randint(1, 4))
  dim = sf * int(rs.randint(1, 4))
  return sf, units, dim


def _bb_cdf(tf, tfl, rs, N, var=None):
  sf, units, dim = _cdf_shape(rs)
  red = _strat(rs, var, ["mean", "geometric_mean", "none"])
  act = _pick(rs, ["relu6", "sigmoid"])
  scaling = _pick(rs, ["fixed", "learned_shared", "learned_per_input"])
  f64 = scaling != "fixed" and rs.rand() < 0.7   # the fixed input scaling is a float32 constant
  npdt = np.float64 if f64 else np.float32
  layer = tfl.layers.CDF(num_keypoints=int(rs.randint(1, 6)), units=units, activation=act, reduction=red,
                         input_scaling_type=scaling, sparsity_factor=sf, input_scaling_init=float(_pick(rs, [1.0, 2.0, 4.0])),
                         dtype="float64" if f64 else "float32")
  x = _vals(rs, (N, dim), 0.0, 1.0).astype(npdt)
  f = lambda cols: _rows_first(layer(tf.constant(cols[0])))
  f([x[:2]])
  _assign_random(rs, layer.weights, 0.0, 1.5)
  return f, [x], 1e-9 if f64 else 1e-5, "%s_%s_%s_sf%d_%s" % (red, act, scaling, sf, "f64" if f64 else "f32")


def _bb_rtl(tf, tfl, rs, N, var=None):
  form, param = _strat(rs, var, [("dict_list", "all_vertices"), ("dict_tensor", "kronecker_factored"),
                                 ("tensor", "all_vertices"), ("dict_mixed", "kronecker_factored"),
                                 ("dict_tensor", "all_vertices"), ("dict_list", "kronecker_factored"),
                                 ("dict_mixed", "all_vertices"), ("tensor", "kronecker_factored")])
  rank = int(rs.randint(1, 4))
  size = int(_pick(rs, [2, 2, 3]))
  sep = bool(rs.rand() < 0.3)
  kw = dict(num_lattices=None, lattice_rank=rank, lattice_size=size, separate_outputs=sep,
            random_seed=int(rs.randint(1000)), clip_inputs=bool(rs.rand() < 0.5), parameterization=param,
            average_outputs=bool(rs.rand() < 0.3), avoid_intragroup_interaction=bool(rs.rand() < 0.5))
  if param == "kronecker_factored":
    kw.update(num_terms=int(rs.randint(1, 4)), kernel_initializer="kfl_random_monotonic_initializer")
  else:
    kw.update(interpolation=_pick(rs, ["hypercube", "simplex"]))
  # groups: (key, width) ; total number of features >= rank
  if form == "tensor":
    groups = [("unconstrained", int(rs.randint(rank, rank + 4)))]
  else:
    while True:
      groups = [(key, int(rs.randint(1, 4))) for key in ("unconstrained", "increasing")
                for _ in range(int(rs.randint(0, 3)))]
      if form == "dict_tensor":
        groups = [(key, sum(w for k2, w in groups if k2 == key)) for key in ("unconstrained", "increasing")
                  if any(k2 == key for k2, _ in groups)]
      if sum(w for _, w in groups) >= rank and groups:
        break
  total = sum(w for _, w in groups)
  kw["num_lattices"] = -(-total // rank) + int(rs.randint(0, 4))   # every input feature must be used
  layer = tfl.layers.RTL(**kw)
  lo_in = -0.9375 if (kw.get("interpolation") == "simplex" and not kw["clip_inputs"]) else -8.0
  cols = [np.maximum(_vals(rs, (N, w), 0.0, size - 1.0, range(size)), lo_in).astype(np.float32) for _, w in groups]

  def f(cs):
    if form == "tensor":
      return _rows_first(layer(tf.constant(cs[0])))
    inp = {}
    for (key, _), c in zip(groups, cs):
      inp.setdefault(key, []).append(tf.constant(c))
    for key in list(inp):
      if form == "dict_tensor" or (form == "dict_mixed" and len(inp[key]) == 1):
        inp[key] = inp[key][0] if len(inp[key]) == 1 else tf.concat(inp[key], axis=1)
    return _rows_first(layer(inp))
  f(_take(cols, [0, 1]))
  _assign_random(rs, layer.weights)
  return f, cols, 1e-5, "%s_%s%s" % (form, param, "_separate" if sep else "")


def _bb_parallel(tf, tfl, rs, N, var=None):
  k = int(rs.randint(1, 5))
  f64 = bool(rs.rand() < 0.6)
  dt = "float64" if f64 else "float32"
  npdt = np.float64 if f64 else np.float32
  layers, cols = [], []
  for _ in range(k):
    if rs.rand() < 0.6:
      kps = _keypoints(rs, int(rs.randint(2, 6)))
      mv = bool(rs.rand() < 0.4)
      layers.append(tfl.layers.PWLCalibration(input_keypoints=kps, dtype=dt, impute_missing=mv,
                                              missing_input_value=-7.5 if mv else None))
      cols.append(_vals(rs, (N, 1), kps[0], kps[-1], kps + ([-7.5] if mv else [])).astype(npdt))
    else:
      nb = int(rs.randint(2, 6))
      layers.append(tfl.layers.CategoricalCalibration(num_buckets=nb, dtype=dt, default_input_value=-1))
      cols.append(rs.randint(-1, nb, size=(N, 1)).astype(npdt))
  single, form = _strat(rs, var, [(True, "tensor"), (False, "list"), (True, "list"), (False, "tensor")])
  layer = tfl.layers.ParallelCombination(layers, single_output=single, dtype=dt)

  def f(cs):
    if form == "tensor":
      return _rows_first(layer(tf.constant(np.concatenate(cs, axis=1))))
    return _rows_first(layer([tf.constant(c) for c in cs]))
  f(_take(cols, [0, 1]))
  _assign_random(rs, layer.weights)
  return f, cols, 1e-9 if f64 else 1e-5, "%s_%s_%s" % (form, "single" if single else "multi", "f64" if f64 else "f32")


def _ragged_rows(rs, N, gen):
  """N examples, each a list of 1-4 elements (one generated row of `gen(count)` per element); a few examples share
  all their elements but one / have the same length, so that a mean over the wrong axis is visible."""
  lens = [int(_pick(rs, [1, 1, 2, 3, 4])) for _ in range(N)]
  flat = gen(sum(lens))
  out, o = [], 0
  for n in lens:
    out.append([flat[o + i] for i in range(n)])
    o += n
  return out


def _bb_aggregation(tf, tfl, rs, N, var=None):
  import tf_keras  # pylint: disable=g-import-not-at-top
  inner, form = _strat(rs, var, [("lattice", "list"), ("calib_linear", "dict"), ("premade_lattice", "list"),
                                 ("lattice", "dict"), ("calib_linear", "list")])
  F = int(rs.randint(1, 4))
  f64 = bool(rs.rand() < 0.6)
  dt = "float64" if f64 else "float32"
  npdt = np.float64 if f64 else np.float32
  sizes = [int(_pick(rs, [2, 3])) for _ in range(F)]
  names = ["f%d" % i for i in range(F)]
  lo_in = -8.0
  if inner == "premade_lattice":
    fcs = [tfl.configs.FeatureConfig(name=nm, lattice_size=s, pwl_calibration_input_keypoints=_keypoints(rs, 3),
                                     default_value=_pick(rs, [None, -7.5]))
           for nm, s in zip(names, sizes)]
    model = tfl.premade.CalibratedLattice(tfl.configs.CalibratedLatticeConfig(
        feature_configs=fcs, output_initialization=[0.0, 1.0]), dtype=tf.float64 if f64 else tf.float32)
    form = "list"
    shape = (1,)
  else:
    shape = ()
    inputs = [tf_keras.Input(shape=shape, dtype=dt, name="c09agg_%s" % nm) for nm in names]
    stacked = tf.stack(inputs, axis=-1)
    if inner == "lattice":
      lclip, linterp = bool(rs.rand() < 0.5), _pick(rs, ["hypercube", "simplex"])
      lo_in = -0.9375 if (linterp == "simplex" and not lclip) else -8.0
      out = tfl.layers.Lattice(lattice_sizes=sizes, clip_inputs=lclip, dtype=dt, interpolation=linterp)(stacked)
    else:
      cal = tfl.layers.ParallelCombination([tfl.layers.PWLCalibration(input_keypoints=_keypoints(rs, 3), dtype=dt)
                                            for _ in range(F)], single_output=True, dtype=dt)(stacked)
      out = tfl.layers.Linear(num_input_dims=F, dtype=dt)(cal)
    model = tf_keras.Model(inputs=dict(zip(names, inputs)) if form == "dict" else inputs, outputs=out)
  agg = tfl.layers.Aggregation(model)
  rows = _ragged_rows(rs, N, lambda cnt: [[float(v) for v in r] for r in np.stack(
      [np.maximum(_vals(rs, (cnt,), 0.0, s - 1.0, [-7.5]), lo_in) for s in sizes], axis=1).astype(npdt)])

  def f(cs):
    rag = [tf.ragged.constant([[e[j] for e in row] for row in cs[0]], dtype=dt, ragged_rank=1) for j in range(F)]
    return _rows_first(agg(dict(zip(names, rag)) if form == "dict" else rag))
  f([rows[:2]])
  _assign_random(rs, model.weights)
  return f, [rows], 1e-9 if f64 else 1e-5, "%s_%s_%s" % (inner, form, "f64" if f64 else "f32")


def _bb_pwl_fn(tf, tfl, rs, N, var=None):
  from tensorflow_lattice.python import conditional_pwl_calibration as cp  # pylint: disable=g-import-not-at-top
  units = int(_pick(rs, [1, 1, 2, 3]))
  nk = int(rs.randint(2, 7))
  mono, miss = _strat(rs, var, [("none", "derived"), ("increasing", "given"), ("none", "none"), ("increasing", "derived"),
                                ("none", "given"), ("increasing", "none")])
  cmin = bool(mono == "increasing" and rs.rand() < 0.4)
  cmax = bool(mono == "increasing" and rs.rand() < 0.4)
  cyc = bool(mono == "none" and rs.rand() < 0.3)
  mval = -7.5
  psize = nk - int(cmin) - int(cmax) - int(cyc) + int(miss != "none") - int(miss == "given")
  if psize <= 0:
    cmin = cmax = cyc = False
    psize = nk + int(miss == "derived")
  # float64 is accepted unless the function itself makes a float32 tensor (no input parameters; given missing output)
  f64 = bool(rs.rand() < 0.5) and nk > 2 and miss != "given"
  npdt = np.float64 if f64 else np.float32
  imin = float(_pick(rs, [0.0, -1.0]))
  imax = imin + float(_pick(rs, [1.0, 2.5]))
  kw = dict(keypoint_input_min=imin, keypoint_input_max=imax, keypoint_output_min=float(_pick(rs, [0.0, -2.0])),
            keypoint_output_max=float(_pick(rs, [1.0, 3.0])), units=units, monotonicity=mono, clamp_min=cmin,
            clamp_max=cmax, is_cyclic=cyc, missing_input_value=mval if miss != "none" else None,
            missing_output_value=0.25 if miss == "given" else None)
  narrow = bool(units > 1 and rs.rand() < 0.4)
  rank2 = bool(rs.rand() < 0.4)   # (batch, P) parameters, shared by the units
  x = _vals(rs, (N, 1 if narrow else units), imin, imax, [mval] if miss != "none" else []).astype(npdt)
  if miss != "none":
    # rows 0 and 2 wholly missing, row 1 present (each row has its own missing output when it is derived)
    x = np.where(rs.random_sample(x.shape) < 0.25, npdt(mval), x)
    x[0, :] = x[2, :] = mval
    x[1, :] = imin + 0.0625
  kip = _rand_dyadic(rs, (N, nk - 2) if rank2 else (N, _pick(rs, [1, units]), nk - 2)).astype(npdt) if nk > 2 else None
  kop = _rand_dyadic(rs, (N, psize) if (rank2 and units == 1) else (N, units, psize)).astype(npdt)
  cols = [x, kop] + ([kip] if kip is not None else [])

  def f(cs):
    return _rows_first(cp.pwl_calibration_fn(tf.constant(cs[0]), tf.constant(cs[2]) if len(cs) > 2 else None,
                                             tf.constant(cs[1]), **kw))
  return f, cols, 1e-9 if f64 else 1e-5, "%s_%s_u%d_%s" % (mono, miss, min(units, 2), "f64" if f64 else "f32")


def _bb_cdf_fn(tf, tfl, rs, N, var=None):
  from tensorflow_lattice.python import conditional_cdf as cc  # pylint: disable=g-import-not-at-top
  sf, units, dim = _cdf_shape(rs)
  K = int(rs.randint(1, 5))
  red = _strat(rs, var, ["mean", "geometric_mean", "none"])
  f64 = bool(rs.rand() < 0.5)
  npdt = np.float64 if f64 else np.float32
  sshape = _pick(rs, [None, (dim, 1, 1), (dim, K, 1), (dim, 1, units // sf), (dim, K, units // sf)])
  expm = _pick(rs, [None, None, 0.5]) if sshape is not None else None
  kw = dict(units=units, activation=_pick(rs, ["relu6", "sigmoid"]), reduction=red, sparsity_factor=sf,
            scaling_exp_transform_multiplier=expm)
  x = _vals(rs, (N, dim), 0.0, 1.0).astype(npdt)
  loc = _rand_dyadic(rs, (N, dim, K, units // sf), -0.5, 1.5).astype(npdt)
  cols = [x, loc]
  if sshape is not None:
    cols.append((_rand_dyadic(rs, (N,) + tuple(sshape), 0.25, 4.0) if expm is None else
                 _rand_dyadic(rs, (N,) + tuple(sshape), -2.0, 2.0)).astype(npdt))

  def f(cs):
    return _rows_first(cc.cdf_fn(tf.constant(cs[0]), tf.constant(cs[1]), tf.constant(cs[2]) if len(cs) > 2 else None,
                                 **kw))
  return f, cols, 1e-9 if f64 else 1e-5, "%s_sf%d_%s_%s" % (red, sf, "noscale" if sshape is None else "scale",
                                                           "f64" if f64 else "f32")


def _premade_features(tfl, rs, nf, same_size=None, allow_cat=True):
  fcs, gens = [], []
  for i in range(nf):
    size = same_size or int(_pick(rs, [2, 2, 3]))
    if allow_cat and rs.rand() < 0.3:
      nb = int(rs.randint(2, 5))
      dv = _pick(rs, [None, -1])
      fcs.append(tfl.configs.FeatureConfig(name="f%d" % i, num_buckets=nb, default_value=dv, lattice_size=size))
      gens.append(("cat", nb, dv))
    else:
      kps = _keypoints(rs, int(rs.randint(2, 6)))
      dv = _pick(rs, [None, None, -7.5])
      fcs.append(tfl.configs.FeatureConfig(
          name="f%d" % i, lattice_size=size, monotonicity=_pick(rs, ["none", "increasing", "decreasing"]),
          pwl_calibration_input_keypoints=kps, default_value=dv,
          pwl_calibration_input_keypoints_type="learned_interior" if (len(kps) > 2 and rs.rand() < 0.25) else "fixed"))
      gens.append(("num", kps, dv))
  return fcs, gens


def _premade_value_gen(rs, gens, npdt):
  """count -> list of `count` rows; a row is one value per feature (floats; categorical features as ints)."""
  def gen(cnt):
    cs = []
    for g in gens:
      if g[0] == "cat":
        cs.append(rs.randint(-1 if g[2] is not None else 0, g[1], size=cnt).astype(np.float64))
      else:
        cs.append(_vals(rs, (cnt,), g[1][0], g[1][-1], list(g[1]) + ([g[2]] if g[2] is not None else [])).astype(npdt)
                  .astype(np.float64))
    return [[float(c[i]) for c in cs] for i in range(cnt)]
  return gen


def _bb_premade(tf, tfl, rs, N, which, var=None):
  C = tfl.configs
  f64 = bool(which in ("premade_lattice", "premade_aggregate") and rs.rand() < 0.5)
  npdt = np.float64 if f64 else np.float32
  tfdt = tf.float64 if f64 else tf.float32
  nf = int(rs.randint(2, 6)) if which.startswith("premade_ens") else int(rs.randint(1, 5))
  structure = which.split("_")[-1]
  param = "all_vertices"
  if which == "premade_lattice" or structure in ("explicit", "random"):
    param = _pick(rs, ["all_vertices", "all_vertices", "kronecker_factored"])
  # RTL and KroneckerFactoredLattice want one lattice size for all features
  fcs, gens = _premade_features(tfl, rs, nf, same_size=int(_pick(rs, [2, 3])) if (
      structure == "rtl" or param == "kronecker_factored") else None)
  outcal = bool(rs.rand() < 0.4)
  common = dict(feature_configs=fcs, output_calibration=outcal, output_calibration_num_keypoints=int(rs.randint(2, 6)),
                output_initialization=[0.0, 1.0])
  bounded = bool(rs.rand() < 0.4)
  if bounded:
    common.update(output_min=-1.0, output_max=2.0, output_initialization=[-1.0, 2.0])
  free_bias = not bounded and not outcal   # a bias next to output bounds / output calibration is rejected
  tag = ""
  simplex = False
  if which == "premade_lattice":
    kw = dict(parameterization=param)
    if param == "all_vertices":
      kw.update(interpolation=_pick(rs, ["hypercube", "simplex"]))
      simplex = kw["interpolation"] == "simplex"
    else:
      kw.update(num_terms=int(rs.randint(1, 4)))
    model = tfl.premade.CalibratedLattice(C.CalibratedLatticeConfig(**dict(common, **kw)), dtype=tfdt)
    tag = param
  elif which == "premade_linear":
    model = tfl.premade.CalibratedLinear(C.CalibratedLinearConfig(use_bias=bool(free_bias and rs.rand() < 0.6), **common),
                                         dtype=tfdt)
  elif which == "premade_aggregate":
    common.pop("output_min", None), common.pop("output_max", None)
    common["output_initialization"] = [0.0, 1.0]
    midcal = bool(rs.rand() < 0.5)
    msize = int(_pick(rs, [2, 3]))
    # without middle calibration the aggregated value (in [-1, 1]) is fed to the middle lattice as is: a simplex middle
    # lattice with more than two vertices per dimension cannot take -1 (see _bb_lattice)
    minterp = _pick(rs, ["hypercube", "simplex"]) if (midcal or msize == 2) else "hypercube"
    ainterp = _pick(rs, ["hypercube", "simplex"])
    simplex = "simplex" in (minterp, ainterp)
    model = tfl.premade.AggregateFunction(C.AggregateFunctionConfig(
        middle_dimension=int(rs.randint(1, 4)), middle_lattice_size=msize, middle_calibration=midcal,
        middle_calibration_num_keypoints=int(rs.randint(2, 5)),
        middle_monotonicity=_pick(rs, ["increasing", "none"]) if midcal else None,
        middle_lattice_interpolation=minterp, aggregation_lattice_interpolation=ainterp, **common), dtype=tfdt)
    tag = "midcal" if midcal else "nomidcal"
  else:
    rank = int(rs.randint(1, min(nf, 3) + 1))
    nl = max(2, -(-nf // rank)) + int(rs.randint(0, 3))
    kw = dict(parameterization=param, use_linear_combination=bool(rs.rand() < 0.5),
              separate_calibrators=bool(rs.rand() < 0.6), use_bias=bool(free_bias and rs.rand() < 0.5))
    if param == "all_vertices":
      kw.update(interpolation=_pick(rs, ["hypercube", "simplex"]))
      simplex = kw["interpolation"] == "simplex"
    else:
      kw.update(num_terms=int(rs.randint(1, 4)))
    if structure == "explicit":
      names = [fc.name for fc in fcs]
      lattices = [[names[int(i)] for i in rs.choice(nf, size=rank, replace=False)] for _ in range(nl)]
      used = set(sum(lattices, []))
      lattices += [[nm] for nm in names if nm not in used]
      cfg = C.CalibratedLatticeEnsembleConfig(lattices=lattices, **dict(common, **kw))
    else:
      cfg = C.CalibratedLatticeEnsembleConfig(lattices="rtl_layer" if structure == "rtl" else "random", num_lattices=nl,
                                              lattice_rank=rank, random_seed=int(rs.randint(1000)), **dict(common, **kw))
      if structure == "random":
        tfl.premade_lib.set_random_lattice_ensemble(cfg)
    model = tfl.premade.CalibratedLatticeEnsemble(cfg, dtype=tfdt)
    tag = "%s_%s%s" % (param, "lincomb" if kw["use_linear_combination"] else "avg",
                       "" if kw["separate_calibrators"] else "_shared")
  gen = _premade_value_gen(rs, gens, npdt)
  if which == "premade_aggregate":
    rows = _ragged_rows(rs, N, gen)

    def f(cs):
      rag = [tf.ragged.constant([[(int(e[j]) if g[0] == "cat" else e[j]) for e in row] for row in cs[0]],
                                dtype=tf.int32 if g[0] == "cat" else tfdt, ragged_rank=1) for j, g in enumerate(gens)]
      return _rows_first(model(rag))
    cols = [rows]
  else:
    flat = np.array(gen(N), dtype=np.float64)

    def f(cs):
      return _rows_first(model([tf.constant(cs[0][:, j:j + 1].astype(np.int32 if g[0] == "cat" else npdt))
                                for j, g in enumerate(gens)]))
    cols = [flat]
  f(_take(cols, [0, 1]))
  _assign_random(rs, model.weights)
  # random weights as they are (calibrators then leave the lattice range: unclipped extrapolation), or - always for
  # simplex lattices, which cannot take inputs <= -1 - projected once by each weight's own constraint
  projected = bool(simplex or rs.rand() < 0.4)
  if projected:
    for v in model.weights:
      if getattr(v, "constraint", None) is not None:
        v.assign(v.constraint(v))
  # AggregateFunction builds its inner CalibratedLattice models without the dtype: float32 inside a float64 model
  tol = 1e-9 if (f64 and which == "premade_lattice") else 1e-5
  return f, cols, tol, "%s%s_%s_%s" % (tag + "_" if tag else "", "outcal" if outcal else "nooutcal",
                                                         "projected" if projected else "raw", "f64" if f64 else "f32")


def _build_batchr(tf, tfl, rs, k, N, var=None):
  if k in ("lattice_hyper", "lattice_simplex"):
    return _bb_lattice(tf, tfl, rs, N, {"hyper": "hypercube", "simplex": "simplex"}[k.split("_")[1]], var)
  if k.startswith("premade_"):
    return _bb_premade(tf, tfl, rs, N, k, var)
  return {"pwl": _bb_pwl, "categorical": _bb_categorical, "linear": _bb_linear, "kfl": _bb_kfl, "cdf": _bb_cdf,
          "rtl": _bb_rtl, "parallel": _bb_parallel, "aggregation": _bb_aggregation, "pwl_fn": _bb_pwl_fn,
          "cdf_fn": _bb_cdf_fn}[k](tf, tfl, rs, N, var)


def _differs(a, b, tol, scale):
  """None when a and b agree (same shape, no NaN, within tol * scale); else a short description."""
  a, b = np.asarray(a, dtype=np.float64), np.asarray(b, dtype=np.float64)
  if a.shape != b.shape:
    return "shapes %r vs %r" % (a.shape, b.shape)
  if a.size == 0:
    return None
  dlt = np.abs(a - b)
  if not np.all(dlt <= tol * scale):
    return "max difference %r" % (float(np.nanmax(dlt)) if not np.all(np.isnan(dlt)) else float("nan"),)
  return None


def _batchr_case(tf, tfl, d):
  """Randomised batch independence: rows alone, permuted, sub-batch, padded batch, duplicate rows."""
  rs = np.random.RandomState(d["seed"])
  k = d["layer"]
  n0 = int(rs.randint(3, 7))        # distinct rows of the batch
  n_extra = int(rs.randint(1, 4))   # rows that only the padded batch contains
  try:
    f, cols, tol, tag = _build_batchr(tf, tfl, rs, k, n0 + n_extra, d.get("var"))
    idx = list(range(n0)) + [int(rs.randint(n0)) for _ in range(int(rs.randint(1, 3)))]   # with duplicates
    tail = idx[2:]
    rs.shuffle(tail)
    idx = idx[:2] + tail
    X = _take(cols, idx)
    n = len(idx)
    full = f(X)
  except Exception as e:  # pylint: disable=broad-except
    return ["%s: building the layer / evaluating the full batch raised %s: %s" % (k, type(e).__name__, str(e)[:300])], False, "raised"
  fails = []
  if full.shape[0] != n:
    return ["%s: a batch of %d examples gives %d output rows" % (k, n, full.shape[0])], True, tag
  scale = max(1.0, float(np.abs(full).max())) if np.all(np.isfinite(full)) else 1.0
  if not np.all(np.isfinite(full)):
    fails.append("%s: non-finite output on the full batch" % k)

  def run(what, sel_cols, expect):
    try:
      got = f(sel_cols)
    except Exception as e:  # pylint: disable=broad-except
      fails.append("%s: %s raised %s (the full batch did not): %s" % (k, what, type(e).__name__, str(e)[:200]))
      return
    e = _differs(got, expect, tol, scale)
    if e is not None:
      fails.append("%s: %s (%s)" % (k, what, e))
  # (a) every row alone
  for i in range(n):
    nf = len(fails)
    run("row %d evaluated alone differs from the same row inside the batch" % i, _take(X, [i]), full[i:i + 1])
    if len(fails) > nf:
      break
  # (b) a random permutation of the rows permutes the outputs
  perm = [int(i) for i in rs.permutation(n)]
  run("permuting the batch does not permute the outputs", _take(X, perm), full[perm])
  # (c) a random sub-batch, and the batch padded with other rows (before and after)
  sub = sorted(int(i) for i in rs.choice(n, size=int(rs.randint(1, n)), replace=False))
  run("a sub-batch gives different outputs for the shared rows", _take(X, sub), full[sub])
  extra = _take(cols, list(range(n0, n0 + n_extra)))
  cut = int(rs.randint(0, n_extra + 1))
  padded = _cat(_cat(_take(extra, range(cut)), X), _take(extra, range(cut, n_extra)))
  try:
    got = f(padded)
    e = _differs(got[cut:cut + n], full, tol, scale) if got.shape[0] == n + n_extra else (
        "%d output rows for %d examples" % (got.shape[0], n + n_extra))
    if e is not None:
      fails.append("%s: padding the batch with other rows changes the outputs of the shared rows (%s)" % (k, e))
  except Exception as e:  # pylint: disable=broad-except
    fails.append("%s: the padded batch raised %s (the batch did not): %s" % (k, type(e).__name__, str(e)[:200]))
  # (d) duplicate rows of the batch have equal outputs
  for i in range(n):
    j = idx.index(idx[i])
    if j != i and _differs(full[i], full[j], tol, scale) is not None:
      fails.append("%s: rows %d and %d of the batch are identical but their outputs differ" % (k, j, i))
      break
  return fails, True, tag


# --------------------------------------------------------------------------
# (b') output-unit locality, randomised configurations
UNITLOC_KINDS = ["lattice", "pwl", "categorical", "linear", "kfl", "cdf"]


def _unitloc_case(tf, tfl, d):
  """Unit u's output is unchanged (<= 1e-12) when the parameters of another unit v (kernel column / slice, scale row,
  bias entry, missing output, keypoint logits) or unit v's input slice change.  For CDF (every unit sees every input
  unless sparsity_factor > 1) the units that may change are those of the perturbed kernel column / input dimension."""
  rs = np.random.RandomState(d["seed"])
  k = d["layer"]
  var = d.get("var")
  n = int(rs.randint(3, 8))
  units = int(rs.randint(2, 5))
  v = int(rs.randint(units))
  others = [u for u in range(units) if u != v]
  pos = lambda shape: _rand_dyadic(rs, shape, 0.25, 2.0)   # strictly positive perturbation
  # square kernels (rows == units) every other case: a transposed / wrong-axis use of the kernel keeps the shapes
  square = bool(rs.rand() < 0.4) if var is None else var % 2 == 0
  xin = None      # function: inputs with unit v's slice replaced
  if k == "lattice":
    while True:
      sizes = [int(_pick(rs, [2, 2, 3, 4])) for _ in range(int(rs.randint(1, 4)))]
      if int(np.prod(sizes)) <= 36:
        break
    if square:
      sizes = {2: [2], 3: [3], 4: _pick(rs, [[2, 2], [4]])}[units]
    interp = _pick(rs, ["hypercube", "simplex"])
    form = _pick(rs, ["tensor", "list"])
    layer = tfl.layers.Lattice(lattice_sizes=sizes, units=units, interpolation=interp, clip_inputs=bool(rs.rand() < 0.5),
                               dtype="float64")
    gen = lambda shape: np.stack([np.round(rs.uniform(0, s - 1.0, size=shape) * 16) / 16.0 for s in sizes], axis=-1)
    x = gen((n, units))
    call = lambda z: _rows_first(layer(tf.constant(z) if form == "tensor" else
                                       [tf.constant(z[:, :, j:j + 1]) for j in range(len(sizes))]))
    tag = "%s_%s%s" % (interp, form, "_square" if square else "")
    params = lambda: [("kernel column", layer.kernel, (slice(None), v))]
  elif k == "pwl":
    kps = _keypoints(rs, units if square else int(rs.randint(2, 7)))
    kptype = "learned_interior" if (len(kps) > 2 and rs.rand() < 0.4) else "fixed"
    miss = bool(rs.rand() < 0.5)
    split = bool(rs.rand() < 0.3)
    layer = tfl.layers.PWLCalibration(input_keypoints=kps, units=units,
                                      is_cyclic=bool(len(kps) > 2 and not square and rs.rand() < 0.2),
                                      impute_missing=miss, missing_input_value=-7.5 if miss else None,
                                      input_keypoints_type=kptype, split_outputs=split, dtype="float64")
    gen = lambda shape: np.where(rs.random_sample(shape) < (0.3 if miss else 0.0), -7.5,
                                 np.round(rs.uniform(kps[0], kps[-1], size=shape) * 16) / 16.0)
    x = gen((n, units))
    x[0, :] = 0.5 * (kps[0] + kps[-1])
    call = lambda z: _rows_first(layer(tf.constant(z)))
    tag = "%s%s%s%s" % (kptype.split("_")[0], "_missing" if miss else "", "_split" if split else "", "_square" if square else "")
    params = lambda: ([("kernel column", layer.kernel, (slice(None), v))] +
                      ([("missing output", layer.missing_output, (0, v))] if miss else []) +
                      ([("keypoint logits row", layer.interpolation_logits, (v,))] if kptype != "fixed" else []))
  elif k == "categorical":
    nb = units if square else int(rs.randint(2, 7))
    split = bool(rs.rand() < 0.3)
    layer = tfl.layers.CategoricalCalibration(num_buckets=nb, units=units, default_input_value=_pick(rs, [None, -1]),
                                              split_outputs=split, dtype="float64")
    gen = lambda shape: rs.randint(0, nb, size=shape).astype(np.int32)
    x = gen((n, units))
    call = lambda z: _rows_first(layer(tf.constant(z)))
    tag = ("split" if split else "joint") + ("_square" if square else "")
    params = lambda: [("kernel column", layer.kernel, (slice(None), v))]
  elif k == "linear":
    dims = units if square else int(rs.randint(1, 6))
    bias = bool(rs.rand() < 0.6)
    clipb = bool(rs.rand() < 0.4)
    layer = tfl.layers.Linear(num_input_dims=dims, units=units, use_bias=bias, dtype="float64",
                              input_min=[-1.0] * dims if clipb else None, input_max=[1.0] * dims if clipb else None)
    gen = lambda shape: _rand_dyadic(rs, shape + (dims,), -1.0, 1.0)
    x = gen((n, units))
    call = lambda z: _rows_first(layer(tf.constant(z)))
    tag = "%s%s%s" % ("bias" if bias else "nobias", "_clip" if clipb else "", "_square" if square else "")
    params = lambda: ([("kernel column", layer.kernel, (slice(None), v))] +
                      ([("bias entry", layer.bias, (v,))] if bias else []))
  elif k == "kfl":
    L = int(_pick(rs, [2, 2, 3, 4]))
    dims = int(rs.randint(1, 4))
    terms = int(_strat(rs, var, [units, 1, units, 2, 3]))   # terms == units: a reduction over the other axis keeps the shapes
    form = _pick(rs, ["tensor", "list"])
    omin, omax = _pick(rs, [(None, None), (None, None), (0.0, 1.0)])
    layer = tfl.layers.KroneckerFactoredLattice(lattice_sizes=L, units=units, num_terms=terms, output_min=omin,
                                                output_max=omax, clip_inputs=bool(rs.rand() < 0.5), dtype="float64")
    gen = lambda shape: np.round(rs.uniform(0, L - 1.0, size=shape + (dims,)) * 16) / 16.0
    x = gen((n, units))
    call = lambda z: _rows_first(layer(tf.constant(z) if form == "tensor" else
                                       [tf.constant(z[:, :, j:j + 1]) for j in range(dims)]))
    tag = "%s_t%s" % (form, "eq_units" if terms == units else str(min(terms, 2)))
    params = lambda: ([("kernel slice", layer.kernel, (slice(None), slice(None), slice(v * dims, (v + 1) * dims)))] +
                      [("scale row", layer.scale, (v,))] +
                      ([("bias entry", layer.bias, (v,))] if isinstance(layer.bias, tf.Variable) else []))
  else:
    sf = int(_pick(rs, [1, 1, 2]))
    cols_n = int(rs.randint(2, 4)) if sf == 1 else int(rs.randint(1, 3))   # kernel columns = units / sparsity_factor
    units = cols_n * sf
    dim = sf * int(rs.randint(1, 4))
    red = _strat(rs, var, ["mean", "geometric_mean", "none"])
    scaling = _pick(rs, ["learned_shared", "learned_per_input"])
    layer = tfl.layers.CDF(num_keypoints=int(rs.randint(1, 6)), units=units, activation=_pick(rs, ["relu6", "sigmoid"]),
                           reduction=red, input_scaling_type=scaling, sparsity_factor=sf, input_scaling_init=2.0,
                           dtype="float64")
    x = np.round(rs.uniform(0.1, 0.9, size=(n, dim)) * 16) / 16.0
    call = lambda z: _rows_first(layer(tf.constant(z))).reshape(n, -1, units)   # (n, 1 or dim / sf, units)
    call(x)
    _assign_random(rs, layer.weights, 0.25, 1.0)
    base = call(x)
    fails = []
    j = int(rs.randint(cols_n))
    kern = layer.kernel.numpy()
    k2 = np.array(kern)
    k2[..., j] -= pos(k2[..., j].shape)
    layer.kernel.assign(k2)
    o = call(x)
    layer.kernel.assign(kern)
    same = [u for u in range(units) if u % cols_n != j]
    own = [u for u in range(units) if u % cols_n == j]
    if same and np.abs(o[:, :, same] - base[:, :, same]).max() > 1e-12:
      fails.append("cdf: changing kernel column %d changes the output of a unit of another column" % j)
    nontriv = bool(np.abs(o[:, :, own] - base[:, :, own]).max() > 0)   # (relu6 may be saturated at every keypoint)
    if sf > 1:
      # unit u reads the input dimensions i with i % sparsity_factor == u // (units / sparsity_factor)
      i = int(rs.randint(dim))
      x2 = np.array(x)
      x2[:, i] = np.round(rs.uniform(0.1, 0.9, size=n) * 16) / 16.0
      o = call(x2)
      same = [u for u in range(units) if u // cols_n != i % sf]
      if np.abs(o[:, :, same] - base[:, :, same]).max() > 1e-12:
        fails.append("cdf: changing input dimension %d changes a unit that is not connected to it" % i)
    return fails, "%s_sf%d" % (red, sf), nontriv
  call(x)
  _assign_random(rs, layer.weights)
  base = call(x)
  fails = []
  if base.shape != (n, units):
    return ["%s: output shape %r for %d examples and %d units" % (k, base.shape, n, units)], tag, True
  # unit v's inputs
  x2 = np.array(x)
  x2[:, v] = gen((n,))
  o = call(x2)
  if o.shape != base.shape or np.abs(o[:, others] - base[:, others]).max() > 1e-12:
    fails.append("%s: changing the inputs of unit %d changes the output of another unit" % (k, v))
  # unit v's parameters, one tensor at a time and then all together
  own_changed = False
  plist = params()
  saved = [var.numpy() for _, var, _ in plist]
  for (what, var, sl), old in zip(plist, saved):
    new = np.array(old)
    new[sl] = new[sl] + pos(np.shape(new[sl]))
    var.assign(new)
    o = call(x)
    var.assign(old)
    if o.shape != base.shape or np.abs(o[:, others] - base[:, others]).max() > 1e-12:
      fails.append("%s: changing the %s of unit %d changes the output of another unit" % (k, what, v))
    elif np.abs(o[:, v] - base[:, v]).max() > 0:
      own_changed = True
  if not fails and not own_changed:
    fails.append("%s: changing the parameters of unit %d does not change its own output (wrong slice?)" % (k, v))
  return fails, tag, True


def eval_cases(ctx, descs):
  tf, tfl = tfimpl.tfl()
  cases = []
  for d in descs:
    kind = d["kind"]
    if kind == "batch":
      try:
        fails, nontriv = _batch_case(tf, tfl, d)
      except Exception as e:  # pylint: disable=broad-except
        fails, nontriv = ["%s: evaluating the batch / a row alone / the permuted batch raised or gave outputs of another "
                          "shape (%s: %s)" % (d["layer"], type(e).__name__, str(e)[:300])], False
      cases.append(Case(d, coq=None, pred_fail="; ".join(fails) or None, nontrivial=nontriv, klass="batch_" + d["layer"]))
    elif kind == "outunit":
      try:
        fails = _outunit_case(tf, tfl, d)
      except Exception as e:  # pylint: disable=broad-except
        fails = ["%s: evaluating the 3-unit layer raised (%s: %s)" % (d["layer"], type(e).__name__, str(e)[:300])]
      cases.append(Case(d, coq=None, pred_fail="; ".join(fails) or None, klass="outunit_" + d["layer"]))
    elif kind == "batchr":
      fails, nontriv, tag = _batchr_case(tf, tfl, d)
      cases.append(Case(d, coq=None, pred_fail="; ".join(fails[:3]) or None, nontrivial=nontriv,
                        klass="batchr_%s" % d["layer"], info={"configuration": tag}))
    elif kind == "unitloc":
      try:
        fails, tag, nontriv = _unitloc_case(tf, tfl, d)
      except Exception as e:  # pylint: disable=broad-except
        fails, tag, nontriv = ["%s: building / evaluating the multi-unit layer raised %s: %s" % (
            d["layer"], type(e).__name__, str(e)[:300])], "raised", False
      cases.append(Case(d, coq=None, pred_fail="; ".join(fails[:3]) or None, nontrivial=nontriv,
                        klass="unitloc_%s" % d["layer"], info={"configuration": tag}))
    elif kind == "kfl9":
      try:
        cases.append(_eval_kfl9(tf, tfl, d))
      except Exception as e:  # pylint: disable=broad-except
        # (a valid multi-unit configuration: on the unchanged tree the layer evaluates)
        cases.append(Case(d, coq=None, klass="kfl_raised", pred_fail=(
            "KFL: building / evaluating the %d-unit layer (or its one-unit / unit-reversed counterparts) raised %s: %s"
            % (d["units"], type(e).__name__, str(e)[:300]))))
    elif kind == "lat":
      cfg = d["cfg"]
      W = np.array(d["w"], dtype=np.float64)
      con = tfl.lattice_layer.LatticeConstraints(**latgen.constraint_kwargs(cfg, d["iters"], d["strict"]))
      out = con(tf.constant(W)).numpy()
      fails = _impl_self_checks(con, W, out, float(np.abs(W).max()), "LatticeConstraints")
      ran = bool(any(cfg["monos"]) or any(cfg["uni"]) or cfg["jmono"] or cfg["juni"])
      coq = "CLat %s %s %s %s %s %s" % (c08.coq_dyk_cfg(cfg, d["iters"]), c01.coq_cfg(cfg), cbool(ran), cbool(d["strict"]),
                                        cqm(_mat(W)), cqm(_mat(out)))
      cases.append(Case(d, coq=coq, pred_fail="; ".join(fails) or None,
                        nontrivial=bool(np.abs(out - W).max() > 1e-12), klass="lattice_%s" % ("strict" if d["strict"] else "dykstra")))
    elif kind == "pwl":
      c = c04.eval_cases(ctx, [dict(d, kind="proj")])[0]
      lib = tfl.pwl_calibration_lib
      omin_v, omax_v, cmin, cmax = lib.convert_all_constraints(d["omin"], d["omax"], d["clamp_min"], d["clamp_max"])
      con = tfl.pwl_calibration_layer.PWLCalibrationConstraints(
          monotonicity=d["mono"], convexity=d["conv"], lengths=tf.constant(d["lengths"], dtype=tf.float64),
          output_min=d["omin"], output_max=d["omax"], output_min_constraints=cmin, output_max_constraints=cmax,
          num_projection_iterations=d["iters"])
      W = np.array(d["W"], dtype=np.float64)
      out = np.array(c.info["impl_output"])
      fails = _impl_self_checks(con, W, out, float(np.abs(W).max()), "PWLCalibrationConstraints")
      coq = "CPwl %s %s %s" % (c04.coq_cfg(d, omin_v, omax_v, cmin, cmax), cqm(d["W"]), cqm(_mat(out)))
      cases.append(Case(d, coq=coq, pred_fail="; ".join(fails) or None, nontrivial=c.nontrivial, klass="pwl"))
    elif kind in ("lin9", "cat9"):
      c = c06.eval_cases(ctx, [dict(d, kind="linear" if kind == "lin9" else "cat")])[0]
      out = c.info["impl_output"]
      fails = []
      coq = None
      if out is not None:
        W = np.array(d["W"], dtype=np.float64)
        if kind == "lin9":
          any_lo = any(v is not None for v in d["lo"]); any_hi = any(v is not None for v in d["hi"])
          con = tfl.linear_layer.LinearConstraints(
              monotonicities=d["monos"], monotonic_dominances=[tuple(p) for p in d["mdom"]] or None,
              range_dominances=[tuple(p) for p in d["rdom"]] or None,
              input_min=d["lo"] if (any_lo or d["rdom"]) else None, input_max=d["hi"] if (any_hi or d["rdom"]) else None,
              normalization_order=d["norm"])
          coq = "CLin %s %s %s" % (c06.coq_lin_cfg(d), cqm(d["W"]), cqm(out))
        else:
          con = tfl.categorical_calibration_layer.CategoricalCalibrationConstraints(
              output_min=d["lo"], output_max=d["hi"], monotonicities=[tuple(p) for p in d["pairs"]] or None)
          coq = "CCat %s %s %s %s %s" % (cnatpairs(d["pairs"]), copt(d["lo"]), copt(d["hi"]), cqm(d["W"]), cqm(out))
        fails = _impl_self_checks(con, W, np.array(out), float(np.abs(W).max()), type(con).__name__)
      cases.append(Case(d, coq=coq, pred_fail="; ".join(fails) or None, nontrivial=c.nontrivial, klass=kind))
  return cases
