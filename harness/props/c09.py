"""C09 - Units and examples never interact."""
import numpy as np
from common import Case, cq, cql, cqm, clist, cnat, copt, cbool, czl, cnatpairs, Ctx
import latgen
import tfimpl
from props import c01, c04, c06, c07, c08

ID = "C09"
HMODULE = "H_C09"
RULE = ("(a) weight constraints on multi-unit kernels whose columns differ by orders of magnitude - Lattice (strict "
        "and non-strict, all families, 0-3 iterations), PWLCalibration, Linear, Categorical: Coq runs the SINGLE-unit "
        "model on each column alone and compares with the corresponding column of the implementation's multi-unit "
        "result; the implementation is also compared with itself (column alone, permuted units). "
        "KroneckerFactoredLattice (2-3 units of different magnitudes, histories of kernel.constraint / "
        "scale.constraint / finalize_constraints on the real multi-unit layer): Coq runs the ONE-unit KFL model on "
        "unit u's slice kernel[:, :, u*dims:(u+1)*dims, :], scale row and bias and compares kernel, scale and the "
        "outputs with unit u of the multi-unit implementation; the implementation is also compared with a real "
        "one-unit layer per unit and with the unit-reversed layer. (b) layer outputs: "
        "perturbing unit v's parameters/inputs must not change unit u's output (Lattice, PWL, Categorical, Linear, "
        "KFL). (c) batch independence: layer(x)[i] vs layer(x[i:i+1]) and under row permutation for every layer "
        "kind, CDF, pwl_calibration_fn, cdf_fn, RTL, ParallelCombination and two premade models. (b), (c) are "
        "differential testing on the implementation. Non-trivial = units > 1 and the constraint moved the kernel / "
        "the batch has > 1 distinct rows.")
TRUSTED = ["models: the single-unit instances of Model/LatticeDykstra.v + Model/LatticeFinalize.v, "
           "Model/PWLProject.v, Model/LinearProject.v, Model/KFL.v (+ Model/KFLUnits.v slice_unit); per-column theorems: C06_per_unit, C06_categorical_per_unit, "
           "C04_per_unit, C09_* (Props/C09.v)",
           "batch handling inside TensorFlow kernels is runtime behaviour, observed not modelled"]
LIMITS = ["batch independence is decided by differential testing on the implementation (the models have no batch "
          "axis: C09_kfl_batch_rows is a statement about the model's form); output-unit independence is proved on "
          "the evaluation models (C09_*_output_unit_local) and tested on the implementation",
          "float rounding outside the model (1e-9 float64, 1e-5 float32 paths)"]
SHARD = 40


def gen_descs(ctx):
  rng = ctx.rng
  out = []
  for _ in range(ctx.n(70, 1500)):
    cfg = latgen.gen_cfg(rng, max_vertices=36)
    cfg["units"] = rng.choice([2, 3])
    out.append(dict(kind="lat", cfg=cfg, w=latgen.gen_kernel(rng, cfg, rng.choice(["random", "far", "ties", "noise"])),
                    iters=rng.choice([0, 1, 2, 3]), strict=rng.random() < 0.7))
  sub = Ctx(ID, ctx.tier, ctx.seed + 17)
  for d in c04.gen_descs(sub):
    if d["kind"] == "proj" and len(out) < ctx.n(70, 1500) + ctx.n(60, 1200):
      d = dict(d, kind="pwl", via_layer=False)
      if d["units"] == 1:
        d["units"] = 3
        d["W"] = [[row[0], row[0] * 8 + 1, -row[0] * 0.125] for row in d["W"]]
      out.append(d)
  n0 = len(out)
  for d in c06.gen_descs(sub):
    if len(out) >= n0 + ctx.n(80, 1600):
      break
    if d["units"] == 1:
      d["units"] = 3
      d["W"] = [[row[0], row[0] * 8 + 1, -row[0] * 0.125] for row in d["W"]]
    if d["kind"] == "cat" and d.get("pairs") is not None:
      out.append(dict(d, kind="cat9"))
    elif d["kind"] == "linear":
      out.append(dict(d, kind="lin9"))
  for _ in range(ctx.n(40, 600)):
    out.append(_gen_kfl9(rng))
  for k in ["lattice_hyper", "lattice_simplex", "pwl", "categorical", "linear", "kfl", "cdf", "pwl_fn", "cdf_fn",
            "rtl", "parallel", "premade_lattice", "premade_linear"]:
    for _ in range(ctx.n(2, 12)):
      out.append(dict(kind="batch", layer=k, seed=rng.randrange(10 ** 6)))
  for k in ["lattice", "pwl", "categorical", "linear", "kfl"]:
    for _ in range(ctx.n(3, 20)):
      out.append(dict(kind="outunit", layer=k, seed=rng.randrange(10 ** 6)))
  return out


def _mat(t):
  return [[float(v) for v in row] for row in np.asarray(t)]


# --------------------------------------------------------------------------
# KroneckerFactoredLattice: units of different magnitudes through the real constraints
def _gen_kfl9(rng):
  L = rng.choice([2, 3, 3, 4])
  dims = rng.choice([1, 2, 2, 3])
  units = rng.choice([2, 3])
  terms = rng.choice([1, 2, 3])
  marg, ms = c07._monos(rng, dims)
  bmode = rng.choice(["none", "min", "max", "both", "both"])
  a = tfimpl.dy(rng, -4, 4)
  omin = a if bmode in ("min", "both") else None
  omax = (a + rng.choice([0.5, 1.0, 2.0, 5.0])) if bmode in ("max", "both") else None
  omin, omax = tfimpl.zero_bound(rng, omin, omax)
  clip = rng.random() < 0.6
  kclass = rng.choice(["random", "random", "negative", "ties", "sorted", "power", "small"])
  sclass = rng.choice(["random", "random", "zeros", "pos", "neg", "large"])
  k0 = np.array(c07._kernel(rng, kclass, L, units, dims, terms))
  # unit 1 is 8 x larger, unit 2 is 8 x smaller (and of the other sign): a reduction over the
  # wrong axis (max-product, mean over terms, cummax across units) shows
  mags = [1.0, 8.0, -0.125]
  for u in range(units):
    k0[:, u * dims:(u + 1) * dims, :] *= mags[u]
  s0 = c07._scale(rng, sclass, units, terms, omin, omax)
  b0 = [tfimpl.dy(rng, -4, 4) for _ in range(units)] if bmode == "none" else None
  steps = [[s] for s in rng.choice(c07.STEP_SEQS)]
  pts, _ = c07._points(rng, L, units, dims, ms, clip)
  return dict(kind="kfl9", L=L, dims=dims, units=units, terms=terms, monos=marg, omin=omin, omax=omax, clip=clip,
              k0=k0.tolist(), s0=s0, b0=b0, steps=steps, pts=pts[:10], kclass=kclass, sclass=sclass)


def _run_kfl(tf, tfl, d, units, k0, s0, b0, pts):
  """Builds a real layer with `units` units, assigns, applies d['steps'], returns (kernel, scale, bias0, outs)."""
  layer = tfl.layers.KroneckerFactoredLattice(
      lattice_sizes=d["L"], units=units, num_terms=d["terms"], monotonicities=c07._monos_arg(d["monos"]),
      output_min=d["omin"], output_max=d["omax"], clip_inputs=d["clip"], dtype="float64")
  x, _ = c07._inputs(tf, pts, units, d["dims"], "tensor")
  layer(x)
  layer.kernel.assign(np.array(k0, dtype=np.float64)[None])
  layer.scale.assign(np.array(s0, dtype=np.float64))
  if b0 is not None:
    layer.bias.assign(np.array(b0, dtype=np.float64).reshape(layer.bias.shape))
  bias = [float(v) for v in np.asarray(layer.bias.numpy()).reshape(-1)]
  for s in d["steps"]:
    if s[0] == "K":
      if layer.kernel.constraint is not None:
        layer.kernel.assign(layer.kernel.constraint(layer.kernel))
    elif s[0] == "S":
      if layer.scale.constraint is not None:
        layer.scale.assign(layer.scale.constraint(layer.scale))
    else:
      layer.finalize_constraints()
  return (layer.kernel.numpy()[0], layer.scale.numpy(), bias, np.asarray(c07._outs(layer(x), len(pts), units)))


def _eval_kfl9(tf, tfl, d):
  L, units, dims, terms = d["L"], d["units"], d["dims"], d["terms"]
  ms = d["monos"]["ms"] if d["monos"] is not None else None
  k0 = np.array(d["k0"], dtype=np.float64)
  pts = d["pts"]
  k1, s1, bias, outs = _run_kfl(tf, tfl, d, units, k0, d["s0"], d["b0"], pts)
  fails = []
  scale = max(1.0, float(np.abs(k0).max()))
  tol = 1e-9
  # the implementation against itself: a real one-unit layer per unit, and the unit-reversed layer
  for u in range(units):
    ku, su, _, ou = _run_kfl(tf, tfl, d, 1, k0[:, u * dims:(u + 1) * dims, :], [d["s0"][u]],
                             [d["b0"][u]] if d["b0"] is not None else None, [[p[u]] for p in pts])
    if np.abs(ku - k1[:, u * dims:(u + 1) * dims, :]).max() > tol * scale:
      fails.append("KFL: kernel of unit %d after the constraints differs from the one-unit layer's by %r" % (
          u, np.abs(ku - k1[:, u * dims:(u + 1) * dims, :]).max()))
    if np.abs(su[0] - s1[u]).max() > tol * max(1.0, np.abs(s1).max()):
      fails.append("KFL: scale of unit %d after the constraints differs from the one-unit layer's" % u)
    if np.abs(ou[:, 0] - outs[:, u]).max() > tol * max(1.0, np.abs(outs).max()):
      fails.append("KFL: output of unit %d differs from the one-unit layer's by %r" % (u, np.abs(ou[:, 0] - outs[:, u]).max()))
  perm = list(range(units))[::-1]
  kp = np.concatenate([k0[:, v * dims:(v + 1) * dims, :] for v in perm], axis=1)
  k1p, s1p, _, outsp = _run_kfl(tf, tfl, d, units, kp, [d["s0"][v] for v in perm],
                                [d["b0"][v] for v in perm] if d["b0"] is not None else None,
                                [[p[v] for v in perm] for p in pts])
  k1_perm = np.concatenate([k1[:, v * dims:(v + 1) * dims, :] for v in perm], axis=1)
  if (np.abs(k1p - k1_perm).max() > tol * scale or np.abs(s1p - s1[perm]).max() > tol * max(1.0, np.abs(s1).max())
      or np.abs(outsp - outs[:, perm]).max() > tol * max(1.0, np.abs(outs).max())):
    fails.append("KFL: permuting units does not permute the constrained parameters / outputs")
  names = {"K": "KFL.StepK", "S": "KFL.StepS", "F": "KFL.StepF"}
  cmonos = "None" if ms is None else "(Some %s)" % clist([cbool(bool(m)) for m in ms])
  cfg = "(KFL.mkCfg %s %s %s %s %s)" % (cnat(L), cmonos, copt(d["omin"]), copt(d["omax"]), cbool(d["clip"]))
  ck = lambda k: clist([cqm(m) for m in np.asarray(k).tolist()])
  coq = "CKfl %s %s %s %s %s %s %s %s %s %s %s %s" % (
      cfg, cnat(units), cnat(dims), cnat(terms), ck(k0), cqm(d["s0"]), cql(bias),
      clist([names[s[0]] for s in d["steps"]]), ck(k1), cqm(_mat(s1)), clist([cqm(p) for p in pts]), cqm(_mat(outs)))
  changed = bool(np.abs(k1 - k0).max() > 1e-12 or np.abs(s1 - np.array(d["s0"])).max() > 1e-12)
  return Case(d, coq=coq, pred_fail="; ".join(fails) or None, nontrivial=changed,
              klass="kfl_%s" % "".join(s[0] for s in d["steps"]),
              info={"impl_kernel": np.asarray(k1).tolist(), "impl_scale": _mat(s1), "impl_outputs": _mat(outs)})


def _impl_self_checks(con, W, out, scale, what):
  """constraint(K)[:, u] == constraint(K[:, u:u+1]) and permutation equivariance, on the implementation."""
  tf, _ = tfimpl.tfl()
  fails = []
  units = W.shape[1]
  tol = 1e-9 * max(1.0, scale)
  for u in range(units):
    alone = con(tf.constant(W[:, u:u + 1])).numpy()
    if np.abs(alone[:, 0] - out[:, u]).max() > tol:
      fails.append("%s: column %d of the multi-unit result differs from the result for that column alone by %r" % (
          what, u, np.abs(alone[:, 0] - out[:, u]).max()))
  perm = list(range(units))[::-1]
  outp = con(tf.constant(W[:, perm])).numpy()
  if np.abs(outp - out[:, perm]).max() > tol:
    fails.append("%s: permuting units does not permute the result (%r)" % (what, np.abs(outp - out[:, perm]).max()))
  return fails


def _rand_dyadic(rs, shape, lo=-2.0, hi=2.0):
  return np.round(rs.uniform(lo, hi, size=shape) * 8) / 8.0


def _batch_case(tf, tfl, d):
  """layer(x)[i] == layer(x[i:i+1]); layer(x[perm]) == layer(x)[perm]."""
  rs = np.random.RandomState(d["seed"])
  k = d["layer"]
  tol = 1e-9
  n = 6
  if k in ("lattice_hyper", "lattice_simplex"):
    sizes = [int(s) for s in rs.choice([2, 3], size=rs.randint(1, 4))]
    units = int(rs.choice([1, 2]))
    layer = tfl.layers.Lattice(lattice_sizes=sizes, units=units, interpolation={"hyper": "hypercube", "simplex": "simplex"}[k.split("_")[1]], dtype="float64")
    x = rs.uniform(-0.5, max(sizes) - 0.5, size=(n, units, len(sizes)) if units > 1 else (n, len(sizes)))
    f = lambda z: layer(tf.constant(z)).numpy()
    f(x)
    layer.kernel.assign(_rand_dyadic(rs, layer.kernel.shape))
  elif k == "pwl":
    units = int(rs.choice([1, 3]))
    layer = tfl.layers.PWLCalibration(input_keypoints=[0.0, 0.5, 1.5, 3.0], units=units, dtype="float64",
                                      impute_missing=True, missing_input_value=-1.0)
    x = rs.choice([-1.0, 0.0, 0.25, 0.5, 1.0, 2.9, 3.0, 4.0], size=(n, units))
    f = lambda z: layer(tf.constant(z)).numpy()
    f(x)
    layer.kernel.assign(_rand_dyadic(rs, layer.kernel.shape))
  elif k == "categorical":
    units = int(rs.choice([1, 2]))
    layer = tfl.layers.CategoricalCalibration(num_buckets=4, units=units, default_input_value=-1, dtype="float64")
    x = rs.choice([-1, 0, 1, 2, 3], size=(n, units)).astype(np.int32)
    f = lambda z: layer(tf.constant(z)).numpy()
    f(x)
    layer.kernel.assign(_rand_dyadic(rs, layer.kernel.shape))
  elif k == "linear":
    units = int(rs.choice([1, 2]))
    layer = tfl.layers.Linear(num_input_dims=3, units=units, input_min=[0.0, None, -1.0], input_max=[1.0, 2.0, None],
                              dtype="float64")
    x = _rand_dyadic(rs, (n, units, 3) if units > 1 else (n, 3), -3, 3)
    f = lambda z: layer(tf.constant(z)).numpy()
    f(x)
    layer.kernel.assign(_rand_dyadic(rs, layer.kernel.shape))
  elif k == "kfl":
    units = int(rs.choice([1, 2]))
    layer = tfl.layers.KroneckerFactoredLattice(lattice_sizes=3, units=units, num_terms=2, dtype="float64")
    x = rs.uniform(-0.5, 2.5, size=(n, units, 2) if units > 1 else (n, 2))
    f = lambda z: layer(tf.constant(z)).numpy()
    f(x)
    layer.kernel.assign(_rand_dyadic(rs, layer.kernel.shape))
  elif k == "cdf":
    layer = tfl.layers.CDF(num_keypoints=4, units=int(rs.choice([1, 2])), reduction=str(rs.choice(["mean", "none"])))
    x = rs.uniform(-1, 2, size=(n, 3)).astype(np.float32)
    f = lambda z: layer(tf.constant(z)).numpy()
    tol = 1e-6
  elif k == "pwl_fn":
    from tensorflow_lattice.python import conditional_pwl_calibration as cp  # pylint: disable=g-import-not-at-top
    kip = rs.uniform(-1, 1, size=(n, 2)).astype(np.float32)
    kop = rs.uniform(-1, 1, size=(n, 4)).astype(np.float32)
    x = np.concatenate([rs.uniform(-0.5, 1.5, size=(n, 1)).astype(np.float32), kip, kop], axis=1)
    f = lambda z: cp.pwl_calibration_fn(tf.constant(z[:, :1]), tf.constant(z[:, 1:3]), tf.constant(z[:, 3:])).numpy()
    tol = 1e-6
  elif k == "cdf_fn":
    from tensorflow_lattice.python import conditional_cdf as cc  # pylint: disable=g-import-not-at-top
    kp = rs.uniform(-1, 1, size=(1, 3, 4, 1)).astype(np.float32)
    sc = rs.uniform(0.1, 2, size=(1, 3, 4, 1)).astype(np.float32)
    x = rs.uniform(-1, 2, size=(n, 3)).astype(np.float32)
    f = lambda z: cc.cdf_fn(tf.constant(z), tf.constant(kp), tf.constant(sc)).numpy()
    tol = 1e-6
  elif k == "rtl":
    layer = tfl.layers.RTL(num_lattices=3, lattice_rank=2, random_seed=int(d["seed"] % 100))
    x = rs.uniform(0, 1, size=(n, 4)).astype(np.float32)
    f = lambda z: layer({"unconstrained": tf.constant(z[:, :2]), "increasing": tf.constant(z[:, 2:])})
    g = f
    def f(z, g=g):  # pylint: disable=function-redefined
      r = g(z)
      if isinstance(r, dict):
        return np.concatenate([np.asarray(r[key]) for key in sorted(r)], axis=1)
      return np.asarray(r)
    tol = 1e-6
  elif k == "parallel":
    layer = tfl.layers.ParallelCombination([
        tfl.layers.PWLCalibration(input_keypoints=[0.0, 1.0, 2.0]),
        tfl.layers.CategoricalCalibration(num_buckets=3)], single_output=True)
    x = np.stack([rs.uniform(-0.5, 2.5, size=n), rs.choice([0, 1, 2], size=n)], axis=1).astype(np.float32)
    f = lambda z: layer(tf.constant(z)).numpy()
    tol = 1e-6
  else:
    fcs = [tfl.configs.FeatureConfig(name="a", lattice_size=2, monotonicity="increasing",
                                     pwl_calibration_input_keypoints=[0.0, 0.5, 1.0]),
           tfl.configs.FeatureConfig(name="b", lattice_size=2, pwl_calibration_input_keypoints=[0.0, 1.0, 2.0]),
           tfl.configs.FeatureConfig(name="c", num_buckets=3)]
    if k == "premade_lattice":
      model = tfl.premade.CalibratedLattice(tfl.configs.CalibratedLatticeConfig(feature_configs=fcs, output_initialization=[0.0, 1.0]))
    else:
      model = tfl.premade.CalibratedLinear(tfl.configs.CalibratedLinearConfig(feature_configs=fcs, output_initialization=[0.0, 1.0]))
    x = np.stack([rs.uniform(-0.5, 1.5, size=n), rs.uniform(-0.5, 2.5, size=n), rs.choice([0, 1, 2], size=n)],
                 axis=1).astype(np.float32)
    f = lambda z: model([tf.constant(z[:, i:i + 1]) for i in range(3)]).numpy()
    tol = 1e-6
  full = np.asarray(f(x))
  fails = []
  for i in range(n):
    single = np.asarray(f(x[i:i + 1]))
    if np.abs(single[0] - full[i]).max() > tol * max(1.0, np.abs(full).max()):
      fails.append("%s: row %d evaluated alone differs from the same row inside the batch by %r" % (
          k, i, np.abs(single[0] - full[i]).max()))
      break
  perm = rs.permutation(n)
  pf = np.asarray(f(x[perm]))
  if np.abs(pf - full[perm]).max() > tol * max(1.0, np.abs(full).max()):
    fails.append("%s: permuting the batch does not permute the outputs (%r)" % (k, np.abs(pf - full[perm]).max()))
  sub = np.asarray(f(x[:3]))
  if np.abs(sub - full[:3]).max() > tol * max(1.0, np.abs(full).max()):
    fails.append("%s: a sub-batch gives different outputs (%r)" % (k, np.abs(sub - full[:3]).max()))
  return fails, len(set(map(tuple, np.asarray(x).reshape(n, -1)))) > 1


def _outunit_case(tf, tfl, d):
  """Output of unit u depends only on unit u's parameters and inputs."""
  rs = np.random.RandomState(d["seed"])
  k = d["layer"]
  units, n = 3, 5
  if k == "lattice":
    sizes = [2, 3]
    layer = tfl.layers.Lattice(lattice_sizes=sizes, units=units, dtype="float64",
                               interpolation=str(rs.choice(["hypercube", "simplex"])))
    x = rs.uniform(0, 1.9, size=(n, units, 2))
  elif k == "pwl":
    layer = tfl.layers.PWLCalibration(input_keypoints=[0.0, 1.0, 2.5], units=units, dtype="float64")
    x = rs.uniform(-0.5, 3, size=(n, units))
  elif k == "categorical":
    layer = tfl.layers.CategoricalCalibration(num_buckets=4, units=units, dtype="float64")
    x = rs.choice([0, 1, 2, 3], size=(n, units)).astype(np.int32)
  elif k == "linear":
    layer = tfl.layers.Linear(num_input_dims=2, units=units, dtype="float64")
    x = _rand_dyadic(rs, (n, units, 2))
  else:
    layer = tfl.layers.KroneckerFactoredLattice(lattice_sizes=2, units=units, num_terms=2, dtype="float64")
    x = rs.uniform(0, 1, size=(n, units, 2))
  base = layer(tf.constant(x)).numpy()
  for v in layer.weights:
    v.assign(_rand_dyadic(rs, v.shape))
  base = layer(tf.constant(x)).numpy()
  fails = []
  v_unit = int(rs.randint(units))
  # perturb inputs of unit v
  x2 = np.array(x)
  if x2.ndim == 3:
    x2[:, v_unit, :] = x2[::-1, v_unit, :]
  else:
    x2[:, v_unit] = x2[::-1, v_unit]
  o2 = layer(tf.constant(x2)).numpy()
  others = [u for u in range(units) if u != v_unit]
  if np.abs(o2[:, others] - base[:, others]).max() > 1e-12:
    fails.append("%s: changing the inputs of unit %d changes the output of another unit" % (k, v_unit))
  # perturb parameters of unit v (kernel column / slice)
  kern = layer.kernel.numpy()
  k2 = np.array(kern)
  if k == "kfl":
    dims = kern.shape[2] // units
    k2[:, :, v_unit * dims:(v_unit + 1) * dims, :] += 1.0
  else:
    k2[:, v_unit] += 1.0
  layer.kernel.assign(k2)
  o3 = layer(tf.constant(x)).numpy()
  if np.abs(o3[:, others] - base[:, others]).max() > 1e-12:
    fails.append("%s: changing the parameters of unit %d changes the output of another unit" % (k, v_unit))
  if np.abs(o3[:, v_unit] - base[:, v_unit]).max() == 0 and k != "categorical":
    fails.append("%s: changing the parameters of unit %d does not change its own output (wrong slice?)" % (k, v_unit))
  return fails


def eval_cases(ctx, descs):
  tf, tfl = tfimpl.tfl()
  cases = []
  for d in descs:
    kind = d["kind"]
    if kind == "batch":
      fails, nontriv = _batch_case(tf, tfl, d)
      cases.append(Case(d, coq=None, pred_fail="; ".join(fails) or None, nontrivial=nontriv, klass="batch_" + d["layer"]))
    elif kind == "outunit":
      fails = _outunit_case(tf, tfl, d)
      cases.append(Case(d, coq=None, pred_fail="; ".join(fails) or None, klass="outunit_" + d["layer"]))
    elif kind == "kfl9":
      cases.append(_eval_kfl9(tf, tfl, d))
    elif kind == "lat":
      cfg = d["cfg"]
      W = np.array(d["w"], dtype=np.float64)
      con = tfl.lattice_layer.LatticeConstraints(**latgen.constraint_kwargs(cfg, d["iters"], d["strict"]))
      out = con(tf.constant(W)).numpy()
      fails = _impl_self_checks(con, W, out, float(np.abs(W).max()), "LatticeConstraints")
      ran = bool(any(cfg["monos"]) or any(cfg["uni"]) or cfg["jmono"] or cfg["juni"])
      coq = "CLat %s %s %s %s %s %s" % (c08.coq_dyk_cfg(cfg, d["iters"]), c01.coq_cfg(cfg), cbool(ran), cbool(d["strict"]),
                                        cqm(_mat(W)), cqm(_mat(out)))
      cases.append(Case(d, coq=coq, pred_fail="; ".join(fails) or None,
                        nontrivial=bool(np.abs(out - W).max() > 1e-12), klass="lattice_%s" % ("strict" if d["strict"] else "dykstra")))
    elif kind == "pwl":
      c = c04.eval_cases(ctx, [dict(d, kind="proj")])[0]
      lib = tfl.pwl_calibration_lib
      omin_v, omax_v, cmin, cmax = lib.convert_all_constraints(d["omin"], d["omax"], d["clamp_min"], d["clamp_max"])
      con = tfl.pwl_calibration_layer.PWLCalibrationConstraints(
          monotonicity=d["mono"], convexity=d["conv"], lengths=tf.constant(d["lengths"], dtype=tf.float64),
          output_min=d["omin"], output_max=d["omax"], output_min_constraints=cmin, output_max_constraints=cmax,
          num_projection_iterations=d["iters"])
      W = np.array(d["W"], dtype=np.float64)
      out = np.array(c.info["impl_output"])
      fails = _impl_self_checks(con, W, out, float(np.abs(W).max()), "PWLCalibrationConstraints")
      coq = "CPwl %s %s %s" % (c04.coq_cfg(d, omin_v, omax_v, cmin, cmax), cqm(d["W"]), cqm(_mat(out)))
      cases.append(Case(d, coq=coq, pred_fail="; ".join(fails) or None, nontrivial=c.nontrivial, klass="pwl"))
    elif kind in ("lin9", "cat9"):
      c = c06.eval_cases(ctx, [dict(d, kind="linear" if kind == "lin9" else "cat")])[0]
      out = c.info["impl_output"]
      fails = []
      coq = None
      if out is not None:
        W = np.array(d["W"], dtype=np.float64)
        if kind == "lin9":
          any_lo = any(v is not None for v in d["lo"]); any_hi = any(v is not None for v in d["hi"])
          con = tfl.linear_layer.LinearConstraints(
              monotonicities=d["monos"], monotonic_dominances=[tuple(p) for p in d["mdom"]] or None,
              range_dominances=[tuple(p) for p in d["rdom"]] or None,
              input_min=d["lo"] if (any_lo or d["rdom"]) else None, input_max=d["hi"] if (any_hi or d["rdom"]) else None,
              normalization_order=d["norm"])
          coq = "CLin %s %s %s" % (c06.coq_lin_cfg(d), cqm(d["W"]), cqm(out))
        else:
          con = tfl.categorical_calibration_layer.CategoricalCalibrationConstraints(
              output_min=d["lo"], output_max=d["hi"], monotonicities=[tuple(p) for p in d["pairs"]] or None)
          coq = "CCat %s %s %s %s %s" % (cnatpairs(d["pairs"]), copt(d["lo"]), copt(d["hi"]), cqm(d["W"]), cqm(out))
        fails = _impl_self_checks(con, W, np.array(out), float(np.abs(W).max()), type(con).__name__)
      cases.append(Case(d, coq=coq, pred_fail="; ".join(fails) or None, nontrivial=c.nontrivial, klass=kind))
  return cases
