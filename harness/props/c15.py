"""C15 - Conditional calibration and CDF functions: bounded, monotone by construction."""
import math
import numpy as np
from common import Case, cq, cql, cqm, clist, cnat, copt, cbool
import tfimpl

ID = "C15"
HMODULE = "H_C15"
RULE = ("pwl_calibration_fn: units 1-3, 2-6 keypoints, batch 1-4, monotonicity none/increasing, every clamp_min/"
        "clamp_max/is_cyclic/missing (none, derived, given) mode, every documented rank/broadcast form of both "
        "parameter tensors incl. keypoint_input_parameters=None, inputs (batch,1) or (batch,units) inside, on and "
        "outside [input_min,input_max] and on the missing value; parameter classes: moderate dyadic (|p|<=3, compared "
        "with the model), zeros (defaults), large (+-30..+-1e4: implementation-side predicates only), wrong sizes and "
        "rejected forms and one case of every invalid flag/order/width combination with otherwise consistent sizes "
        "(ValueError expected from the call, from _verify_pwl_calibration called directly and from the model), the "
        "fixed zero-length-piece and absorbed-gap witnesses D-NaN / NaN->1. Every case "
        "also probes the implementation on a 15-point grid (bounds, pairwise monotonicity, clamps, cyclic ends, "
        "missing). cdf_fn / tfl.layers.CDF: activations relu6/sigmoid, reductions mean/geometric_mean/none, "
        "sparsity 1-3, input_dim and units multiples of it, 1-4 keypoints, ~10% of the cdf_fn calls invalid (unknown "
        "activation / reduction, units or input_dim not divisible by sparsity_factor, location_parameters of the wrong "
        "input_dim / units size, non-broadcastable scaling_parameters: ValueError demanded and - except the last - "
        "compared with the model's None; one of each kind in every run), scaling none / every broadcast form / "
        "exp-transform / fixed / learned_shared / learned_per_input (NonNeg applied), batches that are chains ordered "
        "in one coordinate at a time; 10 cdf_fn calls with chains of 6-12 points (classes *_long / *_long_perex) and, for every "
        "cdf_fn call with non-negative scaling, the same call with all inputs raised by a fixed non-negative pattern "
        "(monotone per example with its own location parameters); 10 pwl_calibration_fn calls with inputs of batch "
        "size 1 against parameter tensors of batch size B (classes *_xb1). Non-trivial = accepted call; distinct = "
        "distinct desc.")
TRUSTED = ["model: Model/CondPWL.v, Model/CDF.v (hand-written from conditional_pwl_calibration.py, conditional_cdf.py, "
           "cdf_layer.py); softmax, sigmoid, exp, log are ORACLES: the theorems assume only softmax: same length, "
           "entries >= 0, sum 1 (strict positivity only where stated); sigmoid: values in [0,1], non-decreasing; "
           "log non-decreasing on positives, exp non-decreasing, exp(log x) = x",
           "tie: oracle values are tables captured from TensorFlow on the very rows the model asks for (exact-key "
           "lookup for softmax/sigmoid of the PWL stage, closest-key lookup for the CDF stage); the harness checks "
           "the oracle hypotheses numerically on every captured value; outputs AND the derived parameters returned "
           "with return_derived_parameters=True are compared in Coq",
           "tolerance: 1e-9 (float64 calls) / 1e-5 (float32 calls) relative, plus for pwl_calibration_fn a per-case "
           "first-order rounding bound (slope of the active piece x rounding error of the keypoint position)"]
LIMITS = ["a zero-length piece is the left-continuous step 1 if x > keypoint else 0 (fix 28b1344): with a zero LAST gap "
          "f(keypoint_input_max) is the value before the final step; clamp_max / cyclic equality hold for x > input_max "
          "always and at input_max when the gaps are positive (theorem hypothesis right_of)",
          "float saturation/underflow of softmax is outside the model: cases with |parameter| > 3 are checked by the "
          "implementation-side predicates only; with a tiny positive last gap f(keypoint_input_max) can differ from "
          "the clamped bound by (rounding error / gap) x increment in float32, so the clamp at input_max is tested with "
          "that bound and exactly at input_max + 0.25",
          "geometric mean: guaranteed range is [eps, 1+eps] (eps 1e-8 in cdf_fn, 1e-3 in the layer), not [0,1]",
          "tfl.layers.CDF built on D>1 inputs and called with a (batch,1) input: num_terms / reshape sizes are taken "
          "from the input, so geometric_mean returns the product (upper bound (1+eps)^D) and sparsity_factor>1 raises; "
          "only reductions mean/none are exercised for that form",
          "dtype: CDF(dtype=float64, input_scaling_type='fixed') and pwl_calibration_fn float64 with "
          "keypoint_input_parameters=None or a given missing_output_value raise TypeError (float32 hard-coded); those "
          "combinations are run in float32",
          "empty reductions (0 keypoints, 0 inputs) are 0 in the model and NaN in TensorFlow; not generated",
          "documented keypoint_output_parameters forms (batch, size) and (batch, 1, size) are rejected when units > 1 "
          "(the tile branch for them is dead code); C15_param_sizes is stated for the accepted forms and "
          "C15_param_forms_refuted records the rejected one",
          "cdf_fn with scaling_parameters that cannot be broadcast to location_parameters (an axis neither 1 nor of the "
          "full size, or a scaling batch axis larger than the location batch axis) is rejected by the code (ValueError "
          "from the tf.broadcast_to probe in _verify_cdf_params) but Model/CDF.v verify_cdf has no such clause (bsel reads "
          "missing entries as 0 and returns Some): these calls are generated as outcome-only cases (ValueError "
          "demanded, no Coq term); the clause was not added to the model because cdf_fn's body is unfolded by "
          "Proofs/CDF.v and Proofs/Representations.v. The other rejected cdf_fn calls (unknown activation / reduction "
          "string, units or input_dim not divisible by sparsity_factor, location_parameters axis 1 != input_dim or "
          "axis 3 != units // sparsity_factor) are compared with the model's None; location_parameters of rank != 4 "
          "cannot be written as a model term and are not generated",
          "pwl_calibration_fn with units=1 and a rank-3 keypoint_input_parameters whose middle dimension is neither 1 "
          "nor units (e.g. shape (batch, 3, K-2)): the code accepts this undocumented form and returns an output of "
          "width 3, the model returns None; not generated",
          "tfl.layers.CDF built on input_dim 1 and then called with a wider input (width 3): the code broadcasts the "
          "input against the (1, 1, keypoints, units) kernel and returns a value, the model's cdf_layer returns None "
          "(it accepts width == built input_dim or width 1 only); not generated"]

EPS32 = 2.0 ** -23
EPS64 = 2.0 ** -52


def c3(t):
  return clist([cqm(m) for m in t])


def c4(t):
  return clist([c3(m) for m in t])


def ctbl(pairs):
  return clist(["(%s, %s)" % (cq(k), cq(v)) for k, v in pairs]) if pairs else "(@nil (Q*Q))"


def dyl(rng, n, lo, hi, denom=8):
  return [tfimpl.dy(rng, lo, hi, denom) for _ in range(n)]


# ----------------------------------------------------------------------------
# generators
# ----------------------------------------------------------------------------
KIP_FORMS = ["none", "2d_1", "2d_B", "3d_1_1", "3d_B_1", "3d_1_U", "3d_B_U"]
KOP_FORMS = ["2d_1", "2d_B", "3d_1_1", "3d_B_1", "3d_1_U", "3d_B_U"]


def form_shape(form, B, units, size):
  parts = form.split("_")
  b = 1 if parts[1] == "1" else B
  if parts[0] == "2d":
    return (b, size)
  return (b, 1 if parts[2] == "1" else units, size)


def rand_tensor(rng, shape, pclass):
  def val():
    if pclass == "zeros":
      return 0.0
    if pclass == "large":
      return rng.choice([1e4, -1e4, 100.0, -100.0, 30.0, -30.0, 0.0, 1.5, -2.0, 12.0, -12.0])
    return tfimpl.dy(rng, -3, 3)
  def build(sh):
    if len(sh) == 1:
      return [val() for _ in range(sh[0])]
    return [build(sh[1:]) for _ in range(sh[0])]
  return build(list(shape))


def kop_form_accepted(form, units):
  if units == 1:
    return True
  return form in ("3d_1_U", "3d_B_U")


BAD_KINDS = ["width_lt", "width_gt", "mono", "clamp_none", "cyc_inc", "mout_only", "in_order", "out_order"]


def gen_pwl(rng, pclass, bad=None):
  units = rng.choice([1, 1, 2, 3])
  B = rng.choice([1, 2, 3, 4])
  mono = rng.choice(["none", "increasing", "increasing"])
  K = rng.randint(2, 6)
  kip_form = rng.choice(KIP_FORMS)
  if kip_form == "none":
    K = 2
  cyc = cmin = cmax = False
  if mono == "none":
    cyc = rng.random() < 0.4
  else:
    cmin = rng.random() < 0.5
    cmax = rng.random() < 0.5
  missing = rng.choice([None, None, "derived", "given"])
  in_min = tfimpl.dy(rng, -4, 4, 4)
  in_max = in_min + rng.choice([0.5, 1.0, 1.0, 2.0, 4.0])
  out_min = tfimpl.dy(rng, -4, 4, 4)
  out_max = out_min + rng.choice([0.0, 0.5, 1.0, 1.0, 3.0, 8.0])
  if rng.random() < 0.04:
    in_max = in_min  # accepted: a step function
  missing_in = missing_out = None
  if missing:
    missing_in = rng.choice([in_min - 1.0, in_max + 2.0, (in_min + in_max) / 2, in_min])
    if missing == "given":
      missing_out = rng.choice([out_min - 1.0, (out_min + out_max) / 2, out_max + 0.5])
  width = units if (units > 1 and rng.random() < 0.6) else 1
  # invalid configurations: everything else (sizes included) stays consistent, so that only the check
  # under test can reject the call
  if bad is None and rng.random() < 0.05:
    bad = rng.choice(BAD_KINDS)
  if bad == "width_lt":
    units, width = 3, 2
  elif bad == "width_gt":
    width = units + rng.choice([1, 2])
  elif bad == "mono":
    mono = "decreasing"
  elif bad == "clamp_none":
    mono, cyc = "none", False
    cmin, cmax = rng.choice([(True, False), (False, True), (True, True)])
    K = max(K, 4)
    if kip_form == "none":
      kip_form = "2d_1"
  elif bad == "cyc_inc":
    mono, cyc = "increasing", True
    K = max(K, 4)
    if kip_form == "none":
      kip_form = "2d_1"
  elif bad == "mout_only":
    missing, missing_in, missing_out = "out_only", None, out_min
  elif bad == "in_order":
    in_min, in_max = in_min + 0.25, in_min
  elif bad == "out_order":
    out_min, out_max = out_min + 0.25, out_min
  # (for 'mout_only' the size the check itself computes, so that only the flag test can reject)
  size = K - int(cyc) - int(cmin) - int(cmax) + int(missing == "derived") - int(bad == "mout_only")
  sizeclass = "ok"
  r = rng.random()
  if bad:
    sizeclass = "bad_" + bad
  elif r < 0.06:
    size += 1
    sizeclass = "size+1"
  elif r < 0.12 and size >= 1:
    size -= 1
    sizeclass = "size-1"
  if units > 1 and (bad or rng.random() > 0.12):
    kop_form = rng.choice(["3d_1_U", "3d_B_U"])
  else:
    kop_form = rng.choice(KOP_FORMS)
  f64_ok = kip_form != "none" and missing != "given"
  dtype = "f64" if (f64_ok and rng.random() < 0.4) else "f32"
  kip = None if kip_form == "none" else rand_tensor(rng, form_shape(kip_form, B, units, K - 2), pclass)
  kop = rand_tensor(rng, form_shape(kop_form, B, units, max(size, 0)), pclass)
  rng_in = in_max - in_min
  pool = [in_min, in_max, in_min - 0.5, in_min - 3.0, in_max + 0.25, in_max + 5.0]
  pool += [in_min + rng_in * j / 64.0 for j in (1, 7, 16, 21, 32, 40, 48, 63)]
  if pclass == "zeros" and K > 2:
    pool += [float(np.float32(in_min + rng_in * j / (K - 1))) for j in range(1, K - 1)]
  if missing_in is not None:
    pool += [missing_in, missing_in]
  inputs = [[rng.choice(pool) for _ in range(width)] for _ in range(B)]
  return dict(kind="pwl", pclass=pclass, sizeclass=sizeclass, dtype=dtype, units=units, B=B, K=K, mono=mono,
              cmin=cmin, cmax=cmax, cyc=cyc, missing=missing, missing_in=missing_in, missing_out=missing_out,
              in_min=in_min, in_max=in_max, out_min=out_min, out_max=out_max,
              kip_form=kip_form, kop_form=kop_form, kip=kip, kop=kop, inputs=inputs, bad=bad)


def regress_descs():
  base = dict(kind="pwl", pclass="regress", sizeclass="ok", dtype="f32", units=1, B=3, K=3, mono="none",
              cmin=False, cmax=False, cyc=False, missing=None, missing_in=None, missing_out=None,
              in_min=0.0, in_max=1.0, out_min=0.0, out_max=1.0, kip_form="2d_1", kop_form="2d_1",
              kop=[[0.5, 1.5, -1.0]], inputs=[[0.0], [0.5], [1.0]], bad=None)
  out = []
  for kipv, lo, hi in ((100.0, 0.0, 1.0), (-100.0, 0.0, 1.0), (0.5, 0.5, 0.5)):
    for mono in ("none", "increasing"):
      d = dict(base)
      d.update(kip=[[kipv]], in_min=lo, in_max=hi, mono=mono)
      out.append(d)
  # a tiny non-zero gap absorbed by rounding, followed by a zero gap (NaN -> 1 left the bounds here)
  for dtype, kip, lo, hi in (("f32", [[-200.0, 80.0]], 1.0, 2.0), ("f64", [[-10000.0, 100.0]], 2.5, 3.0)):
    d = dict(base)
    d.update(kip=kip, K=4, in_min=lo, in_max=hi, kop=[[-3.0, 3.0, -3.0, 0.0]], dtype=dtype, pclass="large",
             inputs=[[lo - 1.0], [lo], [hi]])
    out.append(d)
  # known finding D66: documented (1, 1, size) keypoint_output_parameters with units = 2
  d = dict(base)
  d.update(units=2, B=1, kip_form="3d_1_U", kip=[[[0.0], [0.0]]], kop_form="3d_1_1", kop=[[[0.5, 1.5, -1.0]]],
           inputs=[[0.25, 0.75]], pclass="regress")
  out.append(d)
  return out


def chain(rng, B, D):
  row = dyl(rng, D, -2, 3, 4)
  rows = [list(row)]
  for _ in range(B - 1):
    row = list(row)
    i = rng.randrange(D)
    row[i] += rng.choice([0.0, 0.25, 0.5, 1.0, 4.0])
    rows.append(row)
  return rows


# rejected cdf_fn calls (ValueError from _verify_cdf_params expected, model: None); 'scal_bcast' has no model side
CDF_BAD = ["act", "red", "units_sf", "dim_sf", "loc_dim", "loc_uf", "scal_bcast"]


def gen_cdf(rng, kind, bad=None, long=False):
  act = rng.choice(["relu6", "relu6", "sigmoid"])
  red = rng.choice(["mean", "geometric_mean", "none"])
  sf = rng.choice([1, 1, 1, 2, 3])
  units = sf * rng.choice([1, 2])
  D = sf * rng.choice([1, 2])
  if sf == 1:
    D = rng.choice([1, 2, 3])
    units = rng.choice([1, 2, 3])
  if kind == "cdf_fn" and bad is None and rng.random() < 0.1:
    bad = rng.choice(CDF_BAD)
  if bad == "act":
    act = rng.choice(["tanh", "relu", "Sigmoid", "RELU6", ""])
  elif bad == "red":
    red = rng.choice(["sum", "max", "Mean", "geometric", ""])
  elif bad in ("units_sf", "dim_sf"):
    sf = rng.choice([2, 3])
    good, odd = sf * rng.choice([1, 2]), sf * rng.choice([1, 2]) + rng.randint(1, sf - 1)
    units, D = (odd, good) if bad == "units_sf" else (good, odd)
  F = rng.randint(1, 4)
  B = rng.randint(2, 4)
  if long:   # long monotone chains (classes *_long; appended after the other cases: their random stream is unchanged)
    B = rng.randint(6, 12)
  uf = units // sf
  pclass = rng.choice(["moderate", "moderate", "moderate", "ties", "large"])
  def pv():
    if pclass == "large":
      return rng.choice([1e4, -1e4, 1e3, -50.0, 0.0, 0.5])
    if pclass == "ties":
      return float(rng.choice([-1, 0, 0, 1]))
    return tfimpl.dy(rng, -2, 2)
  xs = chain(rng, B, D)
  d = dict(kind=kind, act=act, red=red, sf=sf, units=units, D=D, F=F, B=B, pclass=pclass, xs=xs)
  if long:
    d["long"] = True
  if kind == "cdf_fn":
    d["bad"] = bad
    d["dtype"] = rng.choice(["f32", "f64"])
    lb = rng.choice([1, B, B])
    shared = lb == 1 or rng.random() < 0.6
    # location_parameters axes 1 / 3 of the wrong size for 'loc_dim' / 'loc_uf'
    Dl = D + (rng.choice([1, -1] if D > 1 else [1]) if bad == "loc_dim" else 0)
    ul = uf + (rng.choice([1, -1] if uf > 1 else [1]) if bad == "loc_uf" else 0)
    one = [[[pv() for _ in range(ul)] for _ in range(F)] for _ in range(Dl)]
    if shared:
      loc = [one for _ in range(lb)]
    else:
      loc = [[[[pv() for _ in range(ul)] for _ in range(F)] for _ in range(Dl)] for _ in range(lb)]
    d["loc"] = loc
    d["shared"] = shared
    smode = rng.choice(["none", "nonneg", "nonneg", "exp", "neg"])
    if long and smode == "neg":
      smode = "nonneg"
    if bad == "scal_bcast" and smode == "none":
      smode = "nonneg"
    d["smode"] = smode
    d["expm"] = None
    d["scal"] = None
    if smode != "none":
      sh = (rng.choice([1, lb]), D, rng.choice([1, F]), rng.choice([1, uf]))
      if bad == "scal_bcast":   # one axis neither 1 nor the size of location_parameters' axis
        ax = rng.choice([1, 2, 3])
        sh = tuple((Dl, F, ul)[i - 1] + 1 if i == ax else n for i, n in enumerate(sh))
      def sv():
        if smode == "nonneg":
          return rng.choice([0.0, 0.5, 1.0, 2.0, 0.25, 4.0])
        if smode == "exp":
          return tfimpl.dy(rng, -2, 2)
        return rng.choice([-1.0, 0.5, -0.25, 2.0])
      one_s = [[[sv() for _ in range(sh[3])] for _ in range(sh[2])] for _ in range(sh[1])]
      d["scal"] = [one_s for _ in range(sh[0])]  # identical along the batch: chains stay comparable
      if smode == "exp":
        d["expm"] = rng.choice([0.5, 1.0, -1.0])
  else:
    d["kernel"] = [[[pv() for _ in range(uf)] for _ in range(F)] for _ in range(D)]
    stype = rng.choice(["fixed", "learned_shared", "learned_per_input"])
    d["stype"] = stype
    d["smono"] = rng.choice(["increasing", "increasing", "none"])
    # float64: tf.constant scaling (fixed) and keras NonNeg (floatx cast) are float32-only
    d["dtype"] = rng.choice(["f32", "f64"]) if (stype != "fixed" and d["smono"] == "none") else "f32"
    if stype == "fixed":
      d["sinit"] = rng.choice([None, 0.5, 2.0, 0.0, 1.0])
      d["sraw"] = None
    else:
      d["sinit"] = None
      n = 1 if stype == "learned_shared" else D
      d["sraw"] = [rng.choice([0.0, 0.5, 1.0, 2.0, -1.0, 3.0, -0.5]) for _ in range(n)]
    d["bcast1"] = bool(sf == 1 and D > 1 and red != "geometric_mean" and rng.random() < 0.25)
    if d["bcast1"]:
      d["xs"] = [[r[0]] for r in xs]
  return d


def gen_descs(ctx):
  rng = ctx.rng
  out = list(regress_descs())
  n = ctx.n(170, 3000)
  for i in range(n):
    r = rng.random()
    pclass = "moderate" if r < 0.6 else ("zeros" if r < 0.72 else "large")
    out.append(gen_pwl(rng, pclass))
  for kind in BAD_KINDS:
    out.append(gen_pwl(rng, "moderate", bad=kind))
  for i in range(ctx.n(60, 1200)):
    out.append(gen_cdf(rng, "cdf_fn"))
  for bad in CDF_BAD:
    out.append(gen_cdf(rng, "cdf_fn", bad=bad))
  for i in range(ctx.n(60, 1200)):
    out.append(gen_cdf(rng, "cdf_layer"))
  # long chains (6-12 ordered points) for the monotonicity clause of cdf_fn; valid calls, non-negative scaling
  for i in range(ctx.n(10, 200)):
    out.append(gen_cdf(rng, "cdf_fn", bad="", long=True))
  # inputs of batch size 1 broadcast against parameter tensors of batch size B (the "1 or batch_size" reading of
  # C15_pwl_fn_total for the inputs axis; classes *_xb1)
  for i in range(ctx.n(10, 200)):
    d = gen_pwl(rng, "moderate" if i % 5 else "large", bad="")
    d["inputs"] = d["inputs"][:1]
    d["xb1"] = True
    out.append(d)
  return out


# ----------------------------------------------------------------------------
# pwl_calibration_fn
# ----------------------------------------------------------------------------
def _to3(a):
  return a[:, None, :] if a.ndim == 2 else a


def _tile(a, units):
  if a.shape[1] == 1 and units > 1:
    return np.tile(a, (1, units, 1))
  return a


def pwl_call(tf, fn, d, inputs, kip, kop, derived=True):
  dt = tf.float64 if d["dtype"] == "f64" else tf.float32
  return fn(
      inputs=tf.constant(np.array(inputs, dtype=np.float64), dtype=dt),
      keypoint_input_parameters=None if kip is None else tf.constant(np.array(kip, dtype=np.float64), dtype=dt),
      keypoint_output_parameters=tf.constant(np.array(kop, dtype=np.float64), dtype=dt),
      keypoint_input_min=d["in_min"], keypoint_input_max=d["in_max"],
      keypoint_output_min=d["out_min"], keypoint_output_max=d["out_max"],
      units=d["units"], monotonicity=d["mono"], clamp_min=d["cmin"], clamp_max=d["cmax"],
      is_cyclic=d["cyc"], missing_input_value=d["missing_in"], missing_output_value=d["missing_out"],
      return_derived_parameters=derived)


def pwl_tables(tf, d):
  """softmax / sigmoid oracle tables on exactly the rows the code feeds them."""
  npdt = np.float64 if d["dtype"] == "f64" else np.float32
  units = d["units"]
  sm_rows = []
  sg_vals = []
  if d["kip"] is None:
    sm_rows.append(np.zeros((1,), dtype=npdt))
  else:
    k3 = _tile(_to3(np.array(d["kip"], dtype=npdt)), units)
    pad = np.concatenate([np.zeros(k3.shape[:2] + (1,), dtype=npdt), k3], axis=-1)
    sm_rows.extend(pad.reshape(-1, pad.shape[-1]))
  o3 = _tile(_to3(np.array(d["kop"], dtype=npdt)), units)
  if d["missing"] == "derived":
    sg_vals.extend(o3[:, :, -1].ravel())
    o3 = o3[:, :, :-1]
  if d["mono"] == "none":
    sg_vals.extend(o3.ravel())
  else:
    pad = np.concatenate([np.zeros(o3.shape[:2] + (1,), dtype=npdt), o3], axis=-1)
    sm_rows.extend(pad.reshape(-1, pad.shape[-1]))
  smt, seen = [], set()
  problems = []
  for row in sm_rows:
    key = tuple(float(v) for v in row)
    if key in seen:
      continue
    seen.add(key)
    val = tf.nn.softmax(tf.constant(np.array(row, dtype=npdt)[None, None, :]), axis=-1).numpy().ravel()
    val = [float(v) for v in val]
    if len(val) != len(key) or min(val) < 0.0 or abs(sum(val) - 1.0) > 1e-5 or not all(math.isfinite(v) for v in val):
      problems.append("softmax oracle hypothesis violated on %r -> %r" % (key, val))
    smt.append((key, val))
  sgt, seen = [], set()
  for v in sg_vals:
    key = float(v)
    if key in seen:
      continue
    seen.add(key)
    val = float(tf.sigmoid(tf.constant(np.array([v], dtype=npdt))).numpy()[0])
    if not (0.0 <= val <= 1.0):
      problems.append("sigmoid oracle hypothesis violated on %r -> %r" % (key, val))
    sgt.append((key, val))
  ks = sorted(sgt)
  for (k1, v1), (k2, v2) in zip(ks, ks[1:]):
    if v1 > v2:
      problems.append("sigmoid not monotone on captured values")
  return smt, sgt, problems


def first_order_tol(d, X, deltas, kos):
  """Bound on |float result - exact result on the same derived parameters| caused by the rounding of the
  keypoint positions (slope of each piece the input is in or next to, times the position error)."""
  eps = EPS64 if d["dtype"] == "f64" else EPS32
  K = deltas.shape[-1] + 1
  worst = 0.0
  for b in range(X.shape[0]):
    for u in range(X.shape[1]):
      dl = deltas[b if deltas.shape[0] > 1 else 0, u]
      ko = kos[b if kos.shape[0] > 1 else 0, u]
      x = X[b, u]
      kp = d["in_min"] + np.concatenate([[0.0], np.cumsum(dl)[:-1]])
      err = eps * (4 * max(abs(x), abs(d["in_min"]), abs(d["in_max"]), 1.0) + K * abs(d["in_max"] - d["in_min"]))
      zone = 16 * err
      for i in range(K - 1):
        if dl[i] > 0 and kp[i] - zone <= x <= kp[i] + dl[i] + zone and i + 1 < len(ko):
          worst = max(worst, abs(ko[i + 1]) / dl[i] * err)
  return worst


def slice_row0(t):
  return None if t is None else [t[0]]


def _np_sigmoid(p):
  return 0.5 * (1.0 + math.tanh(0.5 * float(p)))


def derived_missing_check(d, kop, b, u, got, eps):
  """The docstring's value of the derived missing output, computed from the RAW parameters independently of the
  implementation and of the model: keypoint_output_min + sigmoid(last output parameter of the (b, u) slice) * range."""
  o3 = _to3(np.array(kop, dtype=np.float64))
  p = o3[b if o3.shape[0] > 1 else 0, u if o3.shape[1] > 1 else 0, -1]
  rng_out = d["out_max"] - d["out_min"]
  want = d["out_min"] + _np_sigmoid(p) * rng_out
  tol = eps + (1e-6 if d["dtype"] == "f32" else 1e-13) * abs(rng_out)
  if abs(got - want) > tol:
    return ("derived missing output is %r, not keypoint_output_min + sigmoid(last output parameter %r) * "
            "(keypoint_output_max - keypoint_output_min) = %r (example %d, unit %d)" % (float(got), float(p), want, b, u))
  return None


def pwl_grid_probe(tf, fn, d, eager):
  """Implementation-side predicates on a grid, parameters of batch row 0."""
  rng_in = d["in_max"] - d["in_min"]
  grid = [d["in_min"] - 2.0, d["in_min"] - 0.25, d["in_min"]]
  grid += [d["in_min"] + rng_in * j / 8.0 for j in range(1, 8)]
  grid += [d["in_max"], d["in_max"] + 0.25, d["in_max"] + 3.0]
  grid = sorted(set(float(np.float32(g)) for g in grid))
  if d["missing_in"] is not None:
    grid = [g for g in grid if g != d["missing_in"]]
  pts = grid + ([d["missing_in"]] if d["missing_in"] is not None else [])
  f = eager or fn
  out, deltas, kos = pwl_call(tf, f, d, [[g] for g in pts], slice_row0(d["kip"]), slice_row0(d["kop"]))
  out = np.array(out.numpy(), dtype=np.float64)
  deltas = np.array(deltas.numpy(), dtype=np.float64)
  kos = np.array(kos.numpy(), dtype=np.float64)
  units = d["units"]
  if out.shape != (len(pts), units):
    return "grid probe: output shape %r, expected %r" % (out.shape, (len(pts), units))
  if not np.all(np.isfinite(out)):
    return "non-finite output on the grid: %r at x=%r" % (out[~np.isfinite(out).all(axis=1)][0].tolist(),
                                                           [pts[i] for i in range(len(pts)) if not np.isfinite(out[i]).all()][0])
  scale = max(1.0, abs(d["out_min"]), abs(d["out_max"]))
  eps = 2e-6 * scale if d["dtype"] == "f32" else 1e-12 * scale
  G = len(grid)
  g_out = out[:G]
  lo, hi = d["out_min"], d["out_max"]
  if g_out.min() < lo - eps or g_out.max() > hi + eps:
    return "output outside [keypoint_output_min, keypoint_output_max]: min %r max %r bounds [%r, %r]" % (
        g_out.min(), g_out.max(), lo, hi)
  if d["mono"] == "increasing":
    for u in range(units):
      col = g_out[:, u]
      run = np.maximum.accumulate(col)
      if np.any(col < run - eps):
        i = int(np.argmax(col < run - eps))
        return "not non-decreasing in the input (unit %d): f=%r at x=%r below an earlier value %r" % (
            u, col[i], grid[i], run[i])
  i_min = grid.index(d["in_min"]) if d["in_min"] in grid else None
  i_max = grid.index(d["in_max"]) if d["in_max"] in grid else None
  X = np.tile(np.array(grid)[:, None], (1, units))
  ftol = first_order_tol(d, X, deltas, kos)
  for u in range(units):
    # a zero (or rounding-absorbed) gap touching input_max is a left-continuous step: f(input_max) is the value
    # before it, so the checks AT input_max apply only when every piece ending there is longer than rounding
    dl = deltas[0, u]
    ends = d["in_min"] + np.cumsum(dl)
    zone = 64 * (EPS64 if d["dtype"] == "f64" else EPS32) * max(abs(d["in_min"]), abs(d["in_max"]), 1.0)
    last_gap = min([dl[i] for i in range(len(dl)) if ends[i] >= d["in_max"] - zone] or [0.0])
    last_gap = last_gap if last_gap > zone else 0.0
    if d["cmin"]:
      if abs(g_out[0, u] - lo) > eps or abs(g_out[1, u] - lo) > eps:
        return "clamp_min: value left of keypoint_input_min is %r, not keypoint_output_min %r" % (g_out[1, u], lo)
      if i_min is not None and abs(g_out[i_min, u] - lo) > eps:
        return "clamp_min: f(keypoint_input_min) = %r, not keypoint_output_min %r" % (g_out[i_min, u], lo)
    if d["cmax"]:
      if abs(g_out[-1, u] - hi) > eps or abs(g_out[-2, u] - hi) > eps:
        return "clamp_max: value right of keypoint_input_max is %r, not keypoint_output_max %r" % (g_out[-2, u], hi)
      if last_gap > 0 and i_max is not None and abs(g_out[i_max, u] - hi) > eps + 2 * ftol:
        return "clamp_max: f(keypoint_input_max) = %r, not keypoint_output_max %r" % (g_out[i_max, u], hi)
    if d["cyc"]:
      if abs(g_out[0, u] - g_out[-1, u]) > eps:
        return "is_cyclic: values beyond both ends differ: %r vs %r" % (g_out[0, u], g_out[-1, u])
      if last_gap > 0 and i_min is not None and i_max is not None and abs(g_out[i_min, u] - g_out[i_max, u]) > eps + 2 * ftol:
        return "is_cyclic: f(input_min) = %r differs from f(input_max) = %r" % (g_out[i_min, u], g_out[i_max, u])
    # cumulative sums of the derived outputs are the keypoint outputs
    ys = np.cumsum(kos[0, u])
    if ys.min() < lo - eps or ys.max() > hi + eps:
      return "derived keypoint outputs outside the bounds: %r" % ys.tolist()
    if d["mono"] == "increasing" and np.any(np.diff(ys) < -eps):
      return "derived keypoint outputs not non-decreasing: %r" % ys.tolist()
    if deltas[0, u].min() < 0 or abs(deltas[0, u].sum() - rng_in) > 1e-5 * max(1.0, abs(rng_in)):
      return "derived keypoint gaps negative or not summing to the input range: %r" % deltas[0, u].tolist()
  if d["missing_in"] is not None:
    m_out = out[G]
    for u in range(units):
      if d["missing_out"] is not None:
        if abs(m_out[u] - d["missing_out"]) > eps:
          return "missing input maps to %r, not missing_output_value %r" % (m_out[u], d["missing_out"])
      elif m_out[u] < lo - eps or m_out[u] > hi + eps:
        return "derived missing output %r outside the bounds" % m_out[u]
      else:
        bad = derived_missing_check(d, slice_row0(d["kop"]), 0, u, m_out[u], eps)
        if bad:
          return bad
  return None


def coq_ptens(t):
  a = np.array(t)
  if a.ndim == 2:
    return "(P2 %s)" % cqm(t)
  return "(P3 %s)" % c3(t)


def eval_pwl(tf, tfl, d):
  fn = tfl.conditional_pwl_calibration.pwl_calibration_fn
  eager = getattr(fn, "python_function", None)
  npdt = np.float64 if d["dtype"] == "f64" else np.float32
  kop_arr = np.array(d["kop"], dtype=np.float64)
  d_kop = d["kop"]
  fail = None
  out = deltas = kos = None
  exc = None
  try:
    res = pwl_call(tf, fn, d, d["inputs"], d["kip"], d["kop"])
    out, deltas, kos = [np.array(t.numpy(), dtype=np.float64) for t in res]
  except ValueError as e:
    exc = "ValueError"
    msg = str(e)
  except Exception as e:  # pylint: disable=broad-except
    exc = type(e).__name__
    fail = "pwl_calibration_fn raised %s: %s" % (exc, str(e)[-300:])
  size_doc = d["K"] - int(d["cyc"]) - int(d["cmin"]) - int(d["cmax"]) + int(d["missing"] == "derived")
  # the size check itself (private helper, compared when it exists): a later shape error of TensorFlow must not
  # stand in for a missing validation
  verify_fn = getattr(tfl.conditional_pwl_calibration, "_verify_pwl_calibration", None)
  verify_raised = None
  if verify_fn is not None:
    try:
      dt = tf.float64 if d["dtype"] == "f64" else tf.float32
      verify_fn(inputs=tf.constant(np.array(d["inputs"], dtype=np.float64), dtype=dt),
                keypoint_input_parameters=None if d["kip"] is None else tf.constant(np.array(d["kip"], dtype=np.float64), dtype=dt),
                keypoint_output_parameters=tf.constant(kop_arr, dtype=dt), units=d["units"],
                keypoint_input_min=d["in_min"], keypoint_input_max=d["in_max"],
                keypoint_output_min=d["out_min"], keypoint_output_max=d["out_max"],
                clamp_min=d["cmin"], clamp_max=d["cmax"], monotonicity=d["mono"], is_cyclic=d["cyc"],
                missing_input_value=d["missing_in"], missing_output_value=d["missing_out"])
      verify_raised = False
    except ValueError:
      verify_raised = True
    except Exception:  # pylint: disable=broad-except
      verify_raised = None  # signature changed: this extra comparison is silent
  # `accept`: what the CODE lets through; `accept_doc`: what the docstring documents - keypoint_output_parameters of
  # shape (1 or batch, 1 or units, size) - the middle dimension 1 with units > 1 is documented but rejected (known
  # finding D66, class kop_unit_broadcast_form_rejected)
  accept = (size_doc > 0 and kop_arr.shape[-1] == size_doc and kop_form_accepted(d["kop_form"], d["units"])
            and not d.get("bad"))
  accept_doc = (size_doc > 0 and kop_arr.shape[-1] == size_doc and not d.get("bad") and
                (d["units"] == 1 or d["kop_form"].startswith("3d")))
  if fail is None:
    if accept_doc and not accept and exc:
      fail = "documented call form rejected: keypoint_output_parameters of shape %r with units=%d (kop form %s): %s" % (
          tuple(kop_arr.shape), d["units"], d["kop_form"], msg[-160:])
    elif accept and exc:
      fail = "documented call form rejected (kip form %s, kop form %s, %d keypoints, size %d): %s" % (
          d["kip_form"], d["kop_form"], d["K"], size_doc, msg[-200:])
    elif not accept and not exc:
      fail = "call accepted although %s" % (
          "the configuration is invalid (%s)" % d["bad"] if d.get("bad") else
          "keypoint_output_parameters has last dimension %d and the documented size is %d" % (kop_arr.shape[-1], size_doc))
  if fail is None and verify_raised is not None and verify_raised == accept:
    fail = "_verify_pwl_calibration %s a call that is %s (%s)" % (
        "rejects" if verify_raised else "accepts", "documented" if accept else "invalid",
        d.get("bad") or "size %d, documented %d" % (kop_arr.shape[-1], size_doc))
  coq = None
  klass = "pwl_%s_%s_%s%s%s%s_%s" % (d["pclass"], d["mono"][:3], "c" if d["cyc"] else "", "m" if d["cmin"] else "",
                                     "M" if d["cmax"] else "", {None: "", "derived": "d", "given": "g", "out_only": "o"}[d["missing"]],
                                     "rej" if exc else "ok")
  if d["sizeclass"] != "ok":
    klass += "_" + d["sizeclass"]
  if d.get("xb1"):
    klass += "_xb1"
  tol = dtol = 0.0
  if fail is None and exc is None:
    units = d["units"]
    Bout = out.shape[0]
    # C15_pwl_fn_shape: (largest batch axis of inputs / both parameter tensors, units)
    Bdoc = max(len(d["inputs"]), len(d["kop"]), 1 if d["kip"] is None else len(d["kip"]))
    if out.shape != (Bdoc, units):
      fail = "output shape %r, expected (broadcast batch, units) = %r" % (out.shape, (Bdoc, units))
    elif not (np.all(np.isfinite(out)) and np.all(np.isfinite(deltas)) and np.all(np.isfinite(kos))):
      fail = "non-finite output or derived parameters: %r" % out.tolist()
    else:
      X = np.array(d["inputs"], dtype=np.float64)
      if X.shape[1] == 1 and units > 1:
        X = np.tile(X, (1, units))
      if X.shape[0] == 1 and Bout > 1:
        X = np.tile(X, (Bout, 1))
      scale = max(1.0, abs(d["out_min"]), abs(d["out_max"]))
      eps = 2e-6 * scale if d["dtype"] == "f32" else 1e-12 * scale
      for b in range(Bout):
        for u in range(units):
          is_missing = d["missing_in"] is not None and X[b, u] == d["missing_in"]
          if is_missing and d["missing_out"] is not None:
            if abs(out[b, u] - d["missing_out"]) > eps:
              fail = "missing input maps to %r, not missing_output_value %r" % (out[b, u], d["missing_out"])
          elif out[b, u] < d["out_min"] - eps or out[b, u] > d["out_max"] + eps:
            fail = "output %r outside [%r, %r] at x=%r" % (out[b, u], d["out_min"], d["out_max"], X[b, u])
          elif is_missing and fail is None:
            fail = derived_missing_check(d, d["kop"], b, u, out[b, u], eps)
      if fail is None:
        try:
          fail = pwl_grid_probe(tf, fn, d, eager)
        except Exception as e:  # pylint: disable=broad-except
          fail = "grid probe raised %s: %s" % (type(e).__name__, str(e)[-300:])
      if fail is None and d["pclass"] != "large":
        ftol = first_order_tol(d, X, deltas, kos)
        base = 1e-9 if d["dtype"] == "f64" else 1e-5
        tol = base * scale + 2 * ftol
        dtol = base * scale
        if ftol > 1e-3 * scale:
          klass += "_illcond"
        else:
          smt, sgt, problems = pwl_tables(tf, d)
          if problems:
            fail = problems[0]
          coq_out = "(Some %s)" % cqm(out.tolist())
          coq = _pwl_term(d, d_kop, smt, sgt, tol, dtol, coq_out, c3(deltas.tolist()), c3(kos.tolist()))
  elif fail is None and exc == "ValueError":
    coq = _pwl_term(d, d_kop, [], [], 0.0, 0.0, "None", "[]", "[]")
  return Case(d, coq=coq, pred_fail=fail, nontrivial=exc is None, klass=klass,
              info={"impl_output": None if out is None else out.tolist(), "impl_exception": exc,
                    "tol": tol})


def _pwl_term(d, d_kop, smt, sgt, tol, dtol, coq_out, cdeltas, ckos):
  mono = {"none": "MonoNone", "increasing": "MonoInc"}.get(d["mono"], "MonoOther")
  cfg = "(mkP %s %s %s %s %s %s %s %s %s %s %s)" % (
      cq(d["in_min"]), cq(d["in_max"]), cq(d["out_min"]), cq(d["out_max"]), cnat(d["units"]), mono,
      cbool(d["cmin"]), cbool(d["cmax"]), cbool(d["cyc"]), copt(d["missing_in"]), copt(d["missing_out"]))
  kip = "None" if d["kip"] is None else "(Some %s)" % coq_ptens(d["kip"])
  kop = "(P2 %s)" % cqm(d_kop) if np.array(d_kop).ndim == 2 else "(P3 %s)" % c3(d_kop)
  smt_c = clist(["(%s, %s)" % (cql(k), cql(v)) for k, v in smt]) if smt else "(@nil (list Q * list Q))"
  return "CPwl %s %s %s %s %s %s %s %s %s %s %s" % (
      cfg, cqm(d["inputs"]), kip, kop, smt_c, ctbl(sgt), cq(tol), cq(dtol), coq_out, cdeltas, ckos)


# ----------------------------------------------------------------------------
# cdf_fn / CDF layer
# ----------------------------------------------------------------------------
ACT = {"relu6": "Relu6", "sigmoid": "Sigmoid"}
RED = {"mean": "RMean", "geometric_mean": "RGeo", "none": "RNone"}


def coq_act(a):
  return ACT.get(a, "ActOther")


def coq_red(r):
  return RED.get(r, "RedOther")


def cdf_tables(tf, d, z, cells, eps, nterms_div, expkeys):
  """sigmoid table on the pre-activations z, exp table for the exp-transform, log/exp tables for the
  geometric mean (cells = implementation output with reduction='none')."""
  npdt = np.float64 if d["dtype"] == "f64" else np.float32
  problems = []
  sgt, ext, lgt = [], [], []
  if d["act"] == "sigmoid":
    keys = np.unique(np.array(z, dtype=npdt))
    vals = tf.sigmoid(tf.constant(keys)).numpy()
    sgt = [(float(k), float(v)) for k, v in zip(keys, vals)]
    if np.any(vals < 0) or np.any(vals > 1) or np.any(np.diff(vals) < 0):
      problems.append("sigmoid oracle hypothesis violated")
  if expkeys is not None:
    keys = np.unique(np.array(expkeys, dtype=npdt))
    vals = tf.exp(tf.constant(keys)).numpy()
    ext += [(float(k), float(v)) for k, v in zip(keys, vals)]
    if np.any(vals <= 0) or np.any(np.diff(vals) < 0):
      problems.append("exp oracle hypothesis violated")
  if d["red"] == "geometric_mean":
    keys = np.array(cells, dtype=npdt) + npdt(eps)
    logs = tf.math.log(tf.constant(keys)).numpy()
    uk, idx = np.unique(keys, return_index=True)
    lgt = [(float(k), float(logs.ravel()[i])) for k, i in zip(uk, idx)]
    if np.any(np.diff([v for _, v in lgt]) < 0):
      problems.append("log oracle hypothesis violated")
    args = np.sum(np.array(logs, dtype=np.float64), axis=1) / nterms_div
    akeys = np.unique(np.array(args, dtype=npdt))
    avals = tf.exp(tf.constant(akeys)).numpy()
    ext += [(float(k), float(v)) for k, v in zip(akeys, avals)]
    back = tf.exp(tf.math.log(tf.constant(uk))).numpy()
    if np.any(np.abs(back - uk) > 1e-5 * np.maximum(1.0, np.abs(uk))):
      problems.append("exp(log x) = x oracle hypothesis violated")
  return sgt, ext, lgt, problems


def cdf_preds(d, out, eps_gm, comparable, nonneg):
  if not np.all(np.isfinite(out)):
    return "non-finite output"
  t = 2e-6 if d["dtype"] == "f32" else 1e-12
  hi = 1.0 + (eps_gm if d["red"] == "geometric_mean" else 0.0)
  if out.min() < -t or out.max() > hi * (1 + t) + t:
    return "output outside [0, %r]: min %r max %r" % (hi, out.min(), out.max())
  # geometric mean: the documented range is [eps, 1 + eps] (C15_cdf_range_geometric): exp(mean(log(cell + eps))) with
  # every cell >= 0 is >= eps up to the rounding of log / exp (relative, |log eps| <= 18.5)
  if d["red"] == "geometric_mean":
    rel = 1e-4 if d["dtype"] == "f32" else 1e-10
    if out.min() < eps_gm * (1.0 - rel):
      return "geometric_mean output %r below the documented lower bound eps = %r" % (float(out.min()), eps_gm)
  if comparable and nonneg:
    run = np.maximum.accumulate(out, axis=0)
    if np.any(out < run - t):
      b = int(np.argmax((out < run - t).reshape(out.shape[0], -1).any(axis=1)))
      return "not non-decreasing along the ordered batch: example %d %r below an earlier %r" % (
          b, out[b].tolist(), run[b].tolist())
  return None


def cdf_raised_probe(tf, fn, d, xs, loc, scal, kw, out):
  """Monotonicity for EVERY example with its OWN location parameters (also when they vary over the batch, where the
  ordered-batch chain does not apply): the same call with every input raised by a fixed non-negative dyadic pattern
  (a function of the position only, so the desc determines it) must not give a smaller output anywhere."""
  B, D = xs.shape
  pat = [0.0, 0.25, 1.0, 4.0, 0.0, 0.5]
  inc = np.array([[pat[(3 * b + i) % len(pat)] for i in range(D)] for b in range(B)], dtype=xs.dtype)
  try:
    out2 = np.array(fn(tf.constant(xs + inc), tf.constant(loc), None if scal is None else tf.constant(scal),
                       reduction=d["red"], **kw).numpy(), dtype=np.float64)
  except Exception as e:  # pylint: disable=broad-except
    return "cdf_fn raised %s on the raised inputs: %s" % (type(e).__name__, str(e)[-200:])
  t = 2e-6 if d["dtype"] == "f32" else 1e-12
  if out2.shape != out.shape or np.any(out2 < out - t):
    bad = np.argwhere(out2 < out - t)
    b = int(bad[0][0]) if len(bad) else 0
    return "not non-decreasing in the inputs (own location parameters of example %d): f(x)=%r, f(x + %r)=%r" % (
        b, out[b].tolist(), inc[b].tolist(), out2[b].tolist())
  return None


def eval_cdf_fn(tf, tfl, d):
  fn = tfl.conditional_cdf.cdf_fn
  dt = tf.float64 if d["dtype"] == "f64" else tf.float32
  npdt = np.float64 if d["dtype"] == "f64" else np.float32
  xs = np.array(d["xs"], dtype=npdt)
  loc = np.array(d["loc"], dtype=npdt)
  scal = None if d["scal"] is None else np.array(d["scal"], dtype=npdt)
  kw = dict(units=d["units"], activation=d["act"], sparsity_factor=d["sf"],
            scaling_exp_transform_multiplier=d["expm"])
  fail = None
  out = None
  exc = None
  bad = d.get("bad")
  try:
    args = (tf.constant(xs), tf.constant(loc), None if scal is None else tf.constant(scal))
    res = fn(*args, reduction=d["red"], return_derived_parameters=True, **kw)
    out = np.array(res[0].numpy(), dtype=np.float64)
    dscal = np.array(res[2].numpy(), dtype=np.float64)
    cells = np.array(fn(*args, reduction="none", **kw).numpy(), dtype=np.float64) if d["red"] == "geometric_mean" else None
  except ValueError as e:
    exc = "ValueError"
    if not bad:
      fail = "cdf_fn raised ValueError on a documented call: %s" % str(e)[-300:]
  except Exception as e:  # pylint: disable=broad-except
    exc = type(e).__name__
    fail = "cdf_fn raised %s%s: %s" % (exc, "" if bad else " on a documented call", str(e)[-300:])
  if bad and exc is None:
    fail = "cdf_fn accepted an invalid call (%s)" % bad
  # the validation itself (private helper, compared when it exists): a later shape error of TensorFlow must not stand
  # in for a missing check
  verify_fn = getattr(tfl.conditional_cdf, "_verify_cdf_params", None)
  if verify_fn is not None and fail is None:
    verify_raised = None
    try:
      verify_fn(inputs=tf.constant(xs), location_parameters=tf.constant(loc),
                scaling_parameters=None if scal is None else tf.constant(scal), units=d["units"], activation=d["act"],
                reduction=d["red"], sparsity_factor=d["sf"])
      verify_raised = False
    except ValueError:
      verify_raised = True
    except Exception:  # pylint: disable=broad-except
      verify_raised = None   # signature changed: this extra comparison is silent
    if verify_raised is not None and verify_raised != bool(bad):
      fail = "_verify_cdf_params %s a call that is %s (%s)" % (
          "rejects" if verify_raised else "accepts", "invalid" if bad else "documented", bad or "valid")
  klass = "cdffn_%s_%s_sf%d_%s_%s" % (d["act"] if d["act"] in ACT else "badact", d["red"] if d["red"] in RED else "badred",
                                      d["sf"], d["smode"], d["pclass"])
  if d.get("long"):
    klass += "_long" if d["shared"] else "_long_perex"
  if bad:
    klass = "cdffn_rejected_%s%s" % (bad, "" if exc == "ValueError" else "_NOT_REJECTED")
  coq = None
  if exc == "ValueError" and bad and bad != "scal_bcast":
    # the model's verify_cdf decides None on the same call (non-broadcastable scaling_parameters is not modelled: LIMITS)
    coq = "CCdfFn %s %s %s %s %s %s %s %s %s %s %s %s None" % (
        coq_act(d["act"]), coq_red(d["red"]), cnat(d["units"]), cnat(d["sf"]), copt(d["expm"]), cqm(d["xs"]), c4(d["loc"]),
        "None" if d["scal"] is None else "(Some %s)" % c4(d["scal"]),
        ctbl([]), ctbl([]), ctbl([]), cq(1e-9))
  if fail is None and exc is None:
    B, D, U, sf = d["B"], d["D"], d["units"], d["sf"]
    want = (B, D // sf, U) if d["red"] == "none" else (B, U)
    if out.shape != want:
      fail = "output shape %r, expected %r" % (out.shape, want)
    else:
      nonneg = d["smode"] in ("none", "nonneg", "exp")
      fail = cdf_preds(d, out, 1e-8, d["shared"], nonneg)
      if fail is None and d["smode"] == "exp" and np.any(dscal <= 0):
        fail = "exp-transformed scaling is not positive"
      if fail is None and nonneg:
        fail = cdf_raised_probe(tf, fn, d, xs, loc, scal, kw, out)
    if fail is None and d["pclass"] != "large":
      eff = None
      expkeys = None
      if scal is not None:
        eff = scal
        if d["expm"] is not None:
          expkeys = scal * npdt(d["expm"])
          eff = tf.exp(tf.constant(expkeys)).numpy()
      z = xs[:, :, None, None] - loc
      if eff is not None:
        z = z * eff
      sgt, ext, lgt, problems = cdf_tables(tf, d, z, cells, 1e-8, float(D // sf), expkeys)
      if problems:
        fail = problems[0]
      out3 = out if d["red"] == "none" else out[:, None, :]
      tol = 1e-9 if d["dtype"] == "f64" else 1e-5
      if d["red"] == "geometric_mean":
        tol = max(tol, 1e-6)
      coq = "CCdfFn %s %s %s %s %s %s %s %s %s %s %s %s (Some %s)" % (
          ACT[d["act"]], RED[d["red"]], cnat(U), cnat(sf), copt(d["expm"]), cqm(d["xs"]), c4(d["loc"]),
          "None" if d["scal"] is None else "(Some %s)" % c4(d["scal"]),
          ctbl(sgt), ctbl(ext), ctbl(lgt), cq(tol), c3(out3.tolist()))
  return Case(d, coq=coq, pred_fail=fail, nontrivial=exc is None, klass=klass,
              info={"impl_output": None if out is None else out.tolist(), "impl_exception": exc})


def eval_cdf_layer(tf, tfl, d):
  dt = "float64" if d["dtype"] == "f64" else "float32"
  npdt = np.float64 if d["dtype"] == "f64" else np.float32
  D, U, sf, F = d["D"], d["units"], d["sf"], d["F"]
  fail = None
  out = None
  cells = None
  scaling = None
  try:
    def make(red):
      layer = tfl.layers.CDF(num_keypoints=F, units=U, activation=d["act"], reduction=red,
                             input_scaling_init=d["sinit"], input_scaling_type=d["stype"],
                             input_scaling_monotonicity=d["smono"], sparsity_factor=sf, dtype=dt)
      layer(tf.zeros((1, D), dtype=dt))
      layer.kernel.assign(np.array(d["kernel"], dtype=npdt)[None])
      if d["stype"] == "fixed":
        s = [float(np.array(layer.input_scaling))]
      else:
        var = layer.input_scaling
        raw = np.array(d["sraw"], dtype=npdt).reshape(var.shape)
        var.assign(raw)
        if (var.constraint is not None) != (d["smono"] == "increasing"):
          raise AssertionError("NonNeg constraint presence does not match input_scaling_monotonicity")
        if var.constraint is not None:
          var.assign(var.constraint(var))
        s = [float(v) for v in np.array(var.numpy()).ravel()]
      return layer, s
    layer, scaling = make(d["red"])
    xs = np.array(d["xs"], dtype=npdt)
    out = np.array(layer(tf.constant(xs)).numpy(), dtype=np.float64)
    if d["red"] == "geometric_mean":
      cells = np.array(make("none")[0](tf.constant(xs)).numpy(), dtype=np.float64)
  except Exception as e:  # pylint: disable=broad-except
    fail = "CDF layer raised %s on a documented configuration: %s" % (type(e).__name__, str(e)[-300:])
  klass = "cdflayer_%s_%s_sf%d_%s%s_%s" % (d["act"], d["red"], sf, d["stype"], "_bcast1" if d["bcast1"] else "", d["pclass"])
  coq = None
  if fail is None:
    B = d["B"]
    want = (B, D // sf, U) if d["red"] == "none" else (B, U)
    if out.shape != want:
      fail = "output shape %r, expected %r" % (out.shape, want)
    else:
      if d["stype"] != "fixed" and d["smono"] == "increasing":
        expect = [max(v, 0.0) for v in d["sraw"]]
        if scaling != expect:
          fail = "NonNeg constraint returned %r for %r" % (scaling, d["sraw"])
      if d["stype"] == "fixed":
        expect = float(F) if d["sinit"] is None else d["sinit"]
        if scaling != [expect]:
          fail = "fixed input scaling is %r, expected %r" % (scaling, expect)
      nonneg = all(v >= 0 for v in scaling)
      if fail is None:
        fail = cdf_preds(d, out, 1e-3, True, nonneg)
    if fail is None and d["pclass"] != "large":
      xs = np.array(d["xs"], dtype=npdt)
      svec = np.array(scaling, dtype=npdt)
      s4 = svec.reshape((1, -1, 1, 1)) if len(scaling) > 1 else svec.reshape((1, 1, 1, 1))
      z = s4 * (xs[:, :, None, None] - np.array(d["kernel"], dtype=npdt)[None])
      W = xs.shape[1]
      sgt, ext, lgt, problems = cdf_tables(tf, d, z, cells, 1e-3, float(W // sf), None)
      if problems:
        fail = problems[0]
      out3 = out if d["red"] == "none" else out[:, None, :]
      tol = 1e-9 if d["dtype"] == "f64" else 1e-5
      if d["red"] == "geometric_mean":
        tol = max(tol, 1e-6)
      coq = "CCdfLayer %s %s %s %s %s %s %s %s %s %s %s (Some %s)" % (
          ACT[d["act"]], RED[d["red"]], cnat(U), cnat(sf), c3(d["kernel"]), cql(scaling), cqm(d["xs"]),
          ctbl(sgt), ctbl(ext), ctbl(lgt), cq(tol), c3(out3.tolist()))
  return Case(d, coq=coq, pred_fail=fail, nontrivial=True, klass=klass,
              info={"impl_output": None if out is None else out.tolist(), "scaling": scaling})


def eval_cases(ctx, descs):
  tf, tfl = tfimpl.tfl()
  cases = []
  for d in descs:
    if d["kind"] == "pwl":
      cases.append(eval_pwl(tf, tfl, d))
    elif d["kind"] == "cdf_fn":
      cases.append(eval_cdf_fn(tf, tfl, d))
    else:
      cases.append(eval_cdf_layer(tf, tfl, d))
  return cases


def _d66(case):
  d = case.desc
  return (d.get("kind") == "pwl" and d.get("units", 1) > 1 and d.get("kop_form") in ("3d_1_1", "3d_B_1") and
          (case.pred_fail or "").startswith("documented call form rejected: keypoint_output_parameters of shape"))


KNOWN_CLASSES = {"kop_unit_broadcast_form_rejected": _d66}
