"""C14 - Alternative representations of the same function agree."""
import itertools
import random
from fractions import Fraction

import numpy as np
from common import Case, cq, cql, cqm, clist, cnat, cnatl, cbool, copt
import tfimpl

ID = "C14"
HMODULE = "H_C14"
FUNCTIONAL = True  # "representation A == representation B": a model/implementation disagreement is a failing input
SHARD = 40
RULE = ("six kinds of PAIRED PUBLIC CALLABLES on identical inputs, all parameters dyadic: (a) "
        "KroneckerFactoredLattice layers (float64; sizes 2-4, dims 1-4, units 1-3, terms 1-3, clip on/off, tensor / "
        "list inputs, points on vertices / edges / interiors / out of range) vs a Lattice layer loaded with the "
        "dense kernel bias + mean_t scale_t x outer product (computed exactly with fractions; Coq checks that "
        "dense_of_kfl of the model is exactly that kernel and evaluates both models); (b1) pwl_calibration_fn("
        "return_derived_parameters=True) (increasing/none, clamps, cyclic, 0-3 interior keypoints, units 1-2, "
        "missing value given or not, inputs inside / at the ends / outside / equal to the missing value) vs "
        "PWLCalibration layers holding the derived keypoints and kernel [y0, differences], one single-unit layer "
        "per unit and one multi-unit layer when the keypoints are shared, AND vs float64 PWLCalibration layers holding "
        "the keypoints / kernel / missing output computed independently in NumPy from the RAW parameters (softmax / "
        "sigmoid / running sums; also compared with the returned derived parameters), incl. the DERIVED missing "
        "output (last output parameter); (b2) cdf_fn vs CDF layer (relu6 and "
        "sigmoid, mean and none, sparsity 1-2, fixed / shared / per-input scaling incl. zero and negative, "
        "broadcast scaling shapes); (c) ParallelCombination of 1-4 PWL calibrators (tensor / list input, "
        "single / list output) vs the calibrators applied column by column; (d) Aggregation around a Lattice "
        "model over ragged rows of lengths 1-5 (float32 and float64) vs the explicit per-example mean; (e) RTL "
        "layers (1-6 lattices, rank 1-3, size 2-3, dict/list/tensor input forms, separate / averaged outputs, "
        "hypercube / simplex, all_vertices and kronecker_factored) vs a manual gather of layer._rtl_structure "
        "into layer._lattice_layers. Implementation-side predicate: the two callables agree within 1e-9 "
        "(float64) / 1e-5 (float32). The Coq models of BOTH sides are evaluated on the same inputs. "
        "Non-trivial = some input is not a vertex / some row has length > 1 / the layer has more than one "
        "calibrator or lattice; distinct = distinct descriptions.")
TRUSTED = ["models: Model/Representations.v (dense_of_kfl, ParallelCombination / Aggregation / RTL call over "
           "abstract functions, hand-written from the layers' call()), Model/KFL.v, Model/LatticeInterp.v, "
           "Model/PWLEval.v, Model/CondPWL.v, Model/CDF.v, Model/RTLStructure.v (other properties' models, used "
           "as they are)",
           "softmax / sigmoid are oracles: the pwl theorems hold for any oracle with non-zero keypoint deltas, "
           "the cdf theorem for any sigmoid that respects ==; the Coq tie starts from the derived parameters that "
           "pwl_calibration_fn returns; the derivation itself is tied on the implementation side by the independent "
           "NumPy computation of the corresponding keypoints and weights (and modelled / compared in C15)",
           "Aggregation: the list of per-feature ragged tensors with shared row splits is modelled as ragged "
           "rows of feature vectors (index-level meaning of map_flat_values); the wrapped model is assumed to "
           "treat batch rows independently (hypothesis `rowwise` of C14_aggregation_mean)",
           "tie: paired layers built in float64 where the API allows, parameters assigned, both called on the "
           "same tensors; outputs of both compared with both models in Coq"]
LIMITS = ["geometric-mean CDF reduction: the two callables are NOT compared with each other (different epsilons by "
          "design); each is compared in log space with exp(mean(log(cdfs + eps))) for its documented eps (1e-8 / 1e-3) "
          "on per-input cdfs computed in NumPy (C14_cdf_geometric_only_eps); not evaluated in Coq (exp / log)",
          "KFL vs Lattice is claimed for clipped or in-range inputs only (outside, unclipped, size-2 KFL "
          "extrapolates linearly while hat weights do not); such points are still compared model vs "
          "implementation on each side",
          "float32-only paths (CDF with fixed scaling, pwl_calibration_fn with keypoint_input_parameters=None or a "
          "given missing_output_value, RTL, float32 Aggregation) use tolerance 1e-5",
          "sigmoid CDF pairs and kronecker_factored RTL layers are compared implementation vs implementation "
          "only (no exact model of sigmoid; the KFL sub-layer model is tied by (a))",
          "an empty ragged row is 0/0 (NaN in TensorFlow on both sides, 0 in Q): rows have length >= 1"]


# ----------------------------------------------------------------------------
# generators
# ----------------------------------------------------------------------------
def _dy(rng, lo, hi, den=4):
  return rng.randint(int(lo * den), int(hi * den)) / float(den)


def _coord(rng, L, kind):
  if kind == "vertex":
    return float(rng.randrange(L))
  if kind == "interior":
    return rng.randrange(L - 1) + rng.choice([0.125, 0.25, 0.5, 0.75, 0.875])
  if kind == "edge":
    return rng.choice([0.0, float(L - 1)])
  return rng.choice([-1.5, -0.25, L - 1 + 0.25, L - 1 + 0.5, L + 1.0])


def gen_kfl(rng):
  L = rng.choice([2, 2, 3, 3, 4])
  dims = rng.choice([1, 2, 2, 3, 3, 4]) if L < 4 else rng.choice([1, 2, 3])
  units = rng.choice([1, 1, 2, 3])
  terms = rng.choice([1, 2, 2, 3])
  clip = rng.random() < 0.6
  kclass = rng.choice(["random", "random", "ties", "zeros", "mono"])

  def vec():
    if kclass == "ties":
      return [float(rng.choice([-1, 0, 1, 1, 2])) for _ in range(L)]
    if kclass == "zeros":
      return [rng.choice([0.0, 0.0, _dy(rng, -2, 2)]) for _ in range(L)]
    if kclass == "mono":
      return sorted(_dy(rng, 0, 2) for _ in range(L))
    return [_dy(rng, -2, 2) for _ in range(L)]
  k = [[[0.0] * terms for _ in range(units * dims)] for _ in range(L)]
  for j in range(units * dims):
    for t in range(terms):
      v = vec()
      for i in range(L):
        k[i][j][t] = v[i]
  s = [[rng.choice([_dy(rng, -2, 2), _dy(rng, -2, 2), 0.0, 1.0, -1.0]) for _ in range(terms)] for _ in range(units)]
  b = [rng.choice([0.0, _dy(rng, -4, 4), _dy(rng, -4, 4)]) for _ in range(units)]
  pts = []
  for kind in ["vertex", "interior", "interior", "edge", "mixed", "mixed", "outside", "mixed"]:
    p = []
    for _ in range(units):
      if kind == "mixed":
        p.append([_coord(rng, L, rng.choice(["vertex", "interior", "interior", "outside", "edge"])) for _ in range(dims)])
      else:
        p.append([_coord(rng, L, kind) for _ in range(dims)])
    pts.append(p)
  return dict(kind="kfl", L=L, dims=dims, units=units, terms=terms, clip=clip, k=k, s=s, b=b, pts=pts,
              iform=rng.choice(["tensor", "tensor", "list"]), kclass=kclass)


def gen_pwl(rng):
  units = rng.choice([1, 1, 2])
  n_in = rng.choice([None, 0, 1, 2, 3])
  nkp = 2 if n_in is None else n_in + 2
  mono = rng.choice(["increasing", "none"])
  cmin = cmax = cyc = False
  if mono == "increasing":
    cmin, cmax = rng.random() < 0.5, rng.random() < 0.5
  else:
    cyc = rng.random() < 0.4
  in_min = _dy(rng, -2, 1)
  in_max = in_min + rng.choice([1.0, 2.0, 4.0, 0.5])
  out_min = _dy(rng, -2, 1)
  out_max = out_min + rng.choice([1.0, 2.0, 0.5, 3.0])
  missing = rng.choice([None, None, "given", "derived", "derived"])
  missing_in = missing_out = None
  if missing:
    missing_in = rng.choice([-3.0, in_min, 100.0, in_min + 0.25])
    if missing == "given":
      missing_out = _dy(rng, -3, 3)
  osize = nkp - int(cmax) - int(cmin) - int(cyc)  # given missing output: +1 -1
  if osize <= 0:
    cmin = False
    osize = nkp - int(cmax) - int(cmin) - int(cyc)
  if missing == "derived":
    osize += 1  # the LAST output parameter is the logit of the missing output
  shared_in = rng.random() < 0.5
  kip = None
  if n_in is not None:
    if shared_in:
      row = [_dy(rng, -2, 2) for _ in range(n_in)]
      kip = [row] if rng.random() < 0.5 else [[row]]
    else:
      kip = [[[_dy(rng, -2, 2) for _ in range(n_in)] for _ in range(units)]]
  if units > 1 or rng.random() < 0.5:
    kop = [[[_dy(rng, -2, 2) for _ in range(osize)] for _ in range(units)]]
  else:
    kop = [[_dy(rng, -2, 2) for _ in range(osize)]]
  f64 = n_in is not None and missing != "given" and rng.random() < 0.7
  xs = [in_min, in_max, in_min - 1.0, in_max + 0.5, in_min + 0.25 * (in_max - in_min),
        in_min + rng.random() * (in_max - in_min), in_min + rng.random() * (in_max - in_min)]
  if missing:
    xs.append(missing_in)
  xs = [float(np.float32(v)) for v in xs]
  per_unit_x = units > 1 and rng.random() < 0.5
  inputs = [[v + (0.125 * u if per_unit_x else 0.0) for u in range(units if per_unit_x else 1)] for v in xs]
  return dict(kind="pwl", units=units, n_in=n_in, mono=mono, cmin=cmin, cmax=cmax, cyc=cyc, in_min=in_min,
              in_max=in_max, out_min=out_min, out_max=out_max, missing_in=missing_in, missing_out=missing_out,
              kip=kip, kop=kop, f64=f64, inputs=inputs, shared_in=shared_in or n_in is None)


def gen_cdf(rng):
  sf = rng.choice([1, 1, 2])
  D = rng.choice([1, 2, 3, 4]) if sf == 1 else rng.choice([2, 4])
  units = rng.choice([1, 2, 3]) if sf == 1 else rng.choice([2, 4])
  nk = rng.choice([1, 2, 3])
  act = rng.choice(["relu6", "relu6", "sigmoid"])
  red = rng.choice(["mean", "none", "mean", "none", "geometric_mean"])
  stype = rng.choice(["fixed", "learned_shared", "learned_per_input"])
  f64 = stype != "fixed" and rng.random() < 0.7
  uf = units // sf
  kernel = [[[_dy(rng, -1, 2, 8) for _ in range(uf)] for _ in range(nk)] for _ in range(D)]
  n = D if stype == "learned_per_input" else 1
  scaling = [rng.choice([0.5, 1.0, 2.0, 3.0, 4.0, 0.0, -1.0, 0.25]) for _ in range(n)]
  B = 4
  xs = [[_dy(rng, -2, 3, 8) for _ in range(D)] for _ in range(B)]
  return dict(kind="cdf", sf=sf, D=D, units=units, nk=nk, act=act, red=red, stype=stype, f64=f64, kernel=kernel,
              scaling=scaling, xs=xs, sshape=rng.choice(["batch", "one", "full"]))


def gen_par(rng):
  k = rng.choice([1, 2, 2, 3, 4])
  calibs = []
  for _ in range(k):
    nkp = rng.choice([2, 3, 4])
    a = _dy(rng, -2, 1)
    ks = [a]
    for _ in range(nkp - 1):
      ks.append(ks[-1] + rng.choice([0.25, 0.5, 1.0, 2.0]))
    calibs.append(dict(ks=ks, col=[_dy(rng, -2, 2) for _ in range(nkp)]))
  B = rng.choice([1, 3, 4])
  m = []
  for _ in range(B):
    row = []
    for c in calibs:
      r = rng.random()
      if r < 0.25:
        row.append(rng.choice(c["ks"]))
      elif r < 0.4:
        row.append(c["ks"][0] - 0.75 if rng.random() < 0.5 else c["ks"][-1] + 0.5)
      else:
        row.append(c["ks"][0] + _dy(rng, 0, c["ks"][-1] - c["ks"][0], 8))
    m.append(row)
  return dict(kind="par", calibs=calibs, single=rng.random() < 0.6, as_list=rng.random() < 0.4, m=m)


def gen_agg(rng):
  F = rng.choice([1, 2, 2, 3])
  sizes = [rng.choice([2, 2, 3]) for _ in range(F)]
  clip = rng.random() < 0.7
  nv = int(np.prod(sizes))
  K = [[_dy(rng, -2, 2)] for _ in range(nv)]
  B = rng.choice([1, 2, 3, 4])
  lens = [rng.choice([1, 1, 2, 3, 5]) for _ in range(B)]
  x = []
  for n in lens:
    row = []
    for _ in range(n):
      row.append([_coord(rng, s, rng.choice(["vertex", "interior", "interior", "edge", "outside" if clip else "interior"]))
                  for s in sizes])
    x.append(row)
  return dict(kind="agg", sizes=sizes, clip=clip, K=K, x=x, f64=rng.random() < 0.5,
              form=rng.choice(["list", "list", "dict"]))


def gen_rtl(rng):
  rank = rng.choice([1, 2, 2, 3])
  L = rng.choice([2, 2, 3])
  form = rng.choice(["dict_lists", "dict_lists", "dict_tensor", "tensor", "dict_inc_only"])
  inc, unc = [], []
  if form == "tensor":
    unc = [1] * rng.choice([1, 2, 3, 4])
  elif form == "dict_tensor":
    inc = [1] * rng.choice([1, 2])
    unc = [1] * rng.choice([1, 2, 3])
  elif form == "dict_inc_only":
    inc = [rng.choice([1, 2]) for _ in range(rng.choice([1, 2]))]
  else:
    inc = [rng.choice([1, 2, 3]) for _ in range(rng.choice([0, 1, 2]))]
    unc = [rng.choice([1, 2]) for _ in range(rng.choice([1, 2]))]
  n_in = sum(inc) + sum(unc)
  lo = -(-n_in // rank)
  num = rng.randint(lo, lo + 3)
  B = 3
  separate = rng.random() < 0.4
  return dict(kind="rtl", rev=rng.random() < 0.5, rank=rank, L=L, form=form, inc=inc, unc=unc, num=num, separate=separate,
              average=rng.random() < 0.3, clip=rng.random() < 0.6,
              interp=rng.choice(["hypercube", "hypercube", "simplex"]),
              param=rng.choice(["all_vertices", "all_vertices", "all_vertices", "kronecker_factored"]),
              seed=rng.randrange(1000), avoid=rng.random() < 0.7, kseed=rng.randrange(10 ** 6), B=B)


def gen_descs(ctx):
  rng = ctx.rng
  out = []
  for fn, q, t in [(gen_kfl, 60, 1500), (gen_pwl, 45, 1200), (gen_cdf, 40, 1000), (gen_par, 30, 800),
                   (gen_agg, 30, 800), (gen_rtl, 35, 900)]:
    for _ in range(ctx.n(q, t)):
      out.append(fn(rng))
  return out


# ----------------------------------------------------------------------------
# helpers
# ----------------------------------------------------------------------------
def _close(a, b, tol):
  a = np.asarray(a, dtype=np.float64)
  b = np.asarray(b, dtype=np.float64)
  if a.shape != b.shape:
    return "shapes differ: %r vs %r" % (a.shape, b.shape)
  if not (np.all(np.isfinite(a)) and np.all(np.isfinite(b))):
    return "non-finite output"
  bad = np.abs(a - b) > tol * np.maximum(1.0, np.abs(b))
  if bad.any():
    i = tuple(int(v) for v in np.argwhere(bad)[0])
    return "differ at %r: %r vs %r" % (i, float(a[i]), float(b[i]))
  return None


def _fl(a):
  return np.asarray(a, dtype=np.float64).tolist()


def _ck3(k):
  return clist([cqm(m) for m in k])


def _cpts(pts):
  return clist([cqm(p) for p in pts])


# ----------------------------------------------------------------------------
# (a) KFL vs dense Lattice
# ----------------------------------------------------------------------------
def dense_kernel(d):
  """Exact dense kernel [prod sizes][units] (row-major vertices) as Fractions."""
  L, dims, units, terms = d["L"], d["dims"], d["units"], d["terms"]
  k = d["k"]
  rows = []
  for idx in itertools.product(range(L), repeat=dims):
    row = []
    for u in range(units):
      acc = Fraction(0)
      for t in range(terms):
        p = Fraction(d["s"][u][t])
        for dd in range(dims):
          p *= Fraction(k[idx[dd]][u * dims + dd][t])
        acc += p
      row.append(acc / terms + Fraction(d["b"][u]))
    rows.append(row)
  return rows


def _kfl_inputs(tf, pts, units, dims, iform):
  x = np.array(pts, dtype=np.float64)
  if units == 1:
    x = x[:, 0, :]
  if iform == "list":
    return [tf.constant(x[..., i:i + 1]) for i in range(dims)]
  return tf.constant(x)


def eval_kfl(tf, tfl, d):
  L, dims, units, terms = d["L"], d["dims"], d["units"], d["terms"]
  x = _kfl_inputs(tf, d["pts"], units, dims, d["iform"])
  kfl = tfl.layers.KroneckerFactoredLattice(lattice_sizes=L, units=units, num_terms=terms, clip_inputs=d["clip"],
                                            dtype="float64")
  kfl(x)
  kfl.kernel.assign(np.array(d["k"], dtype=np.float64)[None])
  kfl.scale.assign(np.array(d["s"], dtype=np.float64))
  kfl.bias.assign(np.array(d["b"], dtype=np.float64))
  yk = kfl(x).numpy().reshape(len(d["pts"]), units)
  dense = dense_kernel(d)
  lat = tfl.layers.Lattice(lattice_sizes=[L] * dims, units=units, clip_inputs=d["clip"], dtype="float64")
  lat(x)
  lat.kernel.assign(np.array([[float(v) for v in r] for r in dense], dtype=np.float64))
  yl = lat(x).numpy().reshape(len(d["pts"]), units)
  ok_rows = [i for i, p in enumerate(d["pts"]) if d["clip"] or all(0.0 <= c <= L - 1 for r in p for c in r)]
  fail = None
  if ok_rows:
    e = _close(yk[ok_rows], yl[ok_rows], 1e-9)
    if e:
      fail = "KroneckerFactoredLattice and the Lattice with its dense kernel disagree (clipped / in-range inputs): " + e
  out_rows = [i for i in range(len(d["pts"])) if i not in ok_rows]
  if fail is None and out_rows:
    # the statement says "for all inputs": with clip_inputs=False and a point OUTSIDE the lattice range the two layers
    # extrapolate differently (known finding D68; theorem C14_kfl_equals_dense carries the in-range-or-clipped guard)
    e = _close(yk[out_rows], yl[out_rows], 1e-9)
    if e:
      fail = "unclipped out-of-range input: KroneckerFactoredLattice and the Lattice with its dense kernel differ: " + e
  coq = "CKfl %s %s %s %s %s %s %s %s %s %s %s %s %s" % (
      cbool(d["clip"]), cbool(d["iform"] == "tensor"), cnat(L), cnat(units), cnat(dims), cnat(terms), _ck3(d["k"]),
      cqm(d["s"]), cql(d["b"]), cqm(dense), _cpts(d["pts"]), cqm(_fl(yk)), cqm(_fl(yl)))
  nontriv = any(c != int(c) for p in d["pts"] for r in p for c in r)
  klass = "kfl_L%d_d%d_u%s_t%s_%s_%s" % (L, dims, "1" if units == 1 else "n", "1" if terms == 1 else "n",
                                         "clip" if d["clip"] else "noclip", d["iform"])
  return Case(d, coq=coq, pred_fail=fail, nontrivial=nontriv, klass=klass,
              info={"kfl": _fl(yk), "lattice": _fl(yl)})


# ----------------------------------------------------------------------------
# (b1) pwl_calibration_fn vs PWLCalibration
# ----------------------------------------------------------------------------
def _np_softmax(v):
  v = np.asarray(v, dtype=np.float64)
  e = np.exp(v - np.max(v))
  return e / np.sum(e)


def _np_sigmoid(v):
  return 1.0 / (1.0 + np.exp(-np.asarray(v, dtype=np.float64)))


def _pwl_corresponding(d, u):
  """Keypoints, kernel column [y0, dy1, ...] and missing output of unit u, from the RAW parameters (float64 NumPy).

  Written from the documented meaning of the parameters, in terms of keypoint VALUES (not the function's own
  [first, deltas] bookkeeping): keypoint gaps = softmax of the zero-padded input parameters times the input range;
  'none': outputs = output_min + sigmoid(parameter) * range (cyclic: the first output again at the end);
  'increasing': outputs = output_min + running sums of softmax(zero-padded parameters) * range, preceded by output_min
  itself when clamp_min, the final one (= output_max) kept only when clamp_max; a derived missing output is
  output_min + sigmoid(LAST parameter) * range and that parameter is not an output parameter.
  """
  imin, imax, omin, omax = d["in_min"], d["in_max"], d["out_min"], d["out_max"]
  if d["kip"] is None:
    gaps = np.array([imax - imin], dtype=np.float64)
  else:
    a = np.array(d["kip"], dtype=np.float64)
    if a.ndim == 2:
      a = a[:, None, :]
    row = a[0, u if a.shape[1] > 1 else 0]
    gaps = _np_softmax(np.concatenate([[0.0], row])) * (imax - imin)
  ks = imin + np.concatenate([[0.0], np.cumsum(gaps)])
  b = np.array(d["kop"], dtype=np.float64)
  if b.ndim == 2:
    b = b[:, None, :]
  p = b[0, u if b.shape[1] > 1 else 0]
  mo = None
  if d["missing_in"] is not None:
    if d["missing_out"] is None:
      mo = float(omin + _np_sigmoid(p[-1]) * (omax - omin))
      p = p[:-1]
    else:
      mo = float(d["missing_out"])
  if d["mono"] == "none":
    ys = omin + _np_sigmoid(p) * (omax - omin)
    if d["cyc"]:
      ys = np.concatenate([ys, ys[:1]])
  else:
    ys = omin + np.cumsum(_np_softmax(np.concatenate([[0.0], p])) * (omax - omin))
    if d["cmin"]:
      ys = np.concatenate([[omin], ys])
    if not d["cmax"]:
      ys = ys[:-1]
  assert len(ys) == len(ks), (len(ys), len(ks))
  kern = np.concatenate([ys[:1], np.diff(ys)])
  return ks, kern, mo


def eval_pwl(tf, tfl, d):
  from tensorflow_lattice.python import conditional_pwl_calibration as cp  # pylint: disable=g-import-not-at-top
  dt = tf.float64 if d["f64"] else tf.float32
  npdt = np.float64 if d["f64"] else np.float32
  tol = 1e-9 if d["f64"] else 1e-5
  units = d["units"]
  X = np.array(d["inputs"], dtype=npdt)
  out, deltas, kos = cp.pwl_calibration_fn(
      inputs=tf.constant(X, dtype=dt),
      keypoint_input_parameters=None if d["kip"] is None else tf.constant(np.array(d["kip"], dtype=npdt), dtype=dt),
      keypoint_output_parameters=tf.constant(np.array(d["kop"], dtype=npdt), dtype=dt),
      keypoint_input_min=d["in_min"], keypoint_input_max=d["in_max"], keypoint_output_min=d["out_min"],
      keypoint_output_max=d["out_max"], units=units, monotonicity=d["mono"], clamp_min=d["cmin"],
      clamp_max=d["cmax"], is_cyclic=d["cyc"], missing_input_value=d["missing_in"],
      missing_output_value=d["missing_out"], return_derived_parameters=True)
  out = np.array(out.numpy(), dtype=np.float64)           # (B, units)
  deltas = np.array(deltas.numpy(), dtype=npdt)[0]         # (units, nkp-1)
  kos = np.array(kos.numpy(), dtype=npdt)[0]               # (units, nkp)
  Xu = X if X.shape[1] == units else np.tile(X, (1, units))
  miss = d["missing_in"] is not None
  derived_miss = miss and d["missing_out"] is None
  kw = dict(dtype="float64" if d["f64"] else "float32")
  if miss:
    kw.update(impute_missing=True, missing_input_value=d["missing_in"], missing_output_value=d["missing_out"])
  fail = None
  terms = []
  lay_all = np.zeros_like(out)
  # the "corresponding keypoints and weights" computed INDEPENDENTLY of the function from the raw parameters
  indep = [_pwl_corresponding(d, u) for u in range(units)]
  eps_dt = float(np.finfo(npdt).eps)
  for u in range(units):
    iks, ikern, imo = indep[u]
    if derived_miss:
      kw["missing_output_value"] = imo
    e = (_close(deltas[u], np.diff(iks), tol) or _close(kos[u], ikern, tol))
    if e and fail is None:
      fail = ("pwl_calibration_fn: the derived parameters it returns differ from the keypoints / weights "
              "corresponding to its raw parameters (unit %d): %s" % (u, e))
    # a float64 PWLCalibration layer holding the INDEPENDENTLY computed keypoints and kernel column
    kwi = dict(dtype="float64")
    if miss:
      kwi.update(impute_missing=True, missing_input_value=d["missing_in"], missing_output_value=imo)
    ilayer = tfl.layers.PWLCalibration(input_keypoints=[float(v) for v in iks], units=1, **kwi)
    xin64 = tf.constant(np.array(Xu[:, u:u + 1], dtype=np.float64))
    ilayer(xin64)
    ilayer.kernel.assign(np.array(ikern, dtype=np.float64)[:, None])
    yi = np.array(ilayer(xin64).numpy(), dtype=np.float64)[:, 0]
    # rounding of the keypoints moves the value by at most slope * keypoint error
    slope = float(np.max(np.abs(ikern[1:]) / np.diff(iks)))
    atol = tol + 16 * eps_dt * max(1.0, float(np.max(np.abs(iks)))) * slope
    e = _close(out[:, u], yi, atol)
    if e and fail is None:
      fail = ("pwl_calibration_fn and the PWLCalibration layer holding the keypoints / weights corresponding to "
              "its raw parameters disagree (unit %d): %s" % (u, e))
    ks = (npdt(d["in_min"]) + np.concatenate([[npdt(0)], np.cumsum(deltas[u], dtype=npdt)])).astype(npdt)
    ks_list = [float(v) for v in ks]
    if any(b <= a for a, b in zip(ks_list, ks_list[1:])):
      continue  # keypoints collapsed by rounding: the layer would reject them
    layer = tfl.layers.PWLCalibration(input_keypoints=ks_list, units=1, **kw)
    xin = tf.constant(Xu[:, u:u + 1], dtype=dt)
    layer(xin)
    layer.kernel.assign(np.array(kos[u], dtype=npdt)[:, None])
    yl = np.array(layer(xin).numpy(), dtype=np.float64)[:, 0]
    lay_all[:, u] = yl
    e = _close(out[:, u], yl, tol)
    if e and fail is None:
      fail = "pwl_calibration_fn and the PWLCalibration layer with the derived parameters disagree (unit %d): %s" % (u, e)
    missing = "None" if not miss else "(Some (%s, %s))" % (
        cq(float(npdt(d["missing_in"]))), cq(float(npdt(imo if derived_miss else d["missing_out"]))))
    terms.append("CPwl %s %s %s %s %s %s %s %s %s" % (
        cbool(d["f64"]), cq(float(npdt(d["in_min"]))), cql(_fl(deltas[u])), cql(_fl(kos[u])), cql(ks_list), missing,
        cql(_fl(Xu[:, u])), cql(_fl(out[:, u])), cql(_fl(yl))))
  multi = False
  if units > 1 and d["shared_in"] and terms and not derived_miss:
    # shared keypoints: ONE multi-unit layer with the kernel [nkp, units]
    ks = (npdt(d["in_min"]) + np.concatenate([[npdt(0)], np.cumsum(deltas[0], dtype=npdt)])).astype(npdt)
    layer = tfl.layers.PWLCalibration(input_keypoints=[float(v) for v in ks], units=units, **kw)
    xin = tf.constant(X, dtype=dt)
    layer(xin)
    layer.kernel.assign(np.array(kos, dtype=npdt).T)
    ym = np.array(layer(xin).numpy(), dtype=np.float64)
    e = _close(out, ym, tol)
    multi = True
    if e and fail is None:
      fail = "pwl_calibration_fn and the multi-unit PWLCalibration layer with the derived parameters disagree: " + e
    # ... and ONE float64 multi-unit layer holding the independently computed shared keypoints and kernel
    kwi = dict(dtype="float64")
    if miss:
      kwi.update(impute_missing=True, missing_input_value=d["missing_in"], missing_output_value=d["missing_out"])
    ilayer = tfl.layers.PWLCalibration(input_keypoints=[float(v) for v in indep[0][0]], units=units, **kwi)
    xin64 = tf.constant(np.array(X, dtype=np.float64))
    ilayer(xin64)
    ilayer.kernel.assign(np.array([k for _, k, _ in indep], dtype=np.float64).T)
    yi = np.array(ilayer(xin64).numpy(), dtype=np.float64)
    slope = max(float(np.max(np.abs(k[1:]) / np.diff(ks_))) for ks_, k, _ in indep)
    atol = tol + 16 * eps_dt * max(1.0, float(np.max(np.abs(indep[0][0])))) * slope
    e = _close(out, yi, atol)
    if e and fail is None:
      fail = ("pwl_calibration_fn and the multi-unit PWLCalibration layer holding the keypoints / weights "
              "corresponding to its raw parameters disagree: " + e)
  klass = "pwl_%s_%s%s%s%s_u%d_%s%s" % (
      "none" if d["n_in"] is None else "n%d" % d["n_in"], d["mono"][:3], "_cmin" if d["cmin"] else "",
      "_cmax" if d["cmax"] else "", "_cyc" if d["cyc"] else "", units,
      ("missd" if derived_miss else "miss") if miss else "nomiss", "_multi" if multi else "")
  return Case(d, coq=terms or None, pred_fail=fail, nontrivial=True, klass=klass,
              info={"fn": _fl(out), "layers": _fl(lay_all)})


# ----------------------------------------------------------------------------
# (b2) cdf_fn vs CDF layer
# ----------------------------------------------------------------------------
def eval_cdf(tf, tfl, d):
  from tensorflow_lattice.python import conditional_cdf as cc  # pylint: disable=g-import-not-at-top
  dt = tf.float64 if d["f64"] else tf.float32
  npdt = np.float64 if d["f64"] else np.float32
  tol = 1e-9 if d["f64"] else 1e-5
  D, units, sf, nk = d["D"], d["units"], d["sf"], d["nk"]
  X = np.array(d["xs"], dtype=npdt)
  B = X.shape[0]
  kern = np.array(d["kernel"], dtype=npdt)  # (D, nk, uf)
  sc = np.array(d["scaling"], dtype=npdt)
  layer = tfl.layers.CDF(num_keypoints=nk, units=units, activation=d["act"], reduction=d["red"],
                         input_scaling_init=float(sc[0]), input_scaling_type=d["stype"],
                         input_scaling_monotonicity="none", sparsity_factor=sf,
                         dtype="float64" if d["f64"] else "float32")
  xin = tf.constant(X, dtype=dt)
  layer(xin)
  layer.kernel.assign(kern[None])
  if d["stype"] == "learned_shared":
    layer.input_scaling.assign(sc.reshape(1))
  elif d["stype"] == "learned_per_input":
    layer.input_scaling.assign(sc.reshape(1, D, 1, 1))
  yl = np.array(layer(xin).numpy(), dtype=np.float64)
  per_in = sc if len(sc) == D else np.repeat(sc, D)
  if d["sshape"] == "one":
    sp = per_in.reshape(1, D, 1, 1)
  elif d["sshape"] == "full":
    sp = np.broadcast_to(per_in.reshape(1, D, 1, 1), (B,) + kern.shape).copy()
  else:
    sp = np.tile(per_in.reshape(1, D, 1, 1), (B, 1, 1, 1))
  yf = cc.cdf_fn(inputs=xin, location_parameters=tf.constant(np.tile(kern[None], (B, 1, 1, 1)), dtype=dt),
                 scaling_parameters=tf.constant(sp.astype(npdt), dtype=dt), units=units, activation=d["act"],
                 reduction=d["red"], sparsity_factor=sf)
  yf = np.array(yf.numpy(), dtype=np.float64)
  if d["red"] == "geometric_mean":
    # the tolerated exception: BOTH are exp(mean_i log(cdf_i + eps)) of the same per-input cdfs (the 'none' result,
    # computed here independently in float64 NumPy) and differ ONLY by eps = 1e-8 (cdf_fn) vs 1e-3 (layer)
    z = (np.array(d["xs"], dtype=np.float64)[:, :, None, None] - np.array(d["kernel"], dtype=np.float64)[None]) * \
        np.array(per_in, dtype=np.float64).reshape(1, D, 1, 1)
    M = np.mean(np.clip(z, 0.0, 6.0), axis=2) / 6.0 if d["act"] == "relu6" else np.mean(_np_sigmoid(z), axis=2)
    if sf != 1:
      M = M.reshape(-1, D // sf, units)
    ltol = 1e-8 if d["f64"] else 1e-4  # compared in log space: an eps of the wrong magnitude must show at cdf = 0
    fail = None
    for name, y, eps in [("cdf_fn", yf, 1e-8), ("the CDF layer", yl, 1e-3)]:
      want = np.mean(np.log(M + eps), axis=1)
      if y.shape != want.shape or not np.all(np.isfinite(y)) or np.any(y <= 0):
        e = "shape %r / non-finite / non-positive output" % (y.shape,)
      else:
        e = _close(np.log(y), want, ltol)
      if e and fail is None:
        fail = ("geometric_mean: %s is not exp(mean(log(cdfs + %g))) of the per-input cdfs (log space): %s"
                % (name, eps, e))
  else:
    e = _close(yf, yl, tol)
    fail = None if e is None else "cdf_fn and the CDF layer holding the same kernel / scaling disagree: " + e
  coq = None
  if d["act"] == "relu6" and d["red"] != "geometric_mean":
    def mats(y):
      return clist([cqm([_fl(r)] if d["red"] == "mean" else _fl(r)) for r in y])
    coq = "CCdf %s %s %s %s %s %s %s %s %s" % (
        cbool(d["f64"]), cbool(d["red"] == "mean"), cnat(units), cnat(sf), _ck3(_fl(kern)), cql(_fl(sc)),
        cqm(_fl(X)), mats(yf), mats(yl))
  klass = "cdf_%s_%s_sf%d_%s_D%d" % (d["act"], d["red"], sf, d["stype"], min(D, 2))
  return Case(d, coq=coq, pred_fail=fail, nontrivial=True, klass=klass, info={"fn": _fl(yf), "layer": _fl(yl)})


# ----------------------------------------------------------------------------
# (c) ParallelCombination
# ----------------------------------------------------------------------------
def eval_par(tf, tfl, d):
  cals = []
  for c in d["calibs"]:
    cal = tfl.layers.PWLCalibration(input_keypoints=c["ks"], units=1, dtype="float64")
    cal.build((None, 1))
    cal.kernel.assign(np.array(c["col"], dtype=np.float64)[:, None])
    cals.append(cal)
  pc = tfl.layers.ParallelCombination(cals, single_output=d["single"], dtype="float64")
  M = np.array(d["m"], dtype=np.float64)
  k = M.shape[1]
  x = [tf.constant(M[:, j:j + 1]) for j in range(k)] if d["as_list"] else tf.constant(M)
  y = pc(x)
  manual = [np.array(cals[j](tf.constant(M[:, j:j + 1])).numpy(), dtype=np.float64) for j in range(k)]
  fail = None
  if d["single"]:
    outs = [np.array(y.numpy(), dtype=np.float64)]
    e = _close(outs[0], np.concatenate(manual, axis=1), 1e-9)
  else:
    outs = [np.array(t.numpy(), dtype=np.float64) for t in y]
    e = "number of outputs %d != %d" % (len(outs), k) if len(outs) != k else None
    for a, b in zip(outs, manual):
      e = e or _close(a, b, 1e-9)
  if e:
    fail = "ParallelCombination differs from the column-wise application of its calibrators: " + e
  coq = "CPar %s %s %s %s %s" % (
      clist(["(%s, %s)" % (cql(c["ks"]), cql(c["col"])) for c in d["calibs"]]), cbool(d["single"]),
      cbool(d["as_list"]), cqm(d["m"]), clist([cqm(_fl(o)) for o in outs]))
  klass = "par_k%d_%s_%s" % (min(k, 3), "single" if d["single"] else "multi", "list" if d["as_list"] else "tensor")
  return Case(d, coq=coq, pred_fail=fail, nontrivial=k > 1, klass=klass, info={"outs": [_fl(o) for o in outs]})


# ----------------------------------------------------------------------------
# (d) Aggregation
# ----------------------------------------------------------------------------
def eval_agg(tf, tfl, d):
  import tf_keras  # pylint: disable=g-import-not-at-top
  dts = "float64" if d["f64"] else "float32"
  npdt = np.float64 if d["f64"] else np.float32
  tol = 1e-9 if d["f64"] else 1e-5
  F = len(d["sizes"])
  as_dict = d.get("form") == "dict"
  inputs = [tf_keras.Input(shape=(), dtype=dts, name="f%d" % f) for f in range(F)]
  lat = tfl.layers.Lattice(lattice_sizes=d["sizes"], units=1, clip_inputs=d["clip"], dtype=dts)
  model = tf_keras.Model(inputs={"f%d" % f: t for f, t in enumerate(inputs)} if as_dict else inputs,
                         outputs=lat(tf.stack(inputs, axis=-1)))
  lat.kernel.assign(np.array(d["K"], dtype=npdt))
  agg = tfl.layers.Aggregation(model)
  rag = [tf.ragged.constant([[float(npdt(e[f])) for e in row] for row in d["x"]], dtype=dts, ragged_rank=1)
         for f in range(F)]
  y = np.array(agg({"f%d" % f: t for f, t in enumerate(rag)} if as_dict else rag).numpy(), dtype=np.float64).reshape(-1)
  manual = []
  for row in d["x"]:
    cols = [tf.constant(np.array([e[f] for e in row], dtype=npdt)) for f in range(F)]
    m = np.array(model({"f%d" % f: t for f, t in enumerate(cols)} if as_dict else cols).numpy(),
                 dtype=np.float64).reshape(-1)
    manual.append(float(np.mean(m)))
  e = "number of outputs %d != batch %d" % (len(y), len(d["x"])) if len(y) != len(d["x"]) else _close(y, manual, tol)
  fail = None if e is None else "Aggregation differs from the per-example mean of the wrapped model: " + e
  coq = "CAgg %s %s %s %s %s %s" % (cbool(d["f64"]), cbool(d["clip"]), cnatl(d["sizes"]), cqm(d["K"]),
                                    clist([cqm([[float(npdt(v)) for v in e] for e in row]) for row in d["x"]]),
                                    cql(_fl(y)))
  lens = [len(r) for r in d["x"]]
  klass = "agg_%s_F%d_%s_%s_%s" % (d.get("form", "list"), F, "f64" if d["f64"] else "f32",
                                "ragged" if len(set(lens)) > 1 else ("len1" if lens[0] == 1 else "equal"),
                                "clip" if d["clip"] else "noclip")
  return Case(d, coq=coq, pred_fail=fail, nontrivial=max(lens) > 1, klass=klass,
              info={"layer": _fl(y), "manual": manual})


# ----------------------------------------------------------------------------
# (e) RTL
# ----------------------------------------------------------------------------
def eval_rtl(tf, tfl, d):
  rank, L, B = d["rank"], d["L"], d["B"]
  r = random.Random(d["kseed"])
  kfl = d["param"] == "kronecker_factored"
  layer = tfl.layers.RTL(num_lattices=d["num"], lattice_rank=rank, lattice_size=L, separate_outputs=d["separate"],
                         random_seed=d["seed"], clip_inputs=d["clip"], interpolation=d["interp"],
                         parameterization=d["param"], num_terms=2, avoid_intragroup_interaction=d["avoid"],
                         average_outputs=d["average"],
                         kernel_initializer="kfl_random_monotonic_initializer" if kfl else "random_monotonic_initializer")

  def grp(w):
    return np.array([[_coord(r, L, r.choice(["vertex", "interior", "interior", "edge", "outside" if d["clip"] else "interior"]))
                      for _ in range(w)] for _ in range(B)], dtype=np.float32)
  inc = [grp(w) for w in d["inc"]]
  unc = [grp(w) for w in d["unc"]]
  if d["form"] == "tensor":
    x = tf.constant(np.concatenate(unc, axis=1))
  elif d["form"] == "dict_tensor":
    x = {"increasing": tf.constant(np.concatenate(inc, axis=1)), "unconstrained": tf.constant(np.concatenate(unc, axis=1))}
  else:
    x = {}
    if inc:
      x["increasing"] = [tf.constant(g) for g in inc]
    if unc:
      x["unconstrained"] = [tf.constant(g) for g in unc]
  if isinstance(x, dict) and d.get("rev"):
    # insertion order 'unconstrained' before 'increasing': the layer must still read the keys in sorted order
    x = dict(reversed(list(x.items())))
  layer(x)  # builds
  structure = [(tuple(int(m) for m in monos), [[int(i) for i in row] for row in ifu])
               for monos, ifu in layer._rtl_structure]  # pylint: disable=protected-access
  kernels = []
  for monos, ifu in structure:
    sub = layer._lattice_layers[str(monos)]  # pylint: disable=protected-access
    units = len(ifu)
    if kfl:
      sub.kernel.assign(np.array([[[[_dy(r, -2, 2) for _ in range(2)] for _ in range(units * rank)]
                                   for _ in range(L)]], dtype=np.float32))
      sub.scale.assign(np.array([[_dy(r, -2, 2) for _ in range(2)] for _ in range(units)], dtype=np.float32))
      sub.bias.assign(np.array([_dy(r, -2, 2) for _ in range(units)], dtype=np.float32))
      kernels.append(None)
    else:
      K = [[_dy(r, -2, 2) for _ in range(units)] for _ in range(L ** rank)]
      sub.kernel.assign(np.array(K, dtype=np.float32))
      kernels.append(K)
  y = layer(x)
  flat = np.concatenate(inc + unc, axis=1)
  buckets = [[], []]
  for monos, ifu in structure:
    sub = layer._lattice_layers[str(monos)]  # pylint: disable=protected-access
    g = flat[:, np.array(ifu[0])] if len(ifu) == 1 else flat[:, np.array(ifu)]
    buckets[max(monos)].append(np.array(sub(tf.constant(g)).numpy(), dtype=np.float64))
  e = None
  outs = []
  if d["separate"]:
    got = {k: np.array(v.numpy(), dtype=np.float64) for k, v in y.items()}
    want = {}
    for lab, key in [(0, "unconstrained"), (1, "increasing")]:
      if buckets[lab]:
        want[key] = np.concatenate(buckets[lab], axis=1)
    if set(got) != set(want):
      e = "output keys %r != %r" % (sorted(got), sorted(want))
    else:
      for key in want:
        e = e or _close(got[key], want[key], 1e-5)
    for b in range(B):
      outs.append("(%s, %s, (@nil Q))" % (copt(_fl(got["unconstrained"][b]) if "unconstrained" in got else None, cql),
                                           copt(_fl(got["increasing"][b]) if "increasing" in got else None, cql)))
    info = {k: _fl(v) for k, v in got.items()}
  else:
    got = np.array(y.numpy(), dtype=np.float64)
    want = np.concatenate(buckets[0] + buckets[1], axis=1)
    if d["average"]:
      want = want.mean(axis=1, keepdims=True)
    e = _close(got, want, 1e-5)
    for b in range(B):
      outs.append("(None, None, %s)" % cql(_fl(got[b])))
    info = {"joint": _fl(got)}
  fail = None if e is None else "RTL output differs from gathering its recorded input indices into its lattices: " + e
  coq = None
  if not kfl:
    s = clist(["(%s, %s)" % (cnatl(m), clist([cnatl(row) for row in ifu])) for m, ifu in structure])
    ks = clist(["(%s, %s)" % (cnatl(m), cqm(K)) for (m, _), K in zip(structure, kernels)])

    def groups(gs, b):
      return clist([cql(_fl(g[b])) for g in gs]) if gs else "(@nil (list Q))"
    exs = clist(["(%s, %s)" % (groups(inc, b), groups(unc, b)) for b in range(B)])
    coq = "CRtl %s %s %s %s %s %s %s %s %s %s" % (
        cbool(d["interp"] == "simplex"), cbool(d["clip"]), cbool(d["separate"]), cbool(d["average"]), cnat(L),
        cnat(rank), s, ks, exs, clist(outs))
  info["structure"] = structure
  klass = "rtl_%s_%s_r%d_L%d_%s_%s" % (d["form"], "sep" if d["separate"] else ("avg" if d["average"] else "joint"),
                                       rank, L, d["interp"][:3], "kfl" if kfl else "dense")
  return Case(d, coq=coq, pred_fail=fail, nontrivial=d["num"] > 1, klass=klass, info=info)


EVAL = {"kfl": eval_kfl, "pwl": eval_pwl, "cdf": eval_cdf, "par": eval_par, "agg": eval_agg, "rtl": eval_rtl}


def eval_cases(ctx, descs):
  tf, tfl = tfimpl.tfl()
  cases = []
  for d in descs:
    cases.append(EVAL[d["kind"]](tf, tfl, d))
  return cases


def _d68(case):
  d = case.desc
  return (d.get("kind") == "kfl" and not d.get("clip") and
          (case.pred_fail or "").startswith("unclipped out-of-range input: KroneckerFactoredLattice and the Lattice"))


KNOWN_CLASSES = {"kfl_vs_lattice_unclipped_outside": _d68}
