"""Child of the C17 cross-interpreter determinism probe: prints the structures that the
library derives from fixed seeds. Run in fresh interpreters that differ only in PYTHONHASHSEED."""
import json
import sys


def main():
  import tensorflow_lattice as tfl
  from tensorflow_lattice.python import premade_lib
  cases = json.loads(sys.argv[1])
  out = {"random": [], "rtl": []}
  for (n, rank, num_lattices, seed) in cases["random"]:
    names = ["f%d" % i for i in range(n)]
    cfg = tfl.configs.CalibratedLatticeEnsembleConfig(
        feature_configs=[tfl.configs.FeatureConfig(name=f) for f in names], lattices="random",
        num_lattices=num_lattices, lattice_rank=rank, random_seed=seed)
    premade_lib.set_random_lattice_ensemble(cfg)
    out["random"].append([[str(f) for f in l] for l in cfg.lattices])
  for (n_inc, n_unc, rank, num_lattices, seed, avoid) in cases["rtl"]:
    layer = tfl.layers.RTL(num_lattices=num_lattices, lattice_rank=rank, random_seed=seed,
                           avoid_intragroup_interaction=avoid)
    shape = {}
    if n_inc:
      shape["increasing"] = (None, n_inc)
    if n_unc:
      shape["unconstrained"] = (None, n_unc)
    st = layer._get_rtl_structure(shape)  # pylint: disable=protected-access
    out["rtl"].append([[list(map(int, m)), [[int(i) for i in row] for row in idx]] for m, idx in st])
  print("RESULT " + json.dumps(out))


if __name__ == "__main__":
  main()
