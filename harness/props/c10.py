"""C10 - Freshly built layers already satisfy their monotonicity and bound constraints."""
import itertools
import numpy as np
from common import Case, cq, cql, cqm, clist, cnat, cnatl, copt, czl, cz, cbool
import latgen
import latpred
import tfimpl

ID = "C10"
HMODULE = "H_C10"
SHARD = 80
RULE = ("fresh weights of every library initializer, observed three ways (initializer class / lib function called "
        "directly, create_kernel_initializer(...)(shape), freshly built layer's kernel) and compared in Coq with "
        "the model: Lattice (latgen configurations rank 1-4, sizes 2-5, units 1-3, monotonicities given as ints / "
        "strings / None, unimodalities (unimodal sizes up to 8), joint unimodalities merged - incl. ~5% two groups "
        "that together cover all features under the default initializer (no random_uniform fall-back) and ~5% a group "
        "containing a dimension that also has a REGULAR unimodality of the same / the opposite direction (the merge "
        "lets the joint direction win) -, every other constraint family alongside, "
        "output bounds none / one-sided / two-sided / negative, init_min/init_max overrides, all initializer ids, "
        "a fresh seed per case for the random ones: in-level orders and sorted samples are recovered from the "
        "kernel and their oracle hypotheses checked in Coq), default_init_params, PWLCalibration (2-6 unequally "
        "spaced keypoints, monotonicity -1/0/1 as ints or strings, equal_heights / equal_slopes, bounds and "
        "clamps, units 1-3, is_cyclic), KroneckerFactoredLattice (sizes 2-4, dims 1-3, units 1-2, terms 1-3, "
        "all bound modes => all scale sign patterns; raw uniform draws recovered by re-seeding), "
        "CategoricalCalibration (raw initial matrices through a constant initializer, default 'uniform'/'constant' "
        "ids, acyclic pair lists, bounds). On every fresh layer: every configured inequality (latpred), one clause "
        "per configured constraint, assert_constraints(), and kernel.constraint(kernel) == kernel for "
        "monotonicity+bounds-only configs. About 10% of the layer-route cases of all four layer kinds (plus fixed "
        "witnesses) build the layer in float32, the layers' default dtype (predicates only, tolerance 1e-5). "
        "Non-trivial = the initial kernel is not constant; distinct = distinct desc.")
TRUSTED = ["model: Model/LatticeInit.v, Model/PWLInit.v, Model/KFLInit.v (hand-written from lattice_lib / "
           "lattice_layer / pwl_calibration_lib / pwl_calibration_layer / kronecker_factored_lattice_lib); "
           "Model/LinearProject.v cat_project for the categorical initial kernel",
           "oracles: np.random.shuffle = an arbitrary order inside each level (coordinate sum), "
           "tf.sort(tf.random.uniform) = an arbitrary sorted vector in [min, max] with one entry per vertex, "
           "tf.random.uniform for KFL = an arbitrary sample tensor in [init_min, init_max]; the harness checks "
           "these hypotheses on the values recovered from the implementation (in Coq: oracle_ok)",
           "C10_constraint_fixes_init takes 'the Dykstra stage returns its input (teq) on a monotone kernel' as an "
           "explicit hypothesis (proved for the abstract scheme in C08); the tie observes constraint(kernel) == kernel",
           "canonicalisation of strings ('increasing', 'valley', ...) is done by the harness before the model "
           "(C16 covers the canonicalisers)"]
LIMITS = ["float rounding outside the model (tolerance 1e-9 on the float64 path)",
          "float32 (the layers' DEFAULT dtype): about 10% of the layer-route cases (Lattice / PWLCalibration / "
          "KroneckerFactoredLattice / CategoricalCalibration, desc field dtype='float32', class suffix _f32) build the "
          "layer in float32; on these only the property predicates are evaluated (tolerance 1e-5 relative to "
          "max(1, |v|), assert_constraints(eps = that tolerance)); the Coq comparison is SKIPPED for them because "
          "Harness/H_C10.v check compares with the fixed tolerance 1e-9 (tol32 is defined there but not used by check)",
          "known-finding classes (D6, D24, D25, D63) are matched clause by clause: every violated clause names its "
          "constraint (dimension / trust / pair / group) and must belong to the sub-case the finding describes; the "
          "assert_constraints clause carries the feature indices parsed from the library's message",
          "Keras initializer objects / ids other than the library's own are outside the property",
          "KFL function level: C10_kfl_fresh_function_{monotone,bounded,default_range} state that the layer's function "
          "(C07's model MK.unit_out: interpolation, product, scale, mean, bias) on the fresh kernel / scale / bias "
          "is monotone in every monotone input and within the bounds, for every uniform draw in the init range "
          "(0 <= init_min, and init_max <= 1 when a bound is set); MK.unit_out is tied to the layer's call by the "
          "C07 check (H_C07), the initialiser models by this check (CKflCol / CKflScaleBias; "
          "C10_kfl_init_models_agree links the two scale/bias models); on the implementation the function is probed "
          "on the fresh layer (clauses 'kfl init: output decreases ...' / 'output outside the bounds')",
          "tfl.layers.Linear has NO library initializer (kernel_initializer defaults to the Keras 'random_uniform', "
          "bias to 'zeros'): there is no initializer model and no C10 theorem for it; a fresh constrained Linear "
          "layer is not claimed to satisfy its constraints (the first projection is property C06's business)"]

PRED_TOL = 1e-9
F32_TOL = 1e-5
F32_SHARE = 0.1


def dtype_of(d):
  return d.get("dtype", "float64")


def tol_of(d):
  """Relative comparison tolerance of a case (multiplied by max(1, |v|) at each use)."""
  return F32_TOL if dtype_of(d) == "float32" else PRED_TOL


def draw_dtype(rng):
  return "float32" if rng.random() < F32_SHARE else "float64"

LIN_IDS = ["linear_initializer", "LinearInitializer"]
RND_IDS = ["random_monotonic_initializer", "RandomMonotonicInitializer"]
UOL_IDS = ["random_uniform_or_linear_initializer", "RandomUniformOrLinearInitializer"]


# ---------------------------------------------------------------------------
# helpers mirroring configuration glue
# ---------------------------------------------------------------------------
def all_unimodalities(cfg):
  out = list(cfg["uni"])
  for dims, direction in cfg["juni"]:
    for d in dims:
      out[d] = 1 if direction == "valley" else -1
  return out


def juni_overwrites(cfg):
  """0: no joint group touches a dimension with a regular unimodality; 1: it does, same direction; 2: some
  dimension's regular direction is overwritten by the opposite one (create_kernel_initializer merge)."""
  out = 0
  for dims, direction in cfg["juni"]:
    for d in dims:
      if cfg["uni"][d]:
        out = max(out, 2 if cfg["uni"][d] != (1 if direction == "valley" else -1) else 1)
  return out


def juni_all(cfg):
  return len(cfg["juni"]) == 1 and set(cfg["juni"][0][0]) == set(range(len(cfg["sizes"])))


def resolved(desc):
  """0 linear, 1 random monotonic, 2 keras."""
  i = desc["id"]
  if i in LIN_IDS:
    return 0
  if i in RND_IDS:
    return 1
  if i in UOL_IDS:
    return 2 if juni_all(desc["cfg"]) else 0
  return 2


def only_mono_bounds(cfg):
  return not (any(cfg["uni"]) or cfg["edge"] or cfg["trap"] or cfg["mdom"] or cfg["rdom"] or cfg["jmono"] or cfg["juni"])


# ---------------------------------------------------------------------------
# known-finding classes
# ---------------------------------------------------------------------------
def _clauses(case):
  return [c for c in (case.pred_fail or "").split("; ") if c]


def _meta(case):
  """Structured clauses of a lattice-layer case: [{text, fam, key, src}] (src 'pred' = inequality evaluated by the
  harness on the fresh kernel, 'assert' = the layer's own assert_constraints, 'other' = anything else). None when
  they do not line up with pred_fail (then no class matches and the case is reported)."""
  info = case.info if isinstance(case.info, dict) else {}
  m = info.get("clauses")
  if not m or [c.get("text") for c in m] != _clauses(case):
    return None
  return m


def _lattice_layer(case):
  d = case.desc
  return d.get("kind") == "lattice" and d.get("route") == "layer"


def _configured(cfg, fam, key):
  """The configured constraints of family fam that an 'assert' clause with feature indices key can refer to."""
  lst = {"edge": cfg["edge"], "trap": cfg["trap"], "mdom": cfg["mdom"], "rdom": cfg["rdom"], "jmono": cfg["jmono"]}.get(fam, [])
  return [list(t) for t in lst if key is not None and list(t[:2]) == list(key[:2])]


def _d6_constraint_ok(cfg, au, fam, t):
  """D6 (a) trapezoid trust whose CONDITIONAL feature is monotone or unimodal, (b) monotonic dominance whose dominant
  dimension has MORE vertices than the weak one, (c) joint monotonicity touching a unimodal dimension."""
  if fam == "trap":
    return bool(cfg["monos"][t[1]] or au[t[1]])
  if fam == "mdom":
    return cfg["sizes"][t[0]] > cfg["sizes"][t[1]]
  if fam == "jmono":
    return bool(au[t[0]] or au[t[1]])
  return False


def _d6(case):
  if not _lattice_layer(case) or resolved(case.desc) != 0:
    return False
  meta = _meta(case)
  if meta is None:
    return False
  cfg = case.desc["cfg"]
  au = all_unimodalities(cfg)
  for c in meta:
    if c["fam"] not in ("trap", "mdom", "jmono") or c["key"] is None:
      return False
    if c["src"] == "pred":
      ok = _d6_constraint_ok(cfg, au, c["fam"], c["key"])
    elif c["src"] == "assert":
      hit = _configured(cfg, c["fam"], c["key"])
      ok = bool(hit) and all(_d6_constraint_ok(cfg, au, c["fam"], t) for t in hit)
    else:
      ok = False
    if not ok:
      return False
  return True


# D24: families the finding lists (unimodalities - regular and joint -, trusts, dominances); never monotonicity,
# bounds, joint monotonicity (an all-increasing kernel satisfies it) or a statement / idempotence clause
_D24_FAMILIES = ("uni", "juni", "edge", "trap", "mdom", "rdom")


def _d24(case):
  if not _lattice_layer(case) or resolved(case.desc) != 1:
    return False
  cfg = case.desc["cfg"]
  if only_mono_bounds(cfg) or case.info.get("initializer") != "RandomMonotonicInitializer":
    return False
  meta = _meta(case)
  if meta is None:
    return False
  for c in meta:
    if c["fam"] not in _D24_FAMILIES or c["key"] is None:
      return False
    if c["src"] == "assert":
      if not _configured(cfg, c["fam"], c["key"]):
        return False
    elif c["src"] != "pred":
      return False
  return True


def _d25(case):
  """ONE joint unimodality group over all features + the default initializer id: the layer is built by the Keras
  random_uniform(-0.05, 0.05) fall-back. Only clauses that this kernel explains: output bounds, the joint
  unimodality group itself and joint monotonicities configured next to it (the fall-back ignores every constraint;
  no other family can be configured together with an all-features group)."""
  d = case.desc
  if not _lattice_layer(case) or d["id"] not in UOL_IDS or not juni_all(d["cfg"]):
    return False
  if case.info.get("initializer") != "RandomUniform":
    return False
  k = case.info.get("kernel") or []
  if not k or max(abs(float(v)) for v in k) > 0.05:
    return False
  meta = _meta(case)
  if meta is None:
    return False
  for c in meta:
    if c["fam"] not in ("bounds", "juni", "jmono") or c["key"] is None:
      return False
    if c["fam"] == "bounds":
      # random_uniform(-0.05, 0.05) can only leave a lower bound above -0.05 / an upper bound below 0.05
      b = d["cfg"]["omin"] if c["key"] == ["lower"] else d["cfg"]["omax"] if c["key"] == ["upper"] else None
      if b is None or (c["key"] == ["lower"] and b <= -0.05) or (c["key"] == ["upper"] and b >= 0.05):
        return False
    elif c["src"] == "assert":
      if not _configured(d["cfg"], c["fam"], c["key"]):
        return False
    elif c["src"] != "pred":
      return False
  return True


def _d15(case):
  d = case.desc
  if d.get("kind") != "categorical" or not d["pairs"]:
    return False
  return all(c.startswith("ordering pair") or c.startswith("assert_constraints") for c in _clauses(case))


def _overwritten_dims(cfg):
  """Dimensions whose REGULAR unimodality direction differs from the direction of a joint group containing them."""
  out = set()
  for dims, direction in cfg["juni"]:
    for dd in dims:
      if cfg["uni"][dd] and cfg["uni"][dd] != (1 if direction == "valley" else -1):
        out.add(dd)
  return out


def _juni_overwrite(case):
  """Linear initializer, a joint unimodality group contains a dimension whose REGULAR unimodality has the other
  direction: create_kernel_initializer's merge lets the joint direction win, so the fresh kernel violates the regular
  unimodality OF THAT DIMENSION (and only that). Takes effect only when known_findings.json lists the class."""
  if not _lattice_layer(case) or resolved(case.desc) != 0:
    return False
  bad = _overwritten_dims(case.desc["cfg"])
  meta = _meta(case)
  if not bad or meta is None:
    return False
  return all(c["fam"] == "uni" and c["src"] == "pred" and c["key"] is not None and c["key"][0] in bad for c in meta)


KNOWN_CLASSES = {
    "juni_overwrites_regular_unimodality": _juni_overwrite,
    "linear_init_violates_trapezoid_or_dominance": _d6,
    "random_monotonic_init_ignores_other_constraints": _d24,
    "joint_unimodality_all_features_random_uniform_init": _d25,
    "categorical_init_ignores_pairs": _d15,
}


# ---------------------------------------------------------------------------
# generators
# ---------------------------------------------------------------------------
def lattice_bounds(rng):
  """Output bounds for which default_init_params yields a non-empty range."""
  mode = rng.choice(["none", "min", "max", "both", "both", "neg"])
  if mode == "none":
    return None, None
  if mode == "min":
    return tfimpl.dy(rng, -4, 0.875), None
  if mode == "max":
    return None, tfimpl.dy(rng, 0.125, 4)
  if mode == "neg":
    a = tfimpl.dy(rng, -6, -3)
    return a, a + rng.choice([0.5, 1.0, 2.0])
  a = tfimpl.dy(rng, -4, 4)
  return a, a + rng.choice([0.5, 1.0, 4.0])


def gen_lattice(rng, i):
  cfg = latgen.gen_cfg(rng, force_mono=rng.random() < 0.7)
  style = rng.random()
  if style < 0.35:      # monotonicity + bounds only
    cfg.update(edge=[], trap=[], uni=[0] * len(cfg["sizes"]), mdom=[], rdom=[], jmono=[], juni=[])
  elif style < 0.55:    # monotonicity + unimodality + bounds
    cfg.update(edge=[], trap=[], mdom=[], rdom=[], jmono=[], juni=[])
    for d in range(len(cfg["sizes"])):
      if not cfg["monos"][d] and rng.random() < 0.6:
        if cfg["sizes"][d] < 3:
          cfg["sizes"][d] = rng.choice([3, 4, 5])
        big = rng.choice([6, 7, 8])
        if rng.random() < 0.4 and int(np.prod(cfg["sizes"])) // cfg["sizes"][d] * big <= 160:
          cfg["sizes"][d] = big      # unimodal sizes above 5 (peak / valley centre at size // 2)
        cfg["uni"][d] = rng.choice([-1, 1])
  elif style < 0.62:    # one joint unimodality group over all features (falls back to random_uniform)
    rank = len(cfg["sizes"])
    cfg.update(monos=[0] * rank, edge=[], trap=[], uni=[0] * rank, mdom=[], rdom=[], juni=[],
               jmono=cfg["jmono"] if rng.random() < 0.3 else [])
    cfg["sizes"] = [max(3, s) for s in cfg["sizes"]][:3]
    rank = len(cfg["sizes"])
    cfg.update(monos=[0] * rank, uni=[0] * rank, jmono=[p for p in cfg["jmono"] if max(p) < rank])
    dims = list(range(rank))
    rng.shuffle(dims)
    cfg["juni"] = [[dims, rng.choice(["valley", "peak"])]]
  elif style < 0.67:    # TWO joint unimodality groups that together cover all features (no random_uniform fall-back)
    rank = min(max(2, len(cfg["sizes"])), 3)
    sizes = ([max(3, s) for s in cfg["sizes"]] + [3, 3])[:rank]
    dims = list(range(rank))
    rng.shuffle(dims)
    cut = rng.randint(1, rank - 1)
    cfg.update(sizes=sizes, monos=[0] * rank, edge=[], trap=[], uni=[0] * rank, mdom=[], rdom=[], jmono=[],
               juni=[[dims[:cut], rng.choice(["valley", "peak"])], [dims[cut:], rng.choice(["valley", "peak"])]])
  elif style < 0.72:    # a joint unimodality group that contains a dimension with a REGULAR unimodality (merge overwrites)
    # (rank >= 2 and the group never covers all features: that is the random_uniform fall-back class above)
    rank = min(max(2, len(cfg["sizes"])), 3)
    sizes = ([max(3, s) for s in cfg["sizes"]] + [3])[:rank]
    d0 = rng.randrange(rank)
    direction = rng.choice([-1, 1])
    uni = [0] * rank
    uni[d0] = direction
    others = [d for d in range(rank) if d != d0]
    group = [d0] + rng.sample(others, rng.randint(0, len(others) - 1))
    rng.shuffle(group)
    # mostly the OTHER direction (the joint group overwrites the regular entry), sometimes the same one
    jdir = -direction if rng.random() < 0.75 else direction
    rest = [d for d in others if d not in group]
    if rest and rng.random() < 0.5:
      uni[rest[0]] = rng.choice([-1, 1])
    cfg.update(sizes=sizes, monos=[0] * rank, edge=[], trap=[], uni=uni, mdom=[], rdom=[], jmono=[],
               juni=[[group, "valley" if jdir == 1 else "peak"]])
  cfg["omin"], cfg["omax"] = lattice_bounds(rng)
  route = rng.choice(["layer", "layer", "layer", "create", "class"])
  ident = rng.choice(LIN_IDS + RND_IDS + UOL_IDS + UOL_IDS[:1])
  init = None
  if route == "class":
    ident = rng.choice(["LinearInitializer", "LinearInitializer", "lib.linear_initializer", "RandomMonotonicInitializer"])
    a = tfimpl.dy(rng, -6, 4)
    init = [a, a + rng.choice([0.125, 1.0, 3.0])]
  elif route == "create":
    if rng.random() < 0.5:
      a = tfimpl.dy(rng, -6, 4)
      init = [a, a + rng.choice([0.125, 1.0, 3.0])]
    if rng.random() < 0.08:
      ident = rng.choice(["zeros", "glorot_uniform"])
  form = rng.choice(["int", "int", "str", "none"])
  if form == "none" and any(cfg["monos"]):
    form = "int"
  d = dict(kind="lattice", route=route, id=ident, cfg=cfg, init=init, seed=1000 + i, form=form)
  if route == "layer":
    d["dtype"] = draw_dtype(rng)
  return d


def default_descs():
  """default_init_params on a fixed grid: every None pattern, negative / zero / small / large bounds."""
  out = []
  for omin in [None, -2.0, 0.0, 0.5, 1.0, 3.0]:
    for omax in [None, -3.0, 0.0, 0.25, 2.0]:
      out.append(dict(kind="default", omin=omin, omax=omax))
  return out


def gen_pwl(rng):
  n = rng.choice([2, 3, 3, 4, 5, 6])
  x = tfimpl.dy(rng, -4, 4)
  kps = [x]
  for _ in range(n - 1):
    x += rng.choice([0.125, 0.5, 1.0, 1.0, 2.5])
    kps.append(x)
  units = rng.choice([1, 1, 2, 3])
  mono = rng.choice([-1, 0, 1, 1])
  slopes = rng.random() < 0.5
  route = rng.choice(["layer", "layer", "class", "lib"])
  if route == "layer":
    mode = rng.choice(["none", "min", "max", "both", "both", "both"])
    a = tfimpl.dy(rng, -4, 4)
    omin = a if mode in ("min", "both") else None
    omax = a + rng.choice([0.0, 0.5, 2.0]) if mode in ("max", "both") else None
    cyclic = mono == 0 and not slopes and n >= 3 and rng.random() < 0.3
    return dict(kind="pwl", route=route, kps=kps, units=units, mono=mono, slopes=slopes, omin=omin, omax=omax,
                clamp_min=mono != 0 and rng.random() < 0.3, clamp_max=mono != 0 and rng.random() < 0.3, cyclic=cyclic,
                form=rng.choice(["int", "str"]), dtype=draw_dtype(rng))
  a = tfimpl.dy(rng, -4, 4)
  return dict(kind="pwl", route=route, kps=kps, units=units, mono=mono, slopes=slopes, omin=a,
              omax=a + rng.choice([0.0, 0.5, 2.0, 5.0]), clamp_min=False, clamp_max=False, cyclic=False,
              form=rng.choice(["int", "str"]))


def gen_kfl(rng, i):
  dims = rng.choice([1, 2, 2, 3])
  monos = [rng.choice([0, 1, 1]) for _ in range(dims)]
  mode = rng.choice(["none", "min", "max", "both", "both"])
  a = tfimpl.dy(rng, -4, 4)
  return dict(kind="kfl", size=rng.choice([2, 3, 3, 4]), dims=dims, units=rng.choice([1, 1, 2]),
              terms=rng.choice([1, 2, 3]), monos=monos if rng.random() < 0.9 else None,
              omin=a if mode in ("min", "both") else None,
              omax=a + rng.choice([0.5, 2.0]) if mode in ("max", "both") else None, seed=2000 + i,
              dtype=draw_dtype(rng))


def gen_categorical(rng, i):
  n = rng.choice([2, 3, 3, 4, 5])
  units = rng.choice([1, 1, 2, 3])
  rank = list(range(n))
  rng.shuffle(rank)
  cand = [(a, b) for a in range(n) for b in range(n) if rank[a] < rank[b]]
  pairs = rng.sample(cand, rng.randint(1, min(4, len(cand)))) if rng.random() < 0.8 else []
  mode = rng.choice(["none", "min", "max", "both", "both"])
  a = tfimpl.dy(rng, -2, 2)
  omin = a if mode in ("min", "both") else None
  omax = a + rng.choice([0.5, 2.0]) if mode in ("max", "both") else None
  init = rng.choice(["raw", "raw", "uniform", "uniform", "constant"])
  raw = [[tfimpl.dy(rng, -3, 3) for _ in range(units)] for _ in range(n)] if init == "raw" else None
  return dict(kind="categorical", n=n, units=units, pairs=[list(p) for p in pairs], omin=omin, omax=omax,
              init=init, raw=raw, seed=3000 + i, dtype=draw_dtype(rng))


def regression_descs():
  """Fixed cases: D6 / D24 / D25 witnesses (open), D15 witness (fixed), small exact shapes."""
  base = dict(units=1, edge=[], trap=[], uni=[0, 0], mdom=[], rdom=[], jmono=[], juni=[], omin=None, omax=None)
  mk = lambda **kw: dict(base, **kw)
  out = [
      dict(kind="lattice", route="layer", id=UOL_IDS[0], cfg=mk(sizes=[2, 2], monos=[1, 1], trap=[[0, 1, 1]]), init=None, seed=1, form="int"),
      dict(kind="lattice", route="layer", id=UOL_IDS[0], cfg=mk(sizes=[3, 2], monos=[1, 1], mdom=[[0, 1]]), init=None, seed=2, form="int"),
      dict(kind="lattice", route="layer", id=UOL_IDS[0], cfg=mk(sizes=[2, 3], monos=[1, 1], mdom=[[0, 1]], rdom=[[1, 0]], edge=[[0, 1, 1]]), init=None, seed=2, form="int"),
      dict(kind="lattice", route="layer", id=UOL_IDS[0], cfg=mk(sizes=[4, 3], monos=[1, 0], uni=[0, 1], jmono=[[0, 1]]), init=None, seed=3, form="int"),
      dict(kind="lattice", route="layer", id=RND_IDS[0], cfg=mk(sizes=[2, 2], monos=[1, 0], trap=[[0, 1, 1]]), init=None, seed=4, form="int"),
      dict(kind="lattice", route="layer", id=RND_IDS[0], cfg=mk(sizes=[3, 2], monos=[0, 0], uni=[1, 0]), init=None, seed=5, form="int"),
      dict(kind="lattice", route="layer", id=UOL_IDS[0], cfg=mk(sizes=[3], monos=[0], uni=[0], juni=[[[0], "valley"]], omin=1.0, omax=2.0), init=None, seed=6, form="int"),
      dict(kind="lattice", route="layer", id=UOL_IDS[0], cfg=mk(sizes=[5, 4], monos=[0, 0], uni=[1, -1], omin=-3.0, omax=-1.0, units=2), init=None, seed=7, form="str"),
      dict(kind="lattice", route="layer", id=UOL_IDS[0], cfg=mk(sizes=[3, 2, 2], monos=[0, 0, 0], uni=[0, 0, 0], omax=2.0), init=None, seed=8, form="none"),
      dict(kind="categorical", n=3, units=1, pairs=[[0, 1], [1, 2]], omin=0.0, omax=1.0, init="uniform", raw=None, seed=0),
      dict(kind="categorical", n=3, units=2, pairs=[[0, 1], [1, 2]], omin=None, omax=None, init="raw",
           raw=[[0.5, 1.0], [0.25, -1.0], [2.0, 0.0]], seed=0),
  ]
  # the layers' DEFAULT dtype: the same witnesses and exact shapes once more in float32 (predicates only)
  out += [dict(x, dtype="float32") for x in out if x["kind"] in ("lattice", "categorical")]
  out += [
      dict(kind="lattice", route="layer", id=LIN_IDS[0], cfg=mk(sizes=[3, 4], monos=[1, 1], rdom=[[0, 1]], edge=[[1, 0, -1]], omin=-3.0, omax=5.0, units=3), init=None, seed=9, form="int", dtype="float32"),
      dict(kind="lattice", route="layer", id=RND_IDS[0], cfg=mk(sizes=[3, 3, 2], monos=[1, 1, 1], uni=[0, 0, 0], omin=0.125, omax=7.875, units=2), init=None, seed=10, form="str", dtype="float32"),
      dict(kind="pwl", route="layer", kps=[-3.875, -1.0, 0.125, 4.0], units=2, mono=-1, slopes=True, omin=-2.5, omax=3.0,
           clamp_min=True, clamp_max=False, cyclic=False, form="int", dtype="float32"),
      dict(kind="pwl", route="layer", kps=[0.0, 0.125, 2.625], units=1, mono=0, slopes=False, omin=None, omax=1.5,
           clamp_min=False, clamp_max=False, cyclic=True, form="str", dtype="float32"),
      dict(kind="kfl", size=3, dims=2, units=2, terms=2, monos=[1, 0], omin=-1.5, omax=0.5, seed=2999, dtype="float32"),
      dict(kind="kfl", size=4, dims=3, units=1, terms=3, monos=[1, 1, 1], omin=None, omax=3.0, seed=2998, dtype="float32"),
  ]
  return out


def gen_descs(ctx):
  rng = ctx.rng
  out = regression_descs()
  for i in range(ctx.n(150, 3000)):
    out.append(gen_lattice(rng, i))
  out += default_descs()
  for _ in range(ctx.n(50, 800)):
    out.append(gen_pwl(rng))
  for i in range(ctx.n(30, 500)):
    out.append(gen_kfl(rng, i))
  for i in range(ctx.n(30, 500)):
    out.append(gen_categorical(rng, i))
  return out


# ---------------------------------------------------------------------------
# evaluation
# ---------------------------------------------------------------------------
def zopt(l):
  return "None" if l is None else "(Some %s)" % czl(l)


def coq_id(ident):
  if ident in LIN_IDS:
    return "IdLinear"
  if ident in RND_IDS:
    return "IdRandomMono"
  if ident in UOL_IDS:
    return "IdUniformOrLinear"
  return "IdKeras"


def coq_juni(juni):
  if not juni:
    return "(@nil joint_uni)"
  return clist(["(%s, %s)" % (cnatl(dims), cz(1 if s == "valley" else -1)) for dims, s in juni])


def coq_order(order):
  if not order:
    return "(@nil (list idx))"
  return clist([clist([cnatl(v) for v in lvl]) if lvl else "(@nil idx)" for lvl in order])


_ASSERT_FAMILIES = [("Trapezoid trust violation", "trap"), ("Edgeworth trust violation", "edge"),
                    ("Range dominance violation", "rdom"), ("Dominance violation", "mdom"),
                    ("Joint monotonicity violation", "jmono"), ("Joint unimodality violation", "juni"),
                    ("Lower bound violation", "bounds"), ("Upper bound violation", "bounds"),
                    ("Monotonicity violation", "mono")]


def assert_msg(e):
  return assert_clause(e)[0]


def assert_clause(e):
  """(text, family, key) of the library's own assertion failure. tf.Assert summarises its data one item per line:
  b'Trapezoid trust violation' / b'Feature indices:' / 0 / b',' / 1 / ... ; the feature indices are parsed out of
  it so that the clause names the constraint (key None when they cannot be parsed)."""
  import re  # pylint: disable=g-import-not-at-top
  s = str(e)
  for m, fam in _ASSERT_FAMILIES:
    if m in s:
      if fam == "bounds":
        return m, fam, ["lower" if m.startswith("Lower") else "upper"]
      if fam == "mono":
        g = re.search(r"Feature index:'?\s*\n\s*(\d+)\s*\n", s)
        key = [int(g.group(1))] if g else None
      else:
        g = re.search(r"Feature indices:'?\s*\n\s*(\d+)\s*\nb?'?,'?\s*\n\s*(\d+)\s*\n", s)
        key = [int(g.group(1)), int(g.group(2))] if g else None
      return (m + (" %s" % (tuple(key),) if key else "")), fam, key
  return type(e).__name__ + " " + s.split("\n")[0][:80].replace("; ", ", "), "other", None


def constraint_violations(W, sizes, cfg):
  """One entry (family, key, label, largest violation) per CONFIGURED constraint: per monotone / unimodal dimension,
  per bound, per trust / dominance / joint-monotonicity tuple (a repeated tuple once), per joint unimodality group."""
  rank = len(sizes)
  one = lambda dd, v: [v if k == dd else 0 for k in range(rank)]
  out = []
  for dd, m in enumerate(cfg["monos"]):
    if m:
      out.append(("mono", [dd], "monotonicity dim %d" % dd, latpred.mono_viol(W, sizes, one(dd, m))))
  for dd, u in enumerate(cfg["uni"]):
    if u:
      out.append(("uni", [dd], "unimodality dim %d (%s)" % (dd, "valley" if u == 1 else "peak"),
                  latpred.unimodality_viol(W, sizes, one(dd, u))))
  if cfg["omin"] is not None:
    out.append(("bounds", ["lower"], "output bounds lower", latpred.bounds_viol(W, cfg["omin"], None)))
  if cfg["omax"] is not None:
    out.append(("bounds", ["upper"], "output bounds upper", latpred.bounds_viol(W, None, cfg["omax"])))
  seen = set()
  for fam, name, fn in (("edge", "edgeworth trust", latpred.edgeworth_viol), ("trap", "trapezoid trust", latpred.trapezoid_viol),
                        ("mdom", "monotonic dominance", latpred.monotonic_dominance_viol),
                        ("rdom", "range dominance", latpred.range_dominance_viol),
                        ("jmono", "joint monotonicity", latpred.joint_monotonicity_viol)):
    for t in cfg[fam]:
      key = [int(x) for x in t]
      if (fam, tuple(key)) in seen:
        continue
      seen.add((fam, tuple(key)))
      out.append((fam, key, "%s %s" % (name, tuple(key)), fn(W, sizes, [key])))
  for gi, (dims, direction) in enumerate(cfg["juni"]):
    out.append(("juni", [gi], "joint unimodality group %d (%s, %s)" % (gi, ",".join(str(x) for x in dims), direction),
                latpred.joint_unimodality_viol(W, sizes, [[list(dims), direction]])))
  return out


def invert_random(w_col, sizes):
  """order (per level, vertices in increasing parameter index) and sorted samples recovered from one
  unit's kernel column."""
  n = len(w_col)
  verts = [tuple(int(x) for x in np.unravel_index(f, sizes)) for f in range(n)]
  nlev = sum(s - 1 for s in sizes) + 1
  order = [[] for _ in range(nlev)]
  for f in sorted(range(n), key=lambda f: (sum(verts[f]), w_col[f], f)):
    order[sum(verts[f])].append(list(verts[f]))
  return order, sorted(float(x) for x in w_col)


def lattice_layer_kwargs(tfl, d):
  cfg = d["cfg"]
  kw = latgen.constraint_kwargs(cfg)
  kw.pop("enforce_strict_monotonicity")
  if d["form"] == "str":
    kw["monotonicities"] = ["increasing" if m else "none" for m in cfg["monos"]]
    if kw["unimodalities"] is not None:
      kw["unimodalities"] = [{1: "valley", -1: "peak", 0: "none"}[u] for u in cfg["uni"]]
  elif d["form"] == "none":
    kw["monotonicities"] = None
  return kw


def linear_statement(W, sizes, monos, unis, imin, imax, rtol=PRED_TOL):
  """The property's own description of the linear initialiser, on the implementation's kernel."""
  fails = []
  rank = len(sizes)
  t = latpred.tens(W, sizes)
  monos = list(monos) if monos is not None else [0] * rank
  unis = list(unis) if unis is not None else [0] * rank
  if not any(monos) and not any(unis):
    monos = [1] * rank
  ncd = sum(1 for m in monos if m) + sum(1 for u in unis if u)
  r = (imax - imin) / ncd
  tol = rtol * max(1.0, abs(imin), abs(imax))
  for dd in range(rank):
    diff = np.diff(t, axis=dd)
    if monos[dd]:
      if np.abs(diff - r / (sizes[dd] - 1)).max() > tol:
        fails.append("linear init: not linear with slope range/(size-1) along monotone dim %d" % dd)
    elif unis[dd]:
      if latpred.unimodality_viol(W, sizes, [unis[k] if k == dd else 0 for k in range(rank)]) > tol:
        fails.append("linear init: not %s-shaped around size//2 along unimodal dim %d" % ("valley" if unis[dd] == 1 else "peak", dd))
    elif np.abs(diff).max() > tol:
      fails.append("linear init: not constant along unconstrained dim %d" % dd)
  if abs(float(t.min()) - imin) > tol or abs(float(t.max()) - imax) > tol:
    fails.append("linear init: min/max %r/%r differ from the init range %r/%r" % (float(t.min()), float(t.max()), imin, imax))
  if np.abs(W - W[:, :1]).max() > 0:
    fails.append("linear init: units differ")
  return fails


def random_statement(W, sizes, imin, imax):
  fails = []
  if latpred.mono_viol(W, sizes, [1] * len(sizes)) > 0:
    fails.append("random monotonic init: decreasing along some dimension")
  if W.min() < imin or W.max() > imax:
    fails.append("random monotonic init: outside [%r, %r]" % (imin, imax))
  if np.abs(W - W[:, :1]).max() > 0:
    fails.append("random monotonic init: units differ")
  return fails


def eval_lattice(tf, tfl, d):
  cfg = d["cfg"]
  sizes, units, rank = cfg["sizes"], cfg["units"], len(cfg["sizes"])
  n = int(np.prod(sizes))
  np.random.seed(d["seed"])
  tf.keras.utils.set_random_seed(d["seed"])
  fails = []
  which = resolved(d)
  monos_m = None if d["form"] == "none" else list(cfg["monos"])
  layer = None
  if d["route"] == "class":
    lo, hi = d["init"]
    unis = list(cfg["uni"]) if any(cfg["uni"]) or d["seed"] % 2 else None
    monos_arg = monos_m
    if d["form"] == "str":
      monos_arg = ["increasing" if m else "none" for m in cfg["monos"]]
    if d["id"] == "RandomMonotonicInitializer":
      init = tfl.lattice_layer.RandomMonotonicInitializer(lattice_sizes=sizes, output_min=lo, output_max=hi, unimodalities=unis)
      W = init(shape=[n, units], dtype=tf.float64).numpy()
      which = 1
      order, samples = invert_random(W[:, 0], sizes)
      fails += random_statement(W, sizes, lo, hi)
      coq = "CLattice IdRandomMono %s %s None %s (@nil joint_uni) None None (Some (%s, %s)) %s %s 1%%nat %s" % (
          cnatl(sizes), cnat(units), zopt(unis), cq(lo), cq(hi), coq_order(order), cql(samples), cql(W.ravel()))
    else:
      if d["id"] == "lib.linear_initializer":
        W = tfl.lattice_lib.linear_initializer(sizes, lo, hi, monotonicities=monos_m, unimodalities=unis, units=units,
                                               dtype=tf.float64).numpy()
      else:
        init = tfl.lattice_layer.LinearInitializer(lattice_sizes=sizes, monotonicities=monos_arg, output_min=lo,
                                                   output_max=hi, unimodalities=unis)
        W = init(shape=[n, units], dtype=tf.float64).numpy()
      which = 0
      fails += linear_statement(W, sizes, monos_m, unis, lo, hi)
      coq = "CLinear %s %s %s %s %s %s %s" % (cnatl(sizes), cnat(units), zopt(monos_m), zopt(unis), cq(lo), cq(hi),
                                             cql(W.ravel()))
    klass = "lat_class_%s_u%d" % ("rnd" if which == 1 else "lin", units)
    return Case(d, coq=coq, pred_fail="; ".join(fails) if fails else None, nontrivial=bool(np.ptp(W) > 0), klass=klass,
                info={"kernel": W.ravel().tolist()})

  kw = lattice_layer_kwargs(tfl, d)
  juni_kw = kw["joint_unimodalities"]
  unis_kw = kw["unimodalities"]
  f32 = d["route"] == "layer" and dtype_of(d) == "float32"
  rtol = tol_of(d) if f32 else PRED_TOL
  if d["route"] == "create":
    ov = d["init"] or [None, None]
    init = tfl.lattice_layer.create_kernel_initializer(
        d["id"], sizes, kw["monotonicities"], cfg["omin"], cfg["omax"], unis_kw, juni_kw, ov[0], ov[1])
  else:
    layer = tfl.layers.Lattice(units=units, kernel_initializer=d["id"], dtype="float32" if f32 else "float64", **kw)
    init = layer.kernel_initializer
  tname = type(init).__name__
  which_impl = 0 if tname == "LinearInitializer" else 1 if tname == "RandomMonotonicInitializer" else 2
  if layer is not None:
    layer.build((None, rank) if units == 1 else (None, units, rank))
    W = layer.kernel.numpy()
    if str(W.dtype) != ("float32" if f32 else "float64"):
      fails.append("kernel dtype %s differs from the layer dtype" % W.dtype)
    W = W.astype(np.float64)
  else:
    W = np.asarray(init(shape=[n, units], dtype=tf.float64))
  if d["init"]:
    imin, imax = d["init"]
  else:
    imin, imax = [float(x) for x in tfl.lattice_lib.default_init_params(cfg["omin"], cfg["omax"])]
  au = all_unimodalities(cfg)
  order, samples = ([], [])
  if which_impl == 0:
    fails += linear_statement(W, sizes, monos_m, au, imin, imax, rtol)
  elif which_impl == 1:
    order, samples = invert_random(W[:, 0], sizes)
    fails += random_statement(W, sizes, imin, imax)
  if which_impl != which:
    fails.append("initializer id %s resolved to %s" % (d["id"], tname))
  keras_id = d["id"] not in LIN_IDS + RND_IDS + UOL_IDS
  meta = [{"text": t, "fam": "other", "key": None, "src": "other"} for t in fails]

  def add(text, fam="other", key=None, src="other"):
    fails.append(text)
    meta.append({"text": text, "fam": fam, "key": key, "src": src})
  if layer is not None and not keras_id:
    tol = rtol * max(1.0, float(np.abs(W).max()))
    # every configured inequality, one clause per constraint
    for fam, key, label, v in constraint_violations(W, sizes, cfg):
      if v > tol:
        add("%s violated by %r on the fresh kernel" % (label, v), fam, key, "pred")
    try:
      if f32:
        layer.assert_constraints(eps=max(1e-6, tol))
      else:
        layer.assert_constraints()
    except Exception as e:  # pylint: disable=broad-except
      text, fam, key = assert_clause(e)
      add("assert_constraints: %s" % text, fam, key, "assert" if fam != "other" else "other")
    if only_mono_bounds(cfg):
      out = layer.kernel.constraint(layer.kernel).numpy()
      if np.abs(out - W).max() > tol:
        add("constraint changes initial kernel by %r" % float(np.abs(out - W).max()))
  ov = "None" if not d["init"] else "(Some (%s, %s))" % (cq(d["init"][0]), cq(d["init"][1]))
  coq = "CLattice %s %s %s %s %s %s %s %s %s %s %s %s %s" % (
      coq_id(d["id"]), cnatl(sizes), cnat(units), zopt(monos_m), zopt(list(cfg["uni"]) if unis_kw is not None else None),
      coq_juni(cfg["juni"]), copt(cfg["omin"]), copt(cfg["omax"]), ov, coq_order(order), cql(samples),
      cnat(which_impl), cql(W.ravel()) if which_impl != 2 else "[]")
  fam = "mb" if only_mono_bounds(cfg) else "other"
  if juni_overwrites(cfg):
    fam += "_juniOverwritesUni%s" % ("Opposite" if juni_overwrites(cfg) == 2 else "Same")
  if len(cfg["juni"]) == 2 and set(cfg["juni"][0][0]) | set(cfg["juni"][1][0]) == set(range(rank)):
    fam += "_juniTwoGroupsCoverAll"
  if any(u and s > 5 for u, s in zip(au, sizes)):
    fam += "_uniSizeAbove5"
  klass = "lat_%s_%s_%s_u%d%s" % (d["route"], ["lin", "rnd", "keras"][which_impl], fam, units, "_f32" if f32 else "")
  if f32:
    coq = None   # H_C10.check compares with the fixed float64 tolerance: float32 cases are judged by the predicates only
  return Case(d, coq=coq, pred_fail="; ".join(fails) if fails else None, nontrivial=bool(np.ptp(W) > 0), klass=klass,
              info={"kernel": W.ravel().tolist(), "initializer": tname, "clauses": meta, "dtype": "float32" if f32 else "float64"})


def eval_default(tf, tfl, d):
  a, b = tfl.lattice_lib.default_init_params(d["omin"], d["omax"])
  fails = []
  if d["omin"] is not None and a != d["omin"] or d["omax"] is not None and b != d["omax"]:
    fails.append("default_init_params ignores a given bound")
  if (d["omin"] is not None and a < d["omin"]) or (d["omax"] is not None and b > d["omax"]):
    fails.append("default init range leaves the output bounds")
  coq = "CDefault %s %s %s %s" % (copt(d["omin"]), copt(d["omax"]), cq(float(a)), cq(float(b)))
  return Case(d, coq=coq, pred_fail="; ".join(fails) if fails else None, klass="default_init_params")


def eval_pwl(tf, tfl, d):
  kps, units, mono = d["kps"], d["units"], d["mono"]
  mono_arg = mono if d["form"] == "int" else {1: "increasing", 0: "none", -1: "decreasing"}[mono]
  fails = []
  if d["route"] == "layer":
    layer = tfl.layers.PWLCalibration(
        input_keypoints=kps, units=units, output_min=d["omin"], output_max=d["omax"], clamp_min=d["clamp_min"],
        clamp_max=d["clamp_max"], monotonicity=mono_arg, is_cyclic=d["cyclic"],
        kernel_initializer="equal_slopes" if d["slopes"] else "equal_heights", dtype=dtype_of(d))
    layer.build((None, units))
    K = layer.kernel.numpy()
    if str(K.dtype) != dtype_of(d):
      fails.append("kernel dtype %s differs from the layer dtype" % K.dtype)
    K = K.astype(np.float64)
    imin, imax = layer._output_init_min, layer._output_init_max  # pylint: disable=protected-access
    exp = tfl.pwl_calibration_lib.convert_all_constraints(d["omin"], d["omax"], d["clamp_min"], d["clamp_max"])
    if (imin, imax) != tuple(exp[:2]):
      fails.append("layer init range differs from convert_all_constraints")
    coq = "CPwlLayer %s %s %s %s %s %s %s %s %s %s" % (
        cql(kps), cnat(units), copt(d["omin"]), copt(d["omax"]), cbool(d["clamp_min"]), cbool(d["clamp_max"]), cz(mono),
        cbool(d["cyclic"]), cbool(d["slopes"]), cqm(K.tolist()))
  else:
    imin, imax = d["omin"], d["omax"]
    kp_arg = kps if d["slopes"] else None
    if d["route"] == "class":
      init = tfl.pwl_calibration_layer.UniformOutputInitializer(output_min=imin, output_max=imax, monotonicity=mono_arg,
                                                                keypoints=kp_arg)
      K = init(shape=[len(kps), units], dtype=tf.float64).numpy()
    else:
      K = tfl.pwl_calibration_lib.linear_initializer([len(kps), units], imin, imax, mono, keypoints=kp_arg,
                                                     dtype=tf.float64).numpy()
    layer = None
    coq = "CPwlDirect %s %s %s %s %s %s %s" % (cnat(len(kps)), cnat(units), cq(imin), cq(imax), cz(mono),
                                              "(Some %s)" % cql(kps) if d["slopes"] else "None", cqm(K.tolist()))
  f32 = d["route"] == "layer" and dtype_of(d) == "float32"
  tol = (F32_TOL if f32 else PRED_TOL) * max(1.0, abs(imin), abs(imax), float(np.abs(K).max()))
  heights = K[1:]
  vals = np.cumsum(K, axis=0)
  sgn = -1.0 if mono == -1 else 1.0
  if (sgn * heights).min() < -tol:
    fails.append("pwl init: heights against the configured direction")
  start, end = (imax, imin) if mono == -1 else (imin, imax)
  if np.abs(vals[0] - start).max() > tol or np.abs(vals[-1] - end).max() > tol:
    fails.append("pwl init: does not run from %r to %r" % (start, end))
  if vals.min() < imin - tol or vals.max() > imax + tol:
    fails.append("pwl init: keypoint outputs outside the init range")
  if d["slopes"]:
    lengths = np.diff(np.array(kps))[:, None]
    sl = heights / lengths
    if np.abs(sl - sl[:1]).max() > tol:
      fails.append("pwl init: slopes not equal")
  elif np.abs(heights - heights[:1]).max() > tol:
    fails.append("pwl init: heights not equal")
  if layer is not None:
    if d["omin"] is not None and vals.min() < d["omin"] - tol or d["omax"] is not None and vals.max() > d["omax"] + tol:
      fails.append("pwl init: keypoint outputs outside the output bounds")
    try:
      if f32:
        layer.assert_constraints(eps=max(1e-6, tol))
      else:
        layer.assert_constraints()
    except Exception as e:  # pylint: disable=broad-except
      fails.append("assert_constraints: %s" % (type(e).__name__ + " " + str(e).split("\n")[0][:120]))
    out = layer.kernel.constraint(layer.kernel).numpy()
    if np.abs(out - K).max() > tol:
      fails.append("constraint changes initial kernel by %r" % float(np.abs(out - K).max()))
  klass = "pwl_%s_%s_m%d%s%s" % (d["route"], "slopes" if d["slopes"] else "heights", mono, "_cyc" if d["cyclic"] else "",
                                 "_f32" if f32 else "")
  if f32:
    coq = None   # predicates only (fixed float64 tolerance in H_C10.check)
  return Case(d, coq=coq, pred_fail="; ".join(fails) if fails else None, nontrivial=bool(np.abs(heights).max() > 0),
              klass=klass, info={"kernel": K.tolist()})


def eval_kfl(tf, tfl, d):
  size, dims, units, terms = d["size"], d["dims"], d["units"], d["terms"]
  tf.keras.utils.set_random_seed(d["seed"])
  layer = tfl.layers.KroneckerFactoredLattice(lattice_sizes=size, units=units, num_terms=terms, monotonicities=d["monos"],
                                              output_min=d["omin"], output_max=d["omax"], dtype=dtype_of(d))
  layer.build(tf.TensorShape((None, dims)) if units == 1 else tf.TensorShape((None, units, dims)))
  f32 = dtype_of(d) == "float32"
  rtol = F32_TOL if f32 else 1e-9
  npdt = np.float32 if f32 else np.float64
  dtype_fail = [] if str(layer.kernel.numpy().dtype) == dtype_of(d) else [
      "kernel dtype %s differs from the layer dtype" % layer.kernel.numpy().dtype]
  K = layer.kernel.numpy().astype(np.float64)
  scale = layer.scale.numpy().astype(np.float64)
  bias = layer.bias.numpy().astype(np.float64)
  imin, imax = tfl.kronecker_factored_lattice_lib.default_init_params(d["omin"], d["omax"])
  tf.keras.utils.set_random_seed(d["seed"])
  raw = tf.random.uniform(K.shape, imin, imax, dtype=tf.float32 if f32 else tf.float64).numpy().astype(np.float64)
  recovered = np.allclose(np.sort(raw.ravel()), np.sort(K.ravel()), rtol=0, atol=0)
  if not recovered:
    raw = K.copy()  # fall back: the kernel itself as the sample (the model must then leave it unchanged)
  K5 = K.reshape(size, units, dims, terms)
  R5 = raw.reshape(size, units, dims, terms)
  monos = list(d["monos"]) if d["monos"] is not None else [0] * dims
  any_mono = any(monos)
  fails = list(dtype_fail)
  coq = ["CKflScaleBias %s %s %s %s %s %s %s %s" % (cnat(units), cnat(terms), copt(d["omin"]), copt(d["omax"]),
                                                     cqm(scale.tolist()), cql(bias.tolist()), cq(imin), cq(imax))]
  for u in range(units):
    for dd in range(dims):
      for t in range(terms):
        col = K5[:, u, dd, t]
        coq.append("CKflCol %s %s %s %s %s" % (cbool(any_mono), cbool(bool(monos[dd])), cq(scale[u, t]),
                                              cql(R5[:, u, dd, t].tolist()), cql(col.tolist())))
        if monos[dd] and (np.diff(np.sign(scale[u, t]) * col) < 0).any():
          fails.append("kfl init: column (unit %d, dim %d, term %d) not sorted in the direction of sign(scale)" % (u, dd, t))
  btol = rtol * max(1.0, abs(imin), abs(imax)) if f32 else 0.0   # float32 rounding of the (float64) init range ends
  if K.min() < imin - btol or K.max() > imax + btol:
    fails.append("kfl init: kernel outside [%r, %r]" % (imin, imax))
  # the function the fresh layer computes: vertices plus a few interior points
  grid = list(itertools.product(range(size), repeat=dims))
  pts = np.array(grid, dtype=np.float64)
  rs = np.random.RandomState(d["seed"])
  extra = rs.randint(0, 8 * (size - 1) + 1, size=(12, dims)) / 8.0
  X = np.concatenate([pts, extra], axis=0)
  Xin = X if units == 1 else np.repeat(X[:, None, :], units, axis=1)
  Y = layer(tf.constant(Xin.astype(npdt))).numpy().astype(np.float64).reshape(len(X), units)
  tol = rtol * max(1.0, float(np.abs(Y).max()))
  if d["omin"] is not None and Y.min() < d["omin"] - tol or d["omax"] is not None and Y.max() > d["omax"] + tol:
    fails.append("kfl init: output outside the bounds (%r .. %r)" % (float(Y.min()), float(Y.max())))
  index = {g: i for i, g in enumerate(grid)}
  for g in grid:
    for dd in range(dims):
      if monos[dd] and g[dd] + 1 < size:
        h = list(g); h[dd] += 1
        if (Y[index[tuple(h)]] - Y[index[g]]).min() < -tol:
          fails.append("kfl init: output decreases along monotone dim %d" % dd)
  for k in range(len(grid), len(X)):
    for dd in range(dims):
      if monos[dd] and X[k, dd] + 0.25 <= size - 1:
        X2 = X[k:k + 1].copy(); X2[0, dd] += 0.25
        X2in = X2 if units == 1 else np.repeat(X2[:, None, :], units, axis=1)
        if (layer(tf.constant(X2in.astype(npdt))).numpy().astype(np.float64).reshape(units) - Y[k]).min() < -tol:
          fails.append("kfl init: output decreases along monotone dim %d at an interior point" % dd)
  fails = sorted(set(fails))
  try:
    if f32:
      layer.assert_constraints(eps=max(1e-6, tol))
    else:
      layer.assert_constraints()
  except Exception as e:  # pylint: disable=broad-except
    fails.append("assert_constraints: %s" % (type(e).__name__ + " " + str(e).split("\n")[0][:120]))
  ktol = rtol * max(1.0, float(np.abs(K).max()), float(np.abs(scale).max()))
  if layer.kernel.constraint is not None:
    out = layer.kernel.constraint(layer.kernel).numpy()
    if np.abs(out - K).max() > ktol:
      fails.append("constraint changes initial kernel by %r" % float(np.abs(out - K).max()))
  if layer.scale.constraint is not None:
    out = layer.scale.constraint(layer.scale).numpy()
    if np.abs(out - scale).max() > ktol:
      fails.append("scale constraint changes initial scale by %r" % float(np.abs(out - scale).max()))
  bm = ("min" if d["omin"] is not None else "") + ("max" if d["omax"] is not None else "") or "nobounds"
  klass = "kfl_%s_t%d_u%d%s%s" % (bm, min(terms, 2), units, "" if recovered else "_inverted", "_f32" if f32 else "")
  if f32:
    coq = None   # predicates only (fixed float64 tolerance in H_C10.check)
  return Case(d, coq=coq, pred_fail="; ".join(fails) if fails else None, nontrivial=True, klass=klass,
              info={"kernel": K.ravel().tolist(), "scale": scale.tolist(), "bias": bias.tolist()})


def eval_categorical(tf, tfl, d):
  n, units = d["n"], d["units"]
  tf.keras.utils.set_random_seed(d["seed"])
  pairs = [tuple(p) for p in d["pairs"]] or None
  if d["init"] == "raw":
    init = tf.constant_initializer(np.array(d["raw"], dtype=np.float64))
  else:
    init = d["init"]
  layer = tfl.layers.CategoricalCalibration(num_buckets=n, units=units, output_min=d["omin"], output_max=d["omax"],
                                            monotonicities=pairs, kernel_initializer=init, dtype=dtype_of(d))
  layer.build((None, units))
  K = layer.kernel.numpy()
  fails = []
  f32 = dtype_of(d) == "float32"
  if str(K.dtype) != dtype_of(d):
    fails.append("kernel dtype %s differs from the layer dtype" % K.dtype)
  K = K.astype(np.float64)
  tol = (F32_TOL if f32 else 1e-9) * max(1.0, float(np.abs(K).max()))
  for a, b in d["pairs"]:
    if (K[a] - K[b]).max() > tol:
      fails.append("ordering pair (%d, %d) violated by %r on the fresh kernel" % (a, b, float((K[a] - K[b]).max())))
  if d["omin"] is not None and K.min() < d["omin"] - tol or d["omax"] is not None and K.max() > d["omax"] + tol:
    fails.append("output bounds violated on the fresh kernel")
  try:
    if f32:
      layer.assert_constraints(eps=max(1e-6, tol))
    else:
      layer.assert_constraints()
  except Exception as e:  # pylint: disable=broad-except
    fails.append("assert_constraints: %s" % (type(e).__name__ + " " + str(e).split("\n")[0][:120]))
  if layer.kernel.constraint is not None:
    out = layer.kernel.constraint(layer.kernel).numpy()
    if np.abs(out - K).max() > tol:
      fails.append("constraint changes initial kernel by %r" % float(np.abs(out - K).max()))
  coq = None
  if d["init"] == "raw" and not f32:   # float32: predicates only (fixed float64 tolerance in H_C10.check)
    ps = clist(["(%s, %s)" % (cnat(a), cnat(b)) for a, b in d["pairs"]]) if d["pairs"] else "(@nil (nat*nat))"
    coq = "CCategorical %s %s %s %s %s %s" % (ps, copt(d["omin"]), copt(d["omax"]), cnat(units), cqm(d["raw"]), cqm(K.tolist()))
  klass = "cat_%s_%s%s" % (d["init"], "pairs" if d["pairs"] else "nopairs", "_f32" if f32 else "")
  return Case(d, coq=coq, pred_fail="; ".join(fails) if fails else None, nontrivial=bool(np.ptp(K) > 0), klass=klass,
              info={"kernel": K.tolist()})


def eval_cases(ctx, descs):
  tf, tfl = tfimpl.tfl()
  fns = {"lattice": eval_lattice, "default": eval_default, "pwl": eval_pwl, "kfl": eval_kfl, "categorical": eval_categorical}
  return [fns[d["kind"]](tf, tfl, d) for d in descs]
