"""C17 - Ensemble structures use every feature, fill each lattice, respect monotone slots."""
import itertools
import numpy as np
from common import Case, cq, cql, clist, cnat, cnatl, copt, cbool
import tfimpl

ID = "C17"
HMODULE = "H_C17"
FUNCTIONAL = False
RULE = ("RTL: random input dicts (non-dict tensor / only 'unconstrained' / only 'increasing' / both; single "
        "(batch,D) tensors and lists of multi-unit tensors = groups), 1-8 lattices of rank 1-4, slot counts "
        "below / equal / above / multiples of the number of inputs, avoid_intragroup_interaction on/off, random "
        "seeds; _get_rtl_structure is called on the shape dict and, for a subset, the real layer is built and "
        "called on labelled tensors with recording lattice stubs (gathered indices per output key). The two "
        "shuffle permutations are recovered by replaying RandomState(seed).shuffle on index lists and passed "
        "to the Coq model, whose structure must be identical. Non-trivial = accepted config with >= 2 lattices "
        "or more slots than inputs.")
TRUSTED = ["model: Model/RTLStructure.v, Model/Ensembles.v (hand-written from rtl_layer.py, premade_lib.py)",
           "oracles: np.random.RandomState.shuffle / np.random.shuffle return a permutation; np.random.choice(a) "
           "returns an element of a; np.random.choice(a, size, replace=False) returns size distinct elements of a "
           "(checked on every captured value)"]
LIMITS = ["the order in which a Python set of ints is iterated (all-pairs cover lattices) is not modelled; "
          "those lattices are compared as sets"]


# --------------------------------------------------------------------------
# RTL
# --------------------------------------------------------------------------
def _gen_value(rng, total_hint):
  """One dict value: ('single', D) or ('multi', [d1, d2, ...])."""
  if rng.random() < 0.5:
    return ["single", rng.randint(1, 6)]
  k = rng.randint(1, 4)
  return ["multi", [rng.choice([1, 1, 2, 2, 3, 4]) for _ in range(k)]]


def _sizes(v):
  if v is None:
    return []
  return [1] * v[1] if v[0] == "single" else list(v[1])


def gen_rtl(ctx, count, full_every):
  rng = ctx.rng
  out = []
  for k in range(count):
    form = rng.choice(["tensor", "unc", "inc", "both", "both", "both"])
    inc = unc = None
    if form in ("tensor", "unc", "both"):
      unc = _gen_value(rng, 0)
    if form in ("inc", "both"):
      inc = _gen_value(rng, 0)
    if form == "tensor":
      unc = ["single", rng.randint(1, 8)]
    n = sum(_sizes(inc)) + sum(_sizes(unc))
    rank = rng.choice([1, 2, 2, 3, 3, 4])
    slot_class = rng.choice(["small", "exact", "plus", "multiple", "many", "many"])
    if slot_class == "small":
      num = max(0, (n - 1) // rank - rng.randint(0, 1))
    elif slot_class == "exact":
      num = -(-n // rank)
    elif slot_class == "plus":
      num = -(-n // rank) + rng.randint(1, 2)
    elif slot_class == "multiple":
      num = -(-(n * rng.randint(2, 3)) // rank)
    else:
      num = rng.randint(1, 8)
    num = min(num, 10)
    avoid = rng.random() < 0.8
    full = (k % full_every == 0)
    if full and num == 0:
      num = 1
    out.append(dict(kind="rtl", form=form, inc=inc, unc=unc, num=num, rank=rank, avoid=avoid,
                    seed=rng.randint(0, 10 ** 6), full=full,
                    separate=rng.random() < 0.6))
  return out


def _shape_value(v, real, tf, base, dtype):
  """Returns (shape-or-tensor value, next base). Tensors carry their flattened
  index as value (batch of 1)."""
  if v[0] == "single":
    d = v[1]
    if real:
      return tf.constant([[float(base + i) for i in range(d)]], dtype=dtype), base + d
    return (None, d), base + d
  vals = []
  for d in v[1]:
    if real:
      vals.append(tf.constant([[float(base + i) for i in range(d)]], dtype=dtype))
    else:
      vals.append((None, d))
    base += d
  return vals, base


def _coq_shapes(v):
  if v is None:
    return "None"
  if v[0] == "single":
    return "(Some (Single %s))" % cnat(v[1])
  return "(Some (Multi %s))" % cnatl(v[1])


def _structure_plain(s):
  return [[[int(m) for m in monos], [[int(i) for i in lat] for lat in lats]] for monos, lats in s]


def _coq_mat(m):
  if not m:
    return "(@nil (list nat))"
  return clist([cnatl(r) for r in m])


def _coq_structure(s):
  if not s:
    return "(@nil (list nat * list (list nat)))"
  return clist(["(%s, %s)" % (cnatl(k), _coq_mat(v)) for k, v in s])


def rtl_predicate(d, s, n, n_inc):
  """The property's RTL clauses on the implementation's structure."""
  num, rank = d["num"], d["rank"]
  lats = [lat for _, ls in s for lat in ls]
  if len(lats) != num:
    return "RTL has %d lattices, expected num_lattices=%d" % (len(lats), num)
  for monos, ls in s:
    if len(monos) != rank:
      return "monotonicity tuple %r has not lattice_rank=%d entries" % (monos, rank)
    for lat in ls:
      if len(lat) != rank:
        return "lattice %r has not exactly lattice_rank=%d inputs" % (lat, rank)
      for p, i in enumerate(lat):
        if not 0 <= i < n:
          return "lattice %r uses index %d outside the %d inputs" % (lat, i, n)
        if (i < n_inc) != (monos[p] == 1):
          return ("input %d (%s) wired to position %d of lattice %r whose monotonicity flag is %d" %
                  (i, "increasing" if i < n_inc else "unconstrained", p, lat, monos[p]))
  use = [0] * n
  for lat in lats:
    for i in lat:
      use[i] += 1
  if min(use) == 0:
    return "input %d is not used by any lattice (usage %r)" % (use.index(0), use)
  if max(use) - min(use) > 1:
    return "usage counts differ by more than one: %r" % (use,)
  return None


class _Stub(object):
  """Stands in for a Lattice layer: encodes the gathered inputs (which carry
  their flattened index as value) as sum_p x_p * base**p per unit."""

  def __init__(self, tf, rank, base):
    self.tf, self.rank, self.base = tf, rank, base

  def __call__(self, z):
    tf = self.tf
    w = tf.constant([float(self.base) ** p for p in range(self.rank)], dtype=z.dtype)
    if len(z.shape) == 3:
      return tf.reduce_sum(z * w, axis=-1)
    return tf.reduce_sum(z * w, axis=-1, keepdims=True)


def _decode(vals, rank, base):
  out = []
  for v in vals:
    v = float(v)
    assert v == int(v) and v >= 0, v
    v = int(v)
    lat = []
    for _ in range(rank):
      lat.append(v % base)
      v //= base
    assert v == 0
    out.append(lat)
  return out


def eval_rtl(ctx, d):
  tf, tfl = tfimpl.tfl()
  from tensorflow_lattice.python import rtl_layer  # pylint: disable=g-import-not-at-top
  num, rank = d["num"], d["rank"]
  n_inc, n_unc = sum(_sizes(d["inc"])), sum(_sizes(d["unc"]))
  n = n_inc + n_unc
  total = num * rank
  base = max(n, 2)

  def make_input(real):
    if d["form"] == "tensor":
      v, _ = _shape_value(d["unc"], real, tf, 0, tf.float64)
      return v
    x = {}
    # model's flattened order: increasing first, then unconstrained
    b = 0
    if d["inc"] is not None:
      x["increasing"], b = _shape_value(d["inc"], real, tf, b, tf.float64)
    if d["unc"] is not None:
      x["unconstrained"], b = _shape_value(d["unc"], real, tf, b, tf.float64)
    if d["seed"] % 2 == 1 and len(x) == 2:   # dict insertion order must not matter
      x = {"unconstrained": x["unconstrained"], "increasing": x["increasing"]}
    return x

  def make_layer():
    return tfl.layers.RTL(num_lattices=num, lattice_rank=rank, random_seed=d["seed"],
                          avoid_intragroup_interaction=d["avoid"], separate_outputs=d["separate"],
                          dtype="float64")

  impl = None
  impl_call = None
  err = None
  fail = None
  layer = make_layer()
  try:
    if d["full"]:
      x = make_input(True)
      layer(x)   # real build through Keras (input shapes derived by Keras) and real call
      impl = _structure_plain(layer._rtl_structure)
      for key in list(layer._lattice_layers):
        layer._lattice_layers[key] = _Stub(tf, rank, base)
      y = layer(x)
      groups = [[], []]
      if d["separate"]:
        if not isinstance(y, dict) or not set(y) <= {"unconstrained", "increasing"}:
          fail = "separate_outputs=True did not return a dict over the two keys: %r" % (y,)
        else:
          groups = [_decode(y[k].numpy()[0], rank, base) if k in y else []
                    for k in ("unconstrained", "increasing")]
      else:
        flat = _decode(y.numpy()[0], rank, base)
        # joint output = unconstrained outputs followed by increasing outputs
        n_u = sum(len(ls) for monos, ls in impl if max(monos) == 0)
        groups = [flat[:n_u], flat[n_u:]]
      impl_call = groups
    else:
      impl = _structure_plain(layer._get_rtl_structure(make_input(False)))
  except (ValueError, ZeroDivisionError) as e:
    err = "%s: %s" % (type(e).__name__, str(e)[:120])
    impl = None

  # oracle values: replay the identically seeded RandomState on index lists
  p1 = p2 = []
  if impl is not None:
    rs = np.random.RandomState(d["seed"])
    p1 = list(range(n)); rs.shuffle(p1)
    p2 = list(range(total)); rs.shuffle(p2)
    assert sorted(p1) == list(range(n)) and sorted(p2) == list(range(total))
    fail = fail or rtl_predicate(d, impl, n, n_inc)
    if fail is None and impl_call is not None:
      # output labelled increasing iff the lattice has an increasing input
      for lat in impl_call[0]:
        if any(i < n_inc for i in lat):
          fail = "lattice gathering %r has an increasing input but feeds the 'unconstrained' output" % (lat,)
      for lat in impl_call[1]:
        if not any(i < n_inc for i in lat):
          fail = "lattice gathering %r has no increasing input but feeds the 'increasing' output" % (lat,)
      if sorted(map(tuple, impl_call[0] + impl_call[1])) != sorted(
          tuple(lat) for _, ls in impl for lat in ls):
        fail = fail or "call() does not gather exactly the lattices of _rtl_structure: %r vs %r" % (
            impl_call, impl)
    if fail is None:
      # deterministic function of the seed
      again = _structure_plain(make_layer()._get_rtl_structure(make_input(False)))
      if again != impl:
        fail = "same config and seed gave two different structures: %r vs %r" % (impl, again)
  elif total >= n and n > 0:
    fail = "valid RTL config (%d slots for %d inputs) rejected: %s" % (total, n, err)

  cfg = "(mkcfg %s %s %s %s (mkin %s %s))" % (
      cnat(num), cnat(rank), cbool(d["avoid"]), cnat(rtl_layer._MAX_RTL_SWAPS),
      _coq_shapes(d["inc"]), _coq_shapes(d["unc"]))
  impl_c = "None" if impl is None else "(Some %s)" % _coq_structure(impl)
  call_c = "None" if impl_call is None else "(Some (%s, %s))" % (_coq_mat(impl_call[0]), _coq_mat(impl_call[1]))
  coq = "CRtl %s %s %s %s %s" % (cfg, cnatl(p1), cnatl(p2), impl_c, call_c)
  if impl is None:
    slots = "rejected"
  elif total == n:
    slots = "exact"
  elif total % n == 0:
    slots = "multiple"
  else:
    slots = "uneven"
  groups = "grouped" if any(s > 1 for s in _sizes(d["inc"]) + _sizes(d["unc"])) else "singletons"
  klass = "rtl_%s_%s_%s_%s%s" % (d["form"], groups, slots, "full" if d["full"] else "direct",
                                 "" if d["avoid"] else "_noavoid")
  return Case(d, coq=coq, pred_fail=fail, nontrivial=(impl is not None and (num >= 2 or total > n)),
              klass=klass, info={"impl_structure": impl, "impl_call": impl_call, "error": err,
                                 "perm1": p1, "perm2": p2})


# --------------------------------------------------------------------------
def gen_descs(ctx):
  out = []
  out += gen_rtl(ctx, ctx.n(260, 4000), full_every=ctx.n(6, 8))
  return out


def eval_cases(ctx, descs):
  cases = []
  for d in descs:
    kind = d.get("kind")
    if kind == "rtl":
      cases.append(eval_rtl(ctx, d))
    else:
      raise ValueError("unknown case kind %r" % (kind,))
  return cases
