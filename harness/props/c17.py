import json
import sys
import os
"""C17 - Ensemble structures use every feature, fill each lattice, respect monotone slots."""
import itertools
import numpy as np
from common import Case, cq, cql, clist, cnat, cnatl, copt, cbool
import tfimpl

ID = "C17"
HMODULE = "H_C17"
FUNCTIONAL = False
RULE = ("RTL: random input dicts (non-dict tensor / only 'unconstrained' / only 'increasing' / both; single "
        "(batch,D) tensors and lists of multi-unit tensors = groups), lattices of rank 1-4, slot counts "
        "below / equal / above / multiples of the number of inputs, avoid_intragroup_interaction on/off, random "
        "seeds; _get_rtl_structure is called on the shape dict and, for every 6th case, the real layer is built and "
        "called on labelled tensors with recording lattice stubs (gathered indices per output key, both "
        "separate_outputs modes, both dict insertion orders). On EVERY accepted case the real layer is built "
        "(RTL.build on the shapes; through Keras and called for the 'full' cases; parameterization all_vertices "
        "or, for seed % 3 == 0, kronecker_factored; lattice_size 2 or 3) and the real Lattice / "
        "KroneckerFactoredLattice sub-layers stored under str(monotonicities) are read: monotonicities equal to "
        "the structure's flags (no 'increasing' input on an unconstrained dimension), units = number of lattices "
        "of the group, lattice_sizes / kernel shape of lattice_rank dimensions. "
        "The two shuffle permutations are recovered by "
        "replaying RandomState(seed).shuffle on index lists and passed to the Coq model, whose structure must be "
        "identical. Random ensemble: set_random_lattice_ensemble on CalibratedLatticeEnsembleConfig (1-9 features, "
        "feature names given or taken from feature_configs, valid / tight / too few slots / rank > n), every "
        "np.random.choice value recorded and handed to the model. All-pairs cover: "
        "construct_prefitting_model_config (2-9 features, rank 2-5 and rejected rank >= n), shuffle replayed. "
        "Crystals: _get_final_crystal_lattices / set_crystals_lattice_ensemble with _get_torsions_and_laplacians "
        "replaced by generated dyadic symmetric score matrices (dense, sparse, block, skewed so that the "
        "num_lattices-1 cap binds, zero-importance feature = D13), 3-6 features, tight / spare / too few slots. "
        "Implementation-side predicate on every case: exact rank, lattice count, coverage, RTL balance and "
        "wiring and output routing, no repeats (random, and Crystals for valid configs), all pairs covered, same "
        "seed twice => same result; cross-interpreter probe (PYTHONHASHSEED 1 vs 4242) over random, dense and "
        "grouped RTL, the all-pairs cover (feature order inside a lattice included) and Crystals. "
        "Non-trivial = accepted config with >= 2 lattices (RTL: or more slots than inputs).")
TRUSTED = ["model: Model/RTLStructure.v, Model/Ensembles.v (hand-written from rtl_layer.py, premade_lib.py)",
           "oracles: np.random.RandomState.shuffle / np.random.shuffle return a permutation; np.random.choice(a) "
           "returns an element of a; np.random.choice(a, size, replace=False) returns size distinct elements of a "
           "(checked on every captured value)"]
LIMITS = ["the order in which a Python set of ints is iterated (all-pairs cover lattices) is not modelled; "
          "those lattices are compared as sets",
          "guard 'enough slots' (num_lattices*lattice_rank >= number of features): with fewer slots "
          "_get_final_crystal_lattices silently returns an ensemble that drops features (e.g. n=3, 1 lattice of "
          "rank 2 -> [[0, 1]]) instead of raising; outside the property's quantifier, model and implementation "
          "are still compared there",
          "Crystals: np.argsort(-importance) is not a stable sort (NumPy 2: ties come out in an unspecified order) "
          "while the model's argsort_desc breaks ties by index, so ties in importance scores are EXCLUDED: every "
          "generated score vector that reaches the use allocation is pairwise distinct (tied vectors are re-drawn; "
          "the only tied vectors kept are those of the zero-importance class D13, where the call raises whatever "
          "the order); scores are dyadic so that float64 evaluation of every compared score is exact; "
          "_get_torsions_and_laplacians (prefitting weights -> scores) is replaced by given scores",
          "known finding D13: _get_final_crystal_lattices raises ValueError (int(round(nan))) when a feature has "
          "importance 0; C17_crystals_rank_and_coverage / _every_feature_used assume the use allocation succeeded "
          "(crystal_uses = Some uses); C17_crystals_allocation_total / _positive_total drop that assumption for "
          "strictly positive importance scores (which excludes D13)"]


# --------------------------------------------------------------------------
# RTL
# --------------------------------------------------------------------------
def _gen_value(rng, total_hint):
  """One dict value: ('single', D) or ('multi', [d1, d2, ...])."""
  if rng.random() < 0.5:
    return ["single", rng.randint(1, 6)]
  k = rng.randint(1, 4)
  return ["multi", [rng.choice([1, 1, 2, 2, 3, 4]) for _ in range(k)]]


def _sizes(v):
  if v is None:
    return []
  return [1] * v[1] if v[0] == "single" else list(v[1])


def gen_rtl(ctx, count, full_every):
  rng = ctx.rng
  out = []
  for k in range(count):
    form = rng.choice(["tensor", "list", "unc", "inc", "both", "both", "both", "both"])
    inc = unc = None
    if form in ("tensor", "list", "unc", "both"):
      unc = _gen_value(rng, 0)
    if form in ("inc", "both"):
      inc = _gen_value(rng, 0)
    if form == "tensor":
      unc = ["single", rng.randint(1, 8)]
    if form == "list":      # a bare list of tensors (no dict): unconstrained groups
      unc = ["multi", [rng.choice([1, 2, 3]) for _ in range(rng.randint(1, 4))]]
    full = (k % full_every == 0)
    if not full and rng.random() < 0.08:
      # an empty group (batch, 0): takes a group id, contributes no input
      v = unc if unc is not None else inc
      if v[0] == "multi" and sum(v[1]) > 0:
        v[1].insert(rng.randrange(len(v[1]) + 1), 0)
    n = sum(_sizes(inc)) + sum(_sizes(unc))
    rank = rng.choice([1, 2, 2, 3, 3, 4])
    slot_class = rng.choice(["small", "exact", "exact", "plus", "plus", "multiple", "multiple", "many", "many", "many"])
    if slot_class == "small":
      num = max(0, (n - 1) // rank - rng.randint(0, 1))
    elif slot_class == "exact":
      num = -(-n // rank)
    elif slot_class == "plus":
      num = -(-n // rank) + rng.randint(1, 2)
    elif slot_class == "multiple":
      num = -(-(n * rng.randint(2, 3)) // rank)
    else:
      num = -(-n // rank) + rng.randint(0, 6)
    num = min(num, 10)
    avoid = rng.random() < 0.8
    if full and num == 0:
      num = 1
    out.append(dict(kind="rtl", form=form, inc=inc, unc=unc, num=num, rank=rank, avoid=avoid,
                    seed=rng.randint(0, 10 ** 6), full=full,
                    separate=rng.random() < 0.6))
  return out


def _shape_value(v, real, tf, base, dtype):
  """Returns (shape-or-tensor value, next base). Tensors carry their flattened
  index as value (batch of 1)."""
  if v[0] == "single":
    d = v[1]
    if real:
      return tf.constant([[float(base + i) for i in range(d)]], dtype=dtype), base + d
    return (None, d), base + d
  vals = []
  for d in v[1]:
    if real:
      vals.append(tf.constant([[float(base + i) for i in range(d)]], dtype=dtype))
    else:
      vals.append((None, d))
    base += d
  return vals, base


def _coq_shapes(v):
  if v is None:
    return "None"
  if v[0] == "single":
    return "(Some (Single %s))" % cnat(v[1])
  return "(Some (Multi %s))" % cnatl(v[1])


def _structure_plain(s):
  return [[[int(m) for m in monos], [[int(i) for i in lat] for lat in lats]] for monos, lats in s]


def _coq_mat(m):
  if not m:
    return "(@nil (list nat))"
  return clist([cnatl(r) for r in m])


def _coq_structure(s):
  if not s:
    return "(@nil (list nat * list (list nat)))"
  return clist(["(%s, %s)" % (cnatl(k), _coq_mat(v)) for k, v in s])


def rtl_predicate(d, s, n, n_inc):
  """The property's RTL clauses on the implementation's structure."""
  num, rank = d["num"], d["rank"]
  lats = [lat for _, ls in s for lat in ls]
  if len(lats) != num:
    return "RTL has %d lattices, expected num_lattices=%d" % (len(lats), num)
  for monos, ls in s:
    if len(monos) != rank:
      return "monotonicity tuple %r has not lattice_rank=%d entries" % (monos, rank)
    for lat in ls:
      if len(lat) != rank:
        return "lattice %r has not exactly lattice_rank=%d inputs" % (lat, rank)
      for p, i in enumerate(lat):
        if not 0 <= i < n:
          return "lattice %r uses index %d outside the %d inputs" % (lat, i, n)
        if (i < n_inc) != (monos[p] == 1):
          return ("input %d (%s) wired to position %d of lattice %r whose monotonicity flag is %d" %
                  (i, "increasing" if i < n_inc else "unconstrained", p, lat, monos[p]))
  use = [0] * n
  for lat in lats:
    for i in lat:
      use[i] += 1
  if min(use) == 0:
    return "input %d is not used by any lattice (usage %r)" % (use.index(0), use)
  if max(use) - min(use) > 1:
    return "usage counts differ by more than one: %r" % (use,)
  return None


_MONO_CANON = {"increasing": 1, 1: 1, "none": 0, 0: 0, None: 0}


def _canon_monotonicities(m, rank):
  """'increasing'/1 -> 1, 'none'/0/None -> 0; anything else is kept (and then differs from every flag)."""
  if m is None:
    return [0] * rank
  out = []
  for v in m:
    if isinstance(v, (int, np.integer)) and not isinstance(v, bool):
      v = int(v)
    out.append(_MONO_CANON.get(v, v) if isinstance(v, (int, str)) or v is None else repr(v))
  return out


def _rtl_param(d):
  """Parameterization and lattice size of the REAL layer (derived from the desc; do not influence the structure)."""
  param = d.get("param") or ("kronecker_factored" if d["seed"] % 3 == 0 else "all_vertices")
  size = d.get("lattice_size") or (2 + (d["seed"] // 7) % 2)
  return param, size


def rtl_sublayer_predicate(layer, d, n_inc):
  """'increasing' inputs are wired only to lattice DIMENSIONS CONSTRAINED to be monotone: read on the real
  Lattice / KroneckerFactoredLattice sub-layers that RTL.build stored under str(monotonicities) (the objects
  RTL.call applies to the gathered inputs), not on the _rtl_structure tuple."""
  from tensorflow_lattice.python import lattice_layer, kronecker_factored_lattice_layer as kfll  # pylint: disable=g-import-not-at-top
  param, size = _rtl_param(d)
  rank = d["rank"]
  s = layer._rtl_structure
  ll = layer._lattice_layers
  if len(ll) != len(s):
    return "RTL.build stored %d sub-lattice layers for %d monotonicity groups (keys %r)" % (
        len(ll), len(s), sorted(ll))
  for monos, lats in s:
    key = str(monos)          # the lookup RTL.call performs
    flags = [int(m) for m in monos]
    lats = [[int(i) for i in lat] for lat in lats]
    if key not in ll:
      return "no sub-lattice layer stored under %r (keys %r)" % (key, sorted(ll))
    sub = ll[key]
    want = lattice_layer.Lattice if param == "all_vertices" else kfll.KroneckerFactoredLattice
    if type(sub) is not want:   # pylint: disable=unidiomatic-typecheck
      return "sub-layer for %r is a %s, parameterization=%r asks for %s" % (
          key, type(sub).__name__, param, want.__name__)
    got = _canon_monotonicities(sub.monotonicities, rank)
    for lat in lats:
      for p, i in enumerate(lat):
        if i < n_inc and (p >= len(got) or got[p] != 1):
          return ("increasing input %d is wired to dimension %d of the real sub-lattice %r, whose monotonicities "
                  "%r do not constrain that dimension" % (i, p, key, sub.monotonicities))
    if got != flags:
      return "sub-lattice layer %r has monotonicities %r, the structure's flags are %r" % (
          key, sub.monotonicities, flags)
    if sub.units != len(lats):
      return "sub-lattice layer %r has units=%r for %d lattices" % (key, sub.units, len(lats))
    if param == "all_vertices":
      if [int(v) for v in sub.lattice_sizes] != [size] * rank:
        return "sub-lattice layer %r has lattice_sizes %r, expected lattice_rank=%d dimensions of size %d" % (
            key, list(sub.lattice_sizes), rank, size)
      kshape = (size ** rank, len(lats))
    else:
      if sub.lattice_sizes != size or sub.num_terms != layer.num_terms:
        return "KFL sub-layer %r has lattice_sizes %r / num_terms %r" % (key, sub.lattice_sizes, sub.num_terms)
      kshape = (1, size, len(lats) * rank, layer.num_terms)
    if sub.built and tuple(int(v) for v in sub.kernel.shape) != kshape:
      return "built sub-lattice layer %r has kernel shape %r, expected %r (units=%d, lattice_rank=%d)" % (
          key, tuple(sub.kernel.shape), kshape, len(lats), rank)
  return None


class _Stub(object):
  """Stands in for a Lattice layer: encodes the gathered inputs (which carry
  their flattened index as value) as sum_p x_p * base**p per unit."""

  def __init__(self, tf, rank, base):
    self.tf, self.rank, self.base = tf, rank, base

  def __call__(self, z):
    tf = self.tf
    w = tf.constant([float(self.base) ** p for p in range(self.rank)], dtype=z.dtype)
    if len(z.shape) == 3:
      return tf.reduce_sum(z * w, axis=-1)
    return tf.reduce_sum(z * w, axis=-1, keepdims=True)


def _decode(vals, rank, base):
  out = []
  for v in vals:
    v = float(v)
    assert v == int(v) and v >= 0, v
    v = int(v)
    lat = []
    for _ in range(rank):
      lat.append(v % base)
      v //= base
    assert v == 0
    out.append(lat)
  return out


def eval_rtl(ctx, d):
  tf, tfl = tfimpl.tfl()
  from tensorflow_lattice.python import rtl_layer  # pylint: disable=g-import-not-at-top
  num, rank = d["num"], d["rank"]
  n_inc, n_unc = sum(_sizes(d["inc"])), sum(_sizes(d["unc"]))
  n = n_inc + n_unc
  total = num * rank
  base = max(n, 2)

  def make_input(real):
    if d["form"] in ("tensor", "list"):
      v, _ = _shape_value(d["unc"], real, tf, 0, tf.float64)
      return v
    x = {}
    # model's flattened order: increasing first, then unconstrained
    b = 0
    if d["inc"] is not None:
      x["increasing"], b = _shape_value(d["inc"], real, tf, b, tf.float64)
    if d["unc"] is not None:
      x["unconstrained"], b = _shape_value(d["unc"], real, tf, b, tf.float64)
    if d["seed"] % 2 == 1 and len(x) == 2:   # dict insertion order must not matter
      x = {"unconstrained": x["unconstrained"], "increasing": x["increasing"]}
    return x

  param, lsize = _rtl_param(d)

  def make_layer():
    return tfl.layers.RTL(num_lattices=num, lattice_rank=rank, random_seed=d["seed"], lattice_size=lsize,
                          avoid_intragroup_interaction=d["avoid"], separate_outputs=d["separate"],
                          parameterization=param,
                          kernel_initializer=("kfl_random_monotonic_initializer" if param == "kronecker_factored"
                                              else "random_monotonic_initializer"),
                          dtype="float64")

  impl = None
  impl_call = None
  err = None
  fail = None
  layer = make_layer()
  try:
    impl = _structure_plain(layer._get_rtl_structure(make_input(False)))
  except (ValueError, ZeroDivisionError) as e:
    err = "%s: %s" % (type(e).__name__, str(e)[:120])
    impl = None
  if d["full"] and impl is not None:
    layer = make_layer()
    try:
      x = make_input(True)
      layer(x)   # real build through Keras (input shapes derived by Keras) and real call
      built = _structure_plain(layer._rtl_structure)
      if built != impl:
        fail = "layer built on tensors has structure %r, _get_rtl_structure on the same shapes gave %r" % (
            built, impl)
        impl = built
      # the REAL (built and called) sub-lattice layers, before they are replaced by recording stubs
      fail = fail or rtl_sublayer_predicate(layer, d, n_inc)
      for key in list(layer._lattice_layers):
        layer._lattice_layers[key] = _Stub(tf, rank, base)
      y = layer(x)
      groups = [[], []]
      if d["separate"]:
        if not isinstance(y, dict) or not set(y) <= {"unconstrained", "increasing"}:
          fail = "separate_outputs=True did not return a dict over the two keys: %r" % (y,)
        else:
          groups = [_decode(y[k].numpy()[0], rank, base) if k in y else []
                    for k in ("unconstrained", "increasing")]
      else:
        flat = _decode(y.numpy()[0], rank, base)
        # joint output = unconstrained outputs followed by increasing outputs
        n_u = sum(len(ls) for monos, ls in impl if max(monos) == 0)
        groups = [flat[:n_u], flat[n_u:]]
      impl_call = groups
    except Exception as e:  # pylint: disable=broad-except
      fail = fail or "building / calling the RTL layer on an accepted config raised %s: %s" % (
          type(e).__name__, str(e)[:200])

  if not d["full"] and impl is not None:
    # cheap real build (RTL.build on the shapes: creates the real sub-lattice layers, no call)
    layer = make_layer()
    try:
      layer.build(make_input(False))
      built = _structure_plain(layer._rtl_structure)
      if built != impl:
        fail = "RTL.build on the shapes has structure %r, _get_rtl_structure gave %r" % (built, impl)
      fail = fail or rtl_sublayer_predicate(layer, d, n_inc)
    except Exception as e:  # pylint: disable=broad-except
      fail = "RTL.build on an accepted config raised %s: %s" % (type(e).__name__, str(e)[:200])

  # oracle values: replay the identically seeded RandomState on index lists
  p1 = p2 = []
  if impl is not None:
    rs = np.random.RandomState(d["seed"])
    p1 = list(range(n)); rs.shuffle(p1)
    p2 = list(range(total)); rs.shuffle(p2)
    assert sorted(p1) == list(range(n)) and sorted(p2) == list(range(total))
    fail = fail or rtl_predicate(d, impl, n, n_inc)
    if fail is None and impl_call is not None:
      # output labelled increasing iff the lattice has an increasing input
      for lat in impl_call[0]:
        if any(i < n_inc for i in lat):
          fail = "lattice gathering %r has an increasing input but feeds the 'unconstrained' output" % (lat,)
      for lat in impl_call[1]:
        if not any(i < n_inc for i in lat):
          fail = "lattice gathering %r has no increasing input but feeds the 'increasing' output" % (lat,)
      if sorted(map(tuple, impl_call[0] + impl_call[1])) != sorted(
          tuple(lat) for _, ls in impl for lat in ls):
        fail = fail or "call() does not gather exactly the lattices of _rtl_structure: %r vs %r" % (
            impl_call, impl)
    if fail is None:
      # deterministic function of the seed
      again = _structure_plain(make_layer()._get_rtl_structure(make_input(False)))
      if again != impl:
        fail = "same config and seed gave two different structures: %r vs %r" % (impl, again)
  elif total >= n and n > 0:
    fail = "valid RTL config (%d slots for %d inputs) rejected: %s" % (total, n, err)

  cfg = "(mkcfg %s %s %s %s (mkin %s %s))" % (
      cnat(num), cnat(rank), cbool(d["avoid"]), cnat(rtl_layer._MAX_RTL_SWAPS),
      _coq_shapes(d["inc"]), _coq_shapes(d["unc"]))
  impl_c = "None" if impl is None else "(Some %s)" % _coq_structure(impl)
  call_c = "None" if impl_call is None else "(Some (%s, %s))" % (_coq_mat(impl_call[0]), _coq_mat(impl_call[1]))
  coq = "CRtl %s %s %s %s %s" % (cfg, cnatl(p1), cnatl(p2), impl_c, call_c)
  if impl is None:
    slots = "rejected"
  elif total == n:
    slots = "exact"
  elif total % n == 0:
    slots = "multiple"
  else:
    slots = "uneven"
  groups = "grouped" if any(s > 1 for s in _sizes(d["inc"]) + _sizes(d["unc"])) else "singletons"
  swapped = ""
  if impl is not None and d["avoid"]:
    try:
      plain = tfl.layers.RTL(num_lattices=num, lattice_rank=rank, random_seed=d["seed"],
                             avoid_intragroup_interaction=False)._get_rtl_structure(make_input(False))
      swapped = "_swapped" if _structure_plain(plain) != impl else ""
    except Exception:  # pylint: disable=broad-except
      pass
  klass = "rtl_%s_%s_%s_%s%s%s%s" % (d["form"], groups, slots, "full" if d["full"] else "direct",
                                     "" if d["avoid"] else "_noavoid", swapped,
                                     "_kfl" if (impl is not None and param == "kronecker_factored") else "")
  return Case(d, coq=coq, pred_fail=fail, nontrivial=(impl is not None and (num >= 2 or total > n)),
              klass=klass, info={"impl_structure": impl, "impl_call": impl_call, "error": err,
                                 "perm1": p1, "perm2": p2})


# --------------------------------------------------------------------------
# premade_lib ensembles
# --------------------------------------------------------------------------
def _names(n, style):
  if style == "plain":
    return ["f%d" % i for i in range(n)]
  # names whose sort order / prefixes differ from their position
  pool = ["z", "a b", "f10", "f1", "F", "_x", "9", "feature", "y/z", "f", "aa", "a"]
  return pool[:n]


def _ensemble_config(tfl, d, lattices):
  names = _names(d["n"], d["names"])
  fcs = [tfl.configs.FeatureConfig(name=x) for x in names]
  cfg = tfl.configs.CalibratedLatticeEnsembleConfig(
      feature_configs=fcs, lattices=lattices, num_lattices=d["num"], lattice_rank=d["rank"],
      random_seed=d["seed"])
  return cfg, names


def gen_random(ctx, count):
  rng = ctx.rng
  out = []
  for _ in range(count):
    n = rng.randint(1, 9)
    klass = rng.choice(["valid", "valid", "valid", "valid", "valid", "tight", "tight", "few_slots", "rank_gt_n"])
    if klass == "rank_gt_n":
      rank = n + rng.randint(1, 2)
      num = rng.randint(1, 4)
    else:
      rank = rng.randint(1, min(n, 5))
      need = -(-n // rank)
      if klass == "tight":
        num = need
      elif klass == "few_slots":
        num = max(0, need - 1)
      else:
        num = need + rng.randint(0, 5)
    out.append(dict(kind="random", n=n, num=num, rank=rank, seed=rng.randint(0, 10 ** 6),
                    names=rng.choice(["plain", "odd"]), pass_names=rng.random() < 0.5))
  return out


def eval_random(ctx, d):
  tf, tfl = tfimpl.tfl()
  from tensorflow_lattice.python import premade_lib  # pylint: disable=g-import-not-at-top
  n, num, rank = d["n"], d["num"], d["rank"]

  def run(record):
    cfg, names = _ensemble_config(tfl, d, "random")
    orig = np.random.choice

    def wrap(a, size=None, replace=True, p=None):
      r = orig(a, size=size, replace=replace, p=p)
      record.append((list(a), size, replace, r))
      return r
    np.random.choice = wrap
    try:
      premade_lib.set_random_lattice_ensemble(cfg, names if d["pass_names"] else None)
    finally:
      np.random.choice = orig
    return cfg, names

  rec = []
  impl, err, fail = None, None, None
  try:
    cfg, names = run(rec)
    idx = {x: i for i, x in enumerate(names)}
    impl = [[idx[str(x)] for x in lat] for lat in cfg.lattices]
  except ValueError as e:
    err = "ValueError: %s" % str(e)[:100]
    names = _names(n, d["names"])
    idx = {x: i for i, x in enumerate(names)}
  # oracle values + their hypotheses
  t1, t2 = [], []
  for a, size, replace, r in rec:
    if size is None:
      assert int(r) in [int(v) for v in a], (a, r)
      t1.append(int(r))
    else:
      vals = [idx[str(v)] for v in r]
      if replace:
        fail = "np.random.choice called with replace=True for the fill-up of a lattice"
      else:
        assert len(vals) == size and len(set(vals)) == len(vals) and set(vals) <= set(idx[str(v)] for v in a)
      t2.append(vals)
  valid = (n <= num * rank and rank <= n)
  if impl is None:
    if valid:
      fail = "valid random-ensemble config (n=%d, %d lattices of rank %d) raised %s" % (n, num, rank, err)
  else:
    if len(impl) != num:
      fail = "%d lattices instead of num_lattices=%d" % (len(impl), num)
    for lat in impl:
      if len(lat) != rank:
        fail = fail or "lattice %r has not exactly lattice_rank=%d features" % (lat, rank)
      if len(set(lat)) != len(lat):
        fail = fail or "lattice %r repeats a feature" % (lat,)
    for f in range(n):
      if not any(f in lat for lat in impl):
        fail = fail or "feature %d is in no lattice: %r" % (f, impl)
    if fail is None:
      cfg2, _ = run([])
      if [[idx[str(x)] for x in lat] for lat in cfg2.lattices] != impl:
        fail = "same seed gave two different random ensembles"
  coq = "CRandom %s %s %s %s %s %s" % (
      cnat(n), cnat(num), cnat(rank), cnatl(t1), _coq_mat(t2),
      "None" if impl is None else "(Some %s)" % _coq_mat(impl))
  klass = "random_%s" % ("rejected" if impl is None else ("tight" if n == num * rank else
                                                          "full_rank" if rank == n else "valid"))
  return Case(d, coq=coq, pred_fail=fail, nontrivial=impl is not None and num >= 2, klass=klass,
              info={"impl_lattices": impl, "error": err, "choices1": t1, "choices2": t2})


def gen_cover(ctx, count):
  rng = ctx.rng
  out = []
  for _ in range(count):
    n = rng.randint(2, 9)
    if rng.random() < 0.06:
      rank = n + rng.randint(0, 1)     # rejected: rank must be below the number of features
    else:
      rank = rng.randint(2, max(2, min(n - 1, 5)))
    out.append(dict(kind="cover", n=n, num=rng.randint(1, 4), rank=rank, seed=rng.randint(0, 10 ** 6),
                    names=rng.choice(["plain", "odd"]), pass_names=rng.random() < 0.5))
  return out


def eval_cover(ctx, d):
  tf, tfl = tfimpl.tfl()
  from tensorflow_lattice.python import premade_lib  # pylint: disable=g-import-not-at-top
  n, rank = d["n"], d["rank"]

  def run():
    cfg, names = _ensemble_config(tfl, d, "crystals")
    pre = premade_lib.construct_prefitting_model_config(cfg, names if d["pass_names"] else None)
    idx = {x: i for i, x in enumerate(names)}
    return [sorted(idx[x] for x in lat) for lat in pre.lattices], [len(lat) for lat in pre.lattices]

  impl, err, fail = None, None, None
  try:
    impl, raw_len = run()
  except ValueError as e:
    err = "ValueError: %s" % str(e)[:100]
  npairs = n * (n - 1) // 2
  perm = []
  if impl is None:
    if n > rank:
      fail = "valid crystals config (n=%d > rank=%d) rejected: %s" % (n, rank, err)
  else:
    np.random.seed(d["seed"])
    perm = list(range(npairs))
    np.random.shuffle(perm)
    assert sorted(perm) == list(range(npairs))
    for i, j in itertools.combinations(range(n), 2):
      if not any(i in lat and j in lat for lat in impl):
        fail = fail or "feature pair (%d, %d) is together in no prefitting lattice: %r" % (i, j, impl)
    for lat, ln in zip(impl, raw_len):
      if ln != len(set(lat)) or ln > rank:
        fail = fail or "prefitting lattice %r has repeats or more than lattice_rank=%d features" % (lat, rank)
    if fail is None and run()[0] != impl:
      fail = "same seed gave two different all-pairs covers"
  coq = "CCover %s %s %s %s" % (cnat(n), cnat(rank), cnatl(perm),
                                "None" if impl is None else "(Some %s)" % _coq_mat(impl))
  klass = "cover_%s" % ("rejected" if impl is None else "rank%d" % min(rank, 4))
  return Case(d, coq=coq, pred_fail=fail, nontrivial=impl is not None and n >= 3, klass=klass,
              info={"impl_lattices": impl, "error": err, "perm": perm})


def _importance(n, T, L):
  from fractions import Fraction as F
  imp = [F(L[f]) * 6 for f in range(n)]
  for a, b in itertools.combinations(range(n), 2):
    imp[a] += F(T[a][b])
    imp[b] += F(T[a][b])
  return imp


D13_WITNESS = dict(kind="crystals", n=3, num=2, rank=2, T=[[0, 1, 0], [1, 0, 0], [0, 0, 0]], L=[1, 1, 0],
                   tclass="zero_feature", seed=0, names="plain", pass_names=True, full=False)


def gen_crystals(ctx, count):
  rng = ctx.rng
  out = [dict(D13_WITNESS)]
  while len(out) < count:
    n = rng.randint(3, 6)
    rank = rng.randint(2, min(n - 1, 3))
    need = -(-n // rank)
    slot = rng.choice(["tight", "plus", "plus", "many", "few"])
    num = {"tight": need, "plus": need + rng.randint(1, 2), "many": need + rng.randint(3, 5),
           "few": max(1, need - 1)}[slot]
    tclass = rng.choice(["dense", "dense", "sparse", "block", "skew", "skew", "zero_feature"])
    if tclass == "skew" and rng.random() < 0.7:
      rank = n - 1 if n <= 4 else rank          # many uses per feature: the num_lattices-1 cap binds
      num = -(-n // rank) + rng.randint(1, 4)
    T = [[0.0] * n for _ in range(n)]
    for a, b in itertools.combinations(range(n), 2):
      if tclass == "dense":
        v = rng.randint(0, 16) / 8.0
      elif tclass == "sparse":
        v = rng.choice([0, 0, 0, 1, 4, 9]) / 8.0
      elif tclass == "block":
        v = (rng.randint(8, 16) if (a % 2) == (b % 2) else rng.randint(0, 2)) / 8.0
      elif tclass == "skew":
        v = (rng.choice([16, 24, 32]) if 0 in (a, b) else rng.randint(0, 2)) / 8.0
      else:
        v = rng.randint(0, 16) / 8.0
      T[a][b] = T[b][a] = v
    L = [rng.randint(0, 8) / 8.0 for _ in range(n)]
    if tclass == "zero_feature":
      z = rng.randrange(n)
      L[z] = 0.0
      for b in range(n):
        T[z][b] = T[b][z] = 0.0
      if rng.random() < 0.3:     # all scores zero
        T = [[0.0] * n for _ in range(n)]
        L = [0.0] * n
    imp = _importance(n, T, L)
    if tclass != "zero_feature" and (len(set(imp)) < n or min(imp) == 0):
      continue    # np.argsort is not stable: keep the importance order unambiguous
    out.append(dict(kind="crystals", n=n, num=num, rank=rank, T=T, L=L, tclass=tclass,
                    seed=rng.randint(0, 10 ** 6), names="plain", pass_names=True,
                    full=rng.random() < 0.3))
  return out


def crystals_degenerate(d):
  """Known-finding class D13: some feature has importance score 0."""
  return d.get("kind") == "crystals" and min(_importance(d["n"], d["T"], d["L"])) == 0


def eval_crystals(ctx, d):
  tf, tfl = tfimpl.tfl()
  from tensorflow_lattice.python import premade_lib  # pylint: disable=g-import-not-at-top
  n, num, rank = d["n"], d["num"], d["rank"]
  T = [[float(v) for v in row] for row in d["T"]]
  L = [np.float64(v) for v in d["L"]]

  def run():
    cfg, names = _ensemble_config(tfl, d, "crystals")
    orig = premade_lib._get_torsions_and_laplacians
    premade_lib._get_torsions_and_laplacians = lambda **kw: ([list(r) for r in T], list(L))
    try:
      with np.errstate(all="ignore"):
        if d["full"]:
          keras = premade_lib.keras
          inputs = [keras.layers.Input(shape=(1,), name="%s_%s" % (premade_lib.INPUT_LAYER_NAME, x))
                    for x in names]
          fake = keras.Model(inputs=inputs, outputs=inputs[0])
          premade_lib.set_crystals_lattice_ensemble(cfg, cfg, fake, None)
          idx = {x: i for i, x in enumerate(names)}
          return [[idx[x] for x in lat] for lat in cfg.lattices]
        return [[int(x) for x in lat] for lat in premade_lib._get_final_crystal_lattices(
            model_config=cfg, prefitting_model_config=cfg, prefitting_model=None, feature_names=names)]
    finally:
      premade_lib._get_torsions_and_laplacians = orig

  impl, err, fail = None, None, None
  try:
    impl = run()
  except (ValueError, OverflowError, AssertionError, IndexError, ZeroDivisionError) as e:
    err = "%s: %s" % (type(e).__name__, str(e)[:100])
  valid = n <= num * rank and rank < n
  if impl is None:
    if valid:
      fail = ("_get_final_crystal_lattices raised %s for a valid config (n=%d, %d lattices of rank %d, "
              "importance %r)" % (err, n, num, rank, [str(v) for v in _importance(n, d["T"], d["L"])]))
  else:
    if len(impl) != num:
      fail = "%d lattices instead of num_lattices=%d" % (len(impl), num)
    for lat in impl:
      if len(lat) != rank:
        fail = fail or "crystals lattice %r has not exactly lattice_rank=%d features" % (lat, rank)
    for f in range(n):
      if valid and not any(f in lat for lat in impl):
        fail = fail or "feature %d is in no crystals lattice: %r" % (f, impl)
    for lat in impl:
      # repeats created by the placement are "fixed later by swapping": a finalized lattice has distinct features
      if valid and len(set(lat)) != len(lat):
        fail = fail or "crystals lattice %r repeats a feature (ensemble %r)" % (lat, impl)
    if fail is None and run() != impl:
      fail = "same inputs gave two different crystals ensembles"
  cfg_c = "(mkcr %s %s %s %s %s %s)" % (
      cnat(n), cnat(num), cnat(rank), cnat(premade_lib._MAX_CRYSTALS_SWAPS),
      clist([cql(r) for r in d["T"]]), cql(d["L"]))
  coq = "CCrystals %s %s" % (cfg_c, "None" if impl is None else "(Some %s)" % _coq_mat(impl))
  klass = "crystals_%s_%s%s" % (d["tclass"], "raised" if impl is None else "ok", "_full" if d["full"] else "")
  return Case(d, coq=coq, pred_fail=fail, nontrivial=impl is not None, klass=klass,
              info={"impl_lattices": impl, "error": err})


_D13_ERROR = "ValueError: cannot convert float NaN to integer"


def _d13(case):
  """D13, identified by input class AND symptom: a crystals configuration with a zero-importance feature on which
  _get_final_crystal_lattices RAISES exactly the int(round(nan)) ValueError. A degenerate configuration that returns
  a wrong ensemble (wrong count / rank / uncovered feature / non-deterministic) or raises anything else is reported."""
  if not crystals_degenerate(case.desc):
    return False
  info = case.info if isinstance(case.info, dict) else {}
  return (info.get("impl_lattices") is None and (info.get("error") or "").startswith(_D13_ERROR) and
          (case.pred_fail or "").startswith("_get_final_crystal_lattices raised %s for a valid config" % _D13_ERROR))


KNOWN_CLASSES = {"crystals_zero_importance_feature": _d13}


# --------------------------------------------------------------------------
def gen_descs(ctx):
  out = []
  out += gen_rtl(ctx, ctx.n(260, 4000), full_every=ctx.n(6, 8))
  out += gen_random(ctx, ctx.n(120, 2000))
  out += gen_cover(ctx, ctx.n(80, 1500))
  out += gen_crystals(ctx, ctx.n(100, 1500))
  return out


def eval_cases(ctx, descs):
  cases = []
  for d in descs:
    kind = d.get("kind")
    if kind == "rtl":
      cases.append(eval_rtl(ctx, d))
    elif kind == "random":
      cases.append(eval_random(ctx, d))
    elif kind == "cover":
      cases.append(eval_cover(ctx, d))
    elif kind == "crystals":
      cases.append(eval_crystals(ctx, d))
    elif kind == "hashseed":
      # replay of a cross-interpreter determinism failure
      cs = {k: [] for k in _PROBE_KINDS}
      cs[d["which"]].append(d["config"])
      res = _hashseed_probe(cs, {})
      cases.append(Case(d, coq=None, pred_fail=res[0][1] if res else None, nontrivial=True, klass="hashseed"))
    else:
      raise ValueError("unknown case kind %r" % (kind,))
  return cases


def extra(ctx, stats):
  """Cross-interpreter determinism (the property: structures are a function of the seed): the same configurations are
  expanded in two FRESH interpreters that differ only in Python's string-hash randomisation (PYTHONHASHSEED), as any
  two ordinary runs do; the check itself runs with PYTHONHASHSEED=0, which would hide an iteration over a set."""
  import subprocess
  rng = ctx.rng
  cases = {"random": [], "rtl": []}
  for _ in range(ctx.n(12, 60)):
    n = rng.randint(2, 10)
    rank = rng.randint(2, min(4, n))
    need = -(-n // rank)
    cases["random"].append([n, rank, need + rng.randint(0, 3), rng.randrange(1000)])
  for _ in range(ctx.n(8, 40)):
    n_inc, n_unc = rng.randint(0, 4), rng.randint(0, 4)
    if n_inc + n_unc == 0:
      n_unc = 2
    rank = rng.randint(1, 3)
    need = -(-(n_inc + n_unc) // rank)
    cases["rtl"].append([n_inc, n_unc, rank, need + rng.randint(0, 2), rng.randrange(1000), rng.random() < 0.5])
  # grouped / list-form RTL inputs, the all-pairs cover and Crystals (given scores)
  cases.update({"rtl_list": [], "cover": [], "crystals": []})
  for _ in range(ctx.n(8, 40)):
    inc = [rng.choice([1, 2, 3]) for _ in range(rng.randint(0, 3))]
    unc = [rng.choice([1, 2, 3]) for _ in range(rng.randint(0 if inc else 1, 3))]
    rank = rng.randint(1, 3)
    need = -(-(sum(inc) + sum(unc)) // rank)
    cases["rtl_list"].append([inc, unc, rank, need + rng.randint(0, 3), rng.randrange(1000), rng.random() < 0.8])
  for _ in range(ctx.n(8, 40)):
    n = rng.randint(3, 9)
    cases["cover"].append([n, rng.randint(2, min(n - 1, 5)), rng.randrange(1000)])
  for _ in range(ctx.n(8, 40)):
    n = rng.randint(3, 6)
    rank = rng.randint(2, min(n - 1, 3))
    T = [[0.0] * n for _ in range(n)]
    for a, b in itertools.combinations(range(n), 2):
      T[a][b] = T[b][a] = rng.randint(0, 16) / 8.0
    L = [rng.randint(1, 8) / 8.0 for _ in range(n)]
    if len(set(_importance(n, T, L))) < n:
      continue    # ties: np.argsort order unspecified (LIMITS)
    cases["crystals"].append([n, -(-n // rank) + rng.randint(0, 3), rank, T, L])
  return _hashseed_probe(cases, stats)


_PROBE_KINDS = ("random", "rtl", "rtl_list", "cover", "crystals")

# child for the kinds c17_child.py does not know (run with python -c)
_CHILD2 = r"""
import json, sys
import numpy as np
import tensorflow_lattice as tfl
from tensorflow_lattice.python import premade_lib
cases = json.loads(sys.argv[1])
out = {"rtl_list": [], "cover": [], "crystals": []}
def ens(n, num, rank, seed):
  names = ["f%d" % i for i in range(n)]
  return names, tfl.configs.CalibratedLatticeEnsembleConfig(
      feature_configs=[tfl.configs.FeatureConfig(name=f) for f in names], lattices="crystals",
      num_lattices=num, lattice_rank=rank, random_seed=seed)
for (inc, unc, rank, num, seed, avoid) in cases.get("rtl_list", []):
  layer = tfl.layers.RTL(num_lattices=num, lattice_rank=rank, random_seed=seed, avoid_intragroup_interaction=avoid)
  shape = {}
  if unc:
    shape["unconstrained"] = [(None, d) for d in unc]
  if inc:
    shape["increasing"] = [(None, d) for d in inc]
  st = layer._get_rtl_structure(shape)
  out["rtl_list"].append([[list(map(int, m)), [[int(i) for i in row] for row in idx]] for m, idx in st])
for (n, rank, seed) in cases.get("cover", []):
  names, cfg = ens(n, 2, rank, seed)
  pre = premade_lib.construct_prefitting_model_config(cfg, names)
  out["cover"].append([[str(f) for f in lat] for lat in pre.lattices])   # order inside a lattice included
for (n, num, rank, T, L) in cases.get("crystals", []):
  names, cfg = ens(n, num, rank, 1)
  premade_lib._get_torsions_and_laplacians = lambda **kw: ([list(r) for r in T], [np.float64(v) for v in L])
  out["crystals"].append([[int(f) for f in lat] for lat in premade_lib._get_final_crystal_lattices(
      model_config=cfg, prefitting_model_config=cfg, prefitting_model=None, feature_names=names)])
print("RESULT " + json.dumps(out))
"""


def _hashseed_probe(cases, stats):
  import subprocess
  child = os.path.join(os.path.dirname(os.path.abspath(__file__)), "c17_child.py")
  old = {k: cases.get(k, []) for k in ("random", "rtl")}
  new = {k: cases.get(k, []) for k in ("rtl_list", "cover", "crystals")}
  jobs = []    # (kinds, [proc for PYTHONHASHSEED 1, proc for 4242])
  for kinds, part, argv in ((("random", "rtl"), old, [child]), (("rtl_list", "cover", "crystals"), new, ["-c", _CHILD2])):
    if not any(part.values()):
      continue
    procs = []
    for hs in ("1", "4242"):
      env = dict(os.environ, PYTHONHASHSEED=hs, TF_CPP_MIN_LOG_LEVEL="3")
      procs.append(subprocess.Popen([sys.executable, "-W", "ignore"] + argv + [json.dumps(part)], env=env,
                                    stdout=subprocess.PIPE, stderr=subprocess.PIPE, text=True))
    jobs.append((kinds, part, procs))
  out = []
  compared = 0
  for kinds, part, procs in jobs:
    results = []
    for pr in procs:
      so, se = pr.communicate(timeout=900)
      lines = [l for l in so.splitlines() if l.startswith("RESULT ")]
      if pr.returncode != 0 or not lines:
        return [("cross-interpreter-probe-failed", "the determinism probe could not run: %s" % se[-400:],
                 {"case": {"kind": "hashseed", "cases": cases}}, False)]
      results.append(json.loads(lines[-1][len("RESULT "):]))
    for kind in kinds:
      compared += len(part[kind])
      for c, a, b in zip(part[kind], results[0][kind], results[1][kind]):
        if a != b:
          msg = ("structure is not a function of the seed: %s config %r gives %r in one interpreter and %r in "
                 "another (PYTHONHASHSEED 1 vs 4242)" % (kind, c, a, b))
          out.append(("structure-differs-between-interpreters", msg,
                      {"case": {"kind": "hashseed", "which": kind, "config": c}, "clause": msg}, True))
          break
  stats["cross_interpreter_structures_compared"] = compared
  return out
