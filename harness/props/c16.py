"""C16 - configurations are rejected up front (ValueError) or handled totally
and finitely; synonymous spellings configure identical behaviour."""
import itertools
import json
import math
import random

import numpy as np
from common import Case, cq, clist, cz, czl, cbool, copt
import tfimpl

ID = "C16"
HMODULE = "H_C16"
USES_GEN = True
SHARD = 200
RULE = ("(a) canonicalisers: the real utils.canonicalize_* / count_non_zeros on a small universe of Python values "
        "(None, bools, ints -2..3, floats, every case spelling of the keywords, wrong words, lists/tuples of "
        "those, wrong-typed arguments) - outcome (value | ValueError | other class) compared in Coq with the "
        "GENERATED Gallina function, and the property predicates (synonyms identical, idempotent, range, trust "
        "entries are tuples) evaluated on the real outcome; (b) constructors: structured samples of the cross "
        "product of constructor arguments (lattice sizes {1,2,3}, rank <= 3, every monotonicity / unimodality / "
        "trust / convexity spelling, trust-dominance-joint pairs in and out of range, list/tuple/single-tuple "
        "forms, bounds {none, lo<hi, lo=hi, lo>hi}, PWL cyclic x monotonicity x convexity x clamps x keypoints "
        "sorted/unsorted/short/duplicate, input_keypoints_type None, integral-float spellings (monotonicity=1.0, "
        "convexity=0.0, list entries and trust directions 1.0 / -1.0), regulariser amounts scalar/list/tuple of right "
        "and wrong length, KFL, negative units / num_input_dims / num_buckets of Lattice (also units=0), Linear, "
        "PWLCalibration, CategoricalCalibration, Linear dominances incl. zero-width ranges, dominance / joint "
        "monotonicity lists of three and more pairs - acyclic chains with their transitive pair, duplicates, cycles of "
        "length 3 and 4 - for Lattice, LatticeConstraints, Linear, LinearConstraints, unconstrained Linear layers with "
        "input_min / input_max, categorical pairs incl. out of range and cycles, CDF "
        "(sparsity factor vs input dims / units, negative sizes, scaling type / monotonicity / initialiser / "
        "activation / reduction spellings), RTL (sizes, bounds, interpolation, parameterization x initialiser x "
        "regulariser forms tuple / list / list of lists / TUPLE OF TUPLES (also empty, with list entries) with wrong "
        "arity, int amounts, unknown names, per-dimension "
        "amounts, init_min / init_max, num_terms, too few lattices), premade configs and premade_lib.verify_config "
        "on structured configs of all four model kinds with one-defect injection per check) run against the real constructor, build, kernel constraint on random dyadic weights, "
        "finalize, regulariser and first call: class must be ValueError-at-construction/build or accepted-and-"
        "finite; accept/reject class compared in Coq with Model/Verify.v behind the generated canonicalisers; "
        "a synonymously respelled twin must give the same class and identical outputs. Non-trivial = accepted "
        "configuration (or canonicaliser returning a value); distinct = distinct constructor call.")
TRUSTED = [
    "translator harness/translators/gen_canon.py (Python ast -> Gallina, fail closed) and the Python value "
    "universe / operator semantics of coq/Model/PyVal.v (ASCII strings, finite floats, == across bool/int/float, "
    "truthiness, iteration of list/tuple/str, len, unpacking arity -> ValueError); tied on every run by evaluating "
    "the generated functions in Coq on the same arguments as the real utils.py functions",
    "Model/Verify.v (hand-written accept/reject cores of the five verify_hyperparameters functions and the layer "
    "__init__/build checks around them) is tied by correspondence only, on the constructor classes "
    "LatticeConstraints, Lattice, LinearConstraints, Linear, PWLCalibration, PWLCalibrationConstraints, "
    "CategoricalCalibration, KroneckerFactoredLattice, RTL (rtl_lib.verify_hyperparameters + __init__ + build), "
    "CDF (__init__ + build, and the call-time activation / reduction test), lattice_layer Laplacian / Torsion "
    "regulariser objects, pwl_calibration_layer regulariser objects, premade_lib.verify_config (config objects "
    "built from the description; the Coq case is rendered from the REAL config object's fields)",
]
LIMITS = [
    "exceptions caused by Python typing (tuple + list, None[...], unhashable list) are invisible to the typed "
    "Verify.v model; they are found by the constructor runs (testing), not proved absent",
    "the constructor cross product is sampled (quick) / sampled more densely plus small exhaustive sub-domains "
    "(thorough); coverage.exhaustive is set only when the stated sub-domains were enumerated completely",
    "accepted => projection/evaluation total and finite is tested on random dyadic weights and inputs, not proved "
    "(the division- and index-safety theorems of DESIGN section 7 (c) are not part of this check)",
    "Aggregation and ParallelCombination have no Coq decision model (outcome-class predicate only); the premade "
    "model constructors are compared one-sidedly (what accepts_verify_config rejects they must reject; the layer "
    "checks they make after verify_config are modelled per layer, not composed); premade_lib.verify_config itself, "
    "RTL, CDF and the lattice / PWL regulariser objects are compared two-sidedly",
    "RTL / CDF / verify_config glue: Keras initialiser names are a fixed list in Harness/H_C16.v "
    "(keras_initializer_names), every other string counts as unknown; isinstance / np.iterable are evaluated on "
    "the PyVal.v universe (a str is an iterable of str); RTL inputs are generated in the single-shape form "
    "(None, n) per key; RTL configurations the library fails on with a non-ValueError (unknown dict key -> "
    "KeyError, kernel_regularizer=[] -> IndexError, negative num_lattices x negative lattice_rank -> IndexError at "
    "call) are modelled (reject / accept as is) but not generated",
    "sizes: Lattice / Linear / PWLCalibration / CategoricalCalibration units, Linear num_input_dims and categorical "
    "num_buckets are modelled by accepts_*_layer (negative: TensorFlow's ValueError at build) and generated as -1 / -2 "
    "(Lattice and PWLCalibration also units=0); PWLCalibration(units=0) (build raises InvalidArgumentError, not "
    "ValueError) and Lattice(units=0) with one joint unimodality over all features (accepted - model theorem "
    "C16_reject_lattice_layer_zero_units_refuted -, the first projection raises InvalidArgumentError) are generated "
    "and counted under the open known finding D48 (class zero_sized_argument); Linear / CategoricalCalibration units=0 "
    "and num_input_dims=0 (accepted by code and model) are not generated",
    "integral floats: the glue normalises the canonicalisers' OUTPUT (1.0 -> 1) before typing it; a float trust "
    "DIMENSION (rejected by the code's isinstance test) is not expressible in the glue and not generated",
    "kernel_regularizer tuples for RTL: elements of the outer tuple that are neither tuples nor lists (a Keras "
    "identifier such as 'l2', a callable) are not expressible in the glue and not generated",
    "late rejection rule (failure class late_shape_check_in_standalone_constraints): a STANDALONE constraint object "
    "(LinearConstraints, CategoricalCalibrationConstraints) learns the weight shape only at its first call; a plain "
    "ValueError raised there by the same verify / sort function ('does not correspond to number of weights', "
    "'indices in range', 'Circular monotonicity constraints') is counted as a (late) REJECTION, not as a failure of "
    "an accepted configuration, and such a case is not compared with the Coq decision model. In particular a "
    "dominance cycle of length >= 3 in a standalone LinearConstraints (the constructor only rejects self pairs and "
    "2-cycles) falls under this rule and is NOT reported, whereas the same cycle in the Linear LAYER is the open "
    "known finding D59 (class linear_dominance_cycle)",
    "known-finding classes are matched by (constructor kind, stage, exception class, message fragment, the argument "
    "condition that defines the finding); for D48 (zero_sized_argument) by an explicit table of (kind, argument "
    "that is 0, stage, exception, message fragment) rows, see _D48_MODES: any other failure of a configuration "
    "with a zero-sized argument is reported",
]

# ----------------------------------------------------------------------------
# JSON <-> Python values (tuples are {"t": [...]}) and Coq `value` terms
# ----------------------------------------------------------------------------
def T(*xs):
  return {"t": list(xs)}


def dec(j):
  if isinstance(j, dict):
    if set(j.keys()) == {"t"}:
      return tuple(dec(x) for x in j["t"])
    return {k: dec(v) for k, v in j.items()}
  if isinstance(j, list):
    return [dec(x) for x in j]
  return j


def enc(p):
  if isinstance(p, tuple):
    return {"t": [enc(x) for x in p]}
  if isinstance(p, list):
    return [enc(x) for x in p]
  if isinstance(p, dict):
    return {k: enc(v) for k, v in p.items()}
  if isinstance(p, (np.integer,)):
    return int(p)
  if isinstance(p, (np.floating,)):
    return float(p)
  return p


def coq_string(s):
  assert all(32 <= ord(c) < 127 for c in s), s
  return '"%s"' % s.replace('"', '""')


def cval(p):
  """Coq `value` term of a Python value (None/bool/int/float/str/list/tuple)."""
  if p is None:
    return "VNone"
  if p is True or p is False:
    return "(VBool %s)" % cbool(p)
  if isinstance(p, int):
    return "(VInt %s)" % cz(p)
  if isinstance(p, float):
    if not math.isfinite(p):
      raise ValueError("non-finite")
    return "(VFloat %s)" % cq(p)
  if isinstance(p, str):
    return "(VStr %s)" % coq_string(p)
  if isinstance(p, list):
    return "(VList %s)" % clist([cval(x) for x in p])
  if isinstance(p, tuple):
    return "(VTuple %s)" % clist([cval(x) for x in p])
  raise ValueError("not in the universe: %r" % (p,))


def in_universe(p):
  try:
    cval(p)
    return True
  except (ValueError, AssertionError):
    return False


def pyrepr(p):
  return repr(p)


# ----------------------------------------------------------------------------
# (a) canonicalisers on the small universe
# ----------------------------------------------------------------------------
KEYWORDS = ["increasing", "decreasing", "none", "convex", "concave", "peak", "valley", "positive", "negative"]


def spellings(w):
  return [w, w.capitalize(), w.upper(), w[0] + w[1:].upper()]


SCALARS = ([None, True, False, -2, -1, 0, 1, 2, 3, 1.0, -1.0, 0.0, 0.5, "", "x", "1", "inc", "non", " none"] +
           [s for w in KEYWORDS for s in spellings(w)])
PAIR_SCALARS = [None, True, 0, 1, -1, 1.0, 0.5, 2, "x", "increasing", "Increasing", "DECREASING", "none", "NONE",
                "peak", "Valley", "convex"]
CONTAINERS = [[], (), [1], (0,), [0, 1, 1], (0, 1, "positive"), [None], [[1]]]


def canon_universe(fn):
  """All argument tuples of the small universe for one function (JSON form)."""
  out = []
  if fn in ("canonicalize_monotonicity",):
    for v in SCALARS + CONTAINERS:
      for ad in (True, False):
        out.append([v, ad])
  elif fn == "canonicalize_convexity":
    for v in SCALARS + CONTAINERS:
      out.append([v])
  elif fn in ("canonicalize_monotonicities", "canonicalize_unimodalities", "canonicalize_input_bounds"):
    extra = [[True]] if fn != "canonicalize_monotonicities" else [[True], [False]]
    args = [None, [], (), "", "none", "increasing", 0, 1, 2, True, False, 1.5]
    for v in SCALARS:
      args.append([v])
      args.append((v,))
    for a in PAIR_SCALARS:
      for b in PAIR_SCALARS:
        args.append([a, b])
    args += [[1, [1]], ([0], 1), [(1,)], [0.5, None, "none", "NONE", 2.0], [0.5, 1]]
    for v in args:
      if fn == "canonicalize_monotonicities":
        for ad in (True, False):
          out.append([v, ad])
      else:
        out.append([v])
  elif fn == "canonicalize_trust":
    dirs = [1, -1, 0, 2, True, False, None, 1.0, -1.0, 0.5, "1", "x"] + [
        s for w in ("positive", "negative", "none", "increasing") for s in spellings(w)]
    args = [None, [], (), "", 0, 1, True, "abc", [0, 1, 1], (0, 1, 1), [None], [0], ["ab1"], ["abcd"], [[]], [()],
            [(0, 1)], [[0, 1]], [(0, 1, 1, 1)], [[0, 1, 1, "positive"]], [(0, 1, 1), (1, 0)], [(0, 1, 1), None]]
    for d in dirs:
      args.append([(0, 1, d)])
      args.append([[0, 1, d]])
      args.append(((1, 0, d),))
      args.append([(0, 1, 1), [2, 0, d]])
      args.append([("a", None, d)])
    for v in args:
      out.append([v])
  elif fn == "count_non_zeros":
    its = [None, [], (), [0], [1], [0, 1, -1], (1, 0, 0, 2), [True, False], [0.0, 1.5], ["a", 0], [None, 0],
           [[0]], "ab", "", 3, True]
    for a in its:
      out.append([a])
    for a in its:
      for b in its:
        out.append([a, b])
    out.append([])
    out.append([[1, 0], None, (0, 2, 3)])
  else:
    raise KeyError(fn)
  return [enc(a) for a in out]


CANON_FNS = ["canonicalize_convexity", "canonicalize_input_bounds", "canonicalize_monotonicity",
             "canonicalize_monotonicities", "canonicalize_trust", "canonicalize_unimodalities",
             "count_non_zeros"]


def run_canon(utils, fn, args):
  """Returns ("ok", value) | ("ValueError", msg) | ("other", class name)."""
  f = getattr(utils, fn)
  try:
    if fn in ("canonicalize_monotonicity", "canonicalize_monotonicities"):
      r = f(args[0], allow_decreasing=args[1])
    else:
      r = f(*args)
    return ("ok", r)
  except ValueError as e:
    return ("ValueError", str(e)[:200])
  except Exception as e:  # pylint: disable=broad-except
    return ("other", type(e).__name__)


def _eq(a, b):
  return type(a) is type(b) and a == b and (
      not isinstance(a, (list, tuple)) or all(_eq(x, y) for x, y in zip(a, b)))


def _lower_is(v, w):
  return isinstance(v, str) and v.lower() == w


def _in(v, xs):
  try:
    return any(v is x or v == x for x in xs)
  except Exception:  # pylint: disable=broad-except
    return False


# Python mirror of Proofs/Canon.v spec_* (element level)
def spec_monotonicity(v, ad):
  if v is None:
    return ("ok", None)
  if _in(v, [-1, 0, 1]):
    if not ad and v == -1:
      return ("ValueError", "")
    return ("ok", v)
  if _lower_is(v, "decreasing"):
    return ("ok", -1) if ad else ("ValueError", "")
  if _lower_is(v, "none"):
    return ("ok", 0)
  if _lower_is(v, "increasing"):
    return ("ok", 1)
  return ("ValueError", "")


def spec_words(v, neg, pos, none_allowed):
  if none_allowed and v is None:
    return ("ok", None)
  if _in(v, [-1, 0, 1]):
    return ("ok", v)
  if _lower_is(v, neg):
    return ("ok", -1)
  if _lower_is(v, "none"):
    return ("ok", 0)
  if _lower_is(v, pos):
    return ("ok", 1)
  return ("ValueError", "")


def spec_trust_entry(t):
  if not isinstance(t, (list, tuple, str)):
    return ("other", "TypeError")
  items = list(t)
  if len(items) != 3:
    return ("ValueError", "")
  a, b, d = items
  if _in(d, [-1, 1]):
    return ("ok", (a, b, d))
  if _lower_is(d, "negative"):
    return ("ok", (a, b, -1))
  if _lower_is(d, "positive"):
    return ("ok", (a, b, 1))
  return ("ValueError", "")


def spec_bound_item(v):
  if isinstance(v, float) or v is None:
    return ("ok", v)
  if _lower_is(v, "none"):
    return ("ok", None)
  return ("ValueError", "")


def spec_list(f, v):
  if not v:
    return ("ok", None)
  if not isinstance(v, (list, tuple, str)):
    return ("other", "TypeError")
  out = []
  for x in v:
    r = f(x)
    if r[0] != "ok":
      return r
    out.append(r[1])
  return ("ok", out)


def spec_canon(fn, args):
  if fn == "canonicalize_monotonicity":
    return spec_monotonicity(args[0], args[1])
  if fn == "canonicalize_convexity":
    return spec_words(args[0], "concave", "convex", True)
  if fn == "canonicalize_monotonicities":
    return spec_list(lambda x: spec_monotonicity(x, args[1]), args[0])
  if fn == "canonicalize_unimodalities":
    return spec_list(lambda x: spec_words(x, "peak", "valley", False), args[0])
  if fn == "canonicalize_trust":
    return spec_list(spec_trust_entry, args[0])
  if fn == "canonicalize_input_bounds":
    return spec_list(spec_bound_item, args[0])
  if fn == "count_non_zeros":
    total = 0
    for it in args:
      if it is None:
        continue
      if not isinstance(it, (list, tuple, str)):
        return ("other", "TypeError")
      total += sum(1 for e in it if e != 0)
    return ("ok", total)
  raise KeyError(fn)


def same_outcome(a, b):
  if a[0] != b[0]:
    return False
  if a[0] == "ok":
    return _eq(a[1], b[1])
  if a[0] == "other":
    return a[1] == b[1]
  return True


def canon_predicates(utils, fn, args, got):
  """The property's own clauses on the REAL canonicaliser's outcome."""
  want = spec_canon(fn, args)
  if not same_outcome(got, want):
    return "%s(%s) gives %s, the specification (Proofs/Canon.v spec_*) says %s" % (
        fn, ", ".join(pyrepr(a) for a in args), fmt_outcome(got), fmt_outcome(want))
  if got[0] != "ok" or fn == "count_non_zeros":
    return None
  r = got[1]
  # idempotence
  again = run_canon(utils, fn, [r] + list(args[1:]))
  if not same_outcome(again, ("ok", r)):
    return "%s is not idempotent: %s -> %s -> %s" % (fn, pyrepr(args[0]), pyrepr(r), fmt_outcome(again))
  if fn == "canonicalize_trust" and r is not None:
    for e in r:
      if not isinstance(e, tuple):
        return ("canonicalize_trust(%s) returns the entry %s which is a %s, not a tuple (unhashable in the "
                "projection)" % (pyrepr(args[0]), pyrepr(e), type(e).__name__))
      if not (len(e) == 3 and _in(e[2], [-1, 1])):
        return "canonicalize_trust(%s) returns a non-canonical entry %s" % (pyrepr(args[0]), pyrepr(e))
  if fn in ("canonicalize_monotonicities", "canonicalize_unimodalities") and r is not None:
    for e in r:
      if not (e is None or _in(e, [-1, 0, 1])):
        return "%s(%s) returns an entry outside {-1,0,1}: %s" % (fn, pyrepr(args[0]), pyrepr(e))
      if fn == "canonicalize_monotonicities" and not args[1] and e is not None and e == -1:
        return "canonicalize_monotonicities(%s, allow_decreasing=False) returns -1" % pyrepr(args[0])
  if fn in ("canonicalize_monotonicity", "canonicalize_convexity"):
    if not (r is None or _in(r, [-1, 0, 1])):
      return "%s(%s) returns %s outside {-1,0,1,None}" % (fn, pyrepr(args[0]), pyrepr(r))
  return None


def fmt_outcome(o):
  if o[0] == "ok":
    return "value %s" % pyrepr(o[1])
  if o[0] == "other":
    return "raises %s" % o[1]
  return "raises ValueError"


def coq_result(o):
  if o[0] == "ok":
    return "(Ok %s)" % cval(o[1])
  if o[0] == "ValueError":
    return "ValueError"
  return "(OtherError %s)" % coq_string(o[1])


# ----------------------------------------------------------------------------
# (b) constructors: running one description against the real code
# ----------------------------------------------------------------------------
def dyadic(seed, shape, lo=-8.0, hi=8.0):
  rng = random.Random(seed)
  n = int(np.prod(shape)) if len(shape) else 1
  vals = [rng.randint(int(lo * 8), int(hi * 8)) / 8.0 for _ in range(n)]
  return np.array(vals, dtype=np.float64).reshape(shape)


class Run(object):
  """Executes the stages of one constructor description and records the class:
  rejected (ValueError at construct/build) | accepted | fail (anything else)."""

  def __init__(self):
    self.cls = None
    self.stage = None
    self.exc = None
    self.msg = None
    self.outs = {}
    self.accepted = False   # construct + build went through

  def do(self, stage, thunk, record=None):
    """Returns the thunk's value, or None after recording a failure."""
    if self.cls in ("rejected", "fail"):
      return None
    try:
      r = thunk()
    except Exception as e:  # pylint: disable=broad-except
      self.stage = stage
      self.exc = type(e).__name__
      self.msg = str(e).replace("\n", " ")[:int(__import__("os").environ.get("C16_MSGLEN", "300"))]
      if stage in ("construct", "build") and isinstance(e, ValueError) and type(e).__name__ == "ValueError":
        self.cls = "rejected"
      else:
        self.cls = "fail"
      return None
    if record is not None:
      try:
        if isinstance(r, (list, tuple)):
          arr = np.concatenate([np.asarray(x, dtype=np.float64).ravel() for x in r]) if r else np.zeros(0)
        else:
          arr = np.asarray(r, dtype=np.float64)
      except Exception as e:  # pylint: disable=broad-except
        self.cls, self.stage, self.exc, self.msg = "fail", stage, type(e).__name__, "result not numeric: %s" % e
        return None
      self.outs[record] = [float(v) for v in arr.ravel()]
      if not np.all(np.isfinite(arr)):
        self.cls, self.stage, self.exc = "fail", stage, "NonFinite"
        self.msg = "non-finite values %s" % ([float(v) for v in arr.ravel()][:8],)
        return None
    return r if r is not None else True

  def built(self):
    if self.cls is None:
      self.accepted = True

  def finish(self):
    if self.cls is None:
      self.cls = "accepted"
    return self


def _shape(units, d):
  return (None, d) if units == 1 else (None, units, d)


def _points(seed, units, d, lo, hi, n=4):
  rng = random.Random(seed + 7)
  pts = []
  for _ in range(n):
    p = [[rng.randint(int(lo * 4), int(hi * 4)) / 4.0 for _ in range(d)] for _ in range(max(units, 1))]
    pts.append(p)
  x = np.array(pts, dtype=np.float64)
  return x[:, 0, :] if units == 1 else x


def run_desc(desc, kw=None):
  """Runs one constructor description (optionally with replaced kwargs)."""
  tf, tfl = tfimpl.tfl()
  kind = desc["kind"]
  kw = dec(kw if kw is not None else desc["kw"])
  seed = desc.get("wseed", 0)
  r = Run()
  if kind == "LatticeConstraints":
    c = r.do("construct", lambda: tfl.lattice_layer.LatticeConstraints(**kw))
    r.built()
    if c:
      n = int(np.prod(kw["lattice_sizes"]))
      w = dyadic(seed, (n, desc.get("units", 1)))
      r.do("project", lambda: c(tf.constant(w)).numpy(), record="project")
  elif kind == "Lattice":
    units = kw.get("units", 1)
    layer = r.do("construct", lambda: tfl.layers.Lattice(dtype="float64", **kw))
    if layer:
      d = len(kw["lattice_sizes"])
      r.do("build", lambda: layer.build(_shape(units, d)))
    r.built()
    if r.accepted:
      n = int(np.prod(kw["lattice_sizes"]))
      w = dyadic(seed, (n, units))
      r.do("assign", lambda: layer.kernel.assign(w))
      if layer.kernel.constraint is not None:
        r.do("project", lambda: layer.kernel.constraint(tf.constant(w)).numpy(), record="project")
      r.do("finalize", lambda: layer.finalize_constraints().numpy(), record="finalize")
      r.do("assign", lambda: layer.kernel.assign(w))
      r.do("regularize", lambda: [np.asarray(l) for l in layer.losses], record="losses")
      hi = max(kw["lattice_sizes"]) - 1
      x = _points(seed, units, d, -1.0 if kw.get("clip_inputs", True) else 0.0,
                  hi + 1.0 if kw.get("clip_inputs", True) else 1.0)
      r.do("call", lambda: layer(tf.constant(x)).numpy(), record="call")
      r.do("config", lambda: layer.get_config() and None)
  elif kind == "LinearConstraints":
    c = r.do("construct", lambda: tfl.linear_layer.LinearConstraints(**kw))
    r.built()
    if c:
      m = kw.get("monotonicities")
      n = desc["n"]
      w = dyadic(seed, (n, desc.get("units", 1)))
      r.do("project", lambda: c(tf.constant(w)).numpy(), record="project")
  elif kind == "Linear":
    units = kw.get("units", 1)
    layer = r.do("construct", lambda: tfl.layers.Linear(dtype="float64", **kw))
    if layer:
      r.do("build", lambda: layer.build(_shape(units, kw["num_input_dims"])))
    r.built()
    if r.accepted:
      w = dyadic(seed, (kw["num_input_dims"], units))
      r.do("assign", lambda: layer.kernel.assign(w))
      if kw.get("use_bias", True):
        r.do("assign", lambda: layer.bias.assign(np.float64(0.125) if units == 1 else np.full((units,), 0.125)))
      if layer.kernel.constraint is not None:
        r.do("project", lambda: layer.kernel.constraint(tf.constant(w)).numpy(), record="project")
      r.do("regularize", lambda: [np.asarray(l) for l in layer.losses], record="losses")
      x = _points(seed, units, kw["num_input_dims"], -3.0, 3.0)
      r.do("call", lambda: layer(tf.constant(x)).numpy(), record="call")
      r.do("config", lambda: layer.get_config() and None)
  elif kind == "PWLCalibrationConstraints":
    ckw = dict(kw)
    if ckw.get("lengths") is not None:
      ckw["lengths"] = tf.constant(ckw["lengths"], dtype=tf.float64)
    cts = tfl.pwl_calibration_lib.BoundConstraintsType
    for k in ("output_min_constraints", "output_max_constraints"):
      if k in ckw:
        ckw[k] = getattr(cts, ckw[k])
    c = r.do("construct", lambda: tfl.pwl_calibration_layer.PWLCalibrationConstraints(**ckw))
    r.built()
    if c:
      w = dyadic(seed, (desc["n"], desc.get("units", 1)))
      r.do("project", lambda: c(tf.constant(w)).numpy(), record="project")
  elif kind == "PWLCalibration":
    units = kw.get("units", 1)
    layer = r.do("construct", lambda: tfl.layers.PWLCalibration(dtype="float64", **kw))
    if layer:
      r.do("build", lambda: layer.build(_shape(units, 1) if units == 1 else (None, units)))
    r.built()
    if r.accepted:
      shape = tuple(layer.kernel.shape)
      w = dyadic(seed, shape)
      r.do("assign", lambda: layer.kernel.assign(w))
      if layer.kernel.constraint is not None:
        r.do("project", lambda: layer.kernel.constraint(tf.constant(w)).numpy(), record="project")
      r.do("regularize", lambda: [np.asarray(l) for l in layer.losses], record="losses")
      ks = [float(v) for v in kw["input_keypoints"]]
      rng = random.Random(seed + 3)
      xs = [ks[0] - 1.0, ks[0], ks[-1], ks[-1] + 2.0] + [rng.uniform(ks[0], ks[-1]) for _ in range(3)]
      x = np.array([[v] * units for v in xs], dtype=np.float64)
      if kw.get("impute_missing") and kw.get("missing_input_value") is not None:
        x[0, :] = kw["missing_input_value"]

      def call():
        y = layer(tf.constant(x))
        return [t.numpy() for t in y] if isinstance(y, list) else y.numpy()
      if not (kw.get("impute_missing") and kw.get("missing_input_value") is None):
        r.do("call", call, record="call")
      if kw.get("impute_missing") and kw.get("missing_input_value") is None:
        miss = np.zeros_like(x)
        miss[1, :] = 1.0

        def call2():
          y = layer([tf.constant(x), tf.constant(miss)])
          return [t.numpy() for t in y] if isinstance(y, list) else y.numpy()
        r.do("call", call2, record="call_missing")
      r.do("config", lambda: layer.get_config() and None)
  elif kind in ("CategoricalCalibration", "CategoricalCalibrationConstraints"):
    if kind == "CategoricalCalibrationConstraints":
      c = r.do("construct", lambda: tfl.categorical_calibration_layer.CategoricalCalibrationConstraints(**kw))
      r.built()
      if c:
        w = dyadic(seed, (desc["n"], desc.get("units", 1)))
        r.do("project", lambda: c(tf.constant(w)).numpy(), record="project")
    else:
      units = kw.get("units", 1)
      layer = r.do("construct", lambda: tfl.layers.CategoricalCalibration(dtype=desc.get("dtype", "float64"), **kw))
      if layer:
        r.do("build", lambda: layer.build((None, 1) if units == 1 else (None, units)))
      r.built()
      if r.accepted:
        nb = kw["num_buckets"]
        w = dyadic(seed, (nb, units))
        r.do("assign", lambda: layer.kernel.assign(w))
        if layer.kernel.constraint is not None:
          r.do("project", lambda: layer.kernel.constraint(tf.constant(w, dtype=layer.kernel.dtype)).numpy(),
               record="project")
        xs = list(range(nb))
        if kw.get("default_input_value") is not None:
          xs.append(kw["default_input_value"])
        x = np.array([[v] * units for v in xs], dtype=np.int32)

        def call():
          y = layer(tf.constant(x))
          return [t.numpy() for t in y] if isinstance(y, list) else y.numpy()
        r.do("regularize", lambda: [np.asarray(l) for l in layer.losses], record="losses")
        r.do("call", call, record="call")
        r.do("config", lambda: layer.get_config() and None)
  elif kind == "KroneckerFactoredLattice":
    units = kw.get("units", 1)
    d = desc["dims"]
    layer = r.do("construct", lambda: tfl.layers.KroneckerFactoredLattice(dtype=desc.get("dtype", "float32"), **kw))
    if layer:
      r.do("build", lambda: layer.build(tf.TensorShape(_shape(units, d))))
    r.built()
    if r.accepted:
      shape = tuple(layer.kernel.shape)
      w = dyadic(seed, shape, -2.0, 2.0)
      r.do("assign", lambda: layer.kernel.assign(w))
      if layer.kernel.constraint is not None:
        r.do("project", lambda: layer.kernel.constraint(tf.constant(w, dtype=layer.kernel.dtype)).numpy(),
             record="project")
      r.do("finalize", lambda: [t.numpy() for t in _as_list(layer.finalize_constraints())], record="finalize")
      x = _points(seed, units, d, -1.0, float(max(kw["lattice_sizes"], 1)))
      r.do("call", lambda: layer(tf.constant(x, dtype=layer.kernel.dtype)).numpy(), record="call")
      r.do("config", lambda: layer.get_config() and None)
  elif kind in ("LatticeLaplacian", "LatticeTorsion"):
    cls = (tfl.lattice_layer.LaplacianRegularizer if kind == "LatticeLaplacian"
           else tfl.lattice_layer.TorsionRegularizer)
    reg = r.do("construct", lambda: cls(**kw))
    r.built()
    if reg:
      n = int(np.prod(kw["lattice_sizes"]))
      w = dyadic(seed, (n, desc.get("units", 1)))
      r.do("regularize", lambda: np.asarray(reg(tf.constant(w))), record="loss")
  elif kind in ("PWLLaplacian", "PWLHessian", "PWLWrinkle"):
    cls = getattr(tfl.pwl_calibration_layer, kind[3:] + "Regularizer")
    reg = r.do("construct", lambda: cls(**kw))
    r.built()
    if reg:
      w = dyadic(seed, (desc["n"], desc.get("units", 1)))
      r.do("regularize", lambda: np.asarray(reg(tf.constant(w))), record="loss")
  elif kind == "CDF":
    d = desc["dims"]
    layer = r.do("construct", lambda: tfl.layers.CDF(**kw))
    if layer:
      r.do("build", lambda: layer.build((None, d)))
    r.built()
    if r.accepted:
      x = _points(seed, 1, d, -2.0, 3.0).astype(np.float32)
      r.do("call", lambda: layer(tf.constant(x)).numpy(), record="call")
  elif kind == "RTL":
    shape = dec(desc["input"])
    layer = r.do("construct", lambda: tfl.layers.RTL(**kw))
    if layer:
      r.do("build", lambda: layer.build(
          {k: (None, v) for k, v in shape.items()} if isinstance(shape, dict) else (None, shape)))
    r.built()
    if r.accepted:
      if isinstance(shape, dict):
        x = {k: tf.constant(_points(seed + i, 1, v, 0.0, 1.0).astype(np.float32))
             for i, (k, v) in enumerate(sorted(shape.items()))}
      else:
        x = tf.constant(_points(seed, 1, shape, 0.0, 1.0).astype(np.float32))

      def call():
        y = layer(x)
        if isinstance(y, dict):
          y = [y[k] for k in sorted(y)]
        return [np.asarray(t) for t in _as_list(y)]
      r.do("call", call, record="call")
      r.do("finalize", lambda: [np.asarray(t) for t in _as_list(layer.finalize_constraints())] and 0.0,
           record="finalize")
  elif kind == "ParallelCombination":
    def make():
      cals = []
      for c in kw["calibrators"]:
        cals.append(tfl.layers.PWLCalibration(**c) if "input_keypoints" in c
                    else tfl.layers.CategoricalCalibration(**c))
      return tfl.layers.ParallelCombination(cals, single_output=kw.get("single_output", True))
    layer = r.do("construct", make)
    n = desc["n_inputs"]
    if layer:
      r.do("build", lambda: layer.build((None, n)))
    r.built()
    if r.accepted:
      x = np.array([[0.0] * n, [1.0] * n], dtype=np.float32)

      def call():
        y = layer(tf.constant(x))
        return [t.numpy() for t in y] if isinstance(y, list) else y.numpy()
      r.do("call", call, record="call")
  elif kind == "Aggregation":
    _k = tfl.aggregation_layer.keras

    def make():
      if kw["model"] == "not_a_model":
        return tfl.layers.Aggregation("not a model")
      inputs = [_k.layers.Input(shape=(1,)) for _ in range(kw["rank"])]
      lat = tfl.layers.Lattice(lattice_sizes=[2] * kw["rank"])(inputs)
      return tfl.layers.Aggregation(_k.models.Model(inputs=inputs, outputs=lat))
    layer = r.do("construct", make)
    r.built()
    if layer:
      xs = [tf.ragged.constant([[0.0, 1.0], [0.5]], dtype=tf.float32) for _ in range(kw["rank"])]
      r.do("call", lambda: layer(xs).numpy(), record="call")
  elif kind == "premade":
    r.do("construct", lambda: build_premade(tfl, kw))
    r.built()
  elif kind == "verify_config":
    r.do("construct", lambda: tfl.premade_lib.verify_config(make_config(tfl, kw)))
    r.built()
  else:
    raise KeyError(kind)
  return r.finish()


def _as_list(x):
  if x is None:
    return []
  if isinstance(x, (list, tuple)):
    out = []
    for y in x:
      out.extend(_as_list(y))
    return out
  return [x]


def make_config(tfl, kw):
  """A tfl.configs model config from a JSON description.  Sub-configs are
  dicts: reflects_trust_in [{feature_name, trust_type, direction}], dominates
  [{feature_name, dominance_type}], regularizer_configs [{name, l1, l2}]."""
  C = tfl.configs

  def regs(rs):
    return None if rs is None else [C.RegularizerConfig(**r) for r in rs]
  fcs = None
  if kw.get("features") is not None:
    fcs = []
    for f in kw["features"]:
      f = dict(f)
      if f.get("reflects_trust_in") is not None:
        f["reflects_trust_in"] = [C.TrustConfig(**t) for t in f["reflects_trust_in"]]
      if f.get("dominates") is not None:
        f["dominates"] = [C.DominanceConfig(**t) for t in f["dominates"]]
      if "regularizer_configs" in f:
        f["regularizer_configs"] = regs(f["regularizer_configs"])
      fcs.append(C.FeatureConfig(**f))
  common = dict(feature_configs=fcs, output_initialization=[0.0, 1.0])
  common.update(kw.get("model_kw", {}))
  if "regularizer_configs" in common:
    common["regularizer_configs"] = regs(common["regularizer_configs"])
  mk = kw["model"]
  if mk == "lattice":
    return C.CalibratedLatticeConfig(**common)
  if mk == "linear":
    return C.CalibratedLinearConfig(**common)
  if mk == "aggregate":
    return C.AggregateFunctionConfig(**common)
  if mk == "ensemble":
    cfg = C.CalibratedLatticeEnsembleConfig(**common)
    if (kw.get("expand", True) and cfg.lattices == "random" and isinstance(cfg.num_lattices, int) and
        isinstance(cfg.lattice_rank, int)):
      tfl.premade_lib.set_random_lattice_ensemble(cfg)
    return cfg
  raise KeyError(mk)


def build_premade(tfl, kw):
  """Builds a tfl.configs model config (+ premade model) from a JSON description."""
  cfg = make_config(tfl, kw)
  mk = kw["model"]
  if mk == "lattice":
    return tfl.premade.CalibratedLattice(cfg)
  if mk == "linear":
    return tfl.premade.CalibratedLinear(cfg)
  if mk == "ensemble":
    return tfl.premade.CalibratedLatticeEnsemble(cfg)
  raise KeyError(mk)


CTOR_NAME = {
    "LatticeConstraints": "tfl.lattice_layer.LatticeConstraints",
    "Lattice": "tfl.layers.Lattice",
    "LinearConstraints": "tfl.linear_layer.LinearConstraints",
    "Linear": "tfl.layers.Linear",
    "PWLCalibrationConstraints": "tfl.pwl_calibration_layer.PWLCalibrationConstraints",
    "PWLCalibration": "tfl.layers.PWLCalibration",
    "CategoricalCalibration": "tfl.layers.CategoricalCalibration",
    "CategoricalCalibrationConstraints": "tfl.categorical_calibration_layer.CategoricalCalibrationConstraints",
    "KroneckerFactoredLattice": "tfl.layers.KroneckerFactoredLattice",
    "LatticeLaplacian": "tfl.lattice_layer.LaplacianRegularizer",
    "LatticeTorsion": "tfl.lattice_layer.TorsionRegularizer",
    "PWLLaplacian": "tfl.pwl_calibration_layer.LaplacianRegularizer",
    "PWLHessian": "tfl.pwl_calibration_layer.HessianRegularizer",
    "PWLWrinkle": "tfl.pwl_calibration_layer.WrinkleRegularizer",
    "CDF": "tfl.layers.CDF",
    "RTL": "tfl.layers.RTL",
    "ParallelCombination": "tfl.layers.ParallelCombination",
    "Aggregation": "tfl.layers.Aggregation",
    "premade": "tfl.premade/<configs>",
    "verify_config": "tfl.premade_lib.verify_config/<configs>",
}


def call_str(desc, kw=None):
  kw = dec(kw if kw is not None else desc["kw"])
  args = ", ".join("%s=%r" % (k, v) for k, v in kw.items())
  extra = {k: v for k, v in desc.items() if k not in ("kind", "kw", "syn", "tag")}
  return "%s(%s)  [%s]" % (CTOR_NAME[desc["kind"]], args, ", ".join("%s=%r" % kv for kv in sorted(extra.items())))


# ----------------------------------------------------------------------------
# Generators (structured, mostly valid; every description is JSON)
# ----------------------------------------------------------------------------
MONO_SP = {1: ["increasing", "Increasing", "INCREASING"], 0: ["none", "None"], -1: ["decreasing", "Decreasing"]}
UNI_SP = {1: ["valley", "Valley"], -1: ["peak", "PEAK"], 0: ["none", "NONE"]}
DIR_SP = {1: ["positive", "Positive"], -1: ["negative", "NEGATIVE"]}
CONV_SP = {1: ["convex", "Convex"], -1: ["concave", "CONCAVE"], 0: ["none", "None"]}


def wchoice(rng, pairs):
  tot = sum(w for _, w in pairs)
  x = rng.random() * tot
  for v, w in pairs:
    x -= w
    if x <= 0:
      return v
  return pairs[-1][0]


FLOAT_SPELLING = 0.06


def spell(rng, table, v, mode):
  """mode: 'int' | 'str' | 'mix'.  In 'mix' mode an int is occasionally written as the float that equals it
  (1 -> 1.0): `1.0 in [-1, 0, 1]` is True in Python, the canonicalisers accept and return it."""
  if v not in table or mode == "int" or (mode == "mix" and rng.random() < 0.5):
    if mode == "mix" and v in table and isinstance(v, int) and rng.random() < FLOAT_SPELLING:
      return float(v)
    return v
  return rng.choice(table[v])


def bounds_combo(rng, valid=False):
  a = rng.randint(-8, 8) / 4.0
  z = 0 if valid else 1
  return wchoice(rng, [((None, None), 4), ((a, a + rng.choice([0.5, 1.0, 3.0])), 4), ((a, a), z),
                       ((a + 1.0, a), z), ((min(a, 0.5), None), 1.5), ((None, max(a, 0.5)), 1.5),
                       ((None, -abs(a)), 0.5 * z), ((1.0 + abs(a), None), 0.5 * z)])


def reg_amount(rng, rank, valid=False):
  z = 0 if valid else 1
  return wchoice(rng, [
      (rng.choice([0.0, 0.5, 1.0]), 4), (1, 1),
      ([rng.choice([0.0, 0.25, 1.0]) for _ in range(rank)], 2),
      (T(*[rng.choice([0.0, 0.25, 1.0]) for _ in range(rank)]), 2),
      ([0.5] * (rank + 1), z), (T(*([0.5] * (rank + 1))), 0.7 * z), ([0.5] * max(rank - 1, 0), z),
      (T(*([0.5] * max(rank - 1, 0))), 0.7 * z)])


def respell_list(rng, table, ints, mode):
  return [spell(rng, table, v, mode) for v in ints]


def _one_joint_group_covers_all(kw, rank):
  ju = kw.get("joint_unimodalities")
  if isinstance(ju, dict):      # single tuple form
    ju = [ju]
  if not isinstance(ju, list) or len(ju) != 1:
    return False
  try:
    dims = _untuple(_untuple(ju[0])[0])
    return set(dims) == set(range(rank))
  except Exception:  # pylint: disable=broad-except
    return False


def pair_list3(rng, pool, cyclic=None):
  """Three or more (dominant, weak) pairs over >= 3 distinct dimensions of pool: an acyclic chain with its
  transitive pair (a,b),(b,c),(a,c) [+ (c,d)], or a cycle (a,b),(b,c),(c,a) [4-cycle].  No pair is the reverse of
  another one (verify_hyperparameters only rejects self pairs and 2-cycles)."""
  k = 4 if len(pool) >= 4 and rng.random() < 0.3 else 3
  ds = rng.sample(pool, k)
  if cyclic is None:
    cyclic = rng.random() < 0.5
  if cyclic:
    ps = [(ds[i], ds[(i + 1) % k]) for i in range(k)]
  else:
    ps = [(ds[0], ds[1]), (ds[1], ds[2]), (ds[0], ds[2])] + ([(ds[2], ds[3])] if k == 4 else [])
    if rng.random() < 0.2:
      ps.append(rng.choice(ps))   # a duplicate of one pair
  rng.shuffle(ps)
  return ps, cyclic


def gen_lattice(rng, layer, force_valid=False):
  valid = force_valid or rng.random() < 0.55   # mostly-valid stream: every deliberately invalid option switched off

  def iw(w):
    return 0 if valid else w
  rank = wchoice(rng, [(1, 1), (2, 3), (3, 2)])
  sizes = [wchoice(rng, [(2, 5), (3, 4), (1, iw(0.5)), (0, iw(0.1))]) for _ in range(rank)]
  kw = {"lattice_sizes": T(*sizes) if rng.random() < 0.2 else sizes}
  syn = {}
  # monotonicities
  ms = [wchoice(rng, [(1, 6), (0, 4)]) for _ in range(rank)]
  if rank >= 3 and rng.random() < 0.3:
    ms = [1] * rank      # >= 3 monotone dimensions: room for dominance lists of three and more pairs
  mmode = wchoice(rng, [("none", 2), ("valid", 7), ("short", iw(0.4)), ("long", iw(0.3)), ("bad", iw(0.5)),
                        ("empty", 0.3)])
  if mmode == "none":
    ms_eff = None
  elif mmode == "valid":
    ms_eff = ms
    kw["monotonicities"] = respell_list(rng, MONO_SP, ms, "mix")
    syn["monotonicities"] = respell_list(rng, MONO_SP, ms, "str" if rng.random() < 0.7 else "int")
    if rng.random() < 0.2:
      kw["monotonicities"] = T(*kw["monotonicities"])
  elif mmode == "short":
    ms_eff = None
    kw["monotonicities"] = ms[:-1] if rank > 1 else [1, 1]
  elif mmode == "long":
    ms_eff = None
    kw["monotonicities"] = ms + [0]
  elif mmode == "bad":
    ms_eff = None
    bad = list(ms)
    bad[rng.randrange(rank)] = rng.choice([-1, "decreasing", 2, "up", "incr"])
    kw["monotonicities"] = bad
  else:
    ms_eff = None
    kw["monotonicities"] = []
  mono_dims = [i for i in range(rank) if ms_eff and ms_eff[i] == 1]
  free_dims = [i for i in range(rank) if not (ms_eff and ms_eff[i] == 1)]

  def anydim():
    return rng.choice(list(range(rank)) + ([] if valid else [-1, rank]))
  # unimodalities
  if rng.random() < 0.35:
    us = []
    for i in range(rank):
      if (i in mono_dims or sizes[i] < 3) and (valid or rng.random() < 0.85):
        us.append(0)
      else:
        us.append(wchoice(rng, [(0, 3), (1, 3), (-1, 3), (2, iw(0.3))]))
    if rng.random() < iw(0.08):
      us = us + [0]
    kw["unimodalities"] = respell_list(rng, UNI_SP, us, "mix")
    syn["unimodalities"] = respell_list(rng, UNI_SP, us, "str")
    if rng.random() < 0.15:
      kw["unimodalities"] = T(*kw["unimodalities"])
  # trusts
  for name in ("edgeworth_trusts", "trapezoid_trusts"):
    if rng.random() < 0.6 or (valid and not (mono_dims and rank > 1)):
      continue
    ts, ts_syn = [], []
    for _ in range(wchoice(rng, [(1, 3), (2, 1)])):
      if mono_dims and rank > 1 and (valid or rng.random() < 0.8):
        main = rng.choice(mono_dims)
        cond = rng.choice([i for i in range(rank) if i != main])
      else:
        main, cond = anydim(), anydim()
      d = wchoice(rng, [(1, 5), (-1, 5), (0, iw(0.3)), ("up", iw(0.3))])
      d1 = spell(rng, DIR_SP, d, "mix")
      d2 = spell(rng, DIR_SP, d, "str")
      ts.append([main, cond, d1] if rng.random() < 0.25 else T(main, cond, d1))
      ts_syn.append([main, cond, d2] if rng.random() < 0.5 else T(main, cond, d2))
    form = wchoice(rng, [("list", 8), ("single", 1.5 if len(ts) == 1 and layer else 0),
                         ("tuple", 0.6), ("empty", 0.4), ("emptytuple", 0.2)])
    if form == "list":
      kw[name] = ts
      syn[name] = ts_syn
      if layer and len(ts) == 1 and "t" in ts_syn[0] and rng.random() < 0.5:
        syn[name] = ts_syn[0]          # single tuple == one-element list
    elif form == "single":
      kw[name] = ts[0] if isinstance(ts[0], dict) else T(*ts[0])
      syn[name] = [ts_syn[0]]
    elif form == "tuple":
      kw[name] = T(*ts)
      syn[name] = ts_syn
    elif form == "empty":
      kw[name] = []
    else:
      kw[name] = T()
  # dominances and joint monotonicities
  for name, p in (("monotonic_dominances", 0.25), ("range_dominances", 0.2), ("joint_monotonicities", 0.2)):
    pool = list(range(rank)) if name == "joint_monotonicities" else mono_dims
    if rng.random() > p or (valid and len(pool) < 2):
      continue
    ps = []
    if len(pool) >= 3 and rng.random() < 0.5:
      # three or more pairs, acyclic or a cycle of length >= 3 (accepted by verify_hyperparameters)
      ps = [T(a, b) for a, b in pair_list3(rng, pool)[0]]
    else:
      for _ in range(wchoice(rng, [(1, 3), (2, 1)])):
        if len(pool) >= 2 and (valid or rng.random() < 0.8):
          a, b = rng.sample(pool, 2)
        else:
          a, b = anydim(), anydim()
        if rng.random() < iw(0.05):
          ps.append(T(a, b, 0))
        else:
          ps.append([a, b] if rng.random() < 0.2 else T(a, b))
    form = wchoice(rng, [("list", 8), ("single", 1.5 if len(ps) == 1 and layer else 0),
                         ("tuple", 0.5), ("empty", 0.4), ("emptytuple", 0.2)])
    if form == "list":
      kw[name] = ps
      if layer and len(ps) == 1 and "t" in ps[0]:
        syn[name] = ps[0]
    elif form == "single":
      kw[name] = ps[0] if isinstance(ps[0], dict) else T(*ps[0])
      syn[name] = [kw[name]]
    elif form == "tuple":
      kw[name] = T(*ps)
      syn[name] = ps
    elif form == "empty":
      kw[name] = []
    else:
      kw[name] = T()
  # joint unimodalities
  jpool = [i for i in free_dims if sizes[i] >= 3 and not kw.get("unimodalities")]
  if rng.random() < 0.15 and (jpool or not valid):
    cs = []
    for _ in range(wchoice(rng, [(1, 4), (2, iw(1))])):
      pool = jpool
      if pool and (valid or rng.random() < 0.8):
        dims = rng.sample(pool, rng.randint(1, len(pool)))
      else:
        dims = [anydim() for _ in range(rng.randint(1, 2))]
      direction = wchoice(rng, [("valley", 3), ("peak", 3), ("Valley", 1), ("PEAK", 1), ("none", iw(0.4)),
                                (1, iw(0.3))])
      cs.append(T(dims if rng.random() < 0.7 else T(*dims), direction))
    if len(cs) == 1 and layer and rng.random() < 0.4:
      kw["joint_unimodalities"] = cs[0]
      syn["joint_unimodalities"] = [cs[0]]
    else:
      kw["joint_unimodalities"] = cs
  lo, hi = bounds_combo(rng, valid)
  if lo is not None:
    kw["output_min"] = lo
  if hi is not None:
    kw["output_max"] = hi
  kw["num_projection_iterations"] = rng.choice([0, 1, 3])
  desc = {"wseed": rng.randrange(10 ** 6)}
  if layer:
    # (units=0 is a ValueError at build, except with one joint unimodality over all features: built by the
    # random_uniform fall-back, the first projection then fails - known finding D48, class zero_sized_argument)
    kw["units"] = wchoice(rng, [(1, 2), (2, 1), (0, iw(0.12)), (-1, iw(0.15))])
    kw["interpolation"] = wchoice(rng, [("hypercube", 6), ("simplex", 3), ("Hypercube", iw(0.3)), ("cubic", iw(0.3))])
    kw["monotonic_at_every_step"] = rng.random() < 0.7
    if rng.random() < 0.2:
      kw["clip_inputs"] = False
    if rng.random() < 0.3:
      regs = [T(rng.choice(["torsion", "laplacian", "Laplacian", "TORSION"]), reg_amount(rng, rank, valid),
                reg_amount(rng, rank, valid)) for _ in range(wchoice(rng, [(1, 3), (2, 1)]))]
      if rng.random() < iw(0.03):
        regs = [T("l3", 0.1, 0.1)]
      kw["kernel_regularizer"] = regs[0] if len(regs) == 1 and rng.random() < 0.5 else regs
      if isinstance(kw["kernel_regularizer"], list) and rng.random() < 0.25:
        kw["kernel_regularizer"] = T(*regs)      # a tuple of regulariser tuples is iterated like the list
      elif rng.random() < 0.08:
        kw["kernel_regularizer"] = T()           # the empty tuple: falsy, no regulariser
    elif rng.random() < 0.03:
      kw["kernel_regularizer"] = rng.choice(["l1", "l2"])
    desc["kind"] = "Lattice"
  else:
    kw["enforce_strict_monotonicity"] = rng.random() < 0.6
    desc["units"] = wchoice(rng, [(1, 2), (2, 1)])
    desc["kind"] = "LatticeConstraints"
  desc["kw"] = kw
  full_syn = dict(kw)
  full_syn.update(syn)
  if syn and json.dumps(full_syn, sort_keys=True) != json.dumps(kw, sort_keys=True) and rng.random() < 0.5:
    desc["syn"] = full_syn
  return desc


def gen_linear(rng, layer, force_valid=False):
  n = rng.randint(1, 3)
  ms = [wchoice(rng, [(1, 5), (0, 2), (-1, 2)]) for _ in range(n)]
  many = rng.random() < 0.12     # a dominance list of three or more pairs (needs >= 3 features of one direction)
  if many:
    n = rng.choice([3, 3, 4])
    ms = [rng.choice([1, 1, -1])] * n if rng.random() < 0.5 else [1] * n
  kw, syn = {}, {}
  desc = {"wseed": rng.randrange(10 ** 6), "n": n}
  valid = force_valid or rng.random() < 0.5

  def iw(w):
    return 0 if valid else w
  mmode = wchoice(rng, [("list", 8), ("scalar", 1.0 if layer else 0), ("none", 1 if layer else iw(1)),
                        ("bad", iw(0.4)), ("wronglen", iw(0.4)), ("empty", iw(0.2))])
  if many:
    mmode = "list"
  if mmode == "list":
    kw["monotonicities"] = respell_list(rng, MONO_SP, ms, "mix")
    syn["monotonicities"] = respell_list(rng, MONO_SP, ms, "str")
    if rng.random() < 0.2:
      kw["monotonicities"] = T(*kw["monotonicities"])
  elif mmode == "scalar":
    ms = [ms[0]] * n
    kw["monotonicities"] = spell(rng, MONO_SP, ms[0], "mix")
    syn["monotonicities"] = respell_list(rng, MONO_SP, ms, "str")
  elif mmode == "none":
    kw["monotonicities"] = None
    ms = [0] * n
  elif mmode == "bad":
    bad = list(ms)
    bad[rng.randrange(n)] = rng.choice([2, "up", "positive"])
    kw["monotonicities"] = bad
  elif mmode == "wronglen":
    kw["monotonicities"] = ms + [1]
  else:
    kw["monotonicities"] = []
  inc = [i for i in range(n) if ms[i] == 1]

  def anydim():
    return rng.choice(list(range(n)) + ([] if valid else [-1, n]))
  used = set()
  many_kind = None
  if many:
    # monotonic dominances need increasing features; range dominances any common direction
    many_kind = "mdom" if (ms[0] == 1 and rng.random() < 0.6) else "rdom"
    ps3, cyc = pair_list3(rng, list(range(n)))
    desc["many_pairs"] = "%s_%s" % (many_kind, "cycle" if cyc else "acyclic")
    ps3 = [T(a, b) if rng.random() < 0.85 else [a, b] for a, b in ps3]
    if many_kind == "mdom":
      kw["monotonic_dominances"] = ps3 if rng.random() < 0.85 else T(*ps3)
      used.update(range(n))
  if many:
    pass
  elif rng.random() < 0.35 and (len(inc) >= 2 or not valid) and mmode in ("list", "scalar", "bad", "wronglen") + (
      () if valid else ("none", "empty")):
    ps = []
    for _ in range(wchoice(rng, [(1, 3), (2, iw(1))])):
      if len(inc) >= 2 and (valid or rng.random() < 0.85):
        a, b = rng.sample(inc, 2)
      else:
        a, b = anydim(), anydim()
      used.update([a, b])
      ps.append(T(a, b, 1) if rng.random() < iw(0.04) else (T(a, b) if rng.random() < 0.8 else [a, b]))
    kw["monotonic_dominances"] = wchoice(rng, [(ps, 8), ([], 0.5), (T(*ps), 0.5)])
  same = [(a, b) for a in range(n) for b in range(n)
          if a != b and ms[a] == ms[b] and ms[a] != 0 and not (valid and (a in used or b in used))]
  want_range = rng.random() < 0.4 and (same or not valid) and mmode in ("list", "scalar", "bad", "wronglen") + (
      () if valid else ("none", "empty"))
  rused = set()
  if many:
    want_range = many_kind == "rdom"
    if want_range:
      kw["range_dominances"] = ps3 if rng.random() < 0.85 else T(*ps3)
      rused.update(range(n))
      valid = True      # (every feature needs a proper input range)
  elif want_range:
    ps = []
    for _ in range(wchoice(rng, [(1, 3), (2, iw(1))])):
      if same and (valid or rng.random() < 0.85):
        a, b = rng.choice(same)
      else:
        a, b = anydim(), anydim()
      rused.update([a, b])
      ps.append(T(a, b) if rng.random() < 0.8 else [a, b])
    kw["range_dominances"] = wchoice(rng, [(ps, 8), ([], 0.5), (T(*ps), 0.5)])
  if want_range or rng.random() < 0.4:
    lo, hi = [], []
    for i in range(n):
      a = rng.randint(-8, 8) / 4.0
      inr = valid and i in rused
      l, h = wchoice(rng, [((a, a + rng.choice([0.5, 1.0, 2.0])), 8), ((a, a), 0 if inr else 1),
                           ((a + 1.0, a), iw(0.5)),
                           ((None, a), 0 if inr else 0.7), ((a, None), 0 if inr else 0.7),
                           ((None, None), 0 if inr else 0.7), (("none", "None"), 0 if inr else 0.5),
                           ((int(a), int(a) + 1), iw(0.2))])
      lo.append(l)
      hi.append(h)
    form = wchoice(rng, [("both", 8), ("minonly", 0 if (valid and rused) else 0.7),
                         ("maxonly", 0 if (valid and rused) else 0.7), ("short", iw(0.4)), ("tuple", 0.7)])
    if form in ("both", "minonly", "short", "tuple"):
      kw["input_min"] = lo
    if form in ("both", "maxonly", "short", "tuple"):
      kw["input_max"] = hi
    if form == "short" and n > 1:
      kw["input_min"] = lo[:-1]
      kw["input_max"] = hi[:-1]
    if form == "tuple":
      kw["input_min"] = T(*lo)
      kw["input_max"] = T(*hi)
  if rng.random() < 0.3:
    kw["normalization_order"] = rng.choice([1, 2])
  if layer:
    kw["num_input_dims"] = n
    kw["units"] = wchoice(rng, [(1, 2), (2, 1), (-1, iw(0.2)), (-2, iw(0.05))])
    kw["use_bias"] = rng.random() < 0.7
    if rng.random() < 0.04:
      kw["kernel_regularizer"] = rng.choice(["l1", "l2"])
    desc["kind"] = "Linear"
  else:
    desc["units"] = wchoice(rng, [(1, 2), (2, 1)])
    desc["kind"] = "LinearConstraints"
    if "monotonicities" not in kw:
      kw["monotonicities"] = None
    if mmode == "wronglen":
      desc["n"] = n + 1
  desc["kw"] = kw
  full_syn = dict(kw)
  full_syn.update(syn)
  if syn and json.dumps(full_syn, sort_keys=True) != json.dumps(kw, sort_keys=True) and rng.random() < 0.5:
    desc["syn"] = full_syn
  return desc


def gen_pwl(rng, force_valid=False):
  k = wchoice(rng, [(2, 3), (3, 3), (4, 2), (5, 1)])
  start = rng.randint(-8, 8) / 4.0
  ks = [start]
  for _ in range(k - 1):
    ks.append(ks[-1] + rng.choice([0.25, 0.5, 1.0, 2.0]))
  valid = force_valid or rng.random() < 0.5

  def iw(w):
    return 0 if valid else w
  kmode = wchoice(rng, [("sorted", 10), ("unsorted", iw(0.6)), ("short", iw(0.4)), ("empty", iw(0.2)),
                        ("dup", iw(0.6)), ("ints", 0.5), ("none", iw(0.2))])
  if kmode == "unsorted":
    ks = ks[::-1] if k > 1 else ks
    if k > 2 and rng.random() < 0.5:
      ks = [ks[1], ks[0]] + ks[2:]
  elif kmode == "short":
    ks = ks[:1]
  elif kmode == "empty":
    ks = []
  elif kmode == "dup":
    i = rng.randrange(k - 1)
    ks[i + 1] = ks[i]
  elif kmode == "ints":
    ks = list(range(int(start), int(start) + k))
  kw = {"input_keypoints": None if kmode == "none" else (T(*ks) if rng.random() < 0.2 else ks)}
  syn = {}
  # (units=0 raises InvalidArgumentError at build: known finding D48, class zero_sized_argument)
  kw["units"] = wchoice(rng, [(1, 2), (2, 1), (-1, iw(0.12)), (-2, iw(0.04)), (0, iw(0.08))])
  lo, hi = bounds_combo(rng, valid)
  if lo is not None:
    kw["output_min"] = lo
  if hi is not None:
    kw["output_max"] = hi
  kw["clamp_min"] = rng.random() < 0.3
  kw["clamp_max"] = rng.random() < 0.3
  m = wchoice(rng, [(0, 4), (1, 4), (-1, 3)])
  c = wchoice(rng, [(0, 5), (1, 2.5), (-1, 2.5)])
  kw["monotonicity"] = wchoice(rng, [(spell(rng, MONO_SP, m, "mix"), 20), (None, iw(0.5)), ("up", iw(0.5)),
                                     (2, iw(0.3))])
  kw["convexity"] = wchoice(rng, [(spell(rng, CONV_SP, c, "mix"), 20), (None, iw(0.5)), ("flat", iw(0.5)),
                                  (2, iw(0.3))])
  if kw["monotonicity"] in (m,) + tuple(MONO_SP[m]):
    syn["monotonicity"] = spell(rng, MONO_SP, m, "str") if isinstance(kw["monotonicity"], int) else m
  if kw["convexity"] in (c,) + tuple(CONV_SP[c]):
    syn["convexity"] = spell(rng, CONV_SP, c, "str") if isinstance(kw["convexity"], int) else c
  kw["is_cyclic"] = rng.random() < (0.5 if (m == 0 and c == 0) else iw(0.12))
  kw["num_projection_iterations"] = rng.choice([0, 1, 8])
  kw["kernel_initializer"] = rng.choice(["equal_heights", "equal_slopes"])
  if rng.random() < 0.3:
    regs = [T(rng.choice(["laplacian", "hessian", "wrinkle", "Hessian"]), rng.choice([0.0, 0.5, 1]),
              rng.choice([0.0, 0.25])) for _ in range(wchoice(rng, [(1, 3), (2, 1)]))]
    if rng.random() < iw(0.04):
      regs = [T("torsion", 0.1, 0.1)]
    kw["kernel_regularizer"] = regs[0] if len(regs) == 1 and rng.random() < 0.5 else regs
  elif rng.random() < 0.03:
    kw["kernel_regularizer"] = rng.choice(["l1", "l2"])
  if rng.random() < 0.3:
    kw["impute_missing"] = valid or rng.random() < 0.8
    if rng.random() < 0.5:
      kw["missing_input_value"] = -100.0
    if rng.random() < 0.4:
      kw["missing_output_value"] = 0.5
  kw["input_keypoints_type"] = wchoice(rng, [("fixed", 8), ("learned_interior", 1.5 if (c == 0 or not valid) else 0),
                                             ("learned", iw(0.4)), (None, iw(0.4))])
  if rng.random() < 0.25:
    kw["split_outputs"] = True
  desc = {"kind": "PWLCalibration", "kw": kw, "wseed": rng.randrange(10 ** 6)}
  full_syn = dict(kw)
  full_syn.update(syn)
  if syn and json.dumps(full_syn, sort_keys=True) != json.dumps(kw, sort_keys=True) and rng.random() < 0.5:
    desc["syn"] = full_syn
  return desc


def gen_pwl_constraints(rng):
  n = rng.randint(2, 5)
  lengths = [rng.choice([0.25, 0.5, 1.0, 2.0]) for _ in range(n - 1)]
  m = wchoice(rng, [(0, 3), (1, 4), (-1, 3)])
  c = wchoice(rng, [(0, 5), (1, 2.5), (-1, 2.5)])
  lo, hi = bounds_combo(rng)
  kw = {"monotonicity": spell(rng, MONO_SP, m, "mix"), "convexity": spell(rng, CONV_SP, c, "mix"),
        "lengths": lengths, "output_min": lo, "output_max": hi,
        "output_min_constraints": "NONE" if lo is None else rng.choice(["BOUND", "CLAMPED"]),
        "output_max_constraints": "NONE" if hi is None else rng.choice(["BOUND", "CLAMPED"]),
        "num_projection_iterations": rng.choice([0, 1, 4, 8])}
  desc = {"kind": "PWLCalibrationConstraints", "kw": kw, "n": n, "units": wchoice(rng, [(1, 2), (2, 1)]),
          "wseed": rng.randrange(10 ** 6)}
  syn = dict(kw)
  syn["monotonicity"] = spell(rng, MONO_SP, m, "str") if isinstance(kw["monotonicity"], int) else m
  syn["convexity"] = spell(rng, CONV_SP, c, "str") if isinstance(kw["convexity"], int) else c
  if rng.random() < 0.4:
    desc["syn"] = syn
  return desc


def gen_categorical(rng, layer, force_valid=False):
  valid = force_valid or rng.random() < 0.5

  def iw(w):
    return 0 if valid else w
  nb = wchoice(rng, [(1, 0.7), (2, 3), (3, 4), (4, 2), (0, iw(0.2)), (-1, iw(0.2) if layer else 0)])
  kw = {}
  lo, hi = bounds_combo(rng, valid)
  if lo is not None:
    kw["output_min"] = lo
  if hi is not None:
    kw["output_max"] = hi

  def anyb():
    return rng.choice(list(range(max(nb, 1))) + [-1, nb])
  if rng.random() < 0.6 and (nb >= 2 or not valid):
    ps = []
    for _ in range(wchoice(rng, [(1, 3), (2, 2), (3, 1)])):
      if nb >= 2 and (valid or rng.random() < 0.8):
        a, b = sorted(rng.sample(range(nb), 2)) if valid else rng.sample(range(nb), 2)
      else:
        a, b = anyb(), anyb()
      ps.append(wchoice(rng, [(T(a, b), 6), ([a, b], 2), (T(a, b, 0), iw(0.2)), (T(a), iw(0.1))]))
    kw["monotonicities"] = wchoice(rng, [(ps, 10), (T(*ps), iw(0.6)), ([], 0.5), (T(), 0.3)])
  desc = {"wseed": rng.randrange(10 ** 6)}
  if layer:
    kw["num_buckets"] = nb
    kw["units"] = wchoice(rng, [(1, 2), (2, 1), (-1, iw(0.2))])
    kw["kernel_initializer"] = rng.choice(["uniform", "constant"])
    if rng.random() < 0.3:
      kw["default_input_value"] = -1
    if rng.random() < 0.2:
      kw["split_outputs"] = True
    if rng.random() < 0.04:
      kw["kernel_regularizer"] = rng.choice(["l1", "l2"])
    desc["dtype"] = rng.choice(["float32", "float64"])
    desc["kind"] = "CategoricalCalibration"
  else:
    desc["n"] = max(nb, 1)
    desc["units"] = wchoice(rng, [(1, 2), (2, 1)])
    desc["kind"] = "CategoricalCalibrationConstraints"
  desc["kw"] = kw
  return desc


def gen_kfl(rng, force_valid=False):
  d = rng.randint(1, 3)
  valid = force_valid or rng.random() < 0.5

  def iw(w):
    return 0 if valid else w
  kw = {"lattice_sizes": wchoice(rng, [(2, 5), (3, 4), (1, iw(0.6)), (0, iw(0.25)), (-1, iw(0.1))]),
        "units": wchoice(rng, [(1, 5), (2, 3), (0, iw(0.2))]),
        "num_terms": wchoice(rng, [(1, 2), (2, 4), (3, 1), (0, iw(0.2))])}
  ms = [wchoice(rng, [(1, 5), (0, 4)]) for _ in range(d)]
  syn = {}
  mmode = wchoice(rng, [("none", 3), ("valid", 7), ("wronglen", iw(0.6)), ("bad", iw(0.6)), ("empty", 0.3)])
  if mmode == "valid":
    kw["monotonicities"] = respell_list(rng, MONO_SP, ms, "mix")
    syn["monotonicities"] = respell_list(rng, MONO_SP, ms, "str")
    if rng.random() < 0.2:
      kw["monotonicities"] = T(*kw["monotonicities"])
  elif mmode == "wronglen":
    kw["monotonicities"] = ms + [1]
  elif mmode == "bad":
    bad = list(ms)
    bad[rng.randrange(d)] = rng.choice([-1, "decreasing", 2, "up"])
    kw["monotonicities"] = bad
  elif mmode == "empty":
    kw["monotonicities"] = []
  lo, hi = bounds_combo(rng, valid)
  if lo is not None:
    kw["output_min"] = lo
  if hi is not None:
    kw["output_max"] = hi
  if rng.random() < 0.2:
    kw["clip_inputs"] = False
  desc = {"kind": "KroneckerFactoredLattice", "kw": kw, "dims": d, "wseed": rng.randrange(10 ** 6),
          "dtype": rng.choice(["float32", "float64"])}
  full_syn = dict(kw)
  full_syn.update(syn)
  if syn and json.dumps(full_syn, sort_keys=True) != json.dumps(kw, sort_keys=True) and rng.random() < 0.4:
    desc["syn"] = full_syn
  return desc


def gen_lattice_reg(rng):
  rank = rng.randint(1, 3)
  sizes = [rng.choice([2, 3]) for _ in range(rank)]
  if rng.random() < 0.05:
    sizes[rng.randrange(rank)] = 1
  kw = {"lattice_sizes": T(*sizes) if rng.random() < 0.3 else sizes,
        "l1": reg_amount(rng, rank), "l2": reg_amount(rng, rank)}
  return {"kind": rng.choice(["LatticeLaplacian", "LatticeTorsion"]), "kw": kw,
          "units": wchoice(rng, [(1, 1), (2, 1), (3, 0.5)]), "wseed": rng.randrange(10 ** 6)}


def gen_pwl_reg(rng):
  kw = {"l1": rng.choice([0.0, 0.5, 1]), "l2": rng.choice([0.0, 0.25, 2]), "is_cyclic": rng.random() < 0.3}
  return {"kind": rng.choice(["PWLLaplacian", "PWLHessian", "PWLWrinkle"]), "kw": kw, "n": rng.randint(1, 5),
          "units": wchoice(rng, [(1, 1), (2, 1)]), "wseed": rng.randrange(10 ** 6)}


def gen_cdf(rng, force_valid=False):
  valid = force_valid or rng.random() < 0.45

  def iw(w):
    return 0 if valid else w
  # (a negative sparsity_factor with a negative units passes build and fails in call(): reported, not generated)
  sf = wchoice(rng, [(1, 5), (2, 3), (3, 1), (0, iw(0.2))])
  mult = max(abs(sf), 1)
  units = wchoice(rng, [(mult, 3), (2 * mult, 2), (4, iw(1)), (1, iw(1)), (3, iw(0.5)), (0, iw(0.15)),
                        (-2, iw(0.2)), (-1, iw(0.1))])
  dims = wchoice(rng, [(mult, 3), (2 * mult, 2), (1, iw(1)), (2, iw(1)), (4, iw(0.7)), (3, iw(0.5))])
  kw = {"num_keypoints": wchoice(rng, [(1, 1), (2, 2), (5, 2), (0, iw(0.2)), (-1, iw(0.2))]),
        "units": units,
        "activation": wchoice(rng, [("relu6", 4), ("sigmoid", 4), ("tanh", iw(0.5)), ("Relu6", iw(0.2))]),
        "reduction": wchoice(rng, [("mean", 4), ("geometric_mean", 3), ("none", 2), ("sum", iw(0.5)),
                                   ("Mean", iw(0.2))]),
        "input_scaling_type": wchoice(rng, [("fixed", 3), ("learned_shared", 3), ("learned_per_input", 3),
                                             ("learned", iw(0.5)), ("Fixed", iw(0.2))]),
        "input_scaling_monotonicity": wchoice(rng, [("increasing", 3), (1, 2), ("Increasing", 1), ("none", 2), (0, 1),
                                                     ("decreasing", 0.5), (-1, 0.3), ("up", iw(0.4)), (2, iw(0.3)),
                                                     (None, 0.2)]),
        "sparsity_factor": sf}
  if rng.random() < 0.3:
    kw["input_scaling_init"] = rng.choice([2.0, 0.5, 1])
  if rng.random() < 0.25:
    kw["kernel_initializer"] = wchoice(rng, [("random_uniform", 3), ("RandomUniform", 1), ("zeros", 1),
                                             ("uniform_random", iw(1)), ("linear_initializer", iw(0.5))])
  return {"kind": "CDF", "kw": kw, "dims": dims, "wseed": rng.randrange(10 ** 6)}


def inject_cdf_defect(rng, desc):
  """Breaks exactly one rule of CDF.__init__ / build (or one of the two options
  that only call() checks, finding D49)."""
  kw = desc["kw"]
  sf = kw["sparsity_factor"]
  d = rng.choice(["dims_not_multiple", "units_not_multiple", "units_not_multiple", "keypoints_negative",
                  "units_negative", "scaling_type", "mono_bad", "initializer", "activation", "reduction"])
  desc["defect"] = d
  if d == "dims_not_multiple":
    kw["sparsity_factor"] = sf = max(sf, 2)
    kw["units"] = sf * rng.choice([1, 2])
    desc["dims"] = sf * rng.choice([1, 2]) + rng.randint(1, sf - 1)
  elif d == "units_not_multiple":
    kw["sparsity_factor"] = sf = max(sf, 2)
    desc["dims"] = sf * rng.choice([1, 2])
    kw["units"] = sf * rng.choice([0, 1, 2]) + rng.randint(1, sf - 1)
  elif d == "keypoints_negative":
    kw["num_keypoints"] = rng.choice([-1, -3])
  elif d == "units_negative":
    kw["units"] = -sf * rng.choice([1, 2])
  elif d == "scaling_type":
    kw["input_scaling_type"] = rng.choice(["learned", "Fixed", "per_input", "none"])
  elif d == "mono_bad":
    kw["input_scaling_monotonicity"] = rng.choice(["up", 2, "positive", -2, "convex"])
  elif d == "initializer":
    kw["kernel_initializer"] = rng.choice(["uniform_random", "linear_initializer", "foo"])
  elif d == "activation":
    kw["activation"] = rng.choice(["tanh", "Relu6", "relu", "SIGMOID"])
  else:
    kw["reduction"] = rng.choice(["sum", "Mean", "max", "None"])
  return desc


_RTL_LATTICE_INITS = ["random_monotonic_initializer", "linear_initializer", "LinearInitializer",
                      "RandomMonotonicInitializer", "random_uniform_or_linear_initializer"]


def gen_rtl(rng, force_valid=False):
  valid = force_valid or rng.random() < 0.45

  def iw(w):
    return 0 if valid else w
  inp = wchoice(rng, [({"unconstrained": rng.randint(1, 3), "increasing": rng.randint(1, 3)}, 5),
                      ({"unconstrained": rng.randint(1, 4)}, 2), ({"increasing": rng.randint(1, 4)}, 2),
                      (rng.randint(1, 4), 1)])
  n_in = sum(inp.values()) if isinstance(inp, dict) else inp
  rank = wchoice(rng, [(1, 1), (2, 4), (3, 1.5), (0, iw(0.1))])
  need = -(-n_in // max(rank, 1))
  num = wchoice(rng, [(need, 3), (need + 1, 2), (need + 2, 1), (max(need - 1, 0), iw(1.5)), (1, iw(0.7)),
                      (0, iw(0.2))])
  kw = {"num_lattices": num, "lattice_rank": rank,
        "lattice_size": wchoice(rng, [(2, 6), (3, 2), (1, iw(0.5)), (0, iw(0.1))])}
  lo, hi = bounds_combo(rng, valid)
  kfl = rng.random() < 0.33
  if lo is not None:
    kw["output_min"] = lo
  if hi is not None:
    kw["output_max"] = hi
  kw["interpolation"] = wchoice(rng, [("hypercube", 5), ("simplex", 3), ("linear", iw(0.3)), ("Simplex", iw(0.2))])
  kw["parameterization"] = ("kronecker_factored" if kfl else
                            wchoice(rng, [("all_vertices", 9), ("factored", iw(0.5)), ("All_vertices", iw(0.2))]))
  if kfl:
    kw["kernel_initializer"] = wchoice(rng, [("kfl_random_monotonic_initializer", 5), ("random_uniform", 2),
                                             ("KFLRandomMonotonicInitializer", 1), ("linear_initializer", iw(0.6)),
                                             ("random_monotonic_initializer", iw(0.5)), ("LinearInitializer", iw(0.3)),
                                             ("foo", iw(0.3))])
    kw["num_terms"] = wchoice(rng, [(1, 2), (2, 4), (3, 1), (-1, iw(0.4)), (0, iw(0.1))])
  else:
    kw["kernel_initializer"] = wchoice(rng, [(rng.choice(_RTL_LATTICE_INITS), 7), ("random_uniform", 1.5),
                                             ("RandomUniformOrLinearInitializer", 0.5),
                                             ("kfl_random_monotonic_initializer", iw(0.4)), ("foo", iw(0.3))])
    if rng.random() < 0.15:
      kw["num_terms"] = rng.choice([2, 0, -1])      # ignored by 'all_vertices'
  ranged = (not kfl) and kw["kernel_initializer"] not in ("random_uniform", "foo", "kfl_random_monotonic_initializer")
  if valid and ranged:
    # default_init_params(output_min, output_max) must be a non-empty range
    if lo is None and hi is not None and hi <= 0.0:
      kw["output_max"] = hi = 0.5
    if hi is None and lo is not None and lo >= 1.0:
      kw["output_min"] = lo = 0.5
  im = wchoice(rng, [("none", 8), ("both", 2), ("eq", iw(0.5) if ranged else 0.5), ("gt", iw(0.3) if ranged else 0.3),
                     ("min_only", iw(0.4)), ("max_only", iw(0.4))])
  a = rng.randint(-8, 8) / 4.0
  if im == "both":
    kw["init_min"], kw["init_max"] = a, a + rng.choice([0.5, 1.0])
  elif im == "eq":
    kw["init_min"], kw["init_max"] = a, a
  elif im == "gt":
    kw["init_min"], kw["init_max"] = a + 0.5, a
  elif im == "min_only":
    kw["init_min"] = a
  elif im == "max_only":
    kw["init_max"] = a
  rk = max(rank, 1)
  if rng.random() < (0.3 if not kfl else iw(0.25)):
    kw["kernel_regularizer"] = wchoice(rng, [
        (T("torsion", 0.1, 0.0), 2), (["laplacian", 0.1, 0.1], 2), (T("Laplacian", 1, 0.5), 1),
        ([["torsion", 0.1, 0.0], ["laplacian", 0.5, 0.0]], 1), ([T("torsion", 0.1, 0.0), ["LAPLACIAN", 0.5, 0.25]], 1),
        (T("laplacian", [0.25] * rk, 0.0), 1), (T("torsion", 0.0, T(*([0.5] * rk))), 1), (T("laplacian", [], 0.5), 0.3),
        # a TUPLE of regulariser tuples (rtl_lib inspects lists only; the Lattice layers iterate the tuple)
        (T(T("torsion", 0.1, 0.1)), 1.5), (T(T("torsion", 0.1, 0.0), T("Laplacian", 0.5, 0.25)), 1),
        (T(T("laplacian", 1, 0.5)), 0.7), (T(T("torsion", [0.25] * rk, 0.0), T("laplacian", 0.5, 0)), 0.5), (T(), 1.2),
        (T(T("torsion", 0.1)), iw(0.4)), (T(T("l3", 0.1, 0.1)), iw(0.4)), (T(["torsion", 0.1, 0.1]), iw(0.4)),
        (T(T("torsion", 0.1, 0.0), T("laplacian", [0.25] * (rk + 1), 0.0)), iw(0.4)),
        (T(T("torsion", 0.1, 0.0), ["laplacian", 0.5, 0.0]), iw(0.3)),
        (["torsion", 1, 0.0], iw(0.5)), (["torsion", 0.5, 1], iw(0.5)), (["torsion", 0.1], iw(0.5)),
        ([["torsion", 0.1, 0.0], ["laplacian", 0.5]], iw(0.4)), (["torsion", 0.1, 0.0, 0.0], iw(0.3)),
        (["laplacian", [0.25] * rk, 0.0], iw(0.4)),
        (T("torsion", 0.1), iw(0.4)), (T("torsion", 0.1, 0.1, 0.1), iw(0.3)), (T("l3", 0.1, 0.1), iw(0.4)),
        (["wrinkle", 0.1, 0.1], iw(0.4)), (T("laplacian", [0.25] * (rk + 1), 0.0), iw(0.5)),
        (T("torsion", 0.0, [0.5] * (rk + 1)), iw(0.4))])
  kw["separate_outputs"] = rng.random() < 0.3
  kw["average_outputs"] = rng.random() < 0.3
  kw["avoid_intragroup_interaction"] = rng.random() < 0.7
  kw["monotonic_at_every_step"] = rng.random() < 0.7
  return {"kind": "RTL", "kw": kw, "input": inp, "wseed": rng.randrange(10 ** 6)}


def inject_rtl_defect(rng, desc):
  """Breaks exactly one rule of rtl_lib.verify_hyperparameters / RTL.build."""
  kw = desc["kw"]
  kfl = kw["parameterization"] == "kronecker_factored"
  inp = desc["input"]
  n_in = sum(inp.values()) if isinstance(inp, dict) else inp
  opts = ["size", "bounds_eq", "bounds_gt", "interp", "too_small", "param", "init_pair", "init_unknown"]
  if kfl:
    opts += ["kfl_linear", "kfl_linear", "kfl_reg", "kfl_reg", "kfl_terms", "kfl_terms", "kfl_lattice_init"]
  else:
    opts += ["reg_list_len", "reg_list_l1_int", "reg_list_l2_int", "reg_list_amount_list", "reg_tuple_len",
             "reg_name", "reg_amount_len", "init_range_empty", "init_range_default_empty", "lattice_kfl_init",
             "reg_tuples_entry"]
  d = rng.choice(opts)
  desc["defect"] = d
  rank = kw["lattice_rank"]
  if d == "size":
    kw["lattice_size"] = rng.choice([1, 1, 0, -1])
  elif d in ("bounds_eq", "bounds_gt"):
    kw["output_min"], kw["output_max"] = 0.5, (0.5 if d == "bounds_eq" else 0.25)
  elif d == "interp":
    kw["interpolation"] = rng.choice(["Hypercube", "cubic", "SIMPLEX", "linear"])
  elif d == "too_small":
    # num_lattices * lattice_rank = n_in - 1
    if n_in == 1:
      kw["num_lattices"] = 0
    else:
      kw["lattice_rank"] = 1
      kw["num_lattices"] = n_in - 1
      if isinstance(kw.get("kernel_regularizer"), dict) or kw.get("kernel_regularizer"):
        kw.pop("kernel_regularizer", None)
  elif d == "param":
    kw["parameterization"] = rng.choice(["factored", "All_vertices", "kfl", "kronecker"])
    kw.pop("kernel_regularizer", None)
  elif d == "init_pair":
    kw.pop("init_min", None)
    kw.pop("init_max", None)
    kw[rng.choice(["init_min", "init_max"])] = rng.choice([0.0, 0.5, 1.0])
  elif d == "init_unknown":
    kw["kernel_initializer"] = rng.choice(["foo", "uniform", "Linear_Initializer"])
  elif d == "kfl_linear":
    kw["kernel_initializer"] = "linear_initializer"
  elif d == "kfl_reg":
    kw["kernel_regularizer"] = rng.choice([T("torsion", 0.1, 0.0), ["laplacian", 0.1, 0.1], [["torsion", 0.1, 0.0]],
                                           T(T("torsion", 0.1, 0.0)), T()])
  elif d == "kfl_terms":
    kw["num_terms"] = rng.choice([-1, -2])
  elif d == "kfl_lattice_init":
    kw["kernel_initializer"] = rng.choice(["random_monotonic_initializer", "LinearInitializer",
                                           "RandomMonotonicInitializer"])
  elif d == "reg_list_len":
    kw["kernel_regularizer"] = rng.choice([["torsion", 0.1], ["torsion", 0.1, 0.0, 0.0], [["laplacian", 0.5]],
                                           [["torsion", 0.1, 0.0], ["laplacian", 0.5]], ["torsion"]])
  elif d == "reg_list_l1_int":
    kw["kernel_regularizer"] = rng.choice([["torsion", 1, 0.0], [["laplacian", 0.5, 0.0], ["torsion", 0, 0.5]]])
  elif d == "reg_list_l2_int":
    kw["kernel_regularizer"] = rng.choice([["torsion", 0.5, 1], [["laplacian", 0.5, 0.0], T("torsion", 0.5, 0)]])
  elif d == "reg_list_amount_list":
    kw["kernel_regularizer"] = ["laplacian", [0.25] * rank, 0.0]
  elif d == "reg_tuple_len":
    kw["kernel_regularizer"] = rng.choice([T("torsion", 0.1), T("torsion", 0.1, 0.1, 0.1), T("laplacian")])
  elif d == "reg_tuples_entry":
    kw["kernel_regularizer"] = rng.choice([
        T(T("torsion", 0.1)), T(T("torsion", 0.1, 0.0), T("laplacian", 0.5, 0.0, 0.0)), T(T("hessian", 0.5, 0.0)),
        T(T("torsion", 0.1, 0.0), T("l2", 0.5, 0.0)), T(["torsion", 0.1, 0.1]),
        T(T("laplacian", [0.25] * (rank + 1), 0.0))])
  elif d == "reg_name":
    kw["kernel_regularizer"] = rng.choice([T("l3", 0.1, 0.1), ["wrinkle", 0.1, 0.1], T("hessian", 0.5, 0.0),
                                           [["torsion", 0.5, 0.0], ["l2", 0.5, 0.0]]])
  elif d == "reg_amount_len":
    bad = [0.25] * (rank + rng.choice([1, 2]))
    if rank > 1 and rng.random() < 0.4:
      bad = [0.25] * (rank - 1)
    kw["kernel_regularizer"] = (T("laplacian", bad, 0.0) if rng.random() < 0.5 else T("torsion", 0.5, T(*bad)))
  elif d == "init_range_empty":
    kw["kernel_initializer"] = rng.choice(_RTL_LATTICE_INITS)
    a = rng.randint(-4, 4) / 4.0
    kw["init_min"], kw["init_max"] = a, a - rng.choice([0.0, 0.5])
  elif d == "init_range_default_empty":
    kw["kernel_initializer"] = rng.choice(_RTL_LATTICE_INITS)
    kw.pop("init_min", None)
    kw.pop("init_max", None)
    kw.pop("output_min", None)
    kw.pop("output_max", None)
    if rng.random() < 0.5:
      kw["output_max"] = rng.choice([0.0, -0.5, -2.0])
    else:
      kw["output_min"] = rng.choice([1.0, 1.5, 3.0])
  elif d == "lattice_kfl_init":
    kw["kernel_initializer"] = rng.choice(["kfl_random_monotonic_initializer", "KFLRandomMonotonicInitializer"])
  return desc


def _vc_feature(rng, name, iw):
  f = {"name": name}
  cat = rng.random() < 0.35
  if cat:
    nb = rng.choice([2, 3, 4])
    f["num_buckets"] = nb
    a, b = sorted(rng.sample(range(nb), 2))
    f["monotonicity"] = wchoice(rng, [
        (None, 2), ("none", 1), ([], 0.5), ([T(a, b)], 3), ([[a, b], T(b, a)], 1), ([T(a, b, 0)], 0.5), (T(T(a, b)), 0.5),
        ([T(True, 0)], 0.3), ("None", iw(0.3)),
        ([T(a, nb)], iw(1)), ([T(-1, b)], iw(1)), ([T(a, float(b))], iw(0.7)), ([T(a, b), nb - 1], iw(0.7)),
        (5, iw(0.5)), ("increasing", iw(0.5)), ([T(a, "1")], iw(0.5)), ([T(a, None)], iw(0.3)), (1.5, iw(0.2)),
        (["ab"], iw(0.2))])
    if rng.random() < 0.3:
      f["pwl_calibration_input_keypoints"] = rng.choice(["quantiles", [0.0, 1.0]])   # ignored for categorical
  else:
    if rng.random() < 0.15:
      f["num_buckets"] = rng.choice([0, None])
    f["pwl_calibration_input_keypoints"] = wchoice(rng, [
        ([0.0, 1.0, 2.0], 4), ([0, 1, 2], 1), (T(0.0, 0.5), 1), ([0.0, True], 0.3), ([], 0.3),
        ("quantiles", iw(1.5)), ("uniform", iw(0.5)), (None, iw(0.7)), ([0.0, "1.0"], iw(0.7)), ([0.0, None], iw(0.5)),
        (3, iw(0.3)), ([[0.0, 1.0]], iw(0.3)), ("", 0.1)])
    f["monotonicity"] = rng.choice(["none", "increasing", 0, 1, "decreasing"])
  f["lattice_size"] = wchoice(rng, [(2, 6), (3, 1.2)])
  if rng.random() < 0.12:
    f["unimodality"] = rng.choice(["valley", "peak", 1, -1, "none", 0, False, "None"])
  if rng.random() < 0.08:
    f["reflects_trust_in"] = [{"feature_name": rng.choice(["a", "b", "zz"]), "trust_type": "edgeworth"}]
  if rng.random() < 0.08:
    f["dominates"] = wchoice(rng, [([{"feature_name": rng.choice(["a", "b", "zz"])}], 3), ([], 1)])
  if rng.random() < 0.15:
    f["regularizer_configs"] = wchoice(rng, [
        ([{"name": "calib_wrinkle", "l2": 0.5}], 3), ([{"name": "calib_hessian", "l1": 0.5}, {"name": "torsion", "l2": 1.0}], 1),
        ([{"name": "laplacian", "l1": 0.5}], 1.5), ([], 0.5), ([{"name": "Calib_wrinkle", "l2": 0.5}], 0.5)])
  return f


def gen_verify_config(rng, force_valid=False):
  """A structured, mostly valid premade config for premade_lib.verify_config."""
  valid = force_valid or rng.random() < 0.4

  def iw(w):
    return 0 if valid else w
  model = wchoice(rng, [("lattice", 3), ("linear", 2), ("ensemble", 5), ("aggregate", 2)])
  names = ["a", "b", "c", "d"][:wchoice(rng, [(1, 1), (2, 3), (3, 3), (4, 1)])]
  feats = wchoice(rng, [([_vc_feature(rng, n, iw) for n in names], 20), (None, iw(1)), ([], 0.4)])
  if feats and rng.random() < 0.05:
    feats[-1]["name"] = feats[0]["name"]      # duplicate names: not checked by verify_config
  mkw = {}
  oi = wchoice(rng, [("default", 6), ([0.0, 0.5, 1.0], 2), (T(0, 1), 1), ([False, 2], 0.3), ([], 0.2),
                     ("quantiles", iw(1)), ("uniform", iw(1)), (None, iw(0.5)), ([0.0, "1"], iw(0.5)), (2.0, iw(0.3)),
                     ([0.0, None], iw(0.3)), ([[0.0, 1.0]], iw(0.2))])
  if oi != "default":
    mkw["output_initialization"] = oi
  if model in ("lattice", "ensemble") and rng.random() < 0.3:
    mkw["parameterization"] = wchoice(rng, [("kronecker_factored", 6), ("all_vertices", 2), ("Kronecker_factored", 0.5)])
  if rng.random() < 0.2:
    mkw["regularizer_configs"] = wchoice(rng, [
        ([{"name": "calib_wrinkle", "l2": 0.5}], 3), ([{"name": "torsion", "l2": 0.5}], 2),
        ([{"name": "calib_hessian", "l1": 0.5}, {"name": "laplacian", "l1": 1.0}], 1), ([], 0.5)])
  desc_kw = {"model": model, "features": feats, "model_kw": mkw}
  if model == "ensemble":
    lat = wchoice(rng, [("rtl_layer", 5), ("list", 5), ("random_expanded", 1), ("random", iw(1)), ("crystals", iw(1)),
                        ("word", iw(0.5)), ("short", iw(1)), ("nonstr", iw(1)), ("noniter", iw(0.7)),
                        ("tuple", iw(0.6)), ("none", iw(0.3)), ("strings", 0.4), ("unknown", 0.5)])
    if lat == "rtl_layer":
      mkw["lattices"] = "rtl_layer"
      mkw["num_lattices"] = wchoice(rng, [(2, 4), (3, 2), (None, iw(1)), (1, iw(1)), (0, iw(0.4))])
      mkw["lattice_rank"] = rng.choice([1, 2])
    elif lat == "list":
      mkw["lattices"] = [rng.sample(names, rng.randint(1, len(names))) for _ in range(rng.choice([2, 2, 3]))]
      if rng.random() < 0.3:
        mkw["lattices"][0] = T(*mkw["lattices"][0])
    elif lat == "random_expanded":
      mkw.update(lattices="random", num_lattices=2, lattice_rank=min(2, len(names)))
      desc_kw["expand"] = bool(feats)
    elif lat in ("random", "crystals"):
      mkw.update(lattices=lat, num_lattices=2, lattice_rank=1)
      desc_kw["expand"] = False
    elif lat == "word":
      mkw["lattices"] = rng.choice(["crystal", "RTL_layer", "rtl", ""])
    elif lat == "short":
      mkw["lattices"] = rng.choice([[list(names)], []])
    elif lat == "nonstr":
      mkw["lattices"] = [list(names), rng.choice([[0, 1], ["a", 1], [None], [["a"]], T("a", 2.0)])]
    elif lat == "noniter":
      mkw["lattices"] = [list(names), rng.choice([3, None, 1.5, True])]
    elif lat == "tuple":
      mkw["lattices"] = T(list(names), list(names))
    elif lat == "none":
      mkw["lattices"] = None
    elif lat == "strings":
      mkw["lattices"] = [list(names), "ab"]           # a str is an iterable of str
    else:
      mkw["lattices"] = [list(names), ["a", "zzz"]]   # unknown feature: not checked by verify_config (D51)
  if model == "aggregate":
    mkw["middle_dimension"] = wchoice(rng, [(1, 3), (2, 3), (3, 1), (0, iw(1)), (-1, iw(0.4))])
    mkw["middle_calibration"] = rng.random() < 0.5
    mkw["middle_monotonicity"] = wchoice(rng, [(None, 4), ("increasing", 3 if mkw["middle_calibration"] else iw(2)),
                                               (1, 1 if mkw["middle_calibration"] else iw(1)),
                                               ("none", 0.5 if mkw["middle_calibration"] else iw(0.5))])
  if valid and feats and (mkw.get("lattices") == "rtl_layer" or (
      model in ("lattice", "ensemble") and mkw.get("parameterization") == "kronecker_factored")):
    # RTL / KFL models: one lattice size, monotonicity and bounds only, calibration regularisers only
    for f in feats:
      f["lattice_size"] = feats[0]["lattice_size"]
      for k in ("unimodality", "reflects_trust_in", "dominates"):
        f.pop(k, None)
      if any(not r["name"].startswith("calib_") for r in f.get("regularizer_configs") or []):
        f["regularizer_configs"] = [{"name": "calib_wrinkle", "l2": 0.5}]
    if mkw.get("parameterization") == "kronecker_factored" and any(
        not r["name"].startswith("calib_") for r in mkw.get("regularizer_configs") or []):
      mkw["regularizer_configs"] = [{"name": "calib_hessian", "l1": 0.5}]
  return {"kind": "verify_config", "kw": desc_kw}


def inject_vc_defect(rng, desc):
  """Breaks exactly one rule of premade_lib.verify_config."""
  kw = desc["kw"]
  mkw = kw["model_kw"]
  feats = kw["features"]
  model = kw["model"]
  rtl = mkw.get("lattices") == "rtl_layer"
  kfl = model in ("lattice", "ensemble") and mkw.get("parameterization") == "kronecker_factored"
  if not feats:
    kw["features"] = feats = [{"name": "a", "pwl_calibration_input_keypoints": [0.0, 1.0]},
                              {"name": "b", "pwl_calibration_input_keypoints": [0.0, 1.0]}]
  opts = ["features_none", "output_init", "keypoints", "cat_not_iterable", "cat_elem", "cat_value_type",
          "cat_value_range"]
  if model == "ensemble":
    opts += ["lattices_other", "lattices_short", "lattice_not_names"]
  if rtl:
    opts += ["num_lattices_none", "num_lattices_lt2", "rtl_feature_reg"] * 2
  if rtl or kfl:
    opts += ["sizes_differ", "unimodality", "trust", "dominance"] * 2
  if kfl:
    opts += ["kfl_model_reg", "kfl_feature_reg"] * 2
  if model == "aggregate":
    opts += ["middle_dim", "middle_mono"] * 3
  d = rng.choice(opts)
  desc["defect"] = d
  f = rng.choice(feats)

  def categorical(g):
    g["num_buckets"] = 3
    g.pop("pwl_calibration_input_keypoints", None)
  if d == "features_none":
    kw["features"] = None
  elif d == "output_init":
    mkw["output_initialization"] = rng.choice(["quantiles", "uniform", None, [0.0, "1"], 2.0, [0.0, None], [[0.0]]])
  elif d == "keypoints":
    f["num_buckets"] = rng.choice([0, None])
    f["pwl_calibration_input_keypoints"] = rng.choice(["quantiles", "uniform", None, [0.0, "1.0"], [0.0, None], 3,
                                                       [[0.0, 1.0]], [0.0, T(1.0)]])
    if not isinstance(f.get("monotonicity"), (str, int)):
      f["monotonicity"] = "none"
  elif d == "cat_not_iterable":
    categorical(f)
    f["monotonicity"] = rng.choice([5, 1.5, True, -1])
  elif d == "cat_elem":
    categorical(f)
    f["monotonicity"] = rng.choice([[T(0, 1), 2], [0, 1], [None], [T(0, 1), 1.5]])
  elif d == "cat_value_type":
    categorical(f)
    f["monotonicity"] = rng.choice([[T(0, 1.0)], [T(0, "1")], [T(0, 1), T(None, 2)], ["ab"], "increasing", [T(0, T(1))]])
  elif d == "cat_value_range":
    categorical(f)
    f["monotonicity"] = rng.choice([[T(0, 3)], [T(-1, 0)], [T(0, 1), T(1, 4)], [T(3, 0)], [[0, 1, 3]]])
  elif d == "lattices_other":
    mkw["lattices"] = rng.choice(["random", "crystals", "crystal", "RTL_layer", None, T(["a"], ["a"]), 3])
    kw["expand"] = False
  elif d == "lattices_short":
    mkw["lattices"] = rng.choice([[["a"]], []])
  elif d == "lattice_not_names":
    mkw["lattices"] = [["a"], rng.choice([[0, 1], ["a", 1], [None], [["a"]], 3, None, 1.5, T("a", 2.0)])]
  elif d == "num_lattices_none":
    mkw["num_lattices"] = None
  elif d == "num_lattices_lt2":
    mkw["num_lattices"] = rng.choice([1, 0, -1])
  elif d == "rtl_feature_reg" or d == "kfl_feature_reg":
    f["regularizer_configs"] = rng.choice([[{"name": "torsion", "l2": 0.5}], [{"name": "calib_wrinkle", "l1": 0.5}, {"name": "laplacian", "l1": 0.5}],
                                           [{"name": "Calib_wrinkle", "l2": 0.5}], [{"name": "calib", "l2": 0.5}]])
  elif d == "kfl_model_reg":
    mkw["regularizer_configs"] = rng.choice([[{"name": "torsion", "l2": 0.5}], [{"name": "calib_hessian", "l1": 0.5}, {"name": "laplacian", "l1": 0.5}]])
  elif d == "sizes_differ":
    if len(feats) < 2:
      feats.append({"name": "zz", "pwl_calibration_input_keypoints": [0.0, 1.0]})
    for g in feats:
      g["lattice_size"] = 2
    feats[rng.randrange(1, len(feats))]["lattice_size"] = 3
    if rng.random() < 0.3:
      for g in feats:
        g["lattice_size"] = 3
      feats[0]["lattice_size"] = 2
  elif d == "unimodality":
    f["unimodality"] = rng.choice(["valley", "peak", 1, -1, "None", "NONE", True])
  elif d == "trust":
    f["reflects_trust_in"] = rng.choice([[{"feature_name": "a", "trust_type": "edgeworth"}], []])
  elif d == "dominance":
    f["dominates"] = rng.choice([[{"feature_name": "a"}], []])
  elif d == "middle_dim":
    mkw["middle_dimension"] = rng.choice([0, -1])
  elif d == "middle_mono":
    mkw["middle_calibration"] = False
    mkw["middle_monotonicity"] = rng.choice(["increasing", 1, "none", 0])
  return desc


def premade_descs():
  def feat(name, **kw):
    d = {"name": name, "pwl_calibration_input_keypoints": [0.0, 1.0, 2.0]}
    d.update(kw)
    return d
  ok = [feat("a", monotonicity="increasing"), feat("b"), feat("c", lattice_size=3)]
  D = []

  def add(tag, model, features, **model_kw):
    D.append({"kind": "premade", "tag": tag, "kw": {"model": model, "features": features, "model_kw": model_kw}})
  add("ok_lattice", "lattice", ok)
  add("ok_linear", "linear", ok)
  add("ok_ensemble", "ensemble", ok, lattices=[["a", "b"], ["b", "c"]])
  add("ok_ensemble_random", "ensemble", ok, lattices="random", num_lattices=2, lattice_rank=2)
  add("missing_feature_configs", "lattice", None)
  add("missing_feature_configs_linear", "linear", None)
  add("missing_feature_configs_ensemble", "ensemble", None, lattices=[["a"]])
  add("empty_feature_configs", "lattice", [])
  add("lattices_not_covering_features", "ensemble", ok, lattices=[["a", "b"], ["a", "b"]])
  add("lattices_unknown_feature", "ensemble", ok, lattices=[["a", "b"], ["b", "zzz"]])
  add("num_lattices_lt_2", "ensemble", ok, lattices="random", num_lattices=1, lattice_rank=2)
  add("random_without_num_lattices", "ensemble", ok, lattices="random")
  add("rank_gt_features", "ensemble", ok, lattices="random", num_lattices=2, lattice_rank=5)
  add("bad_lattices_word", "ensemble", ok, lattices="crystal")
  add("output_min_gt_max", "lattice", ok, output_min=1.0, output_max=0.0)
  add("bad_interpolation", "lattice", ok, interpolation="cubic")
  add("bad_monotonicity", "lattice", [feat("a", monotonicity="up"), feat("b")])
  add("unsorted_keypoints", "lattice", [feat("a", pwl_calibration_input_keypoints=[1.0, 0.0]), feat("b")])
  add("lattice_size_1", "lattice", [feat("a", lattice_size=1), feat("b")])
  add("duplicate_feature_names", "lattice", [feat("a"), feat("a")])
  add("kfl_with_regularizer", "lattice", ok, parameterization="kronecker_factored",
      regularizer_configs=None)
  add("bad_parameterization", "lattice", ok, parameterization="factored")
  add("linear_bad_output_calibration", "linear", ok, output_calibration=True, output_calibration_num_keypoints=1)
  add("categorical_feature_ok", "lattice",
      [feat("a", num_buckets=3, pwl_calibration_input_keypoints=None, monotonicity=[T(0, 1)]), feat("b")])
  add("categorical_bad_pair", "lattice",
      [feat("a", num_buckets=3, pwl_calibration_input_keypoints=None, monotonicity=[T(0, 5)]), feat("b")])
  return D


def misc_descs():
  D = []
  pw = {"input_keypoints": [0.0, 1.0]}
  ca = {"num_buckets": 2}
  for cals, n, so in (([pw, pw], 2, True), ([pw, ca], 2, False), ([pw], 2, True), ([pw, pw, ca], 2, True),
                      ([], 1, True)):
    D.append({"kind": "ParallelCombination", "kw": {"calibrators": cals, "single_output": so}, "n_inputs": n})
  D.append({"kind": "Aggregation", "kw": {"model": "lattice", "rank": 2}})
  D.append({"kind": "Aggregation", "kw": {"model": "not_a_model", "rank": 1}})
  return D


# ----------------------------------------------------------------------------
# Coq terms for the constructor cases (None when the typed glue of
# Harness/H_C16.v cannot express the arguments)
# ----------------------------------------------------------------------------
class NotExpressible(Exception):
  pass


def _is_int(x):
  return isinstance(x, int) and not isinstance(x, bool)


def c_zll(x):
  if x is None:
    return "None"
  if not isinstance(x, (list, tuple)):
    raise NotExpressible()
  rows = []
  for e in x:
    if not isinstance(e, (list, tuple)) or not all(_is_int(v) for v in e):
      raise NotExpressible()
    rows.append(czl(list(e)))
  return "(Some %s)" % (clist(rows) if rows else "(@nil (list Z))")


def c_optq(x):
  if x is None:
    return "None"
  if isinstance(x, bool) or not isinstance(x, (int, float)):
    raise NotExpressible()
  return "(Some %s)" % cq(x)


def wrap_single(v, test):
  try:
    if test(v):
      return [v]
  except Exception:  # pylint: disable=broad-except
    raise NotExpressible()
  return v


def coq_lattice(desc, kw, obs):
  layer = desc["kind"] == "Lattice"
  if layer and "kernel_regularizer" in kw:
    raise NotExpressible()
  sizes = kw["lattice_sizes"]
  if not all(_is_int(s) for s in sizes):
    raise NotExpressible()
  g = {}
  for name in ("edgeworth_trusts", "trapezoid_trusts", "monotonic_dominances", "range_dominances",
               "joint_monotonicities"):
    v = kw.get(name)
    if layer:
      v = wrap_single(v, lambda t: isinstance(t, tuple) and isinstance(t[0], int))
    g[name] = v
  ju = kw.get("joint_unimodalities")
  if layer:
    ju = wrap_single(ju, lambda t: isinstance(t, tuple) and len(t) == 2 and isinstance(t[1], str))
  if ju is None:
    cju = "None"
  else:
    rows = []
    for c in ju:
      if not (isinstance(c, (list, tuple)) and len(c) == 2 and isinstance(c[0], (list, tuple)) and
              all(_is_int(d) for d in c[0])):
        raise NotExpressible()
      rows.append("(%s, %s)" % (czl(list(c[0])), cval(c[1])))
    cju = "(Some %s)" % (clist(rows) if rows else "(@nil (list Z * value))")
  for name in ("edgeworth_trusts", "trapezoid_trusts"):
    if g[name] is not None and not in_universe(g[name]):
      raise NotExpressible()
  raw = "(mkLR %s %s %s %s %s %s %s %s %s %s %s %s)" % (
      czl(list(sizes)), cval(kw.get("monotonicities")), cval(kw.get("unimodalities")),
      cval(g["edgeworth_trusts"]), cval(g["trapezoid_trusts"]), c_zll(g["monotonic_dominances"]),
      c_zll(g["range_dominances"]), c_zll(g["joint_monotonicities"]), cju,
      c_optq(kw.get("output_min")), c_optq(kw.get("output_max")), cval(kw.get("interpolation", "hypercube")))
  if layer:
    if not _is_int(kw.get("units", 1)):
      raise NotExpressible()
    return "mk (CLatticeL %s %s) %s" % (raw, cz(kw.get("units", 1)), obs)
  return "mk (CLatticeC %s) %s" % (raw, obs)


def coq_linear(desc, kw, obs):
  layer = desc["kind"] == "Linear"
  m = kw.get("monotonicities")
  n = "None"
  mdom, rdom = kw.get("monotonic_dominances"), kw.get("range_dominances")
  imin, imax = kw.get("input_min"), kw.get("input_max")
  if layer:
    nd = kw["num_input_dims"]
    n = "(Some %s)" % cz(nd)
    if isinstance(m, (list, tuple)):
      m = list(m)
    elif m is not None:
      m = [m] * nd
    else:
      m = [0] * nd
    constrained = bool(any(m) or mdom or rdom or kw.get("normalization_order"))
    if not constrained:
      # no LinearConstraints object is built: (empty) dominance lists are never verified; the layer itself still
      # verifies monotonicities / input_min / input_max (lengths, order) in __init__ and canonicalises the bounds
      mdom = rdom = None
    if not _is_int(nd) or not _is_int(kw.get("units", 1)):
      raise NotExpressible()
  for v in (m, imin, imax):
    if not in_universe(v):
      raise NotExpressible()
  raw = "(mkNR %s %s %s %s %s %s)" % (cval(m), n, c_zll(mdom), c_zll(rdom), cval(imin), cval(imax))
  return "mk (CLinear %s %s) %s" % (raw, "(Some %s)" % cz(kw.get("units", 1)) if layer else "None", obs)


def coq_pwl(desc, kw, obs):
  layer = desc["kind"] == "PWLCalibration"
  if layer and "kernel_regularizer" in kw:
    raise NotExpressible()
  ks = kw.get("input_keypoints")
  if ks is None:
    cks = "None"
  else:
    if not all(isinstance(v, (int, float)) and not isinstance(v, bool) for v in ks):
      raise NotExpressible()
    cks = "(Some %s)" % (clist([cq(v) for v in ks]) if len(ks) else "(@nil Q)")
  raw = "(mkPR %s %s %s %s %s %s %s %s %s %s %s)" % (
      cks, c_optq(kw.get("output_min")), c_optq(kw.get("output_max")),
      cval(kw.get("monotonicity", "none")), cval(kw.get("convexity", "none")), cbool(kw.get("is_cyclic", False)),
      cval(kw.get("input_keypoints_type", "fixed") if layer else "fixed"),
      cbool(kw.get("impute_missing", False)), cbool(kw.get("missing_input_value") is not None),
      cbool(kw.get("missing_output_value") is not None), cbool(layer))
  units = kw.get("units", 1) if layer else 1
  if not _is_int(units):
    raise NotExpressible()
  return "mk (CPwl %s %s) %s" % (raw, cz(units), obs)


def coq_categorical(desc, kw, obs):
  layer = desc["kind"] == "CategoricalCalibration"
  ms = kw.get("monotonicities")
  nb = "(Some %s)" % cz(kw["num_buckets"]) if layer else "None"
  raw = "(mkC %s %s %s %s %s)" % (nb, c_optq(kw.get("output_min")), c_optq(kw.get("output_max")),
                                  cbool(isinstance(ms, list)), c_zll(ms))
  if layer and not _is_int(kw.get("units", 1)):
    raise NotExpressible()
  return "mk (CCat %s %s) %s" % (raw, "(Some %s)" % cz(kw.get("units", 1)) if layer else "None", obs)


def coq_kfl(desc, kw, obs):
  m = kw.get("monotonicities")
  if not in_universe(m):
    raise NotExpressible()
  raw = "(mkKR %s %s %s %s %s %s %s)" % (
      cz(kw["lattice_sizes"]), cz(kw.get("units", 1)), cz(kw.get("num_terms", 2)), cval(m), cz(desc["dims"]),
      c_optq(kw.get("output_min")), c_optq(kw.get("output_max")))
  return "mk (CKfl %s) %s" % (raw, obs)


def _numq(x):
  if x is None:
    return "None"
  if isinstance(x, bool) or not isinstance(x, (int, float)):
    raise NotExpressible()
  return "(Some %s)" % cq(x)


def _cv(p):
  try:
    return cval(p)
  except (ValueError, AssertionError):
    raise NotExpressible()


def _int(x):
  if not _is_int(x):
    raise NotExpressible()
  return cz(x)


def coq_rtl(desc, kw, obs, run=None):
  reg = kw.get("kernel_regularizer")
  if isinstance(reg, str) or callable(reg):
    raise NotExpressible()
  shape = dec(desc["input"])
  items = sorted(shape.items()) if isinstance(shape, dict) else [("unconstrained", shape)]
  rows = ["(%s, %s)" % (_cv(k), _int(v)) for k, v in items]
  raw = "(mkTR %s %s %s %s %s %s %s %s %s %s %s %s %s)" % (
      _int(kw["num_lattices"]), _int(kw["lattice_rank"]), _int(kw.get("lattice_size", 2)),
      _numq(kw.get("output_min")), _numq(kw.get("output_max")), _cv(kw.get("interpolation", "hypercube")),
      _cv(kw.get("parameterization", "all_vertices")),
      _cv(kw.get("kernel_initializer", "random_monotonic_initializer")), _cv(reg),
      _numq(kw.get("init_min")), _numq(kw.get("init_max")), _int(kw.get("num_terms", 2)),
      clist(rows) if rows else "(@nil (value * Z))")
  return "mk (CRtl %s) %s" % (raw, obs)


def coq_cdf(desc, kw, obs, run=None):
  call_rejected = bool(run is not None and run.accepted and run.cls == "fail" and run.stage == "call" and
                       run.exc == "ValueError" and ("Invalid activation" in (run.msg or "") or
                                                    "Invalid reduction" in (run.msg or "")))
  raw = "(mkDR %s %s %s %s %s %s %s %s %s)" % (
      _int(kw["num_keypoints"]), _int(kw.get("units", 1)), _int(kw.get("sparsity_factor", 1)), _int(desc["dims"]),
      _cv(kw.get("input_scaling_monotonicity", "increasing")), _cv(kw.get("kernel_initializer", "random_uniform")),
      _cv(kw.get("input_scaling_type", "fixed")), _cv(kw.get("activation", "relu6")),
      _cv(kw.get("reduction", "mean")))
  return "mk (CCdf %s %s) %s" % (raw, cbool(call_rejected), obs)


def coq_latreg(desc, kw, obs, run=None):
  sizes = kw["lattice_sizes"]
  if not all(_is_int(v) for v in sizes):
    raise NotExpressible()
  return "mk (CLatReg (mkGR %s %s %s)) %s" % (czl(list(sizes)), _cv(kw.get("l1", 0.0)), _cv(kw.get("l2", 0.0)), obs)


def coq_pwlreg(desc, kw, obs, run=None):
  return "mk (CPwlReg %s %s %s) %s" % (_cv(kw.get("l1", 0.0)), _cv(kw.get("l2", 0.0)),
                                       cbool(bool(kw.get("is_cyclic", False))), obs)


def _cstrl(names):
  for n in names:
    if not isinstance(n, str):
      raise NotExpressible()
  return clist([coq_string(n) for n in names]) if names else "(@nil string)"


def coq_premade(desc, kw, obs, run=None):
  """Reads the fields verify_config looks at from the REAL config object."""
  _, tfl = tfimpl.tfl()
  C = tfl.configs
  try:
    cfg = make_config(tfl, kw)
  except Exception:  # pylint: disable=broad-except
    raise NotExpressible()
  kind = ("MEnsemble" if isinstance(cfg, C.CalibratedLatticeEnsembleConfig) else
          "MLattice" if isinstance(cfg, C.CalibratedLatticeConfig) else
          "MAggregate" if isinstance(cfg, C.AggregateFunctionConfig) else "MLinear")
  if cfg.feature_configs is None:
    feats = "None"
  else:
    rows = []
    for fc in cfg.feature_configs:
      rows.append("(mkFR %s %s %s %s %s %s %s %s)" % (
          _cv(fc.num_buckets), _cv(_plain(fc.pwl_calibration_input_keypoints)), _cv(_plain(fc.monotonicity)),
          _int(fc.lattice_size), _cv(fc.unimodality), cbool(fc.reflects_trust_in is not None),
          cbool(fc.dominates is not None), _cstrl([r.name for r in (fc.regularizer_configs or [])])))
    feats = "(Some %s)" % (clist(rows) if rows else "(@nil feature_raw)")
  ens = kind == "MEnsemble"
  nl = getattr(cfg, "num_lattices", None) if ens else None
  raw = "(mkMR %s %s %s %s %s %s %s %s %s %s)" % (
      kind, feats, _cv(_plain(cfg.lattices)) if ens else "VNone",
      "None" if nl is None else "(Some %s)" % _int(nl),
      _cv(getattr(cfg, "parameterization", None)), _cstrl([r.name for r in (cfg.regularizer_configs or [])]),
      _int(getattr(cfg, "middle_dimension", 1)), cbool(getattr(cfg, "middle_monotonicity", None) is not None),
      cbool(bool(getattr(cfg, "middle_calibration", False))), _cv(_plain(cfg.output_initialization)))
  return "mk (%s %s) %s" % ("CVerifyConfig" if desc["kind"] == "verify_config" else "CPremadeCtor", raw, obs)


def _plain(p):
  """numpy strings / scalars (set_random_lattice_ensemble) as Python values."""
  if isinstance(p, (list, tuple)):
    return type(p)(_plain(x) for x in p)
  if isinstance(p, np.str_):
    return str(p)
  return p


COQ_RENDER_RUN = {
    "RTL": coq_rtl, "CDF": coq_cdf, "LatticeLaplacian": coq_latreg, "LatticeTorsion": coq_latreg,
    "PWLLaplacian": coq_pwlreg, "PWLHessian": coq_pwlreg, "PWLWrinkle": coq_pwlreg,
    "verify_config": coq_premade, "premade": coq_premade,
}

COQ_RENDER = {
    "LatticeConstraints": coq_lattice, "Lattice": coq_lattice,
    "LinearConstraints": coq_linear, "Linear": coq_linear,
    "PWLCalibration": coq_pwl, "PWLCalibrationConstraints": coq_pwl,
    "CategoricalCalibration": coq_categorical, "CategoricalCalibrationConstraints": coq_categorical,
    "KroneckerFactoredLattice": coq_kfl,
}


# ----------------------------------------------------------------------------
# Failure classes (names used by known_findings.json entries)
# ----------------------------------------------------------------------------
def failure_class(desc, kw, run):
  """A stable name for the way an (accepted or half-constructed) configuration
  fails; 'unclassified' when no known pattern applies."""
  kind, stage, exc, msg = desc["kind"], run.stage, run.exc, run.msg or ""
  for name, fn in FAILURE_PATTERNS:
    try:
      if fn(kind, kw, stage, exc, msg, desc):
        return name
    except Exception:  # pylint: disable=broad-except
      pass
  return "unclassified"


FAILURE_PATTERNS = []


def pattern(name):
  def deco(fn):
    FAILURE_PATTERNS.append((name, fn))
    return fn
  return deco


# ----------------------------------------------------------------------------
# gen_descs / eval_cases / extra
# ----------------------------------------------------------------------------
QUOTA_QUICK = [("LatticeConstraints", 330), ("Lattice", 150), ("LinearConstraints", 200), ("Linear", 90),
               ("PWLCalibration", 170), ("PWLCalibrationConstraints", 70), ("CategoricalCalibration", 90),
               ("CategoricalCalibrationConstraints", 60), ("KroneckerFactoredLattice", 70),
               ("LatticeReg", 90), ("PWLReg", 40), ("CDF", 70), ("RTL", 60), ("verify_config", 220)]
THOROUGH_FACTOR = 25


def _ci(v, table):
  """Canonical int of a spelled value (None when it is not a known spelling)."""
  if isinstance(v, bool):
    return None
  if isinstance(v, float) and v == int(v):
    v = int(v)
  if isinstance(v, int):
    return v if v in table else None
  if isinstance(v, str):
    for k, names in table.items():
      if v.lower() == names[0].lower():
        return k
  return None


def _untuple(v):
  return list(v["t"]) if isinstance(v, dict) and "t" in v else v


def inject_lattice_defect(rng, desc):
  """Starting from a valid description, breaks exactly one rule of
  lattice_lib.verify_hyperparameters (or of the layer around it)."""
  kw = desc["kw"]
  desc.pop("syn", None)
  layer = desc["kind"] == "Lattice"
  sizes = _untuple(kw["lattice_sizes"])
  rank = len(sizes)
  ms = [_ci(v, MONO_SP) for v in _untuple(kw.get("monotonicities") or [0] * rank)]
  mono = [i for i in range(rank) if ms[i] == 1]
  free = [i for i in range(rank) if ms[i] != 1]
  opts = ["size", "mono_len", "mono_bad", "unimod_len", "bounds_eq", "bounds_gt", "jmono_range", "jmono_len",
          "trust_dir_bad"]
  if mono:
    opts += ["unimod_on_mono", "unimod_on_mono", "trust_same", "trust_range", "dom_range", "dom_len",
             "junimod_on_mono"]
  if mono and rank > 1:
    opts += ["trust_conflict", "trust_main_and_cond"]
  if len(mono) >= 2:
    opts += ["dom_reversed"]
  if free and rank > 1:
    opts += ["trust_main_free", "dom_free"]
  if any(s < 3 for s in sizes):
    opts += ["unimod_small", "junimod_small"]
  if any(s >= 3 for s in sizes):
    opts += ["junimod_dup", "junimod_dir", "junimod_range"]
  if layer:
    opts += ["interp", "units_neg", "units_zero"]
  d = rng.choice(opts)
  desc["defect"] = d
  big = [i for i in range(rank) if sizes[i] >= 3]
  small = [i for i in range(rank) if sizes[i] < 3]

  def setsize(i, v):
    new = list(sizes)
    new[i] = v
    kw["lattice_sizes"] = new
  if d == "size":
    setsize(rng.randrange(rank), rng.choice([1, 1, 0, -1]))
  elif d == "mono_len":
    kw["monotonicities"] = [1] * (rank + rng.choice([-1, 1])) or [1, 1]
  elif d == "mono_bad":
    m = [1 if v == 1 else 0 for v in ms]
    m[rng.randrange(rank)] = rng.choice([-1, "decreasing", "Decreasing", 2, "up"])
    kw["monotonicities"] = m
  elif d == "unimod_len":
    kw["unimodalities"] = [0] * (rank + 1)
  elif d == "unimod_on_mono":
    u = [0] * rank
    i = rng.choice(mono)
    u[i] = rng.choice([1, -1, "peak", "valley", "Peak"])
    setsize(i, 3)
    kw["unimodalities"] = u
    kw.pop("joint_unimodalities", None)
  elif d == "unimod_small":
    u = [0] * rank
    u[rng.choice(small)] = rng.choice([1, -1, "peak", "valley"])
    kw["unimodalities"] = u
  elif d in ("bounds_eq", "bounds_gt"):
    kw["output_min"] = 0.5
    kw["output_max"] = 0.5 if d == "bounds_eq" else 0.25
  elif d == "jmono_range":
    kw["joint_monotonicities"] = [T(0, rng.choice([rank, -1]))]
  elif d == "jmono_len":
    kw["joint_monotonicities"] = [T(0, 0, 0)]
  elif d == "trust_dir_bad":
    name = rng.choice(["edgeworth_trusts", "trapezoid_trusts"])
    main = mono[0] if mono else 0
    kw[name] = [T(main, (main + 1) % max(rank, 1), rng.choice([0, 2, "up", "increasing", None]))]
  elif d in ("trust_same", "trust_range", "trust_main_free", "trust_conflict", "trust_main_and_cond"):
    name = rng.choice(["edgeworth_trusts", "trapezoid_trusts"])
    other = "trapezoid_trusts" if name == "edgeworth_trusts" else "edgeworth_trusts"
    kw.pop("edgeworth_trusts", None)
    kw.pop("trapezoid_trusts", None)
    if d == "trust_same":
      m = rng.choice(mono)
      kw[name] = [T(m, m, 1)]
    elif d == "trust_range":
      kw[name] = [T(rng.choice(mono), rng.choice([rank, -1]), 1)]
    elif d == "trust_main_free":
      f = rng.choice(free)
      kw[name] = [T(f, rng.choice([i for i in range(rank) if i != f]), rng.choice([1, -1]))]
    elif d == "trust_conflict":
      m = rng.choice(mono)
      c = rng.choice([i for i in range(rank) if i != m])
      kw[name] = [T(m, c, 1)]
      kw[rng.choice([name, other])] = kw.get(rng.choice([name])) and [T(m, c, 1), T(m, c, "negative")]
    else:
      m = rng.choice(mono)
      c = rng.choice([i for i in range(rank) if i != m])
      if c in mono:
        kw[name] = [T(m, c, 1)]
        kw[other] = [T(c, m, -1)]
      else:
        kw[name] = [T(m, c, 1), T(m, m, 1)]
  elif d in ("dom_range", "dom_len", "dom_reversed", "dom_free"):
    name = rng.choice(["monotonic_dominances", "range_dominances"])
    if d == "dom_range":
      kw[name] = [T(rng.choice(mono), rng.choice([rank, -1]))]
    elif d == "dom_len":
      kw[name] = [T(mono[0], mono[0], 0)]
    elif d == "dom_reversed":
      a, b = rng.sample(mono, 2)
      kw[name] = [T(a, b), T(b, a)]
    else:
      f = rng.choice(free)
      kw[name] = [T(f, rng.choice([i for i in range(rank) if i != f]))]
  elif d.startswith("junimod"):
    kw.pop("unimodalities", None)
    if d == "junimod_on_mono":
      i = rng.choice(mono)
      setsize(i, 3)
      kw["joint_unimodalities"] = [T([i], rng.choice(["peak", "valley"]))]
    elif d == "junimod_small":
      kw["joint_unimodalities"] = [T([rng.choice(small)], "valley")]
    elif d == "junimod_dup":
      i = rng.choice(big)
      kw["joint_unimodalities"] = [T([i, i], "peak")]
    elif d == "junimod_dir":
      kw["joint_unimodalities"] = [T([rng.choice(big)], rng.choice(["none", "up", 1, "increasing"]))]
    else:
      kw["joint_unimodalities"] = [T([rng.choice(big), rank], "peak")]
  elif d == "interp":
    kw["interpolation"] = rng.choice(["Hypercube", "cubic", "SIMPLEX"])
  elif d == "units_neg":
    kw["units"] = rng.choice([-1, -1, -2])
  elif d == "units_zero":
    kw["units"] = 0
  return desc


def inject_linear_defect(rng, desc):
  kw = desc["kw"]
  desc.pop("syn", None)
  n = desc["n"]
  m = kw.get("monotonicities")
  ms = [_ci(v, MONO_SP) for v in (_untuple(m) if isinstance(_untuple(m), list) else [m] * n)] if m is not None else [0] * n
  inc = [i for i in range(n) if ms[i] == 1]
  nz = [i for i in range(n) if ms[i] in (1, -1)]
  opts = ["mono_bad", "mono_len", "bounds_gt"]
  if desc["kind"] == "Linear":
    opts += ["units_neg", "dims_neg"]
  if inc:
    opts += ["mdom_range", "mdom_len"]
  if len(inc) >= 2:
    opts += ["mdom_reversed", "both_dominances"]
  if inc and len(inc) < n:
    opts += ["mdom_free"]
  if nz:
    opts += ["rdom_nobounds", "rdom_zero_width", "rdom_range"]
  if len([i for i in range(n) if ms[i] == 1]) >= 1 and len([i for i in range(n) if ms[i] == -1]) >= 1:
    opts += ["rdom_opposite"]
  d = rng.choice(opts)
  desc["defect"] = d
  full = lambda lo=0.0, hi=1.0: ([lo] * n, [hi] * n)
  if d == "units_neg":
    kw["units"] = rng.choice([-1, -1, -2])
  elif d == "dims_neg":
    # nothing but the size is wrong: no per-feature lists whose length could be tested first
    for k in ("monotonic_dominances", "range_dominances", "input_min", "input_max"):
      kw.pop(k, None)
    kw["num_input_dims"] = rng.choice([-1, -1, -2])
    kw["monotonicities"] = rng.choice([None, "none", 0, 1, "increasing"])
  elif d == "mono_bad":
    b = [v if v is not None else 0 for v in ms]
    b[rng.randrange(n)] = rng.choice([2, "up", "positive", -2])
    kw["monotonicities"] = b
  elif d == "mono_len":
    kw["monotonicities"] = [1] * (n + 1)
    if desc["kind"] == "LinearConstraints":
      desc["n"] = n + 1
      kw["monotonicities"] = [1] * n
      kw["monotonic_dominances"] = [T(0, n)]
  elif d == "bounds_gt":
    kw["input_min"], kw["input_max"] = full(1.0, 0.5)
    if not nz:
      kw["monotonicities"] = [1] * n
  elif d == "mdom_range":
    kw["monotonic_dominances"] = [T(inc[0], rng.choice([n, -1]))]
  elif d == "mdom_len":
    kw["monotonic_dominances"] = [T(inc[0], inc[0], 0)]
  elif d == "mdom_reversed":
    a, b = rng.sample(inc, 2)
    kw["monotonic_dominances"] = [T(a, b), T(b, a)]
  elif d == "mdom_free":
    f = rng.choice([i for i in range(n) if i not in inc])
    kw["monotonic_dominances"] = [T(inc[0], f)]
  elif d == "both_dominances":
    a, b = rng.sample(inc, 2)
    kw["monotonic_dominances"] = [T(a, b)]
    kw["range_dominances"] = [T(a, b)]
    kw["input_min"], kw["input_max"] = full()
  elif d in ("rdom_nobounds", "rdom_zero_width", "rdom_range", "rdom_opposite"):
    kw.pop("monotonic_dominances", None)
    a = rng.choice(nz)
    same = [i for i in range(n) if i != a and ms[i] == ms[a]]
    b = rng.choice(same) if same else a
    lo, hi = full()
    if d == "rdom_nobounds":
      side = rng.choice(["min", "max", "entry"])
      if side == "entry":
        lo[a] = None
      kw["input_min"], kw["input_max"] = lo, hi
      if side in ("min", "max"):
        kw.pop("input_" + side)
      kw["range_dominances"] = [T(a, b)] if b != a else [T(a, a)]
      if b == a:
        desc["defect"] = "rdom_nobounds_same"
    elif d == "rdom_zero_width":
      lo[b], hi[b] = 0.5, 0.5
      kw["input_min"], kw["input_max"] = lo, hi
      kw["range_dominances"] = [T(a, b)]
    elif d == "rdom_range":
      kw["input_min"], kw["input_max"] = lo, hi
      kw["range_dominances"] = [T(a, rng.choice([n, -1]))]
    else:
      p = [i for i in range(n) if ms[i] == 1][0]
      q = [i for i in range(n) if ms[i] == -1][0]
      kw["input_min"], kw["input_max"] = lo, hi
      kw["range_dominances"] = [T(p, q)]
  return desc


def inject_pwl_defect(rng, desc):
  kw = desc["kw"]
  desc.pop("syn", None)
  ks = _untuple(kw["input_keypoints"])
  d = rng.choice(["kp_short", "kp_dup", "kp_unsorted", "kp_none", "bounds_gt", "cyclic_mono", "cyclic_convex",
                  "mono_bad", "mono_none", "convex_bad", "convex_none", "kp_type", "kp_type_none", "learned_convex",
                  "missing_in", "missing_out", "cyclic_two", "units_neg"])
  desc["defect"] = d
  if d == "kp_short":
    kw["input_keypoints"] = ks[:1]
  elif d == "kp_dup":
    kw["input_keypoints"] = ks[:-1] + [ks[-2]]
  elif d == "kp_unsorted":
    kw["input_keypoints"] = [ks[1], ks[0]] + ks[2:]
  elif d == "kp_none":
    kw["input_keypoints"] = None
  elif d == "bounds_gt":
    kw["output_min"], kw["output_max"] = 1.0, 0.5
  elif d == "cyclic_mono":
    kw.update(is_cyclic=True, monotonicity=rng.choice([1, -1, "increasing", "Decreasing", 1.0, -1.0]),
              convexity=rng.choice([0, 0, 0.0]),
              input_keypoints_type="fixed", input_keypoints=[0.0, 1.0, 2.0])
  elif d == "cyclic_convex":
    kw.update(is_cyclic=True, monotonicity="none", convexity=rng.choice([1, -1, "convex", "Concave", 1.0]),
              input_keypoints_type="fixed", input_keypoints=[0.0, 1.0, 2.0])
  elif d == "cyclic_two":
    kw.update(is_cyclic=True, monotonicity=0, convexity="none", input_keypoints=[0.0, 1.0],
              input_keypoints_type="fixed", kernel_initializer="equal_heights")
  elif d == "mono_bad":
    kw["monotonicity"] = rng.choice([2, "up", "convex", -2])
  elif d == "mono_none":
    kw["monotonicity"] = None
  elif d == "convex_bad":
    kw["convexity"] = rng.choice([2, "flat", "increasing"])
  elif d == "convex_none":
    kw["convexity"] = None
  elif d == "kp_type":
    kw["input_keypoints_type"] = rng.choice(["learned", "Fixed", "interior"])
  elif d == "kp_type_none":
    kw["input_keypoints_type"] = None
  elif d == "units_neg":
    kw["units"] = rng.choice([-1, -1, -3])
  elif d == "learned_convex":
    kw.update(input_keypoints_type="learned_interior", convexity=rng.choice([1, -1, "convex", "CONCAVE", -1.0]),
              is_cyclic=False)
  elif d == "missing_in":
    kw.update(impute_missing=False, missing_input_value=-1.0)
  elif d == "missing_out":
    kw.update(impute_missing=False, missing_output_value=0.0)
  return desc


def inject_categorical_defect(rng, desc):
  kw = desc["kw"]
  layer = desc["kind"] == "CategoricalCalibration"
  nb = kw.get("num_buckets", desc.get("n", 3))
  opts = ["bounds_gt", "pair_negative", "pair_len", "pairs_tuple"]
  if layer:
    opts += ["pair_eq_buckets", "pair_eq_buckets", "cycle2", "self_pair", "units_neg", "buckets_neg"]
  d = rng.choice(opts)
  desc["defect"] = d
  if d == "units_neg":
    kw["units"] = rng.choice([-1, -2])
  elif d == "buckets_neg":
    kw["num_buckets"] = rng.choice([-1, -2])
    kw.pop("monotonicities", None)
  elif d == "bounds_gt":
    kw["output_min"], kw["output_max"] = 1.0, 0.5
  elif d == "pair_negative":
    kw["monotonicities"] = [T(-1, 0)]
  elif d == "pair_len":
    kw["monotonicities"] = [T(0, 0, 0)] if rng.random() < 0.5 else [T(0)]
  elif d == "pairs_tuple":
    kw["monotonicities"] = T(T(0, max(nb - 1, 0)))
  elif d == "pair_eq_buckets":
    kw["monotonicities"] = [T(0, nb)] if rng.random() < 0.5 else [T(nb, 0)]
  elif d == "cycle2":
    kw["num_buckets"] = max(nb, 2)
    kw["monotonicities"] = [T(0, 1), T(1, 0)]
  elif d == "self_pair":
    kw["num_buckets"] = max(nb, 1)
    kw["monotonicities"] = [T(0, 0)]
  return desc


def inject_kfl_defect(rng, desc):
  kw = desc["kw"]
  desc.pop("syn", None)
  d = rng.choice(["size1", "size_neg", "units_neg", "terms_neg", "bounds_eq", "bounds_gt", "mono_len", "mono_dec",
                  "mono_bad"])
  desc["defect"] = d
  if d == "size1":
    kw["lattice_sizes"] = 1
  elif d == "size_neg":
    kw["lattice_sizes"] = -2
  elif d == "units_neg":
    kw["units"] = -1
  elif d == "terms_neg":
    kw["num_terms"] = -1
  elif d in ("bounds_eq", "bounds_gt"):
    kw["output_min"], kw["output_max"] = 0.5, (0.5 if d == "bounds_eq" else 0.25)
  elif d == "mono_len":
    kw["monotonicities"] = [1] * (desc["dims"] + 1)
  elif d == "mono_dec":
    kw["monotonicities"] = [rng.choice([-1, "decreasing", "Decreasing"])] + [0] * (desc["dims"] - 1)
  else:
    kw["monotonicities"] = [rng.choice([2, "up"])] + [0] * (desc["dims"] - 1)
  return desc


ONE_DEFECT = {
    "LatticeConstraints": (lambda rng: gen_lattice(rng, False, True), inject_lattice_defect),
    "Lattice": (lambda rng: gen_lattice(rng, True, True), inject_lattice_defect),
    "LinearConstraints": (lambda rng: gen_linear(rng, False, True), inject_linear_defect),
    "Linear": (lambda rng: gen_linear(rng, True, True), inject_linear_defect),
    "PWLCalibration": (lambda rng: gen_pwl(rng, True), inject_pwl_defect),
    "CategoricalCalibration": (lambda rng: gen_categorical(rng, True, True), inject_categorical_defect),
    "CategoricalCalibrationConstraints": (lambda rng: gen_categorical(rng, False, True), inject_categorical_defect),
    "KroneckerFactoredLattice": (lambda rng: gen_kfl(rng, True), inject_kfl_defect),
    "RTL": (lambda rng: gen_rtl(rng, True), inject_rtl_defect),
    "CDF": (lambda rng: gen_cdf(rng, True), inject_cdf_defect),
    "verify_config": (lambda rng: gen_verify_config(rng, True), inject_vc_defect),
}


def gen_one(rng, kind):
  if kind in ONE_DEFECT and rng.random() < (0.45 if kind == "verify_config" else 0.3):
    make, inject = ONE_DEFECT[kind]
    return inject(rng, make(rng))
  return gen_one_free(rng, kind)


def gen_one_free(rng, kind):
  if kind == "LatticeConstraints":
    return gen_lattice(rng, False)
  if kind == "Lattice":
    return gen_lattice(rng, True)
  if kind == "LinearConstraints":
    return gen_linear(rng, False)
  if kind == "Linear":
    return gen_linear(rng, True)
  if kind == "PWLCalibration":
    return gen_pwl(rng)
  if kind == "PWLCalibrationConstraints":
    return gen_pwl_constraints(rng)
  if kind == "CategoricalCalibration":
    return gen_categorical(rng, True)
  if kind == "CategoricalCalibrationConstraints":
    return gen_categorical(rng, False)
  if kind == "KroneckerFactoredLattice":
    return gen_kfl(rng)
  if kind == "LatticeReg":
    return gen_lattice_reg(rng)
  if kind == "PWLReg":
    return gen_pwl_reg(rng)
  if kind == "CDF":
    return gen_cdf(rng)
  if kind == "RTL":
    return gen_rtl(rng)
  if kind == "verify_config":
    return gen_verify_config(rng)
  raise KeyError(kind)


# regression witnesses of the defects fixed in /repo (D4, D10, D12, D16, D18, D20, D22)
def fixed_witnesses():
  return [
      {"kind": "LatticeConstraints", "tag": "D12", "units": 1, "wseed": 1,
       "kw": {"lattice_sizes": [2, 2], "monotonicities": [1, 1], "edgeworth_trusts": [[0, 1, 1]]},
       "syn": {"lattice_sizes": [2, 2], "monotonicities": [1, 1], "edgeworth_trusts": [T(0, 1, "positive")]}},
      {"kind": "Lattice", "tag": "D16", "wseed": 2,
       "kw": {"lattice_sizes": T(2, 3), "units": 2, "monotonicities": [1, 0],
              "kernel_regularizer": [T("torsion", 0.5, 0.5), T("laplacian", 0.5, 0.5)]}},
      {"kind": "LatticeLaplacian", "tag": "D10", "units": 2, "wseed": 3,
       "kw": {"lattice_sizes": [2, 2], "l1": T(0.5, 1.0), "l2": T(0.0, 0.25)}},
      {"kind": "LatticeTorsion", "tag": "D10", "units": 2, "wseed": 3,
       "kw": {"lattice_sizes": [2, 2], "l1": T(0.5, 1.0), "l2": T(0.0, 0.25)}},
      {"kind": "LatticeTorsion", "tag": "D22", "units": 2, "wseed": 4,
       "kw": {"lattice_sizes": [2, 2], "l1": [0.5, 1.0, 2.0], "l2": 0.0}},
      {"kind": "LatticeTorsion", "tag": "D22", "units": 1, "wseed": 4,
       "kw": {"lattice_sizes": [2, 2, 2], "l1": [0.5, 1.0], "l2": 0.0}},
      {"kind": "LinearConstraints", "tag": "D4", "units": 1, "wseed": 5, "n": 2,
       "kw": {"monotonicities": [1, 1], "range_dominances": [T(0, 1)], "input_min": [0.0, 1.0],
              "input_max": [1.0, 1.0]}},
      {"kind": "LinearConstraints", "tag": "D18", "units": 1, "wseed": 6, "n": 3,
       "kw": {"monotonicities": [1, 1, 0], "range_dominances": [T(0, 1)], "input_min": [0.0, 0.0, 5.0],
              "input_max": [1.0, 2.0, 5.0]}},
      # range dominances next to a bystander input whose one-sided bound spells the open side 'none'
      # (the projection must see canonicalised bounds; seeded change C16-m5)
      {"kind": "LinearConstraints", "tag": "none_string_bound", "units": 1, "wseed": 19, "n": 3,
       "kw": {"monotonicities": [1, 1, 1], "range_dominances": [T(0, 1)], "input_min": [0.0, 0.0, "none"],
              "input_max": [1.0, 2.0, 3.0]}},
      {"kind": "LinearConstraints", "tag": "none_string_bound", "units": 2, "wseed": 20, "n": 3,
       "kw": {"monotonicities": [1, 1, 0], "range_dominances": [T(1, 0)], "input_min": [0.0, -1.0, 2.0],
              "input_max": [1.0, 2.0, "None"]}},
      {"kind": "Linear", "tag": "none_string_bound", "wseed": 21, "n": 3,
       "kw": {"num_input_dims": 3, "units": 2, "monotonicities": [1, 1, 0], "range_dominances": [T(0, 1)],
              "input_min": [0.0, 0.0, "none"], "input_max": [1.0, 2.0, 3.0]}},
      {"kind": "Linear", "tag": "D47", "wseed": 22, "n": 2,
       "kw": {"num_input_dims": 2, "units": 1, "monotonicities": [], "normalization_order": 1}},
      {"kind": "Linear", "tag": "D59", "wseed": 15, "n": 3,
       "kw": {"num_input_dims": 3, "units": 1, "monotonicities": [1, 1, 1],
              "monotonic_dominances": [T(0, 1), T(1, 2), T(2, 0)]}},
      {"kind": "Lattice", "tag": "D60", "wseed": 16, "kw": {"lattice_sizes": []}},
      {"kind": "LatticeConstraints", "tag": "D61", "units": 1, "wseed": 17,
       "kw": {"lattice_sizes": [3], "joint_unimodalities": [T([0], "Valley")], "num_projection_iterations": 8},
       "syn": {"lattice_sizes": [3], "joint_unimodalities": [T([0], "valley")], "num_projection_iterations": 8}},
      {"kind": "PWLCalibration", "tag": "D62", "wseed": 18,
       "kw": {"input_keypoints": [0.0, 1.0, 2.0], "units": 1, "input_keypoints_type": None}},
      {"kind": "PWLCalibration", "tag": "D64", "wseed": 19,
       "kw": {"input_keypoints": [0.25, 0.5, 1.5, 2.5, 4.5], "units": 1, "monotonicity": "None", "convexity": None,
              "is_cyclic": True, "num_projection_iterations": 1}},
      {"kind": "PWLCalibration", "tag": "D64", "wseed": 19,
       "kw": {"input_keypoints": [0.0, 1.0, 2.0, 3.0, 4.0], "units": 2, "convexity": None}},
      {"kind": "PWLCalibration", "tag": "D48", "wseed": 20, "kw": {"input_keypoints": [0.0, 1.0, 2.0], "units": 0}},
      {"kind": "Lattice", "tag": "D48", "wseed": 21,
       "kw": {"lattice_sizes": [3, 3], "units": 0, "joint_unimodalities": [T([0, 1], "peak")]}},
      {"kind": "Lattice", "tag": "units0", "wseed": 21, "kw": {"lattice_sizes": [2, 2], "units": 0, "monotonicities": [1, 1]}},
      {"kind": "PWLCalibration", "tag": "D44", "wseed": 14,
       "kw": {"input_keypoints": [0.0, 1.0, 2.0], "units": 1, "monotonicity": 0, "convexity": "None",
              "input_keypoints_type": "learned_interior"},
       "syn": {"input_keypoints": [0.0, 1.0, 2.0], "units": 1, "monotonicity": 0, "convexity": 0,
               "input_keypoints_type": "learned_interior"}},
      {"kind": "LinearConstraints", "tag": "D45", "units": 1, "wseed": 8, "n": 3,
       "kw": {"monotonicities": [1, 1, 1], "range_dominances": [T(0, 2)], "input_min": [0.0, 0.0],
              "input_max": [1.0, 1.0]}},
      {"kind": "Linear", "tag": "D56", "wseed": 9, "n": 2,
       "kw": {"monotonicities": [1, 1], "num_input_dims": 2, "units": 2, "input_min": [-0.25], "input_max": [0.25]}},
      {"kind": "Linear", "tag": "D52", "wseed": 10, "n": 3,
       "kw": {"num_input_dims": 3, "units": 2, "kernel_regularizer": "l2", "bias_regularizer": "l1"}},
      {"kind": "LatticeConstraints", "tag": "D55", "units": 2, "wseed": 11,
       "kw": {"lattice_sizes": [3], "monotonicities": [1], "joint_monotonicities": [T(0, 0)]}},
      {"kind": "LatticeConstraints", "tag": "D53", "units": 1, "wseed": 12,
       "kw": {"lattice_sizes": T(2, 3), "monotonicities": [0, 0], "joint_unimodalities": [T([1, 1], "peak")]}},
      {"kind": "Lattice", "tag": "D41", "wseed": 13,
       "kw": {"lattice_sizes": [3, 3], "joint_unimodalities": T(T(0, 0), 1)}},
      {"kind": "Lattice", "tag": "D41", "wseed": 13,
       "kw": {"lattice_sizes": [3, 3], "joint_unimodalities": T([0, 5], "peak")}},
      {"kind": "CategoricalCalibration", "tag": "D20", "dtype": "float64", "wseed": 7,
       "kw": {"num_buckets": 3, "units": 1}},
      {"kind": "CategoricalCalibration", "tag": "D20", "dtype": "float64", "wseed": 7,
       "kw": {"num_buckets": 3, "units": 2, "monotonicities": [T(0, 1)]}},
  ]


def gen_descs(ctx):
  rng = ctx.rng
  out = []
  # (a) canonicalisers: sampled here (exhaustive sweep of the universe, without
  # the Coq comparison, in extra())
  n_canon = ctx.n(700, 20000)
  for fn in CANON_FNS:
    uni = canon_universe(fn)
    k = max(40, n_canon * len(uni) // sum(len(canon_universe(f)) for f in CANON_FNS))
    picked = uni if k >= len(uni) else rng.sample(uni, k)
    for a in picked:
      out.append({"kind": "canon", "fn": fn, "args": a})
  # (b) constructors
  out.extend(fixed_witnesses())
  f = 1 if ctx.tier == "quick" else THOROUGH_FACTOR
  for kind, n in QUOTA_QUICK:
    for _ in range(n * f):
      out.append(gen_one(rng, kind))
  pm = premade_descs()
  out.extend(pm)
  # the same configs through premade_lib.verify_config alone
  out.extend({"kind": "verify_config", "tag": d["tag"], "kw": d["kw"]} for d in pm)
  out.extend(misc_descs())
  return out


def _has_float_spelling(v):
  if isinstance(v, float):
    return v == int(v)
  if isinstance(v, (list, tuple)):
    return any(_has_float_spelling(x) for x in v)
  return False


def _pairs_cyclic(ps):
  """A directed cycle of length >= 3 among (dominant, weak) pairs (2-cycles and self pairs are rejected up front)."""
  edges = {}
  for p in ps:
    if isinstance(p, (list, tuple)) and len(p) == 2:
      edges.setdefault(p[0], set()).add(p[1])
  def reach(a, b, seen):
    for c in edges.get(a, ()):
      if c == b or (c not in seen and reach(c, b, seen | {c})):
        return True
    return False
  return any(reach(a, a, {a}) for a in edges)


def class_tags(desc, kw):
  """Histogram tags of the input classes added for the audit gaps (empty for everything else)."""
  tags = []
  kind = desc["kind"]
  try:
    for a in ("units", "num_input_dims", "num_buckets"):
      if kind in ("Lattice", "Linear", "PWLCalibration", "CategoricalCalibration") and _is_int(kw.get(a)) and (
          kw[a] < 0 or (kw[a] == 0 and a == "units" and kind in ("Lattice", "PWLCalibration"))):
        tags.append("+%s<=0" % a)
    if kind == "PWLCalibration" and "input_keypoints_type" in kw and kw["input_keypoints_type"] is None:
      tags.append("+kp_type_None")
    if kind in ("PWLCalibration", "PWLCalibrationConstraints") and (
        _has_float_spelling(kw.get("monotonicity")) or _has_float_spelling(kw.get("convexity"))):
      tags.append("+float_spelling")
    elif kind in ("Lattice", "LatticeConstraints", "Linear", "LinearConstraints", "KroneckerFactoredLattice") and (
        _has_float_spelling(kw.get("monotonicities")) or _has_float_spelling(kw.get("unimodalities")) or
        any(_has_float_spelling(t[2:]) for a in ("edgeworth_trusts", "trapezoid_trusts")
            for t in (kw.get(a) or []) if isinstance(t, (list, tuple)) and len(t) == 3)):
      tags.append("+float_spelling")
    reg = kw.get("kernel_regularizer")
    if kind in ("RTL", "Lattice") and isinstance(reg, tuple) and not (reg and isinstance(reg[0], str)):
      tags.append("+reg_tuple_of_tuples")
    if kind in ("Lattice", "LatticeConstraints", "Linear", "LinearConstraints"):
      for a in ("monotonic_dominances", "range_dominances", "joint_monotonicities"):
        ps = kw.get(a)
        if isinstance(ps, (list, tuple)) and len(ps) >= 3 and not (ps and isinstance(ps[0], int)):
          tags.append("+%s>=3pairs_%s" % (a, "cyclic" if _pairs_cyclic(ps) else "acyclic"))
    if kind == "Linear":
      m = kw.get("monotonicities")
      m = list(m) if isinstance(m, (list, tuple)) else [m]
      if not (any(m) or kw.get("monotonic_dominances") or kw.get("range_dominances") or kw.get("normalization_order")) \
         and (kw.get("input_min") is not None or kw.get("input_max") is not None):
        tags.append("+unconstrained_with_input_bounds")
  except Exception:  # pylint: disable=broad-except
    tags.append("+tag_error")
  return "".join(tags)


def eval_constructor(desc):
  kw = dec(desc["kw"])
  run = run_desc(desc)
  if run.cls == "fail":
    # a failure must be reproducible to be reported (guards against state-dependent flukes of Keras/autograph)
    again = run_desc(desc)
    if again.cls != "fail" or again.exc != run.exc or again.stage != run.stage:
      run = again if again.cls != "fail" else run_desc(desc)
  info = {"class": run.cls, "stage": run.stage, "exception": run.exc, "message": run.msg,
          "call": call_str(desc)}
  fail = None
  if run.cls == "fail" and failure_class(desc, kw, run) == "late_shape_check_in_standalone_constraints":
    # a standalone constraint object learns the weight shape only at its first
    # call; a ValueError raised there by the same verify function is a (late)
    # rejection, not a failure of an accepted configuration
    run.cls = "rejected"
    run.accepted = False
    info["class"] = "rejected"
    info["late"] = True
  if run.cls == "fail":
    info["fclass"] = failure_class(desc, kw, run)
    if run.accepted:
      fail = "accepted configuration fails afterwards: %s at stage '%s' (%s): %s" % (
          run.exc, run.stage, run.msg, info["call"])
    else:
      fail = "%s (not ValueError) raised at %s: %s: %s" % (run.exc, run.stage, run.msg, info["call"])
  if fail is None and "syn" in desc:
    run2 = run_desc(desc, kw=desc["syn"])
    if run2.cls == "fail" and failure_class(desc, dec(desc["syn"]), run2) == "late_shape_check_in_standalone_constraints":
      run2.cls = "rejected"   # same late-rejection rule as for the first spelling
      run2.accepted = False
    info["syn_call"] = call_str(desc, desc["syn"])
    info["syn_class"] = run2.cls
    if run2.cls != run.cls:
      info["fclass"] = failure_class(desc, dec(desc["syn"]), run2) if run2.cls == "fail" else "synonym_class_differs"
      # D44 stands only for the pair (the 'None' spelling rejected by its own message, the twin spelling ACCEPTED)
      for k2, r2, other in ((kw, run, run2), (dec(desc["syn"]), run2, run)):
        if (r2.cls == "rejected" and other.cls == "accepted" and
            _p16(desc["kind"], k2, r2.stage, r2.exc, r2.msg or "", desc)):
          info["fclass"] = "pwl_convexity_none_spelling"
      fail = "synonymous spelling changes the outcome: %s -> %s, but %s -> %s (%s %s)" % (
          info["call"], run.cls, info["syn_call"], run2.cls, run2.exc, run2.msg)
    elif run.cls == "accepted":
      for k, v in run.outs.items():
        v2 = run2.outs.get(k)
        if v2 is None or len(v2) != len(v) or any(a != b for a, b in zip(v, v2)):
          info["fclass"] = "synonym_output_differs"
          fail = "synonymous spelling changes the %s output: %s gives %s, %s gives %s" % (
              k, info["call"], v[:6], info["syn_call"], (v2 or [])[:6])
          break
  coq = None
  render = COQ_RENDER.get(desc["kind"])
  render_run = COQ_RENDER_RUN.get(desc["kind"])
  if (render or render_run) is not None and (run.cls == "rejected" or run.accepted) and not info.get("late"):
    try:
      if render is not None:
        coq = render(desc, kw, "Accepted" if run.accepted else "Rejected")
      else:
        coq = render_run(desc, kw, "Accepted" if run.accepted else "Rejected", run)
    except NotExpressible:
      coq = None
  klass = "%s:%s%s" % (desc["kind"], run.cls if run.cls != "fail" else "fail@" + str(run.stage), class_tags(desc, kw))
  return Case(desc, coq=coq, pred_fail=fail, nontrivial=(run.cls == "accepted"), klass=klass, info=info)


def eval_cases(ctx, descs):
  tf, tfl = tfimpl.tfl()
  utils = tfl.utils
  cases = []
  for d in descs:
    if d["kind"] == "canon":
      args = dec(d["args"])
      got = run_canon(utils, d["fn"], args)
      fail = canon_predicates(utils, d["fn"], args, got)
      coq = None
      try:
        coq = "mk (CCanon %s %s %s) Accepted" % (
            coq_string(d["fn"]), clist([cval(a) for a in args]) if args else "(@nil value)", coq_result(got))
      except (ValueError, AssertionError):
        coq = None
      cases.append(Case(d, coq=coq, pred_fail=fail, nontrivial=(got[0] == "ok"),
                        klass="canon:%s:%s" % (d["fn"].replace("canonicalize_", ""), got[0]),
                        info={"outcome": fmt_outcome(got)}))
    else:
      cases.append(eval_constructor(d))
  return cases


KNOWN_CLASSES = {}


def _register_known():
  for name, _ in FAILURE_PATTERNS:
    KNOWN_CLASSES[name] = (lambda c, n=name: c.info.get("fclass") == n)


def _consequence(fn, a):
  """Replays a canonicaliser failure through the constructor that uses it, so
  that the replay names the user-level call that breaks."""
  arg = a[0] if a else None
  if fn == "canonicalize_trust":
    desc = {"kind": "LatticeConstraints", "units": 1, "wseed": 1,
            "kw": {"lattice_sizes": [2, 2], "monotonicities": [1, 1], "edgeworth_trusts": arg}}
  elif fn in ("canonicalize_monotonicities",):
    desc = {"kind": "LatticeConstraints", "units": 1, "wseed": 1, "kw": {"lattice_sizes": [2, 2], "monotonicities": arg}}
  elif fn == "canonicalize_unimodalities":
    desc = {"kind": "LatticeConstraints", "units": 1, "wseed": 1, "kw": {"lattice_sizes": [3, 3], "unimodalities": arg}}
  else:
    return []
  try:
    run = run_desc(desc)
  except Exception:  # pylint: disable=broad-except
    return []
  if run.cls != "fail":
    return []
  msg = "%s raised at stage '%s' (%s): %s" % (run.exc, run.stage, run.msg, call_str(desc))
  return [("constructor-consequence-of-canonicaliser-failure", msg, {"case": desc, "clause": msg}, True)]


def extra(ctx, stats):
  """Exhaustive sweep of the canonicaliser universe against the Python mirror
  of the Coq specification and the property clauses (the failing-input search
  for the generated-code theorems)."""
  tf, tfl = tfimpl.tfl()
  utils = tfl.utils
  out = []
  n = 0
  for fn in CANON_FNS:
    for a in canon_universe(fn):
      args = dec(a)
      got = run_canon(utils, fn, args)
      n += 1
      fail = canon_predicates(utils, fn, args, got)
      if fail:
        out.append(("canonicaliser-property-on-implementation", fail,
                    {"case": {"kind": "canon", "fn": fn, "args": a}, "clause": fail}, True))
        out.extend(_consequence(fn, a))
        break
  stats["canonicaliser_universe_swept"] = n
  stats["exhaustive"] = False
  return out


# ----------------------------------------------------------------------------
# Named failure classes (one per reported finding; see known_findings.json)
# ----------------------------------------------------------------------------
_PAIR_ARGS = ("monotonic_dominances", "range_dominances", "joint_monotonicities")
_TUPLE_WRAPPED = ("edgeworth_trusts", "trapezoid_trusts") + _PAIR_ARGS
_LATTICE = ("Lattice", "LatticeConstraints")
_LINEAR = ("Linear", "LinearConstraints")


def _falsy_monos(kw):
  return not kw.get("monotonicities")


@pattern("tuple_sizes_error_message")
def _p1(kind, kw, stage, exc, msg, desc):
  return (kind in _LATTICE + ("LatticeLaplacian", "LatticeTorsion") and exc == "TypeError" and
          "not all arguments converted" in msg and isinstance(kw.get("lattice_sizes"), tuple) and
          any(s < 2 for s in kw["lattice_sizes"]))


@pattern("unknown_regularizer_tuple_message")
def _p2(kind, kw, stage, exc, msg, desc):
  return (kind in ("Lattice", "PWLCalibration") and exc == "TypeError" and "not all arguments converted" in msg and
          "kernel_regularizer" in kw)


@pattern("trust_or_dominance_without_monotonicities")
def _p3(kind, kw, stage, exc, msg, desc):
  return (kind in _LATTICE and exc == "TypeError" and "'NoneType' object is not subscriptable" in msg and
          _falsy_monos(kw) and any(kw.get(a) for a in _TUPLE_WRAPPED))


@pattern("linear_dominance_without_monotonicities")
def _p4(kind, kw, stage, exc, msg, desc):
  return (kind in _LINEAR and exc == "AssertionError" and _falsy_monos(kw) and
          (kw.get("monotonic_dominances") is not None or kw.get("range_dominances") is not None))


@pattern("trusts_collection_tuple")
def _p5(kind, kw, stage, exc, msg, desc):
  return (kind in _LATTICE and exc == "TypeError" and "can only concatenate" in msg and stage in ("construct", "build")
          and any(isinstance(kw.get(a), tuple) for a in ("edgeworth_trusts", "trapezoid_trusts")))


@pattern("constraints_single_tuple_form")
def _p6(kind, kw, stage, exc, msg, desc):
  return (kind == "LatticeConstraints" and exc == "TypeError" and "has no len()" in msg and
          any(isinstance(kw.get(a), tuple) and kw[a] and isinstance(kw[a][0], int) for a in _TUPLE_WRAPPED))


@pattern("constraint_pair_given_as_list")
def _p7(kind, kw, stage, exc, msg, desc):
  return (kind in _LATTICE and exc == "TypeError" and "unhashable type" in msg and
          any(isinstance(p, list) for a in _PAIR_ARGS for p in (kw.get(a) or []) if not isinstance(p, int)))


@pattern("tuple_sizes_simplex_eval")
def _p8(kind, kw, stage, exc, msg, desc):
  return (kind == "Lattice" and stage == "call" and exc == "TypeError" and "can only concatenate" in msg and
          isinstance(kw.get("lattice_sizes"), tuple) and kw.get("interpolation") == "simplex")


@pattern("joint_unimodality_dim_out_of_range")
def _p9(kind, kw, stage, exc, msg, desc):
  return kind == "Lattice" and stage == "construct" and exc == "IndexError" and "assignment index" in msg and bool(
      kw.get("joint_unimodalities"))


@pattern("empty_tuple_constraint_arg")
def _p10(kind, kw, stage, exc, msg, desc):
  # D46: the Lattice LAYER constructor indexes x[0] of a tuple-wrapped constraint argument that is the empty tuple
  return (kind == "Lattice" and stage == "construct" and exc == "IndexError" and "tuple index out of range" in msg and
          any(isinstance(kw.get(a), tuple) and len(kw[a]) == 0 for a in _TUPLE_WRAPPED))


@pattern("dominance_same_dim")
def _p11(kind, kw, stage, exc, msg, desc):
  same = any(len(p) == 2 and p[0] == p[1] for a in ("monotonic_dominances", "range_dominances")
             for p in (kw.get(a) or []) if isinstance(p, (list, tuple)))
  return (kind in _LATTICE + _LINEAR and stage in ("project", "finalize") and exc == "ValueError" and same and
          ("Circular monotonicity" in msg or "not in range" in msg))


def _is_none_spelling(v, table):
  """None, 0 / 0.0 or a (case-insensitive) 'none' string: the canonical value 0 of the given spelling table."""
  return v is None or _ci(v, table) == 0


def _int_pairs(ps):
  return [tuple(p) for p in (ps or []) if isinstance(p, (list, tuple)) and len(p) == 2 and
          all(_is_int(x) for x in p)] if isinstance(ps, (list, tuple)) else []


@pattern("linear_bounds_shorter_than_dims")
def _p12(kind, kw, stage, exc, msg, desc):
  # D45: only the STANDALONE LinearConstraints (the layer knows num_input_dims and rejects short bound lists with a
  # ValueError); the IndexError is input_min[dim] / input_max[dim] for a range-dominance dimension beyond the list
  lens = [len(kw[a]) for a in ("input_min", "input_max") if isinstance(kw.get(a), (list, tuple))]
  beyond = bool(lens) and any(d >= min(lens) for p in _int_pairs(kw.get("range_dominances")) for d in p)
  return (kind == "LinearConstraints" and stage == "construct" and exc == "IndexError" and
          "index out of range" in msg and beyond)


@pattern("linear_constraints_none_monotonicities")
def _p13(kind, kw, stage, exc, msg, desc):
  # D47: LinearConstraints with monotonicities None / [] - standalone, or created by a Linear layer that was given
  # monotonicities=[] together with a normalization_order (the only way the layer attaches a constraint without
  # monotonicities; found by thorough seed 71)
  return (stage == "project" and exc == "TypeError" and "'NoneType' object is not iterable" in msg and
          _falsy_monos(kw) and
          (kind == "LinearConstraints" or (kind == "Linear" and bool(kw.get("normalization_order")))))


@pattern("cyclic_equal_slopes_initializer")
def _p14(kind, kw, stage, exc, msg, desc):
  # D42: k keypoint values for the k-1 rows of a cyclic kernel
  return (kind == "PWLCalibration" and stage == "build" and exc == "TypeError" and "unsupported shape" in msg and
          kw.get("is_cyclic") is True and kw.get("kernel_initializer") == "equal_slopes")


@pattern("clamp_without_monotonicity")
def _p15(kind, kw, stage, exc, msg, desc):
  # D43: a clamp is configured while the monotonicity is 'none'; accepted, the first projection raises
  if kind == "PWLCalibration":
    clamped = ((kw.get("clamp_min") is True and kw.get("output_min") is not None) or
               (kw.get("clamp_max") is True and kw.get("output_max") is not None))
  elif kind == "PWLCalibrationConstraints":
    clamped = "CLAMPED" in (kw.get("output_min_constraints"), kw.get("output_max_constraints"))
  else:
    return False
  return (stage == "project" and exc == "ValueError" and
          "Clamping is not implemented for non monotonic functions" in msg and clamped and
          _is_none_spelling(kw.get("monotonicity", "none"), MONO_SP))


@pattern("pwl_convexity_none_spelling")
def _p16(kind, kw, stage, exc, msg, desc):
  # D44: convexity spelled 'None' / 'NONE' (not the lower-case 'none') together with learned_interior keypoints
  c = kw.get("convexity")
  return (kind == "PWLCalibration" and stage == "construct" and exc == "ValueError" and
          "'learned_interior' and impose convexity" in msg and kw.get("input_keypoints_type") == "learned_interior" and
          isinstance(c, str) and c.lower() == "none" and c != "none")


def _is_zero(kw, a):
  v = kw.get(a)
  return _is_int(v) and v == 0


def _single_joint_group_over_all_features(kw):
  """Exactly ONE joint unimodality group and it contains every lattice dimension (decoded kwargs)."""
  ju, sizes = kw.get("joint_unimodalities"), kw.get("lattice_sizes")
  if not isinstance(sizes, (list, tuple)) or not sizes:
    return False
  if isinstance(ju, tuple) and len(ju) == 2 and not isinstance(ju[1], (list, tuple)):
    ju = [ju]             # the single (dims, direction) form
  if not isinstance(ju, (list, tuple)) or len(ju) != 1:
    return False
  g = ju[0]
  if not (isinstance(g, (list, tuple)) and len(g) == 2 and isinstance(g[0], (list, tuple))):
    return False
  return set(g[0]) == set(range(len(sizes)))


# D48, one row per documented failure mode:
#   (kind, the argument that is 0, stages, exception class, message fragments (any), extra condition on kwargs)
# Rows marked [+] are consequences of the same accepted zero that the text of D48 does not spell out (reported to
# the maintainer of known_findings.json together with this narrowing); every other failure of a configuration with a
# zero-sized argument is reported.
_D48_MODES = [
    ("KroneckerFactoredLattice", "units", ("call",), "InvalidArgumentError", ("Input to reshape",), None),
    # [+] units=0 with a kernel constraint (monotonicities or bounds): the constraint fails before call()
    ("KroneckerFactoredLattice", "units", ("project",), "ZeroDivisionError", ("modulo by zero",), None),
    # [+] lattice_sizes=0 with a monotone dimension: the kernel constraint indexes an empty list
    ("KroneckerFactoredLattice", "lattice_sizes", ("project",), "IndexError", ("list index out of range",),
     lambda kw: bool(kw.get("monotonicities"))),
    # [+] num_terms=0: no InvalidArgumentError, the output is NaN (mean over zero terms)
    ("KroneckerFactoredLattice", "num_terms", ("call",), "NonFinite", ("non-finite values [nan",), None),
    ("CDF", "sparsity_factor", ("build",), "ZeroDivisionError", ("modulo by zero", "division by zero"), None),
    ("CDF", "num_keypoints", ("call",), "NonFinite", ("non-finite values [nan",), None),
    # CategoricalCalibration(num_buckets=0) is accepted; its first call then fails inside TensorFlow
    ("CategoricalCalibration", "num_buckets", ("call",), "InvalidArgumentError",
     ("Can not squeeze dim", "Incompatible shapes"), None),
    ("PWLCalibration", "units", ("build",), "InvalidArgumentError", ("ConcatOp",), None),
    # Lattice(units=0) is a ValueError at build EXCEPT with the random_uniform fall-back of the default initializer
    ("Lattice", "units", ("project", "finalize"), "InvalidArgumentError", ("Input to reshape",),
     lambda kw: "kernel_initializer" not in kw and _single_joint_group_over_all_features(kw)),
    # RTL zero counts: num_lattices / lattice_rank / lattice_size = 0 are ValueErrors; num_terms=0 is handed to the
    # KroneckerFactoredLattice members (NaN output, or a ConcatOp shape error when the outputs are combined)
    ("RTL", "num_terms", ("call",), "NonFinite", ("non-finite values [nan",),
     lambda kw: kw.get("parameterization") == "kronecker_factored"),
    ("RTL", "num_terms", ("call",), "InvalidArgumentError", ("ConcatOp",),
     lambda kw: kw.get("parameterization") == "kronecker_factored"),
]


@pattern("zero_sized_argument")
def _p17(kind, kw, stage, exc, msg, desc):
  for k, arg, stages, e, frags, cond in _D48_MODES:
    if (kind == k and _is_zero(kw, arg) and stage in stages and exc == e and any(f in msg for f in frags) and
        (cond is None or cond(kw))):
      return True
  return False


_CDF_ACTIVATIONS = ("relu6", "sigmoid")
_CDF_REDUCTIONS = ("mean", "geometric_mean", "none")


@pattern("cdf_option_checked_at_call")
def _p18(kind, kw, stage, exc, msg, desc):
  # D49: the option named by the message is the configured one and is not one of the implemented values
  a, r = kw.get("activation", "relu6"), kw.get("reduction", "mean")
  return kind == "CDF" and stage == "call" and exc == "ValueError" and (
      (a not in _CDF_ACTIVATIONS and "Invalid activation: %s" % (a,) in msg) or
      (a in _CDF_ACTIVATIONS and r not in _CDF_REDUCTIONS and "Invalid reduction: %s" % (r,) in msg))


@pattern("premade_empty_feature_configs")
def _p19(kind, kw, stage, exc, msg, desc):
  # D50: CalibratedLattice on a config whose feature_configs is the empty list
  return (kind == "premade" and stage == "construct" and exc == "IndexError" and "index out of range" in msg and
          kw.get("model") == "lattice" and kw.get("features") == [])


@pattern("premade_unknown_feature_in_lattices")
def _p20(kind, kw, stage, exc, msg, desc):
  # D51: the KeyError names a feature that an explicit `lattices` entry uses and feature_configs does not define
  lattices = (kw.get("model_kw") or {}).get("lattices")
  feats = kw.get("features")
  if not (isinstance(lattices, list) and isinstance(feats, list)):
    return False
  defined = set(f.get("name") for f in feats if isinstance(f, dict))
  used = set(n for l in lattices if isinstance(l, (list, tuple)) for n in l if isinstance(n, str))
  missing = used - defined
  return (kind == "premade" and stage == "construct" and exc == "KeyError" and kw.get("model") == "ensemble" and
          any(msg.strip() in (repr(n), n) for n in missing))


@pattern("late_shape_check_in_standalone_constraints")
def _p21(kind, kw, stage, exc, msg, desc):
  return (kind in ("CategoricalCalibrationConstraints", "LinearConstraints") and stage == "project" and
          exc == "ValueError" and ("Circular monotonicity" in msg or "indices in range" in msg or
                                   "does not correspond to number of weights" in msg))


@pattern("regularizer_sum_dtype_mismatch")
def _p22(kind, kw, stage, exc, msg, desc):
  return kind == "Lattice" and stage == "regularize" and exc == "InvalidArgumentError" and "AddN" in msg


@pattern("joint_unimodality_duplicate_dims_message")
def _p23(kind, kw, stage, exc, msg, desc):
  ju = kw.get("joint_unimodalities") or []
  if isinstance(ju, tuple) and len(ju) == 2 and isinstance(ju[1], str):
    ju = [ju]
  dup = any(isinstance(c, (list, tuple)) and len(c) == 2 and isinstance(c[0], (list, tuple)) and
            len(set(c[0])) != len(c[0]) for c in ju)
  return kind in _LATTICE and exc == "TypeError" and "not all arguments converted" in msg and dup


@pattern("linear_dominance_cycle")
def _p25(kind, kw, stage, exc, msg, desc):
  # D59: the Linear LAYER; the monotonic dominances or the range dominances (each list is sorted on its own by
  # linear_lib.project) really contain a directed cycle (self pairs and 2-cycles are ValueErrors of the constructor)
  cyc = _pairs_cyclic(_int_pairs(kw.get("monotonic_dominances"))) or _pairs_cyclic(_int_pairs(kw.get("range_dominances")))
  return (kind == "Linear" and stage == "project" and exc == "ValueError" and
          "Circular monotonicity constraints" in msg and cyc)


@pattern("empty_lattice_sizes")
def _p26(kind, kw, stage, exc, msg, desc):
  # D60: Lattice(lattice_sizes=[]) (or ()) accepted by the constructor, ZeroDivisionError at build
  ls = kw.get("lattice_sizes")
  return (kind == "Lattice" and stage == "build" and exc == "ZeroDivisionError" and "division by zero" in msg and
          isinstance(ls, (list, tuple)) and len(ls) == 0)


@pattern("bare_string_regularizer")
def _p24(kind, kw, stage, exc, msg, desc):
  return (isinstance(kw.get("kernel_regularizer"), str) and exc == "TypeError" and
          "'str' object is not callable" in msg)


_register_known()


def _probe_d70(ctx):
  """Known finding D70: learned_interior keypoints whose softmax underflows to an exact 0 give a zero-length piece;
  the layer returns NaN at that keypoint (0/0 in compute_interpolation_weights, no NaN guard)."""
  tf, tfl = tfimpl.tfl()
  l = tfl.layers.PWLCalibration(input_keypoints=[0., 1., 2.], input_keypoints_type="learned_interior", units=1)
  l.build((None, 1))
  l.interpolation_logits.assign([[0., -100.]])
  l.kernel.assign([[0.], [1.], [1.]])
  y = l(np.array([[2.]], "float32")).numpy().ravel()
  if not np.all(np.isfinite(y)):
    return "PWLCalibration([0,1,2], learned_interior) with interpolation_logits [[0,-100]] returns %r at x=2" % (y.tolist(),)
  return None


def _probe_d71(ctx):
  """Known finding D71: simplex interpolation without clipping raises for an input <= -1."""
  tf, tfl = tfimpl.tfl()
  layer = tfl.layers.Lattice(lattice_sizes=[3], interpolation="simplex", clip_inputs=False)
  try:
    y = layer(tf.constant([[-1.5]])).numpy()
  except tf.errors.InvalidArgumentError as e:
    return "Lattice([3], interpolation='simplex', clip_inputs=False)([[-1.5]]) raises InvalidArgumentError (%s)" % (
        str(e).split("\n")[0][:120],)
  return None if np.all(np.isfinite(y)) else "non-finite output %r" % (y.tolist(),)


KNOWN_PROBES = {"pwl_learned_keypoints_softmax_underflow": _probe_d70,
                "simplex_unclipped_negative_input": _probe_d71}
