#!/bin/bash
# Re-runs every seeded change under /verif/seeded against the check(s) recorded in its meta.json (caught_by) and
# prints one line per change: CAUGHT / MISSED / PATCH-FAILS.  Uses ONE scratch worktree outside /repo and /verif.
# usage: harness/replay_seeded.sh [id-prefix ...]   (default: all)
cd "$(dirname "$0")/.." || exit 2
wt=$(mktemp -d /tmp/seeded_wt.XXXXXX); rmdir "$wt"
git -C /repo worktree add -q --detach "$wt" HEAD || exit 2
trap 'git -C /repo worktree remove --force "$wt" >/dev/null 2>&1' EXIT
for d in seeded/*/; do
  id=$(basename "$d")
  if [ $# -gt 0 ]; then ok=0; for p in "$@"; do case "$id" in $p*) ok=1;; esac; done; [ $ok = 1 ] || continue; fi
  checks=$(python3 -c "import json; print(' '.join(json.load(open('$d/meta.json')).get('caught_by') or [json.load(open('$d/meta.json'))['property']]))")
  git -C "$wt" checkout -q -- . 
  if ! git -C "$wt" apply "$PWD/$d/patch.diff" 2>/dev/null; then echo "$id PATCH-FAILS"; continue; fi
  res=MISSED
  for c in $checks; do
    out=$(VERIF_REPO=$wt ./check $c 2>&1 | grep -E "^VIOLATION" | head -1)
    if [ -n "$out" ]; then res="CAUGHT by $c $(echo "$out" | grep -o 'no-failing-input-found')"; break; fi
  done
  echo "$id $res"
done
git -C "$wt" checkout -q -- .
